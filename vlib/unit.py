"""Build a Verus unit from a spec template and /repo's current sources.

Template (`specs/<unit>.rs`) = a complete Verus file.  Regions

    //@ extract src/dewey.rs : impl DeweyVersion fn new
    <the item as it must look to Verus: real code + ghost annotations>
    //@ end

are *not* copied to the generated file.  Instead, on every run:
  1. the named item is located in /repo's working tree and lexed   (C1)
  2. the declared rewrite rules (rewrites.py, directive `//@ rewrite R1 R2`) are
     applied to C1 mechanically                                     (C1')
  3. the template region is lexed and ghost-erased: result types `-> (r: T)`,
     requires/ensures/invariant/decreases clauses, proof blocks, asserts,
     ghost lets, verifier attributes are removed                    (C0)
     the removed chunks are the annotations, each anchored between two C0 tokens
  4. C0 is aligned with C1' (token diff); the annotations are re-inserted at the
     aligned positions of C1'.  The code tokens of the generated region are
     exactly C1' - the code that runs - never the template's copy.
If C0 == C1' the tree is 'in sync'; otherwise the difference is reported as drift
(the region is still generated from the current code, so a changed function is
verified against the unchanged contracts).
"""
import difflib
import os
import re

from . import rustlex
from .rustlex import Tok, lex, match_close
from . import rewrites

CLAUSE_KW = {"requires", "ensures", "decreases", "invariant", "invariant_except_break",
             "recommends", "returns", "no_unwind", "opens_invariants", "default_ensures"}


class ExtractError(Exception):
    pass


DRIFT_LOG = []


def erase_ghost(toks):
    """Return (code, anns) where code is the list of code tokens and anns is a list of
    (pos, [tokens]) meaning: chunk sits before code[pos] (pos == len(code) => at end)."""
    code = []
    anns = []

    def add_ann(chunk):
        if not chunk:
            return
        if anns and anns[-1][0] == len(code):
            anns[-1][1].extend(chunk)
        else:
            anns.append((len(code), list(chunk)))

    i = 0
    n = len(toks)
    close_paren_ann = []  # indices of ')' tokens that are annotation (named result)
    while i < n:
        t = toks[i]
        tx = t.text
        if i in close_paren_ann:
            add_ann([t])
            i += 1
            continue
        if t.kind == "punct" and tx == "->" and i + 3 < n and toks[i + 1].text == "(" \
                and toks[i + 2].kind == "id" and toks[i + 3].text == ":":
            code.append(t)
            add_ann(toks[i + 1:i + 4])
            close_paren_ann.append(match_close(toks, i + 1))
            i += 4
            continue
        if t.kind == "punct" and tx == "#":
            j = i + 1
            if toks[j].text == "!":
                j += 1
            if toks[j].text == "[" and toks[j + 1].text in ("verifier", "verus", "trigger", "verus_spec"):
                k = match_close(toks, j)
                add_ann(toks[i:k + 1])
                i = k + 1
                continue
        if t.kind == "id":
            # `for PAT in it: EXPR` -- the ghost iterator name is an annotation
            if tx == "in" and i + 2 < n and toks[i + 1].kind == "id" and toks[i + 2].text == ":" and toks[i + 2].kind == "punct":
                code.append(t)
                add_ann(toks[i + 1:i + 3])
                i += 3
                continue
            if tx in CLAUSE_KW and not (
                    (i > 0 and toks[i - 1].text in ("fn", ".", "::", "let", "mut", "&", "|"))
                    or (i + 1 < n and toks[i + 1].text in (":", ",", ")", ".", ";", "=", "]"))):
                # skip to the '{' at depth 0
                j = i + 1
                while j < n:
                    tj = toks[j]
                    if tj.kind == "punct":
                        if tj.text in ("(", "["):
                            j = match_close(toks, j)
                        elif tj.text == "{":
                            break
                        elif tj.text == ";" :
                            break
                    j += 1
                add_ann(toks[i:j])
                i = j
                continue
            if tx == "proof" and i + 1 < n and toks[i + 1].text == "{":
                k = match_close(toks, i + 1)
                add_ann(toks[i:k + 1])
                i = k + 1
                continue
            if tx in ("assert", "assume", "reveal", "reveal_with_fuel", "hide") and i + 1 < n and toks[i + 1].text == "(":
                k = match_close(toks, i + 1) + 1
                if k < n and toks[k].text == "by":
                    k += 1
                    if toks[k].text == "(":
                        k = match_close(toks, k) + 1
                    if toks[k].text == "{":
                        k = match_close(toks, k) + 1
                if k < n and toks[k].text == ";":
                    k += 1
                add_ann(toks[i:k])
                i = k
                continue
            if tx == "assert" and i + 1 < n and toks[i + 1].text == "forall":
                k = i + 2
                while not (toks[k].text == "by" and toks[k + 1].text == "{"):
                    if toks[k].text in rustlex.OPEN:
                        k = match_close(toks, k)
                    k += 1
                k = match_close(toks, k + 1) + 1
                if k < n and toks[k].text == ";":
                    k += 1
                add_ann(toks[i:k])
                i = k
                continue
            if tx == "let" and i + 1 < n and toks[i + 1].text in ("ghost", "tracked"):
                k = i
                while toks[k].text != ";":
                    if toks[k].text in rustlex.OPEN:
                        k = match_close(toks, k)
                    k += 1
                add_ann(toks[i:k + 1])
                i = k + 1
                continue
            if tx == "broadcast" and i + 1 < n and toks[i + 1].text == "use":
                k = i
                while toks[k].text != ";":
                    k += 1
                add_ann(toks[i:k + 1])
                i = k + 1
                continue
        code.append(t)
        i += 1
    return code, anns


def texts(toks):
    return [t.text for t in toks]


KEYWORDS = {"as", "break", "const", "continue", "crate", "else", "enum", "extern", "false", "fn", "for", "if", "impl", "in", "let", "loop",
            "match", "mod", "move", "mut", "pub", "ref", "return", "self", "Self", "static", "struct", "super", "trait", "true", "type",
            "unsafe", "use", "where", "while", "dyn", "Some", "None", "Ok", "Err"}


def _depths(texts_):
    """bracket depth BEFORE each token position (len+1 entries)"""
    d = 0
    out = []
    for t in texts_:
        if t in (")", "]", "}"):
            d -= 1
        out.append(d if t not in (")", "]", "}") else d + 1)
        if t in ("(", "[", "{"):
            d += 1
    out.append(d)
    return out


def rename_map(code0, code1, sm=None):
    """Consistent renaming of locals between two token lists: identifier X of code0 is aligned with identifier Y of code1
    (1-1 replaced occurrences, and occurrences inside restructured blocks whose token SHAPE lines up), X does not occur in
    code1 and Y does not occur in code0.  When X lines up with several names the one with strictly most occurrences wins.
    -> {X: Y}"""
    a = texts(code0)
    b = texts(code1)
    if sm is None:
        sm = difflib.SequenceMatcher(None, a, b, autojunk=False)
    votes = {}

    def vote(ta, tb):
        if ta.kind == "id" and tb.kind == "id" and ta.text != tb.text and ta.text not in KEYWORDS and tb.text not in KEYWORDS:
            votes.setdefault(ta.text, {}).setdefault(tb.text, 0)
            votes[ta.text][tb.text] += 1

    def shape(toks_):
        return [("\u00a7" if (t.kind == "id" and t.text not in KEYWORDS) else t.text) for t in toks_]
    for tag, i1, i2, j1, j2 in sm.get_opcodes():
        if tag != "replace":
            continue
        if i2 - i1 == j2 - j1:
            for k in range(i2 - i1):
                vote(code0[i1 + k], code1[j1 + k])
        elif (i2 - i1) * (j2 - j1) <= 40000:
            # align with identifiers abstracted away, so that `f(&d1, x)` lines up with `f(&ver1, x)` even when statements
            # were inserted or split around it
            sm2 = difflib.SequenceMatcher(None, shape(code0[i1:i2]), shape(code1[j1:j2]), autojunk=False)
            for t2, a1, a2, b1, b2 in sm2.get_opcodes():
                if t2 == "equal" and a2 - a1 >= 3:
                    for k in range(a2 - a1):
                        vote(code0[i1 + a1 + k], code1[j1 + b1 + k])
    sa, sb = set(a), set(b)

    # declarations that are the same statement up to the declared name (`let mut f = PathBuf::from("../../");` against
    # `let mut full_path = PathBuf::from("../../");`) line up even when the block they sit in was moved
    def decls(seq, other):
        out = {}
        for i, t in enumerate(seq):
            if t != "let":
                continue
            j = i + 1
            if j < len(seq) and seq[j] == "mut":
                j += 1
            if j + 1 >= len(seq) or seq[j + 1] not in ("=", ":") or seq[j] in other or not re.match(r"[a-z_][a-z0-9_]*$", seq[j]):
                continue
            name = seq[j]
            depth = 0
            k = j + 1
            while k < len(seq):
                if seq[k] in ("(", "[", "{"):
                    depth += 1
                elif seq[k] in (")", "]", "}"):
                    if depth == 0:
                        break
                    depth -= 1
                elif seq[k] == ";" and depth == 0:
                    break
                k += 1
            key = tuple("\u00a7" if x == name else x for x in seq[i:k + 1])
            if len(key) >= 6:
                out.setdefault(key, []).append(name)
        return out
    da, db = decls(a, sb), decls(b, sa)
    for key, xs_ in da.items():
        ys_ = db.get(key, [])
        if len(set(xs_)) == 1 and len(set(ys_)) == 1 and xs_[0] != ys_[0]:
            votes.setdefault(xs_[0], {}).setdefault(ys_[0], 0)
            votes[xs_[0]][ys_[0]] += 2

    def only_a_value(name, seq):
        """every occurrence of `name` is a plain value position: never a call / macro / path segment / field / struct name.
        Renaming is for LOCALS (let, parameter, closure and pattern bindings) only - a function the source now calls under another
        name is a different function, not a renaming."""
        for i, t in enumerate(seq):
            if t != name:
                continue
            nxt = seq[i + 1] if i + 1 < len(seq) else ""
            prv = seq[i - 1] if i > 0 else ""
            if nxt in ("(", "!", "::", "<") or prv in (".", "::", "fn", "struct", "enum", "impl", "trait", "type", "mod", "use"):
                return False
            if nxt == "{" and name[:1].isupper():
                return False
        return True
    ren = {}
    for x, ys in votes.items():
        ranked = sorted(ys.items(), key=lambda kv: -kv[1])
        if len(ranked) > 1 and ranked[0][1] == ranked[1][1]:
            continue
        y = ranked[0][0]
        if y in sa or not only_a_value(x, a) or not only_a_value(y, b):
            continue
        if x not in sb or _unshadowed(b, x, y):
            ren[x] = y
    if len(set(ren.values())) != len(ren):
        return {}
    return ren


def _unshadowed(b, x, y):
    """The source gave a SHADOWING re-binding `let x = .. x ..;` a fresh name y (`let y = .. x ..;`): x may still occur in the
    source, but only before the end of the `let y` statement (its initialiser may mention the earlier x), and y only from that
    statement on.  Renaming y back to x then restores exactly the shadowing the contract was written against."""
    ys = [i for i, t in enumerate(b) if t == y]
    xs = [i for i, t in enumerate(b) if t == x]
    if not ys or not xs:
        return False
    i = ys[0]
    if i == 0 or b[i - 1] not in ("let", "mut"):
        return False
    depth = 0
    j = i
    while j < len(b):
        t = b[j]
        if t in ("(", "[", "{"):
            depth += 1
        elif t in (")", "]", "}"):
            if depth == 0:
                return False
            depth -= 1
        elif t == ";" and depth == 0:
            break
        j += 1
    return j < len(b) and max(xs) < j


def apply_renaming(toks, ren):
    """rename identifier tokens (not field/method/path segments, not struct-literal field names)"""
    out = []
    n = len(toks)
    for q, t in enumerate(toks):
        if t.kind == "id" and t.text in ren and not (q > 0 and toks[q - 1].text in (".", "::")):
            if q + 1 < n and toks[q + 1].text == ":" and toks[q + 1].kind == "punct" and _in_struct_literal(toks, q):
                out.append(t)
                continue
            out.append(Tok(t.kind, ren[t.text], t.line, t.sp))
        else:
            out.append(t)
    return out


def _in_struct_literal(toks, q):
    """toks[q] is followed by ':'; is it a field name of a struct literal/pattern `Name { f: .. }` (as opposed to a binder `|x: T|` or `let x: T`)?"""
    depth = 0
    k = q - 1
    while k >= 0:
        tx = toks[k].text
        if tx in (")", "]", "}"):
            depth += 1
        elif tx in ("(", "[", "{"):
            if depth == 0:
                return tx == "{" and k > 0 and toks[k - 1].kind == "id" and toks[k - 1].text[:1].isupper()
            depth -= 1
        elif tx == "|" and depth == 0:
            return False
        elif tx in (";", "let") and depth == 0:
            return False
        k -= 1
    return False



# std methods with a vstd specification strong enough for the contracts here (used on the receivers this code base has)
# (probed: String::from(&str) and .into() are accepted WITHOUT a usable specification, so they are not listed)
SPECIFIED_CALLS = {"len", "is_empty", "push", "unwrap", "is_some", "is_none", "is_ok", "is_err", "as_str", "to_string", "to_owned", "new",
                   "clear", "cloned", "Ok", "Err", "Some",   # not "clone": a derived Clone of a user struct is accepted without a specification
                   # probed 2026-10-05 (a postcondition stating the documented result verifies): integer and Option/Result/Vec helpers
                   "saturating_sub", "wrapping_sub", "checked_add", "checked_sub", "min", "max", "unwrap_or", "unwrap_or_default", "ok_or", "ok",
                   "first", "last", "pop", "append", "swap_remove", "truncate", "as_bytes"}


# std string functions with a shim of complete contract in specs/lib/std_str.rs: method name -> rules that rewrite a call of it
AUTO_RULES = {
    "starts_with": ["D6.starts_with_lit"],
    "contains": ["D6.contains_char"],
    "find": ["D6.find_char"],
    "rfind": ["D6.rfind_char", "D6.rfind_lit"],
    "split": ["D6.split_comma"],
    "split_terminator": ["D6.split_terminator_comma", "D6.split_terminator_lit"],
    "rsplit_once": ["D6.rsplit_once_char"],
    "lines": ["D6.str_lines"],
}


def call_names(toks):
    """names called in exec code: `.name(`, `.name::<`, `path::name(`, `name(`, `name!(`; the bodies of local macro_rules
    definitions are skipped (they are expanded at their call sites by D7)"""
    out = set()
    i = 0
    n = len(toks)
    while i < n:
        t = toks[i]
        if t.kind == "id" and t.text == "macro_rules" and i + 3 < n and toks[i + 1].text == "!":
            j = i + 2
            while j < n and toks[j].text not in ("{", "("):
                j += 1
            if j < n:
                try:
                    i = match_close(toks, j) + 1
                    continue
                except (ValueError, IndexError):
                    pass
        if t.kind == "id" and t.text not in KEYWORDS and i + 1 < n:
            nx = toks[i + 1].text
            if nx == "(" or (nx == "::" and i + 2 < n and toks[i + 2].text == "<") or (nx == "!" and i + 2 < n and toks[i + 2].text in ("(", "[", "{")):
                prv = toks[i - 1].text if i > 0 else ""
                if prv not in ("fn",):
                    out.add(t.text)
        i += 1
    return out


def _find_seq(hay, needle):
    n = len(needle)
    for i in range(len(hay) - n + 1):
        if hay[i:i + n] == needle:
            return i
    return -1


def uninvert_if_else(code1, template_texts):
    """`if !C { A } else { B }` in the source where the contract was written against `if C { B' } else { A' }` (same condition
    tokens) is put back into that form: `if C { B } else { A }`; likewise `if X == Y {A} else {B}` against `if X != Y {..} else {..}`
    (and the reverse).  Both are the same statement; the contract's hints sit in the branches, so the branches must line up."""
    out = list(code1)
    count = 0
    i = 0
    while i < len(out):
        if out[i].kind == "id" and out[i].text == "if" and (i == 0 or out[i - 1].text != "else") and i + 1 < len(out) and out[i + 1].text != "let":
            # condition: up to the `{` at depth 0
            j = i + 1
            depth = 0
            while j < len(out):
                tx = out[j].text
                if tx in ("(", "["):
                    depth += 1
                elif tx in (")", "]"):
                    depth -= 1
                elif tx == "{" and depth == 0:
                    break
                j += 1
            if j >= len(out):
                break
            try:
                c1 = match_close(out, j)
            except (ValueError, IndexError):
                i += 1
                continue
            if c1 + 2 < len(out) and out[c1 + 1].text == "else" and out[c1 + 2].text == "{":
                c2 = match_close(out, c1 + 2)
                cond = out[i + 1:j]
                ct = [t.text for t in cond]
                new_cond = None
                if ct and ct[0] == "!":
                    inner = cond[1:]
                    it = [t.text for t in inner]
                    if it and it[0] == "(" and match_close(inner, 0) == len(inner) - 1:
                        inner = inner[1:-1]
                        it = it[1:-1]
                    if _find_seq(template_texts, ["if"] + it + ["{"]) >= 0 and _find_seq(template_texts, ["if", "!"] + it + ["{"]) < 0:
                        new_cond = inner
                else:
                    for a_op, b_op in (("==", "!="), ("!=", "==")):
                        idxs = [k for k, t in enumerate(ct) if t == a_op]
                        if len(idxs) == 1 and "&&" not in ct and "||" not in ct:
                            flipped = ct[:idxs[0]] + [b_op] + ct[idxs[0] + 1:]
                            if _find_seq(template_texts, ["if"] + flipped + ["{"]) >= 0 and _find_seq(template_texts, ["if"] + ct + ["{"]) < 0:
                                new_cond = [Tok(t.kind, (b_op if k == idxs[0] else t.text), t.line, t.sp, t.off) for k, t in enumerate(cond)]
                            break
                if new_cond is not None:
                    new_cond = [Tok(t.kind, t.text, t.line, True if k == 0 else t.sp, t.off) for k, t in enumerate(new_cond)]
                    b1 = out[j:c1 + 1]
                    b2 = out[c1 + 2:c2 + 1]
                    out[i + 1:c2 + 1] = list(new_cond) + b2 + [out[c1 + 1]] + b1
                    count += 1
        i += 1
    return out, count


def merge(code0, anns, code1):
    """Insert annotation chunks (anchored in code0) into code1 by token alignment.
    Returns list of (origin, tok) with origin 'src' or 'ann'; and drift = #tokens differing."""
    a = texts(code0)
    b = texts(code1)
    if a == b:
        pos_map = list(range(len(a) + 1))
        drift = 0
    else:
        sm = difflib.SequenceMatcher(None, a, b, autojunk=False)
        # fwd[i]: position in b before which an annotation anchored "before a[i]" goes
        pos_map = [None] * (len(a) + 1)
        drift = 0
        for tag, i1, i2, j1, j2 in sm.get_opcodes():
            if tag == "equal":
                for k in range(i2 - i1):
                    pos_map[i1 + k] = j1 + k
            else:
                drift += max(i2 - i1, j2 - j1)
                DRIFT_LOG.append("template `%s` vs source `%s` (source line %s)" % (
                    " ".join(a[i1:i2])[:80], " ".join(b[j1:j2])[:80], code1[min(j1, len(code1) - 1)].line if code1 else "?"))
                for k in range(i1, i2):
                    # anchored before a deleted/replaced token: put at the start of the
                    # replacement if it is the first token of the block, else at its end
                    pos_map[k] = j1 if k == i1 else j2
        pos_map[len(a)] = len(b)
        # an annotation anchored before a[i] where a[i-1] is equal-matched prefers to follow a[i-1]
        eq_prev = {}
        for tag, i1, i2, j1, j2 in sm.get_opcodes():
            if tag == "equal":
                for k in range(i2 - i1):
                    eq_prev[i1 + k + 1] = j1 + k + 1
        for i in range(len(a) + 1):
            if i in eq_prev and (i >= len(a) or pos_map[i] is None):
                pos_map[i] = eq_prev[i]
    out = []
    by_pos = {}
    if a != b:
        ren = rename_map(code0, code1, sm)
        if ren:
            DRIFT_LOG.append("annotations follow local renaming(s): %s" % ", ".join("%s->%s" % kv for kv in sorted(ren.items())))
            anns = [(pos, apply_renaming(chunk, ren)) for pos, chunk in anns]
        # structural repair: an annotation keeps the bracket depth it has in the template, and a statement-level
        # annotation (proof block, assert, let ghost) sits at a statement boundary.  When the aligned position violates
        # that (the surrounding code changed shape), it moves to the nearest position that satisfies it.
        da = _depths(a)
        db = _depths(b)

        def ok_at(j, depth, stmt):
            if db[j] != depth:
                return False
            if stmt and j > 0 and b[j - 1] not in (";", "{", "}"):
                return False
            return True

        for pos, chunk in anns:
            j = pos_map[pos]
            first = chunk[0].text if chunk else ""
            stmt = first in ("proof", "assert", "assume", "reveal", "let") and da[pos] >= 1
            if not ok_at(j, da[pos], stmt):
                best = None
                for d in range(1, len(b) + 1):
                    for k in (j + d, j - d):       # forward first: trailing hints talk about the final state
                        if 0 <= k <= len(b) and ok_at(k, da[pos], stmt):
                            best = k
                            break
                    if best is not None:
                        break
                if best is not None:
                    DRIFT_LOG.append("annotation `%s ...` re-anchored from token %d to %d (depth %d)" % (first, j, best, da[pos]))
                    j = best
            by_pos.setdefault(j, []).extend(chunk)
    else:
        for pos, chunk in anns:
            by_pos.setdefault(pos_map[pos], []).extend(chunk)
    if a != b and len(a) >= 2:
        # final hints apply at every exit: a proof block that closes the function body in the template is repeated in front of
        # every `return` statement the source has gained (an early return does not pass through the end of the body)
        tail = [chunk for pos, chunk in anns if pos == len(a) - 1 and chunk and chunk[0].text == "proof"]
        if tail:
            matched_b = set()
            for tag, i1, i2, j1, j2 in sm.get_opcodes():
                if tag == "equal":
                    matched_b.update(range(j1, j2))
            for j, tb in enumerate(b):
                if tb == "return" and j not in matched_b and j > 0 and b[j - 1] in (";", "{", "}"):
                    for chunk in tail:
                        by_pos.setdefault(j, []).extend(Tok(t.kind, t.text, t.line, t.sp) for t in chunk)
                    DRIFT_LOG.append("final proof block repeated in front of a new early return (token %d)" % j)
    for j in range(len(code1) + 1):
        for t in by_pos.get(j, []):
            out.append(("ann", t))
        if j < len(code1):
            out.append(("src", code1[j]))
    return out, drift


class Region:
    def __init__(self, file, path, line):
        self.file = file
        self.path = path
        self.line = line
        self.rules = []
        self.toks = []
        self.drift = 0
        self.rewrites_applied = {}
        self.name = "%s:%s" % (file, " ".join(path))
        self.gen_lines = (0, 0)
        self.renamed = {}


class Unit:
    def __init__(self, name, spec_path, repo):
        self.name = name
        self.spec_path = spec_path
        self.repo = repo
        self.regions = []
        self.text = ""
        self.linemap = []   # per generated line (1-based index-1): dict(origin=..., region=..., line=...)
        self.imports = []
        self.watched_changed = []
        self.props = {}     # fn name -> set(property ids) from //@ tags directives
        self.tags = []      # list of (kind, value)

    def _load(self, path, devs, depth=0):
        """-> list of [text, file, lineno] with `//@ include f` expanded and `//@ ifdev` resolved"""
        if depth > 5:
            raise ExtractError("include depth")
        try:
            raw = open(path).read().split("\n")
        except OSError as e:
            raise ExtractError("cannot read spec file %s: %s" % (path, e))
        base = os.path.relpath(path, os.path.dirname(os.path.dirname(self.spec_path))) if path != self.spec_path else os.path.basename(path)
        out = []
        stack = []          # entries: [parent_active, cond, in_else]
        for k, ln in enumerate(raw):
            s0 = ln.strip()
            cur_active = all((c if not e else not c) for _, c, e in stack)
            if s0.startswith("//@ ifdev "):
                nm = s0.split()[2]
                if nm not in self.deviations_declared:
                    self.deviations_declared.append(nm)
                stack.append([cur_active, nm in devs, False])
                out.append(["", base, k + 1])
            elif s0 == "//@ else" and stack:
                stack[-1][2] = True
                out.append(["", base, k + 1])
            elif s0 == "//@ endif" and stack:
                stack.pop()
                out.append(["", base, k + 1])
            elif not cur_active:
                out.append(["", base, k + 1])
            elif s0.startswith("//@ include "):
                inc = os.path.join(os.path.dirname(self.spec_path), s0.split()[2])
                out.append(["// ---- include %s" % s0.split()[2], base, k + 1])
                out.extend(self._load(inc, devs, depth + 1))
                out.append(["// ---- end include %s" % s0.split()[2], base, k + 1])
            else:
                out.append([ln, base, k + 1])
        return out

    def build(self, canary=False, devs=()):
        self.deviations_declared = []
        loaded = self._load(self.spec_path, devs)
        lines = [x[0] for x in loaded]
        origin_of = [(x[1], x[2]) for x in loaded]
        alltext = "\n".join(lines)
        self.unit_fns = set(re.findall(r"\bfn\s+([A-Za-z_][A-Za-z0-9_]*)", alltext))
        # std functions the unit gives an assumed contract: `assume_specification<..>[ path::to::name ]`
        for m in re.finditer(r"assume_specification\s*(?:<[^\[]*>)?\s*\[([^\]]+)\]", alltext):
            self.unit_fns.add(re.split(r"::", re.sub(r"<[^>]*>", "", m.group(1)).strip())[-1].strip())
        out_lines = []
        linemap = []
        i = 0
        src_cache = {}
        while i < len(lines):
            ln = lines[i]
            s = ln.strip()
            if s.startswith("//@ extract "):
                m = re.match(r"//@ extract (\S+)\s*:\s*(.+)$", s)
                if not m:
                    raise ExtractError("bad extract directive at %s:%d" % (self.spec_path, i + 1))
                reg = Region(m.group(1), m.group(2).split(), i + 1)
                j = i + 1
                body = []
                while j < len(lines) and not lines[j].strip().startswith("//@ end"):
                    s2 = lines[j].strip()
                    if s2.startswith("//@ rewrite "):
                        reg.rules.extend(s2[len("//@ rewrite "):].split())
                        body.append("")
                    else:
                        body.append(lines[j])
                    j += 1
                if j >= len(lines):
                    raise ExtractError("unterminated extract region at line %d" % (i + 1))
                ttoks = lex("\n".join(body))
                for t in ttoks:
                    t.line += origin_of[i][1]
                tfile = origin_of[i][0]
                gen = self._build_region(reg, ttoks, src_cache, canary)
                start_line = len(out_lines) + 1
                out_lines.append("// ---- extracted from /repo/%s : %s (rules: %s; drift tokens: %d)" %
                                 (reg.file, " ".join(reg.path), ",".join(reg.rules) or "-", reg.drift))
                linemap.append({"origin": "hdr", "region": reg.name})
                cur = []
                cur_key = None
                cur_org = None
                prev_origin = None
                for origin, t in gen:
                    key = (origin, t.line)
                    if cur_key is not None and key != cur_key:
                        out_lines.append("".join(cur))
                        linemap.append(cur_org)
                        cur = []
                    if not cur:
                        cur_key = key
                        cur_org = {"origin": origin, "region": reg.name,
                                   "file": reg.file if origin in ("src", "rw") else tfile,
                                   "line": t.line}
                        cur.append(t.text)
                    else:
                        cur.append((" " if t.sp else "") + t.text)
                if cur:
                    out_lines.append("".join(cur))
                    linemap.append(cur_org)
                reg.gen_lines = (start_line, len(out_lines))
                self.regions.append(reg)
                i = j + 1
                continue
            if s.startswith("//@ watch "):
                # //@ watch src/x.rs : fn f  ... pinned copy ... //@ end
                # A function the verifier cannot reach: nothing is generated, but any change to it is reported as drift,
                # which makes the unit undecided and lets the bounded stand-in (replay search) run.
                m = re.match(r"//@ watch (\S+)\s*:\s*(.+)$", s)
                if not m:
                    raise ExtractError("bad watch directive")
                reg = Region(m.group(1), m.group(2).split(), i + 1)
                j = i + 1
                body = []
                while j < len(lines) and not lines[j].strip().startswith("//@ end"):
                    body.append(lines[j])
                    j += 1
                ttoks = lex("\n".join(body))
                path = os.path.join(self.repo, reg.file)
                if path not in src_cache:
                    try:
                        stoks = lex(open(path).read())
                    except OSError as e:
                        raise ExtractError("cannot read %s: %s" % (path, e))
                    src_cache[path] = (stoks, rustlex.parse_items(stoks))
                stoks, sitems = src_cache[path]
                item = rustlex.find_item(sitems, reg.path)
                if item is None:
                    raise ExtractError("lost anchor: watched item `%s` not found in %s" % (" ".join(reg.path), reg.file))
                a = texts(ttoks)
                b = texts(stoks[item.start:item.end])
                if a != b:
                    sm = difflib.SequenceMatcher(None, a, b, autojunk=False)
                    reg.drift = sum(max(i2 - i1, j2 - j1) for tag, i1, i2, j1, j2 in sm.get_opcodes() if tag != "equal")
                    self.watched_changed.append(reg.name)
                reg.name = "watch " + reg.name
                out_lines.append("// ---- watched (not verified, pinned): /repo/%s : %s (drift tokens: %d)" % (reg.file, " ".join(reg.path), reg.drift))
                linemap.append({"origin": "hdr", "region": reg.name})
                reg.gen_lines = (len(out_lines), len(out_lines))
                self.regions.append(reg)
                i = j + 1
                continue
            if s.startswith("//@ import "):
                # //@ import <unit> : <item path>  -- the function's signature + contract from another
                # unit's template, body replaced: an external_body stub whose contract is PROVED in that unit
                m = re.match(r"//@ import (\S+)\s*:\s*(.+)$", s)
                if not m:
                    raise ExtractError("bad import directive: %s" % s)
                stub = self._import_contract(m.group(1), m.group(2).split(), devs)
                for ln2 in stub:
                    out_lines.append(ln2)
                    linemap.append({"origin": "import", "file": m.group(1), "line": origin_of[i][1]})
                self.imports.append("%s: %s" % (m.group(1), m.group(2).strip()))
                i += 1
                continue
            if s.startswith("//@ prop "):
                # //@ prop C01 C03 : fn_name fn_name2 ...
                m = re.match(r"//@ prop ([^:]+):(.*)$", s)
                if m:
                    for fn in m.group(2).split():
                        self.props.setdefault(fn, set()).update(m.group(1).split())
            out_lines.append(ln)
            linemap.append({"origin": "spec", "file": origin_of[i][0], "line": origin_of[i][1]})
            i += 1
        self.text = "\n".join(out_lines)
        self.linemap = linemap
        return self.text

    def _import_contract(self, unit, path, devs):
        other = os.path.join(os.path.dirname(self.spec_path), unit + ".rs")
        loaded = self._load(other, devs, 1)
        lines = [x[0] for x in loaded]
        want = " ".join(path)
        for k, ln in enumerate(lines):
            m = re.match(r"\s*//@ extract (\S+)\s*:\s*(.+)$", ln)
            if m and " ".join(m.group(2).split()) == want:
                body = []
                j = k + 1
                while j < len(lines) and not lines[j].strip().startswith("//@ end"):
                    if not lines[j].strip().startswith("//@"):
                        body.append(lines[j])
                    j += 1
                toks = lex("\n".join(body))
                items = rustlex.parse_items(toks)
                fns = [it for it in items if it.kind == "fn"]
                if len(fns) != 1 or fns[0].body_open is None:
                    raise ExtractError("import %s: region is not a single fn" % want)
                it = fns[0]
                hdr = toks[it.attr_start:it.body_open]
                text = rustlex.render(hdr)
                return ["// ---- contract imported from unit %s (%s): proved there against the real body" % (unit, want),
                        "#[verifier::external_body]"] + text.split("\n") + ["{ unimplemented!() }"]
        raise ExtractError("import: no region `%s` in unit %s" % (want, unit))

    def _build_region(self, reg, ttoks, src_cache, canary):
        path = os.path.join(self.repo, reg.file)
        if path not in src_cache:
            try:
                s = open(path).read()
            except OSError as e:
                raise ExtractError("cannot read %s: %s" % (path, e))
            toks = lex(s)
            src_cache[path] = (toks, rustlex.parse_items(toks))
        toks, items = src_cache[path]
        item = rustlex.find_item(items, reg.path)
        if item is None:
            raise ExtractError("lost anchor: item `%s` not found (or ambiguous) in %s" % (" ".join(reg.path), reg.file))
        code1 = [Tok(t.kind, t.text, t.line, t.sp) for t in toks[item.start:item.end]]
        ctx = {"file_toks": toks}
        # alpha-normalisation: locals that were consistently renamed in the source are renamed back to the names the
        # contract (and the rewrite rules) use; X must not occur in the source, so no capture is possible
        try:
            pre0, _ = erase_ghost(ttoks)
            back = {y: x for x, y in rename_map(pre0, code1).items()}
        except (ValueError, IndexError):
            back = {}
        if back:
            code1 = apply_renaming(code1, back)
            reg.renamed = dict(back)
            DRIFT_LOG.append("locals renamed back to the contract's names: %s" % ", ".join("%s->%s" % kv for kv in sorted(back.items())))
        for r in reg.rules:
            code1, cnt = rewrites.apply(r, code1, ctx)
            reg.rewrites_applied[r] = cnt
            # the template may show either the original or the rewritten form
            ttoks, _ = rewrites.apply(r, ttoks, ctx)
        # constructs Verus ACCEPTS but gives no meaning to: a proof over them can only fail for want of a specification, which
        # would be reported as a violation of the contract.  They must have been rewritten to a specified shim by now.
        for k in range(len(code1) - 1):
            if code1[k].kind == "id" and code1[k].text in ("format", "write", "writeln", "print", "println", "eprintln", "eprint") \
                    and code1[k + 1].text == "!" and code1[k + 1].kind == "punct" and (k == 0 or code1[k - 1].text not in (".", "::")):
                raise ExtractError("unsupported construct in %s: `%s!` without a rewrite rule (Verus accepts it without a specification)"
                                   % (" ".join(reg.path), code1[k].text))
        # likewise any function, method or macro the source now calls that the contract's version of this item does not call and that
        # is neither defined in the unit (a contract, a shim) nor a std method with a usable specification: Verus may accept the call
        # and know nothing about its result
        try:
            tcode, _ = erase_ghost(ttoks)
            known = call_names(tcode) | getattr(self, "unit_fns", set()) | SPECIFIED_CALLS
            fresh = sorted(c for c in call_names(code1) if c not in known and not c[:1].isupper())
        except (ValueError, IndexError):
            fresh = []
        if fresh:
            # second chance: std string functions for which std_str.rs (included by every unit) has a shim with a complete
            # contract are rewritten in the SOURCE tokens only - the contract's own text is not touched
            for name in list(fresh):
                for r in AUTO_RULES.get(name, ()):
                    if r in reg.rules:
                        continue
                    code1, cnt = rewrites.apply(r, code1, ctx)
                    if cnt:
                        reg.rewrites_applied[r] = reg.rewrites_applied.get(r, 0) + cnt
                        DRIFT_LOG.append("auto rule %s applied to a call the contract's version does not make (%d)" % (r, cnt))
            try:
                fresh = sorted(c for c in call_names(code1) if c not in known and not c[:1].isupper())
            except (ValueError, IndexError):
                pass
        if fresh and not os.environ.get("VERIF_ALLOW_NEW_CALLS"):
            raise ExtractError("unsupported construct in %s: call of `%s` - not called by the contract's version of this item, not defined in the unit, "
                               "not a std function with a usable specification" % (" ".join(reg.path), "`, `".join(fresh[:4])))
        # attributes in the template before the item keyword are annotations (the source's own
        # attributes are outside the extracted range: derives are re-stated by the template)
        lead = []
        k = 0
        while k < len(ttoks) and ttoks[k].text == "#":
            e = match_close(ttoks, k + 1 if ttoks[k + 1].text != "!" else k + 2)
            lead.extend(ttoks[k:e + 1])
            k = e + 1
        code0, anns = erase_ghost(ttoks[k:])
        if lead:
            if anns and anns[0][0] == 0:
                anns[0] = (0, lead + anns[0][1])
            else:
                anns.insert(0, (0, lead))
        code1, ninv = uninvert_if_else(code1, texts(code0))
        if ninv:
            DRIFT_LOG.append("%d inverted if/else put back into the contract's orientation" % ninv)
            reg.renamed = dict(getattr(reg, "renamed", {}), **{"(if/else inversions undone)": str(ninv)})
        merged, drift = merge(code0, anns, code1)
        reg.drift = drift
        # Loops of extracted functions are verified WITHOUT loop isolation: the facts established before a loop (bounds bound to
        # locals, ghost snapshots) stay visible inside it, so a refactoring that moves a sub-expression into a `let` in front
        # of a loop does not invalidate the proof (DESIGN.md section 7).  Lemmas and library code keep Verus' default.
        texts_ = [t.text for _, t in merged]
        if os.environ.get("VERIF_LOOP_ISOLATION", "off") == "off" and "fn" in texts_ and any(x in texts_ for x in ("for", "while", "loop")) \
                and "loop_isolation" not in texts_ and "invariant_except_break" not in texts_ and reg.path and reg.path[-2:-1] == ["fn"] \
                and not _has_loop_ensures(texts_):
            line = merged[0][1].line if merged else 0
            attr = [("ann", Tok("punct", "#", line)), ("ann", Tok("punct", "[", line, sp=False)), ("ann", Tok("id", "verifier", line, sp=False)),
                    ("ann", Tok("punct", "::", line, sp=False)), ("ann", Tok("id", "loop_isolation", line, sp=False)), ("ann", Tok("punct", "(", line, sp=False)),
                    ("ann", Tok("id", "false", line, sp=False)), ("ann", Tok("punct", ")", line, sp=False)), ("ann", Tok("punct", "]", line, sp=False))]
            merged = attr + merged
        if canary:
            merged = insert_canaries(merged, reg)
        return merged


def _has_loop_ensures(texts_):
    """an `ensures` clause that belongs to a loop (it follows a loop keyword): such loops must keep loop isolation"""
    seen_loop = False
    for t in texts_:
        if t in ("for", "while", "loop"):
            seen_loop = True
        elif t == "ensures" and seen_loop:
            return True
    return False


def insert_canaries(merged, reg):
    """Insert `proof { assert(false); }` at the start of every fn body and every loop body
    that carries an invariant. Each must FAIL (else requires/invariants/axioms are contradictory)."""
    out = []
    toks = [t for _, t in merged]
    # find fn body open: first '{' at depth 0 after 'fn'
    n = len(merged)
    fn_body_open = None
    i = 0
    saw_fn = False
    depth = 0
    while i < n:
        t = toks[i]
        if t.kind == "id" and t.text == "fn":
            saw_fn = True
        if saw_fn and t.kind == "punct":
            if t.text in ("(", "["):
                i = match_close(toks, i)
            elif t.text == "{":
                fn_body_open = i
                break
            elif t.text == ";":
                break
        i += 1
    for idx, (origin, t) in enumerate(merged):
        out.append((origin, t))
        if idx == fn_body_open:
            for tx in ("proof", "{", "assert", "(", "false", ")", ";", "}"):
                out.append(("ann", Tok("id", tx, t.line)))
    return out
