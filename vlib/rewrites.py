"""Mechanical, syntax-directed rewrite rules applied to the tokens of an extracted item
before it is handed to Verus (DESIGN.md section 3.2).  Each rule is a token pattern with
holes; a rule that is requested but matches nothing is reported (count 0).

Pattern language (space separated tokens):
  literal        matches a token with that text
  $recv          (first element only) the receiver expression to the left of the match:
                 a postfix chain  id (.id | ::id | (...) | [...] | ?)*  , not including
                 prefix operators
  $x             exactly one token (id, literal, lifetime)
  $(e)           a balanced token sequence, up to the next pattern literal at depth 0

Shims named in replacements are `#[verifier::external_body]` functions in
specs/std_shims.rs whose body *is* the original expression and whose contract is the
assumed behaviour of std.
"""
from .rustlex import Tok, match_close, OPEN, CLOSE, lex

STOP_IDS = {"return", "in", "let", "if", "else", "match", "while", "for", "mut", "ref", "as",
            "move", "break", "continue", "loop", "unsafe", "dyn", "impl", "where"}

RULES = {}


def rule(name, pattern, replacement, doc):
    if name in RULES:
        raise ValueError("duplicate rewrite rule name " + name)
    # pattern elements are separated by blanks; a blank inside a literal token is written as U+2423
    RULES[name] = ("pat", [x.replace("\u2423", " ") for x in pattern.split()], [x.replace("\u2423", " ") for x in replacement.split()], doc)


def also(name, pattern, replacement):
    """a further spelling of the same comparison handled by an existing pattern rule (operands swapped, `==` for `!=`, ...):
    the unit that requests the rule gets every spelling, so that a refactoring which only mirrors a comparison stays specified"""
    kind, a, b, doc = RULES[name]
    sp = lambda x: [y.replace("\u2423", " ") for y in x.split()]
    if kind == "pat":
        RULES[name] = ("multi", [(a, b), (sp(pattern), sp(replacement))], None, doc)
    else:
        a.append((sp(pattern), sp(replacement)))


def pyrule(name, fn, doc):
    if name in RULES:
        raise ValueError("duplicate rewrite rule name " + name)
    RULES[name] = ("py", fn, None, doc)


def match_open(toks, i):
    depth = 0
    j = i
    while j >= 0:
        t = toks[j]
        if t.kind == "punct":
            if t.text in CLOSE:
                depth += 1
            elif t.text in OPEN:
                depth -= 1
                if depth == 0:
                    return j
        j -= 1
    raise ValueError("unbalanced")


def recv_start(toks, end):
    """toks[end-1] is the last token of a receiver chain (the token before the '.' that
    starts the pattern). Return the index of its first token."""
    j = end - 1
    while j >= 0:
        t = toks[j]
        if t.kind == "punct" and t.text in (")", "]"):
            j = match_open(toks, j)
            # a call `f(...)`/index: continue with what precedes
            if j - 1 >= 0 and (toks[j - 1].kind == "id" and toks[j - 1].text not in STOP_IDS):
                j -= 1
            else:
                return j
        elif t.kind in ("id", "str", "num", "char") and t.text not in STOP_IDS:
            pass
        elif t.kind == "punct" and t.text == "?":
            j -= 1
            continue
        else:
            return j + 1
        # t is an id-like token; look at what precedes
        if j - 1 >= 0 and toks[j - 1].kind == "punct" and toks[j - 1].text in (".", "::"):
            j -= 2
            continue
        return j
    return 0


def try_match(toks, i, pat):
    """Try to match pat (without $recv) at toks[i:]. Return (end, binds) or None."""
    binds = {}
    p = 0
    j = i
    n = len(toks)
    while p < len(pat):
        pe = pat[p]
        if pe.startswith("$(") and pe.endswith(")"):
            nxt = pat[p + 1] if p + 1 < len(pat) else None
            k = j
            while k < n:
                t = toks[k]
                if t.kind == "punct" and t.text in CLOSE and t.text != nxt:
                    return None
                if t.text == nxt and t.kind != "str":
                    break
                if t.kind == "punct" and t.text in OPEN:
                    k = match_close(toks, k)
                k += 1
            if k >= n:
                return None
            binds[pe] = toks[j:k]
            j = k
        elif pe.startswith("$") and len(pe) > 1:
            want = None
            if ":" in pe:
                want = pe.split(":")[1]
            if j >= n or toks[j].kind not in ("id", "str", "num", "char", "life"):
                return None
            if want is not None and toks[j].kind != want:
                return None
            binds[pe.split(":")[0]] = [toks[j]]
            j += 1
        else:
            if j >= n or toks[j].text != pe:
                return None
            j += 1
        p += 1
    return j, binds


def apply_pat(toks, pat, rep):
    out = list(toks)
    count = 0
    has_recv = pat[0] == "$recv"
    body = pat[1:] if has_recv else pat
    i = 0
    while i < len(out):
        m = try_match(out, i, body)
        if m is None:
            i += 1
            continue
        end, binds = m
        start = i
        if has_recv:
            start = recv_start(out, i)
            if start >= i:
                i += 1
                continue
            binds["$recv"] = out[start:i]
        line = out[start].line
        new = []
        for r in rep:
            if r in binds:
                for t in binds[r]:
                    new.append(Tok(t.kind, t.text, line, sp=True))
            else:
                kind = "id" if (r[0].isalpha() or r[0] == "_") else "punct"
                new.append(Tok(kind, r, line, sp=True))
        out[start:end] = new
        count += 1
        i = start + len(new)
    return out, count


def apply(name, toks, ctx=None):
    if name not in RULES:
        raise KeyError("unknown rewrite rule %s" % name)
    kind, a, b, doc = RULES[name]
    if kind == "pat":
        return apply_pat(toks, a, b)
    if kind == "multi":
        total = 0
        for pa, re_ in a:
            toks, c = apply_pat(toks, pa, re_)
            total += c
        return toks, total
    if kind == "pyctx":
        return a(toks, ctx or {})
    return a(toks)


def pyctxrule(name, fn, doc):
    RULES[name] = ("pyctx", fn, None, doc)


def T(texts, line):
    out = []
    for tx in texts.split():
        kind = "id" if (tx[0].isalpha() or tx[0] == "_") else ("num" if tx[0].isdigit() else "punct")
        out.append(Tok(kind, tx, line, sp=True))
    return out


def clone(toks, line=None):
    return [Tok(t.kind, t.text, t.line if line is None else line, True) for t in toks]


# ---- D7: expansion of local macro_rules! (single arm, $x:ident / $x:path / $x:expr / $x:pat fragments)
def parse_macros(file_toks):
    macros = {}
    i = 0
    n = len(file_toks)
    while i < n:
        t = file_toks[i]
        if t.kind == "id" and t.text == "macro_rules" and i + 3 < n and file_toks[i + 1].text == "!":
            name = file_toks[i + 2].text
            o = i + 3
            c = match_close(file_toks, o)
            body = file_toks[o + 1:c]
            # single arm: ( params ) => { expansion } ;
            if body and body[0].text == "(":
                pe = match_close(body, 0)
                params = []
                k = 1
                while k < pe:
                    if body[k].text == "$" and k + 3 <= pe and body[k + 2].text == ":":
                        params.append(body[k + 1].text)
                        k += 4
                    else:
                        k += 1
                k = pe + 1
                if k < len(body) and body[k].text == "=>":
                    bo = k + 1
                    be = match_close(body, bo)
                    rest = [x for x in body[be + 1:] if x.text != ";"]
                    if not rest and name not in macros:
                        macros[name] = (params, body[bo + 1:be])
            i = c + 1
            continue
        i += 1
    return macros


def expand_macros(toks, ctx):
    macros = ctx.get("macros")
    if macros is None:
        macros = parse_macros(ctx.get("file_toks", []))
        ctx["macros"] = macros
    out = list(toks)
    count = 0
    i = 0
    while i < len(out):
        t = out[i]
        if t.kind == "id" and t.text in macros and i + 2 < len(out) and out[i + 1].text == "!" and out[i + 2].text in ("(", "[", "{"):
            e = match_close(out, i + 2)
            args = []
            cur = []
            k = i + 3
            while k < e:
                tk = out[k]
                if tk.kind == "punct" and tk.text in OPEN:
                    c2 = match_close(out, k)
                    cur.extend(out[k:c2 + 1])
                    k = c2 + 1
                    continue
                if tk.kind == "punct" and tk.text == ",":
                    args.append(cur)
                    cur = []
                else:
                    cur.append(tk)
                k += 1
            if cur:
                args.append(cur)
            params, body = macros[t.text]
            if len(args) != len(params):
                i += 1
                continue
            bind = dict(zip(params, args))
            new = []
            k = 0
            while k < len(body):
                if body[k].text == "$" and k + 1 < len(body) and body[k + 1].text in bind:
                    new.extend(clone(bind[body[k + 1].text], t.line))
                    k += 2
                else:
                    new.append(Tok(body[k].kind, body[k].text, t.line, True))
                    k += 1
            out[i:e + 1] = new
            count += 1
            continue      # re-scan the expansion (nested macros)
        i += 1
    return out, count


def fn_parts(toks):
    """indices: (fn keyword, body open, body close, ret type tokens or None)"""
    i = 0
    while i < len(toks) and not (toks[i].kind == "id" and toks[i].text == "fn"):
        i += 1
    j = i
    arrow = None
    while j < len(toks):
        t = toks[j]
        if t.kind == "punct":
            if t.text in ("(", "["):
                j = match_close(toks, j)
            elif t.text == "->":
                arrow = j
            elif t.text == "{":
                break
        j += 1
    if j >= len(toks):
        return None
    ret = toks[arrow + 1:j] if arrow is not None else None
    return i, j, match_close(toks, j), ret


def find_chain(toks, lo, hi, method):
    """find `RECV . iter ( ) . METHOD ( | V | BODY )` inside toks[lo:hi]; returns
    (recv_start, recv_end(excl), var tokens, body tokens, index after the closing paren) or None"""
    i = lo
    while i < hi:
        if (toks[i].text == "." and i + 6 < hi and toks[i + 1].text == "iter" and toks[i + 2].text == "(" and toks[i + 3].text == ")"
                and toks[i + 4].text == "." and toks[i + 5].text == method and toks[i + 6].text == "("):
            close = match_close(toks, i + 6)
            inner = toks[i + 7:close]
            if inner and inner[0].text == "|":
                k = 1
                while k < len(inner) and inner[k].text != "|":
                    k += 1
                var = inner[1:k]
                body = inner[k + 1:]
                rs = recv_start(toks, i)
                return rs, i, var, body, close + 1
        i += 1
    return None


def strip_amp_pat(var):
    return var


def loop_rule(method, tail_kind):
    """tail_kind: 'collect' (.collect()), 'count_gt0' (.count() > 0), 'none' (find_map)"""
    def f(toks):
        parts = fn_parts(toks)
        if parts is None:
            return toks, 0
        fi, bo, bc, ret = parts
        ch = find_chain(toks, bo + 1, bc, method)
        if ch is None:
            return toks, 0
        rs, re_, var, body, after = ch
        line = toks[rs].line
        recv = toks[rs:re_]
        # what follows the chain
        rest = toks[after:bc]
        rt = [t.text for t in rest]
        if tail_kind == "collect":
            if rt[:4] != [".", "collect", "(", ")"] or len(rt) != 4:
                return toks, 0
        elif tail_kind == "count_gt0":
            if rt[:6] != [".", "count", "(", ")", ">", "0"] or len(rt) != 6:
                return toks, 0
        else:
            if rt:
                return toks, 0
        new = []
        V = clone(var, line)
        R = lambda: clone(recv, line)
        B = lambda: clone(body, line)
        if tail_kind == "collect" and method == "filter_map":
            new += T("let mut __out :", line) + clone(ret, line) + T("= Vec :: new ( ) ;", line)
            new += T("for __i in 0 ..", line) + R() + T(". len ( ) {", line)
            new += T("let", line) + V + T("= &", line) + R() + T("[ __i ] ;", line)
            new += T("let __r =", line) + B() + T(";", line)
            new += T("if let Some ( __x ) = __r { __out . push ( __x ) ; }", line)
            new += T("}", line) + T("__out", line)
        elif tail_kind == "collect" and method == "filter":
            new += T("let mut __out :", line) + clone(ret, line) + T("= Vec :: new ( ) ;", line)
            new += T("for __i in 0 ..", line) + R() + T(". len ( ) {", line)
            new += T("let", line) + V + T("= &", line) + R() + T("[ __i ] ;", line)
            new += T("let __keep =", line) + B() + T(";", line)
            new += T("if __keep { __out . push (", line) + V + T(") ; }", line)
            new += T("}", line) + T("__out", line)
        elif tail_kind == "count_gt0":
            new += T("let mut __any = false ;", line)
            new += T("for __i in 0 ..", line) + R() + T(". len ( ) {", line)
            new += T("let", line) + V + T("= &", line) + R() + T("[ __i ] ;", line)
            new += T("let __keep =", line) + B() + T(";", line)
            new += T("if __keep { __any = true ; }", line)
            new += T("}", line) + T("__any", line)
        else:  # find_map
            new += T("for __i in 0 ..", line) + R() + T(". len ( ) {", line)
            new += T("let", line) + V + T("= &", line) + R() + T("[ __i ] ;", line)
            new += T("let __r =", line) + B() + T(";", line)
            new += T("if __r . is_some ( ) { return __r ; }", line)
            new += T("}", line) + T("None", line)
        out = toks[:rs] + new + toks[bc:]
        return out, 1
    return f


def drop_attrs(names):
    def f(toks):
        out = []
        i = 0
        cnt = 0
        while i < len(toks):
            t = toks[i]
            if t.text == "#" and i + 2 < len(toks) and toks[i + 1].text == "[" and toks[i + 2].text in names:
                e = match_close(toks, i + 1)
                i = e + 1
                cnt += 1
                continue
            out.append(t)
            i += 1
        return out, cnt
    return f


# ---------------------------------------------------------------------------
# rule catalogue
# ---------------------------------------------------------------------------
pyctxrule("D7.expand_macros", expand_macros,
          "local single-arm macro_rules! (ident/path/expr fragments) are expanded textually at the call site")
pyrule("D2.filter_map_collect", loop_rule("filter_map", "collect"),
       "tail `E.iter().filter_map(|v| BODY).collect()` -> indexed loop pushing the Some results (closure body inlined; captured `mut` locals stay the same locals)")
pyrule("D3.filter_collect", loop_rule("filter", "collect"),
       "tail `E.iter().filter(|v| BODY).collect()` -> indexed loop pushing v when BODY")
pyrule("D3.filter_count_gt0", loop_rule("filter", "count_gt0"),
       "tail `E.iter().filter(|v| BODY).count() > 0` -> indexed loop setting a flag when BODY (count() > 0 iff some element satisfies BODY)")
pyrule("D4.find_map", loop_rule("find_map", "none"),
       "tail `E.iter().find_map(|v| BODY)` -> indexed loop returning the first Some")
rule("D7.matches_macro",
     "matches ! ( $e:id , $(p) )",
     "( match $e { $(p) => true , _ => false } )",
     "std matches!(e, PAT) written out")
rule("D1.enumerate",
     "for ( $i:id , $x:id ) in $(e) . iter ( ) . enumerate ( ) {",
     "for $i in 0 .. $(e) . len ( ) { let $x = & $(e) [ $i ] ;",
     "for (i, x) in E.iter().enumerate() -> indexed loop (definition of enumerate on slices)")
def for_vec_while(toks):
    """`for X in shim_f(ARGS) {`  ->  `let __v_X = shim_f(ARGS); let mut __i_X: usize = 0; while __i_X < __v_X.len() { let X = __v_X[__i_X]; __i_X += 1;`
    (loops whose body uses `continue`, which Verus for-loops do not support; the index is advanced before the body so
    `continue`/`break` keep their meaning; the shim returns the iterator's items collected into a Vec)"""
    out = list(toks)
    count = 0
    i = 0
    while i < len(out):
        t = out[i]
        if (t.kind == "id" and t.text == "for" and i + 4 < len(out) and out[i + 1].kind == "id" and out[i + 2].text == "in"
                and out[i + 3].kind == "id" and out[i + 3].text.startswith("shim_") and out[i + 4].text == "("):
            x = out[i + 1].text
            close = match_close(out, i + 4)
            if close + 1 < len(out) and out[close + 1].text == "{":
                call = out[i + 3:close + 1]
                line = t.line
                v, k = "__v_" + x, "__i_" + x
                new = T("let %s =" % v, line) + clone(call, line) + T("; let mut %s : usize = 0 ; while %s < %s . len ( ) { let %s = %s [ %s ] ; %s += 1 ;" % (k, k, v, x, v, k, k), line)
                out[i:close + 2] = new
                count += 1
                i += len(new)
                continue
        i += 1
    return out, count


def generic_path_param(toks):
    """fn f<P: AsRef<Path>>(.. path: P ..) { .. path.as_ref() .. }  ->  the instance at P = &Path:
    fn f(.. path: &Path ..) { .. path .. }   (as_ref on &Path is the identity)"""
    out = list(toks)
    count = 0
    i = 0
    while i < len(out):
        tx = [t.text for t in out[i:i + 9]]
        if tx[:9] == ["<", "P", ":", "AsRef", "<", "Path", ">", ">", "("] or tx[:8] == ["<", "P", ":", "AsRef", "<", "Path", ">>", "("]:
            n = 8 if tx[:9] == ["<", "P", ":", "AsRef", "<", "Path", ">", ">", "("] else 7
            del out[i:i + n]
            count += 1
            continue
        if tx[:3] == [":", "P", ","] or tx[:3] == [":", "P", ")"]:
            out[i + 1:i + 2] = T("& Path", out[i].line)
            count += 1
        if tx[:5] == ["path", ".", "as_ref", "(", ")"]:
            del out[i + 1:i + 5]
            count += 1
        i += 1
    return out, count


def bytestr_to_array(toks):
    """b"literal"  ->  &[0x..u8, ...]   (the same &[u8; N] value; Verus knows the contents of an array literal but not of a byte-string literal)"""
    out = []
    count = 0
    for t in toks:
        if t.kind == "str" and t.text.startswith('b"'):
            body = t.text[2:-1]
            bs = []
            i = 0
            while i < len(body):
                c = body[i]
                if c == "\\":
                    n = body[i + 1]
                    if n == "x":
                        bs.append(int(body[i + 2:i + 4], 16)); i += 4; continue
                    bs.append({"n": 10, "r": 13, "t": 9, "0": 0, "\\": 92, '"': 34, "'": 39}[n]); i += 2; continue
                bs.extend(c.encode("utf-8")); i += 1
            new = T("& [", t.line)
            for k, b in enumerate(bs):
                if k:
                    new += T(",", t.line)
                new.append(Tok("num", "0x%02xu8" % b, t.line, True))
            new += T("]", t.line)
            out.extend(new)
            count += 1
        else:
            out.append(t)
    return out, count


def continue_to_else(toks):
    """`if COND { continue; } REST` (REST = the remaining statements of the loop body)  ->  `if COND { } else { REST }`.
    Verus for-loops do not support `continue`; skipping the rest of the body is what `continue` does."""
    out = list(toks)
    count = 0
    i = 0
    while i < len(out):
        t = out[i]
        if t.kind == "id" and t.text == "if":
            # find the block
            j = i + 1
            while j < len(out) and out[j].text != "{":
                if out[j].text in ("(", "["):
                    j = match_close(out, j)
                j += 1
            if j < len(out):
                c = match_close(out, j)
                inner = [x.text for x in out[j + 1:c]]
                if inner == ["continue", ";"] and (c + 1 >= len(out) or out[c + 1].text != "else"):
                    # enclosing block close: scan forward at depth 0
                    depth = 0
                    k = c + 1
                    while k < len(out):
                        if out[k].text in OPEN:
                            depth += 1
                        elif out[k].text in CLOSE:
                            if depth == 0:
                                break
                            depth -= 1
                        k += 1
                    line = out[c].line
                    rest = out[c + 1:k]
                    new = out[i:j + 1] + T("} else {", line) + rest + T("}", out[k].line if k < len(out) else line)
                    out[i:k] = new
                    count += 1
                    i = j + 1
                    continue
        i += 1
    return out, count


pyrule("D17.continue_to_else", continue_to_else, continue_to_else.__doc__)
pyrule("D16.bytestr_to_array", bytestr_to_array, bytestr_to_array.__doc__)
pyrule("D1.for_vec_while", for_vec_while, for_vec_while.__doc__)
pyrule("D9.generic_path_param", generic_path_param, generic_path_param.__doc__)
pyrule("D12.drop_thiserror_attrs", drop_attrs({"error", "from", "source"}),
       "thiserror helper attributes inside an error enum (#[error(..)], #[from]) are dropped; the From impls are written out")
pyrule("D12.drop_default_attr", drop_attrs({"default"}),
       "`#[default]` variant marker dropped; derive(Default) is written out as an impl with an `ensures`")
pyrule("D12.drop_serde_attrs", drop_attrs({"serde", "serde_as", "cfg_attr"}),
       "serde helper attributes inside a type definition are dropped (default-feature serde impls are not verified)")

rule("D6.starts_with_lit",
     "$recv . starts_with ( $l:str )",
     "shim_starts_with_str ( $recv , $l )",
     "str::starts_with with a string-literal pattern")

rule("D6.contains_char",
     "$recv . contains ( $c:char )",
     "shim_contains_char ( $recv , $c )",
     "str::contains with a char-literal pattern")

rule("D6.parse_i64_string",
     "$recv . parse :: < i64 > ( )",
     "shim_parse_i64 ( $recv . as_str ( ) )",
     "String -> str::parse::<i64>")

rule("D6.parse_i64_str",
     "$recv . parse :: < i64 > ( )",
     "shim_parse_i64 ( $recv )",
     "str::parse::<i64>")

rule("D6.rsplit_once_char",
     "$recv . rsplit_once ( $c:char )",
     "shim_rsplit_once_char ( $recv , $c )",
     "str::rsplit_once at the last occurrence of a char")

rule("D6.rsplit_once_lit_string",
     "$recv . rsplit_once ( $l:str )",
     "shim_rsplit_once_str ( $recv . as_str ( ) , $l )",
     "String -> str::rsplit_once at the last occurrence of a literal")

rule("D6.string_from",
     "String :: from ( $(e) )",
     "shim_string_from ( $(e) )",
     "<String as From<&str>>::from (vstd has no spec and its signature cannot be named in assume_specification)")

rule("D6.match_indices_gt_lt",
     "$recv . match_indices ( & [ '>' , '<' ] )",
     "shim_match_indices_gt_lt ( $recv )",
     "str::match_indices(&['>','<']) collected: (byte index, matched 1-char str) of every '>' or '<', in order")

rule("D6.str_get_range",
     "$recv . get ( $(a) .. $(b) )",
     "shim_str_get ( $recv , $(a) , $(b) )",
     "str::get(a..b): Some(sub-slice) iff a <= b <= len and both are char boundaries")

rule("D13.ref_wild_pat",
     "( & _ , _ ) =>",
     "( _ , _ ) =>",
     "`&_` wildcard pattern -> `_` (Verus has no ref patterns; both match everything, bind nothing)")

rule("D6.ne_self_field_string",
     "$recv != self . $f:id",
     "shim_str_ne_string ( $recv , & self . $f )",
     "<str as PartialEq<String>>::ne (vstd specifies only &str == &str)")

rule("D6.substr_to_string",
     "$recv [ $(a) .. $(b) ] . to_string ( )",
     "shim_substr_to_string ( $recv , $(a) , $(b) )",
     "s[a..b].to_string(): names the temporary slice so that its contract can be used")

rule("D6.rfind_char",
     "$recv . rfind ( $c:char )",
     "shim_rfind_char ( $recv , $c )",
     "str::rfind(char): byte index of the last occurrence")

rule("D6.find_char",
     "$recv . find ( $c:char )",
     "shim_find_char ( $recv , $c )",
     "str::find(char): byte index of the first occurrence")

rule("D6.split_comma",
     "$recv . split ( ',' )",
     "shim_split_comma ( $recv )",
     "str::split(',') collected into a Vec<&str> (iteration order preserved)")

rule("D6.split_terminator_comma",
     "$recv . split_terminator ( ',' )",
     "shim_split_terminator_comma ( $recv )",
     "str::split_terminator(',') collected into a Vec<&str> (as split(','), an empty trailing piece skipped)")

rule("D8.format3",
     "format ! ( \"{}{}{}\" , $a:id , $b:id , $c:id )",
     "shim_concat3 ( $a , $b , $c )",
     "format!(\"{}{}{}\", a, b, c) for three &str: their concatenation")

rule("D6.str_lt",
     "pkg1 < pkg2",
     "shim_str_lt ( pkg1 , pkg2 )",
     "<str as PartialOrd>::lt : byte-wise lexicographic order")

rule("D6.eq_self_field_str",
     "self . $f:id == $b:id",
     "shim_string_eq_str ( & self . $f , $b )",
     "<String as PartialEq<&str>>::eq (vstd specifies only &str == &str)")

rule("D6.os_push_lit",
     "path . push ( $l:str )",
     "shim_os_push_str ( & mut path , $l )",
     "OsString::push(&str literal)")

rule("D6.os_push_var",
     "path . push ( $x:id )",
     "shim_os_push ( & mut path , $x )",
     "OsString::push(&OsString)")

rule("D6.os_lossy_ends_with_slash",
     "$recv . to_string_lossy ( ) . ends_with ( '/' )",
     "shim_os_ends_with_slash ( & $recv )",
     "OsString::to_string_lossy().ends_with('/')")

rule("D6.os_to_os_string",
     "$recv . to_os_string ( )",
     "shim_os_clone ( $recv )",
     "OsString (deref OsStr)::to_os_string(): an owned copy")

rule("D6.osstr_from_bytes",
     "OsStr :: from_bytes ( $(e) )",
     "shim_osstr_from_bytes ( $(e) )",
     "OsStrExt::from_bytes")

rule("D6.position_byte",
     "$recv . iter ( ) . position ( | & c | c == $b:char )",
     "shim_position_byte ( $recv , $b )",
     "slice.iter().position(|&c| c == BYTE): index of the first occurrence")

rule("D6.lossy_owned",
     "String :: from_utf8_lossy ( $(e) ) . into_owned ( )",
     "shim_lossy_owned ( $(e) )",
     "String::from_utf8_lossy(bytes).into_owned()")

rule("D1.for_subslice",
     "for $c:id in & $s:id [ $(a) .. $(b) ] {",
     "let __s = & $s [ $(a) .. $(b) ] ; let mut __k : usize = 0 ; while __k < __s . len ( ) { let $c = & __s [ __k ] ; __k += 1 ;",
     "for c in &S[a..b] {..} -> indexed while loop over the sub-slice taken once (break/continue keep their meaning: the index is advanced first)")

rule("D6.string_starts_with_char",
     "$recv . starts_with ( $c:char )",
     "shim_string_starts_with_char ( & $recv , $c )",
     "String::starts_with(char)")

rule("D6.osstring_from_cmd",
     "OsString :: from ( cmd )",
     "shim_osstring_from_string ( cmd )",
     "OsString::from(String) (error payload)")

rule("D6.osstring_from_osstr",
     "OsString :: from ( $(e) )",
     "shim_osstring_from_osstr ( $(e) )",
     "OsString::from(&OsStr)")

rule("D6.string_from_utf8_os",
     "String :: from_utf8 ( $x:id . as_bytes ( ) . to_vec ( ) )",
     "shim_string_from_utf8_os ( $x )",
     "String::from_utf8(os.as_bytes().to_vec())")

rule("D6.opt_os_to_str",
     "$recv . and_then ( OsStr :: to_str )",
     "shim_opt_os_to_str ( $recv )",
     "Option<&OsStr>::and_then(OsStr::to_str)")

rule("D14.question_mark",
     "$recv ?",
     "( match $recv { Ok ( __v ) => __v , Err ( __e ) => return Err ( From :: from ( __e ) ) } )",
     "`EXPR?` on a Result written out (its definition): Verus gives the built-in `?` no From specification when the error type is converted")

rule("D5.entry_and_modify_push",
     "$recv . entry ( $k:id ) . and_modify ( | $e:id | $e2:id . push ( & $v:id ) ) . or_insert ( $v2:id ) ;",
     "match $recv . entry ( $k ) { std :: collections :: hash_map :: Entry :: Occupied ( mut __o ) => { __o . get_mut ( ) . push ( & $v ) ; } std :: collections :: hash_map :: Entry :: Vacant ( __v ) => { __v . insert ( $v2 ) ; } }",
     "HashMap::entry(k).and_modify(|e| e.push(&v)).or_insert(v): the two Entry cases written out")

rule("D6.str_lines",
     "$recv . lines ( )",
     "shim_lines ( $recv )",
     "str::lines() collected into a Vec<&str>")

rule("D6.splitn2_eq",
     "$recv . splitn ( 2 , '=' ) . collect ( )",
     "shim_splitn2_eq ( $recv )",
     "str::splitn(2, '=').collect::<Vec<&str>>()")

rule("D6.parse_i64_index",
     "v [ 1 ] . parse :: < i64 > ( )",
     "shim_parse_i64_full ( v [ 1 ] )",
     "str::parse::<i64>() with optional sign")

rule("D14.question_mark_parse",
     "shim_parse_i64_full ( v [ 1 ] ) ?",
     "( match shim_parse_i64_full ( v [ 1 ] ) { Ok ( __v ) => __v , Err ( __e ) => return Err ( From :: from ( __e ) ) } )",
     "`EXPR?` with an error conversion written out (definition of `?`), for the two integer fields")

rule("D6.io_invalid_data_tc",
     "io :: Error :: new ( io :: ErrorKind :: InvalidData , $e:id , )",
     "shim_io_invalid_data ( $e )",
     "same as D6.io_invalid_data, call written with a trailing comma")

rule("D6.io_invalid_data",
     "io :: Error :: new ( io :: ErrorKind :: InvalidData , $e:id )",
     "shim_io_invalid_data ( $e )",
     "io::Error::new(InvalidData, payload): an io::Error of kind InvalidData (the payload is not modelled; the shim body drops it)")

rule("D6.rfind_lit",
     "$recv . rfind ( $l:str )",
     "shim_rfind_str ( $recv , $l )",
     "str::rfind(&str literal): byte index of the last occurrence")

rule("D6.split_terminator_lit",
     "$recv . split_terminator ( $l:str )",
     "shim_split_terminator ( $recv , $l )",
     "str::split_terminator(&str literal) collected into a Vec<&str>")

rule("D8.write_lit",
     "write ! ( f , $l:str )",
     "shim_fmt_str ( f , $l )",
     "write!(f, \"literal\"): Formatter::write_str of the literal")

rule("D8.writeln_kv_s",
     "writeln ! ( f , \"{}={}\" , key , s )",
     "fmt_kv_str ( f , key , s )",
     "writeln!(f, \"{}={}\", key, s): Display::fmt(key), \"=\", the string, \"\\n\" in sequence (helper verified in the unit)")

rule("D8.writeln_kv_i",
     "writeln ! ( f , \"{}={}\" , key , i )",
     "fmt_kv_i64 ( f , key , i )",
     "writeln!(f, \"{}={}\", key, i) for an i64 value")

rule("D15.sorted_entries",
     "let mut bmap = BTreeMap :: new ( ) ; for ( key , val ) in & self . entries { bmap . insert ( key , val ) ; } for ( key , val ) in bmap {",
     "for ( key , val ) in shim_sorted_entries ( & self . entries ) {",
     "copying a HashMap's (&K,&V) pairs into a BTreeMap and iterating it by value: all pairs, each once, in increasing key order")

rule("D6.split_nl_bytes",
     "$recv . split ( | c | * c == b'\\n' )",
     "shim_split_nl ( $recv )",
     "<[u8]>::split(|c| *c == b'\\n') collected into a Vec<&[u8]>")

rule("D6.split_ascii_ws",
     "$recv . split ( | c | c . is_ascii ( ) && ( * c as char ) . is_whitespace ( ) )",
     "shim_split_ascii_ws ( $recv )",
     "<[u8]>::split(|c| c is ASCII whitespace) collected into a Vec<&[u8]>")

rule("D6.slice_starts_with_lit",
     "$recv . starts_with ( $l:str )",
     "shim_slice_starts_with ( $recv , $l )",
     "<[u8]>::starts_with(b\"literal\")")

rule("D6.osstring_from_vec_line",
     "OsString :: from_vec ( ( * line ) . to_vec ( ) )",
     "shim_osstring_from_slice ( line )",
     "OsString::from_vec(slice.to_vec())")

rule("D6.string_from_utf8_slice",
     "String :: from_utf8 ( s . to_vec ( ) )",
     "shim_string_from_utf8_slice ( s )",
     "String::from_utf8(slice.to_vec())")

rule("D6.path_push_osstr",
     "path . push ( shim_osstr_from_bytes ( $(e) ) )",
     "shim_pathbuf_push_bytes ( & mut path , $(e) )",
     "PathBuf::push(OsStr::from_bytes(bytes))")

rule("D6.slice_ne_lit",
     "s != $l:str",
     "shim_slice_ne ( s , $l )",
     "<[u8]>::ne(b\"literal\")")

rule("D6.u64_from_str",
     "u64 :: from_str ( & value )",
     "shim_parse_u64 ( value . as_str ( ) )",
     "u64::from_str(&String)")

rule("D6.string_eq_lit",
     "action == $l:str",
     "shim_string_eq_str ( & action , $l )",
     "String == &str literal")

rule("D6.str_to_lowercase",
     "$recv . to_lowercase ( )",
     "shim_to_lowercase ( $recv )",
     "str::to_lowercase() (Unicode)")

rule("D6.path_file_name",
     "path . file_name ( )",
     "shim_path_file_name ( path )",
     "Path::file_name()")

rule("D6.os_to_string_lossy",
     "p . to_string_lossy ( )",
     "shim_os_lossy ( p )",
     "OsStr::to_string_lossy() as an owned String (the Cow is only read)")

rule("D6.s_starts_with",
     "s . starts_with ( $l:str )",
     "shim_starts_with_str ( & s , $l )",
     "String/Cow<str>::starts_with(literal)")

rule("D6.s_ends_with",
     "s . ends_with ( $l:str )",
     "shim_ends_with_str ( & s , $l )",
     "String/Cow<str>::ends_with(literal)")

rule("D6.s_strip_prefix_contains",
     "s . strip_prefix ( $a:str ) . is_some_and ( | rest | rest . contains ( $b:str ) )",
     "shim_strip_prefix_contains ( & s , $a , $b )",
     "s.strip_prefix(a).is_some_and(|rest| rest.contains(b))")

rule("D6.s_contains",
     "s . contains ( $l:str )",
     "shim_contains_str ( & s , $l )",
     "String/Cow<str>::contains(literal)")

rule("D8.format_digest_open",
     "format ! ( \"{}\u2423(\" , c . digest ) . as_bytes ( )",
     "& shim_fmt_digest_open ( & c . digest )",
     "format!(\"{} (\", digest).as_bytes(): Display of the digest followed by \" (\", as bytes")

rule("D8.format_close_hash",
     "format ! ( \")\u2423=\u2423{}\\n\" , c . hash ) . as_bytes ( )",
     "& shim_fmt_close_hash ( & c . hash )",
     "format!(\") = {}\\n\", hash).as_bytes()")

rule("D8.format_close_size",
     "format ! ( \")\u2423=\u2423{}\u2423bytes\\n\" , size ) . as_bytes ( )",
     "& shim_fmt_close_size ( size )",
     "format!(\") = {} bytes\\n\", size).as_bytes()")

rule("D6.path_as_bytes",
     "filename . as_os_str ( ) . as_bytes ( )",
     "shim_path_bytes ( filename )",
     "Path::as_os_str().as_bytes()")

rule("D6.imap_values",
     "$recv . values ( )",
     "shim_imap_values ( & $recv )",
     "IndexMap::values() collected into a Vec<&Entry> (insertion order)")

rule("D6.osstring_as_bytes",
     "s . as_bytes ( )",
     "shim_osstring_bytes ( s )",
     "OsString::as_bytes()")

rule("D6.file_open_q",
     "File :: open ( path ) ?",
     "( match shim_file_open ( path ) { Ok ( __v ) => __v , Err ( __e ) => return Err ( From :: from ( __e ) ) } )",
     "File::open(path)? : world function + `?` written out (D14)")

rule("D6.file_metadata_len_q",
     "f . metadata ( ) ? . len ( )",
     "( match shim_file_len ( & f ) { Ok ( __v ) => __v , Err ( __e ) => return Err ( From :: from ( __e ) ) } )",
     "f.metadata()?.len() : world function + `?` written out (D14)")

rule("D6.hash_file_q",
     "c . digest . hash_file ( & mut f ) ?",
     "( match c . digest . hash_file ( & mut f ) { Ok ( __v ) => __v , Err ( __e ) => return Err ( From :: from ( __e ) ) } )",
     "Digest::hash_file(&mut file)? with the error conversion written out (D14); the callee's contract is imported from unit digest")

rule("D6.hash_patch_q",
     "c . digest . hash_patch ( & mut f ) ?",
     "( match c . digest . hash_patch ( & mut f ) { Ok ( __v ) => __v , Err ( __e ) => return Err ( From :: from ( __e ) ) } )",
     "Digest::hash_patch(&mut file)? with the error conversion written out (D14); the callee's contract is imported from unit digest")

rule("D6.string_ne_field",
     "hash != c . hash",
     "shim_string_ne ( & hash , & c . hash )",
     "String != String")

rule("D6.digest_ne",
     "digest != c . digest",
     "shim_digest_ne ( & digest , & c . digest )",
     "derived PartialEq of the field-less Digest enum")

rule("D6.path_iter_rev",
     "path . iter ( ) . rev ( )",
     "shim_path_iter_rev ( path )",
     "Path::iter().rev() collected: the components, last first")

rule("D6.parent_is_none",
     "file . parent ( ) . is_none ( )",
     "shim_parent_is_none ( & file )",
     "PathBuf::parent().is_none()")

rule("D6.pathbuf_from_join",
     "PathBuf :: from ( component ) . join ( file )",
     "shim_pathbuf_join ( component , file )",
     "PathBuf::from(component).join(file)")

rule("D6.pathbuf_from_component",
     "PathBuf :: from ( component )",
     "shim_pathbuf_from ( component )",
     "PathBuf::from(&OsStr)")

rule("D1.for_self_checksums_while",
     "for c in & self . checksums {",
     "let mut __i_c : usize = 0 ; while __i_c < self . checksums . len ( ) { let c = & self . checksums [ __i_c ] ; __i_c += 1 ;",
     "for c in &self.checksums {..} with `continue` in the body -> indexed while loop (index advanced first)")

rule("D6.readdir_next_q",
     "self . readdir . as_mut ( ) . expect ( \"Bad\u2423pkgdb\u2423read\" ) . next ( ) ?",
     "( match shim_readdir_next ( & mut self . readdir ) { Some ( __v ) => __v , None => return None } )",
     "Option<ReadDir>::as_mut().expect(..).next()? : world iterator; the expect() stays as the shim's `requires` (is Some); `?` on Option written out")

rule("D6.dirent_file_name",
     "dir . file_name ( )",
     "shim_dirent_file_name ( & dir )",
     "DirEntry::file_name()")

rule("D6.dirent_path",
     "dir . path ( )",
     "shim_dirent_path ( & dir )",
     "DirEntry::path()")

rule("D6.io_invalid_data_lit",
     "io :: Error :: new ( io :: ErrorKind :: InvalidData , $l:str , )",
     "shim_io_invalid_data_msg ( $l )",
     "io::Error::new(InvalidData, \"message\")")

rule("D6.path_is_file",
     "pkgdir . is_file ( )",
     "shim_path_is_file ( pkgdir )",
     "Path::is_file() (file system)")

rule("D6.path_join_exists",
     "pkgdir . join ( file ) . exists ( )",
     "shim_path_join_exists ( pkgdir , file )",
     "Path::join(name).exists() (file system)")

rule("D9.self_item_pkgdb",
     "Self :: Item",
     "io :: Result < Package >",
     "associated type of `impl Iterator for PkgDB` written out (the method is verified as an inherent fn)")

rule("D6.path_join_str",
     "$recv . join ( mentry . to_filename ( ) )",
     "shim_path_join_str ( $recv , mentry . to_filename ( ) )",
     "Path::join(&str)")

rule("D6.fs_read_to_string",
     "fs :: read_to_string ( fname )",
     "shim_read_to_string ( fname )",
     "fs::read_to_string (file system)")

rule("D6.pathbuf_from_str",
     "PathBuf :: from ( path )",
     "shim_pathbuf_from_str ( path )",
     "PathBuf::from(&str)")

rule("D6.path_components",
     "p . components ( ) . collect ( )",
     "shim_components ( & p )",
     "Path::components().collect::<Vec<Component>>()")

rule("D6.pathbuf_from_lit",
     "PathBuf :: from ( $l:str )",
     "shim_pathbuf_from_str ( $l )",
     "PathBuf::from(\"literal\")")

rule("D6.pathbuf_push_clone",
     "f . push ( p . clone ( ) )",
     "shim_pathbuf_push ( & mut f , p . clone ( ) )",
     "PathBuf::push(PathBuf)")

rule("D6.pathbuf_from_comp_osstr",
     "PathBuf :: from ( c [ 2 ] . as_os_str ( ) )",
     "shim_pathbuf_from_comp ( c [ 2 ] )",
     "PathBuf::from(component.as_os_str())")

rule("D6.pathbuf_push_component",
     "s . push ( c [ 3 ] . as_os_str ( ) )",
     "shim_pathbuf_push_comp ( & mut s , c [ 3 ] )",
     "PathBuf::push(component.as_os_str())")

rule("D6.split_colon",
     "s . split ( \":\" ) . collect ( )",
     "shim_split_colon ( s )",
     "str::split(\":\").collect::<Vec<&str>>()")

rule("D14.question_mark_call",
     "$recv ( $(a) ) ?",
     "( match $recv ( $(a) ) { Ok ( __v ) => __v , Err ( __e ) => return Err ( From :: from ( __e ) ) } )",
     "`CALL(args)?` with an error conversion written out (definition of `?`)")

rule("D6.reader_lines",
     "reader . lines ( )",
     "shim_reader_lines ( reader )",
     "BufRead::lines() collected: the world's sequence of io::Result<String> lines")

rule("D6.str_trim",
     "line . trim ( )",
     "shim_trim ( & line )",
     "str::trim()")

rule("D6.line_starts_with_lit",
     "line . starts_with ( $l:str )",
     "shim_starts_with_str ( line , $l )",
     "str::starts_with(literal)")

rule("D6.str_to_index_q",
     "Self :: str_to_index ( & buffer ) ?",
     "( match Self :: str_to_index ( & buffer ) { Ok ( __v ) => __v , Err ( __e ) => return Err ( From :: from ( __e ) ) } )",
     "`?` written out (same error type)")

rule("D6.take_digits",
     "$recv . chars ( ) . take_while ( char :: is_ascii_digit ) . collect ( )",
     "shim_take_ascii_digits ( $recv )",
     "leading run of ASCII digits of a str, as a String")

rule("D6.rsplitn2_dash",
     "$recv . rsplitn ( 2 , '-' ) . collect ( )",
     "shim_rsplitn2_dash ( $recv )",
     "Vec<&str> of at most two pieces, split at the last '-' (last piece first)")

rule("D9.serde_visit_str_sig",
     "fn visit_str < E > ( self , value : & str ) -> Result < Self :: Value , E > where E : de :: Error ,",
     "fn visit_str ( self , value : & str ) -> Result < HashMap < String , String > , DeErr >",
     "serde::de::Visitor::visit_str at Self::Value = HashMap<String,String> with the (never constructed) error type parameter "
     "instantiated by a unit-local empty enum: serde's traits cannot be imported into single-file Verus")

rule("D6.split_once_char",
     "$recv . split_once ( $c:char )",
     "shim_split_once_char ( $recv , $c )",
     "str::split_once at the first occurrence of a char")

rule("D6.trim_to_string",
     "$x:id . trim ( ) . to_string ( )",
     "shim_trim_to_string ( $x )",
     "str::trim().to_string()")


# ---- C16: the serde glue of src/scanindex.rs (impl Deserialize for ScanIndex, str_to_index).  serde's traits cannot be imported
# into single-file Verus: the Deserializer is a unit-local trait with an uninterpreted "text handed to visit_str", the map
# accessors generated by the function's local macros (expanded first by D7.expand_macros) are written out as matches / loops
# over shims whose contracts are the std combinators' documented behaviour.
rule("D9.serde_deserialize_sig",
     "fn deserialize < D > ( deserializer : D )",
     "fn deserialize < 'de , D > ( deserializer : D )",
     "the trait's lifetime parameter declared on the function (the impl block of the unit is an inherent one)")
rule("D9.deserialize_str_kv",
     "deserializer . deserialize_str ( KeyValue ) ?",
     "shim_deserialize_kv ( deserializer ) ?",
     "Deserializer::deserialize_str(KeyValue): the deserializer's text through KeyValue::visit_str (proved in the unit), or its error")
rule("D9.map_get_reqd",
     "map . get ( $k:str ) . ok_or ( de :: Error :: missing_field ( $m:str ) ) ?",
     "shim_get_reqd :: < D :: Error > ( & map , $k , $m ) ?",
     "HashMap::get(key).ok_or(de::Error::missing_field(name))?")
rule("D9.map_get_pkgpath",
     "map . get ( $k:str ) . map ( | v | PkgPath :: new ( v . as_str ( ) ) ) . transpose ( ) . map_err ( de :: Error :: custom ) ?",
     "( match shim_get ( & map , $k ) { None => None , Some ( v ) => match PkgPath :: new ( v ) { Ok ( __p ) => Some ( __p ) , Err ( __e ) => { return Err ( shim_de_custom ( __e ) ) ; } } } )",
     "Option::map(F).transpose().map_err(G)? written out: None stays None, Some(v) is F(v) with its error converted by G and returned")
rule("D9.map_get_string",
     "map . get ( $k:str ) . map ( String :: from )",
     "shim_get_string ( & map , $k )",
     "HashMap<String,String>::get(key).map(String::from)")
rule("D9.map_get_words_strings",
     "map . get ( $k:str ) . map_or ( vec ! [ ] , | v | { v . split_whitespace ( ) . map ( String :: from ) . collect ( ) } )",
     "( match shim_get ( & map , $k ) { None => Vec :: new ( ) , Some ( v ) => shim_words_strings ( v ) } )",
     "Option::map_or(vec![], |v| v.split_whitespace().map(String::from).collect())")
rule("D9.map_get_words_paths",
     "map . get ( $k:str ) . map_or ( vec ! [ ] , | v | { v . split_whitespace ( ) . map ( PathBuf :: from ) . collect ( ) } )",
     "( match shim_get ( & map , $k ) { None => Vec :: new ( ) , Some ( v ) => shim_words_paths ( v ) } )",
     "Option::map_or(vec![], |v| v.split_whitespace().map(PathBuf::from).collect())")
rule("D9.map_get_words_depends",
     "map . get ( $k:str ) . map_or_else ( || Ok ( vec ! [ ] ) , | v | { v . split_whitespace ( ) . map ( Depend :: new ) . map ( | result | result . map_err ( de :: Error :: custom ) ) . collect ( ) } , ) ?",
     "( match shim_get ( & map , $k ) { None => Vec :: new ( ) , Some ( v ) => { let __ws = shim_words ( v ) ; let mut __out = Vec :: new ( ) ; let mut __i : usize = 0 ; "
     "while __i < __ws . len ( ) { match Depend :: new ( __ws [ __i ] ) { Ok ( __d ) => { __out . push ( __d ) ; } Err ( __e ) => { return Err ( shim_de_custom ( __e ) ) ; } } __i += 1 ; } __out } } )",
     "Option::map_or_else(|| Ok(vec![]), |v| v.split_whitespace().map(F).map(|r| r.map_err(G)).collect::<Result<Vec<_>, _>>())? written out: "
     "the items in order, the first failing F(item) converted by G and returned")
rule("D9.str_deserializer_new",
     "StrDeserializer :: < serde :: de :: value :: Error > :: new ( input )",
     "shim_str_deserializer ( input )",
     "serde::de::value::StrDeserializer::new(input): a Deserializer whose deserialize_str hands `input` to the visitor")
rule("D9.deserialize_map_err_io",
     "ScanIndex :: deserialize ( index ) . map_err ( | e | { std :: io :: Error :: new ( std :: io :: ErrorKind :: InvalidData , format ! ( \"Failed\u2423to\u2423parse:\u2423{}\" , e ) , ) } ) ?",
     "( match ScanIndex :: deserialize ( index ) { Ok ( __v ) => __v , Err ( __e ) => { return Err ( shim_invalid_data ( __e ) ) ; } } )",
     "Result::map_err(|e| io::Error::new(InvalidData, format!(..)))? written out")


rule("D8.write_display_string",
     "write ! ( f , \"{}\" , s )",
     "shim_fmt_str ( f , s . as_str ( ) )",
     "write!(f, \"{}\", s) for a String: Formatter::write_str of its text")
rule("D8.write_display_i64",
     "write ! ( f , \"{}\" , i )",
     "shim_fmt_i64 ( f , i )",
     "write!(f, \"{}\", i) for an i64: Display::fmt of the number")
rule("D8.write_display_joined",
     "write ! ( f , \"{}\" , s . join ( \"\\n\" ) )",
     "shim_fmt_joined_nl ( f , s )",
     "write!(f, \"{}\", v.join(\"\\n\")): the lines joined by newlines")
rule("D8.write_dewey_error",
     "write ! ( f , \"Pattern\u2423syntax\u2423error\u2423near\u2423position\u2423{}:\u2423{}\" , self . pos , self . msg )",
     "shim_fmt_dewey_error ( f , self . pos , self . msg )",
     "write!(f, \"Pattern syntax error near position {}: {}\", pos, msg)")
rule("D8.formatter_write_str",
     "formatter . write_str ( $l:str )",
     "shim_fmt_str ( formatter , $l )",
     "Formatter::write_str(literal)")


def fold_string_to_loop(toks):
    """`let NAME = X . iter ( ) . fold ( String :: new ( ) , | mut ACC , B | { STMTS ACC } ) ;`  ->
    `let __fin = X ; let mut ACC = String :: new ( ) ; for B in __fin . iter ( ) { STMTS } let NAME = ACC ;`
    (the definition of Iterator::fold with a by-value accumulator that the closure returns unchanged after mutating it)"""
    out = list(toks)
    count = 0
    i = 0
    while i < len(out):
        # find `. iter ( ) . fold ( String :: new ( ) , | mut ACC , B | {`
        tx = [t.text for t in out[i:i + 21]]
        if tx[:12] == [".", "iter", "(", ")", ".", "fold", "(", "String", "::", "new", "(", ")"] and tx[12:15] == [",", "|", "mut"] and \
                tx[16] == "," and tx[18] == "|" and tx[19] == "{":
            acc, b = tx[15], tx[17]
            body_open = i + 19
            body_close = match_close(out, body_open)
            fold_close = match_close(out, i + 6)
            if fold_close != body_close + 1 or out[body_close - 1].text != acc or out[fold_close + 1].text != ";":
                i += 1
                continue
            # receiver expression X: back to the `=` of `let NAME =`
            k = i - 1
            depth = 0
            while k >= 0:
                if out[k].text in CLOSE:
                    depth += 1
                elif out[k].text in OPEN:
                    depth -= 1
                elif out[k].text == "=" and depth == 0:
                    break
                k -= 1
            if k < 2 or out[k - 2].text != "let":
                i += 1
                continue
            name = out[k - 1].text
            line = out[k].line
            recv = out[k + 1:i]
            stmts = out[body_open + 1:body_close - 1]
            new = T("let __fin =", line) + recv + T("; let mut %s = String :: new ( ) ; for %s in __fin . iter ( ) {" % (acc, b), line) + stmts + \
                T("} let %s = %s ;" % (name, acc), out[fold_close].line)
            out[k - 2:fold_close + 2] = new
            count += 1
            i = k - 2 + len(new)
            continue
        i += 1
    return out, count


pyrule("D2.fold_string_to_loop", fold_string_to_loop, fold_string_to_loop.__doc__)

rule("D9.drop_io_write_bound",
     "+ std :: io :: Write",
     "",
     "the `std::io::Write` bound of the hasher type parameter is dropped: it is used only by io::copy, which is a world shim here")

rule("D6.io_copy_hasher",
     "std :: io :: copy ( reader , & mut hasher )",
     "shim_io_copy ( reader , & mut hasher )",
     "std::io::copy(reader, &mut hasher): feeds every byte the reader delivers to the hasher's io::Write impl (= update)")

rule("D6.bufreader_split_nl",
     "let bufreader = BufReader :: new ( reader ) ; for line in bufreader . split ( b'\\n' )",
     "for line in shim_reader_split_nl ( reader )",
     "BufReader::new(reader).split(b'\\n') collected: the delimiter-free pieces of the stream, or an I/O error")

rule("D6.windows_any_netbsd",
     "line . windows ( 7 ) . any ( | window | window == b\"$NetBSD\" )",
     "shim_contains_netbsd ( & line )",
     "slice::windows(7).any(|w| w == b\"$NetBSD\"): the 7-byte marker occurs in the line")

rule("D6.hasher_update_vec",
     "hasher . update ( & line )",
     "hasher . update ( line . as_slice ( ) )",
     "Digest::update(impl AsRef<[u8]>) at &Vec<u8>")

rule("D6.hasher_update_str",
     "hasher . update ( s )",
     "hasher . update ( s . as_bytes ( ) )",
     "Digest::update(impl AsRef<[u8]>) at &str")

rule("D8.format_hex2",
     "& format ! ( \"{b:02x}\" )",
     "shim_hex2 ( * b ) . as_str ( )",
     "format!(\"{b:02x}\"): two lower-case hex digits of a byte (checked for all 256 values at run time in the thorough tier)")

rule("D6.file_metadata_len_q_file",
     "file . metadata ( ) ? . len ( )",
     "( match shim_file_len ( & file ) { Ok ( __v ) => __v , Err ( __e ) => return Err ( From :: from ( __e ) ) } )",
     "file.metadata()?.len() (file system)")

rule("D6.hash_file_q_digest",
     "digest . hash_file ( & mut f ) ?",
     "( match digest . hash_file ( & mut f ) { Ok ( __v ) => __v , Err ( __e ) => return Err ( From :: from ( __e ) ) } )",
     "Digest::hash_file(&mut file)? with the error conversion written out (D14); the callee's contract is imported from unit digest")

rule("D6.hash_patch_q_digest",
     "digest . hash_patch ( & mut f ) ?",
     "( match digest . hash_patch ( & mut f ) { Ok ( __v ) => __v , Err ( __e ) => return Err ( From :: from ( __e ) ) } )",
     "Digest::hash_patch(&mut file)? with the error conversion written out (D14); the callee's contract is imported from unit digest")

rule("D6.imap_values_collect",
     "$recv . values ( ) . collect ( )",
     "shim_imap_values ( & $recv )",
     "IndexMap::values().collect::<Vec<&V>>()")


def generic_path_params2(toks):
    """fn f<P1, P2>(a: P1, b: P2, ..) where P1: AsRef<Path>, P2: AsRef<Path>, { .. a.as_ref() .. }  ->  the instance at
    P1 = P2 = &Path (as_ref on &Path is the identity)"""
    out = list(toks)
    count = 0
    i = 0
    while i < len(out):
        tx = [t.text for t in out[i:i + 16]]
        if tx[:5] == ["<", "P1", ",", "P2", ">"]:
            del out[i:i + 5]
            count += 1
            continue
        if tx[:15] == ["where", "P1", ":", "AsRef", "<", "Path", ">", ",", "P2", ":", "AsRef", "<", "Path", ">", ","]:
            del out[i:i + 15]
            count += 1
            continue
        if tx[:2] == [":", "P1"] or tx[:2] == [":", "P2"]:
            out[i + 1:i + 2] = T("& Path", out[i].line)
            count += 1
        if tx[:4] == [".", "as_ref", "(", ")"] and i > 0 and out[i - 1].text in ("filename", "filepath"):
            del out[i:i + 4]
            count += 1
            continue
        i += 1
    return out, count


pyrule("D9.generic_path_params2", generic_path_params2, generic_path_params2.__doc__)

rule("D6.parse_i64_full_string",
     "$recv . parse :: < i64 > ( )",
     "shim_parse_i64_full ( $recv . as_str ( ) )",
     "String -> str::parse::<i64>() (optional sign, decimal digits, within range)")

rule("D6.string_lines",
     "$recv . lines ( )",
     "shim_lines ( $recv . as_str ( ) )",
     "String -> str::lines() collected")

rule("D6.path_is_dir_p",
     "p . is_dir ( )",
     "shim_path_is_dir ( p )",
     "Path::is_dir (file system)")

rule("D6.path_is_file_p",
     "p . is_file ( )",
     "shim_path_is_file ( p )",
     "Path::is_file (file system)")

rule("D6.pathbuf_from_path_p",
     "PathBuf :: from ( p )",
     "shim_pathbuf_from_path ( p )",
     "PathBuf::from(&Path)")

rule("D6.fs_read_dir",
     "fs :: read_dir ( & db . path )",
     "shim_read_dir ( & db . path )",
     "fs::read_dir (file system)")

rule("D6.io_not_found",
     "io :: Error :: new ( io :: ErrorKind :: NotFound , $l:str , )",
     "shim_io_not_found ( $l )",
     "io::Error::new(NotFound, literal)")

rule("D6.opt_map_join_nl",
     "$recv . map ( | d | d . join ( \"\\n\" ) )",
     "shim_opt_join_nl ( $recv )",
     "Option<&[String]>::map(|d| d.join(\"\\n\"))")

rule("D8.writeln_display_summary",
     "writeln ! ( f , \"{}\" , summary ) ? ;",
     "summary . fmt ( f ) ? ; shim_fmt_str ( f , \"\\n\" ) ? ;",
     "writeln!(f, \"{}\", summary)?: Display of Summary (the inherent fmt proved in the unit) followed by a newline")

rule("D6.string_ne_lit",
     "action != $l:str",
     "! shim_string_eq_str ( & action , $l )",
     "String != \"literal\" (cross-type comparison, unspecified in vstd)")


def let_else_continue(toks):
    """`let PAT = EXPR else { continue; } ; REST` (REST = the remaining statements of the loop body)  ->  `if let PAT = EXPR { REST }`.
    Verus for-loops do not support `continue`; skipping the rest of the body is what `continue` does."""
    out = list(toks)
    count = 0
    i = 0
    while i < len(out):
        if out[i].kind == "id" and out[i].text == "let":
            # find `else {` at depth 0 before the terminating `;`
            j = i + 1
            depth = 0
            else_at = None
            while j < len(out):
                tx = out[j].text
                if tx in OPEN:
                    depth += 1
                elif tx in CLOSE:
                    if depth == 0:
                        break
                    depth -= 1
                elif tx == ";" and depth == 0:
                    break
                elif tx == "else" and depth == 0 and j + 1 < len(out) and out[j + 1].text == "{":
                    else_at = j
                    break
                j += 1
            if else_at is not None:
                c = match_close(out, else_at + 1)
                inner = [x.text for x in out[else_at + 2:c]]
                if inner in (["continue"], ["continue", ";"]) and c + 1 < len(out) and out[c + 1].text == ";":
                    # enclosing block close
                    depth = 0
                    k = c + 2
                    while k < len(out):
                        if out[k].text in OPEN:
                            depth += 1
                        elif out[k].text in CLOSE:
                            if depth == 0:
                                break
                            depth -= 1
                        k += 1
                    line = out[i].line
                    head = T("if", line) + out[i:else_at]                 # `if let PAT = EXPR`
                    rest = out[c + 2:k]
                    new = head + T("{", line) + rest + T("}", out[k].line if k < len(out) else line)
                    out[i:k] = new
                    count += 1
                    i += len(head) + 1
                    continue
        i += 1
    return out, count


pyrule("D17.let_else_continue", let_else_continue, let_else_continue.__doc__)


# ---- mirrored / negated spellings of the comparisons that have no vstd specification (String, str, [u8], Digest operands)
also("D6.string_ne_field", "c . hash != hash", "shim_string_ne ( & hash , & c . hash )")
also("D6.string_ne_field", "hash == c . hash", "! shim_string_ne ( & hash , & c . hash )")
also("D6.string_ne_field", "c . hash == hash", "! shim_string_ne ( & hash , & c . hash )")
also("D6.digest_ne", "c . digest != digest", "shim_digest_ne ( & digest , & c . digest )")
also("D6.digest_ne", "digest == c . digest", "! shim_digest_ne ( & digest , & c . digest )")
also("D6.digest_ne", "c . digest == digest", "! shim_digest_ne ( & digest , & c . digest )")
also("D6.str_lt", "pkg2 > pkg1", "shim_str_lt ( pkg1 , pkg2 )")
also("D6.str_lt", "pkg1 >= pkg2", "! shim_str_lt ( pkg1 , pkg2 )")
also("D6.str_lt", "pkg2 <= pkg1", "! shim_str_lt ( pkg1 , pkg2 )")
also("D6.str_lt", "pkg2 < pkg1", "shim_str_lt ( pkg2 , pkg1 )")
also("D6.str_lt", "pkg1 > pkg2", "shim_str_lt ( pkg2 , pkg1 )")
also("D6.str_lt", "pkg2 >= pkg1", "! shim_str_lt ( pkg2 , pkg1 )")
also("D6.str_lt", "pkg1 <= pkg2", "! shim_str_lt ( pkg2 , pkg1 )")
also("D6.string_eq_lit", "$l:str == action", "shim_string_eq_str ( & action , $l )")
also("D6.string_eq_lit", "action != $l:str", "! shim_string_eq_str ( & action , $l )")
also("D6.string_eq_lit", "$l:str != action", "! shim_string_eq_str ( & action , $l )")
also("D6.slice_ne_lit", "$l:str != s", "shim_slice_ne ( s , $l )")
also("D6.slice_ne_lit", "s == $l:str", "! shim_slice_ne ( s , $l )")
