"""Property -> verification units table.  `units` are spec templates in /verif/specs.
`entry_fns` (optional) restricts the obligations that decide the property to the listed
functions of a unit (otherwise: every function tagged with the property by a `//@ prop`
directive, or untagged)."""

VERUS_TRUST = "Trusted: Verus/Z3/rustc; vstd's specifications of Vec, slices, str (len, as_bytes, chars, slicing preconditions), Option/Result; "

PROPS = {
    "C01": {
        "units": ["dewey", "pattern", "pkgname"],
        "always_devs": [],
        "design_ref": "DESIGN.md section 8 / C01",
        "replay": "dewey",
        "level_text": "Unbounded proof on the real functions: DeweyVersion::new (loop invariant over a ghost character index, "
                      "per-token-class unfolding lemmas) returns exactly the statement's token sequence vtok(s) for every string whose "
                      "digit runs have at most 18 digits, and dewey_cmp/dewey_test return op_holds(op, cmp3(..)) for all component "
                      "vectors. One recorded known finding (letter value = ASCII code, not rank) is isolated by a named deviation.",
        "level_note": VERUS_TRUST + "assumed std contracts: str::to_ascii_lowercase, String::len, Result::unwrap_or, char::is_ascii_* (scalar), "
                      "shims for take_while(is_ascii_digit).collect, parse::<i64> (1..18 digits only), starts_with(literal); "
                      "axioms |s| <= usize::MAX and the byte range of &s[a..b]. UTF-8 offset facts are proved from vstd::utf8, not assumed.",
    },
    "C02": {
        "units": ["dewey", "pattern", "pkgname"],
        "always_devs": ["letter_value_is_ascii_code"],
        "design_ref": "DESIGN.md section 8 / C02",
        "replay": "dewey",
        "level_text": "Unbounded proof on the real functions: Dewey::new returns Ok exactly for patterns with one operator or a "
                      "lower-then-upper pair (operators located over all chars, '=' suffix, byte/char offset lemmas proved from vstd::utf8), "
                      "with base = text before the first operator and bounds = vtok of the texts between operators; Dewey::matches returns "
                      "exactly dmatch: last '-' split, byte-equal base, every bound holding under cmp3. todo!() and every slice are "
                      "proved unreachable/in range.",
        "level_note": VERUS_TRUST + "shims (assumed std contracts): match_indices(&['>','<']), str::get(a..b), rsplitn(2,'-'), "
                      "&str != String, s[a..b].to_string(); axiom: str values with equal chars are equal (string-literal patterns). "
                      "Letter-value deviation of C01 is enabled (immaterial here). Agreement with Pattern::matches is unit pattern's contract (C05).",
    },
    "C03": {
        "units": ["dewey"],
        "always_devs": ["letter_value_is_ascii_code"],
        "design_ref": "DESIGN.md section 8 / C03",
        "replay": "dewey",
        "level_text": "Unbounded proof: dewey_test/dewey_cmp (real code, extracted each run) are proved equal to the "
                      "statement-derived comparison cmp3 for all component vectors of all lengths (three loop invariants), and "
                      "reflexivity, antisymmetry/swap, trichotomy, duality and transitivity are lemmas over cmp3.",
        "level_note": VERUS_TRUST + "assumed contract of core::cmp::min. "
                      "The laws are over arbitrary integer vectors, so they cover whatever DeweyVersion::new returns on any string.",
    },
    "C04": {
        "units": ["pattern", "dewey", "pkgname"],
        "always_devs": ["letter_value_is_ascii_code"],
        "design_ref": "DESIGN.md section 8 / C04",
        "replay": "pattern",
        "level_text": "Unbounded proof on the real functions: Pattern::new accepts a brace pattern exactly when its braces are "
                      "properly nested (scan invariant over all chars); alternate_match (mutually recursive with matches/new, "
                      "termination by the number of '{') returns exactly amatch: some comma-separated alternative of the right-most "
                      "group, substituted, matches as a pattern in its own right (pmatch: dewey / glob / plain, false when it does not "
                      "compile). theorem_expansion (lib/brace_expansion.rs, proved for all patterns and names, no axiom): for a balanced brace "
                      "pattern p, pmatch(p, name) <==> exists e. dhas(p, e) && pmatch(e, name), where dhas is the csh expansion as a denotation "
                      "of the text (text without '{' stands for itself; A{I}C - first '{', its depth-matching '}' - stands for A, then an "
                      "expansion of one alternative of I split at the commas of I's own depth, empty alternatives included, then an expansion "
                      "of C); theorem_expansion_shape: the expansion of a balanced pattern is non-empty and its strings contain no braces. The "
                      "proof replaces an innermost group anywhere in a pattern by its alternatives (lemma_ctx, induction on the context) and "
                      "so is independent of the order in which groups are substituted. theorem_csh: on balanced patterns the denotation equals the "
                      "OPERATIONAL reading of csh expansion - substitute one alternative of the first group (first '{', its depth-matching '}', "
                      "alternatives split at commas of the group's own depth), expand the result further (csh_has) - via a product lemma "
                      "(dhas(x + c) = dhas(x) . dhas(c) for balanced x) over a depth-profile characterisation of scan/seek; theorem_c04_csh states "
                      "the property in that reading. Nothing about the expansion is bounded any more; the thorough tier still runs the real matcher "
                      "against an executable transcription of the operational expander for all patterns up to length 10 (a check of the trusted base).",
        "level_note": VERUS_TRUST + "shims: rfind/find(char), split(','), format!(\"{}{}{}\"), contains(char), split_at (vstd); glob crate as "
                      "uninterpreted glob_ok/glob_match; contracts of Dewey::new/matches imported from unit dewey (verified in the same run).",
    },
    "C05": {
        "units": ["pattern", "dewey", "pkgname"],
        "always_devs": ["letter_value_is_ascii_code"],
        "design_ref": "DESIGN.md section 8 / C05",
        "replay": "pattern",
        "level_text": "Unbounded proof: Pattern::new dispatches exactly by the statement's table (braces, then '<' '>', then any of * ? [ ], "
                      "else plain) and reports a glob compile error; matches returns pmatch: identical string for plain patterns, "
                      "glob_match for globs; quick_pkg_match equals the two-character test `quick`, and lemma_quick_inert proves "
                      "!quick(p,n) ==> !pmatch(p,n) for every pattern kind (by induction on brace groups), so the early return never changes an answer.",
        "level_note": VERUS_TRUST + "that glob_match IS shell-glob semantics is the glob crate's contract (assumed, not proved); axiom G1: a compiled "
                      "glob's leading alphanumeric/'-' characters only match themselves; char::is_ascii_alphanumeric (scalar, Kani-checked in thorough).",
    },
    "C06": {
        "units": ["pattern", "dewey", "pkgname"],
        "always_devs": ["letter_value_is_ascii_code"],
        "design_ref": "DESIGN.md section 8 / C06",
        "replay": "pattern",
        "level_text": "Unbounded proof: best_match returns None iff neither matches, the only matching one, or best(a,b) = higher "
                      "dewey version with ties to the byte-wise smaller name; `better` is proved a strict total order on names "
                      "(from the C03 laws + lexicographic order lemmas + injectivity of UTF-8 encoding), best is commutative, and every "
                      "pairwise reduction tree over the same candidates yields the same winner (lemma_reduction_order_independent).",
        "level_note": VERUS_TRUST + "shim: str < str is byte-wise lexicographic (assumed std contract); contracts of DeweyVersion::new, dewey_cmp, "
                      "PkgName::new/pkgversion imported from the units that prove them (run in the same check). Reduction lemma is stated over matching candidates.",
    },
    "C07": {
        "units": ["summary"],
        "design_ref": "DESIGN.md section 8 / C07",
        "replay": "summary",
        "level_text": "Unbounded proof on the real functions: `impl Display for Summary` writes exactly render(view): one 'VAR=value' line per "
                      "value, variables in the fixed pkg_summary order - a function of the current values only, which is history "
                      "independence, because every setter/pusher is proved to produce view == old view updated at its own key; "
                      "`impl Display for SummaryVariable` is the 23-name table and lemma_name_roundtrip proves parse(print(v)) == v with no '=' or line break in a name. "
                      "The round trip is a THEOREM over those two contracts (lib/summary_roundtrip.rs): for every canonical value assignment m (all required variables, values of the right "
                      "kind, no CR/LF inside values, non-empty line lists) parse_entry(render(m)) == Ok(m) (theorem_parse_render, by induction over the variables in pkg_summary order: "
                      "lines_spec of a newline-terminated block, one step per printed line, present_vars proved duplicate-free and complete), hence render(parse_entry(t)) == t for canonical text t.",
        "level_note": VERUS_TRUST + "Formatter output modelled by an uninterpreted fout(); shims: Formatter::write_str, Display for i64 (text "
                      "assumed to print the decimal text int_text; that it re-parses to the same value is proved, lemma_int_text_i64), and shim_sorted_entries: copying the HashMap into a BTreeMap<&K,&V> and iterating it "
                      "yields every pair once in the derived (declaration) order of the key enum; writeln!(f, \"{}={}\", k, v) replaced by a helper "
                      "verified in the unit that calls the pieces in format_args! order (D8).",
    },
    "C08": {
        "units": ["summary"],
        "design_ref": "DESIGN.md section 8 / C08",
        "replay": "summary",
        "level_text": "Unbounded proof on the real functions: Summary::from_str returns exactly parse_entry(text): a fold over the lines "
                      "(value = everything after the first '=', single-valued variables overwrite, multi-line variables accumulate in input "
                      "order, FILE_SIZE/SIZE_PKG must be i64 text), failing with ParseLine / ParseVariable / ParseInt at the first offending "
                      "line, then Incomplete(first missing of the eleven required variables); SummaryVariable::from_str is proved to be the "
                      "23-name table; is_completed == all eleven present; the 23 setters, 6 pushers and 25 getters each touch exactly their "
                      "own variable (view == old view updated at that key) and keep the representation invariant.",
        "level_note": VERUS_TRUST + "vstd HashMap specs + axiom that the derived Hash/Eq of SummaryVariable obey the key model; shims: str::lines, "
                      "splitn(2,'='), parse::<i64> (signed decimal text within range); `?` with conversion written out (D14). Public methods "
                      "carry `requires wf()`: the representation invariant is established by new()/default() and preserved by every method.",
    },
    "C09": {
        "units": ["summary"],
        "design_ref": "DESIGN.md section 8 / C09",
        "replay": "summary",
        "level_text": "Proof per call: SummaryStream::write (real code) is proved equal to write_spec on the abstract state (buffer bytes, "
                      "entry views): usable UTF-8 prefix (an incomplete trailing character is kept, a definitely invalid sequence is "
                      "InvalidData), cut after the last blank-line separator, every completed record parsed with Summary::from_str, "
                      "Ok(all input consumed) with the remainder buffered, or InvalidData with exactly the entries before the first bad record. "
                      "Independence of the chunking is a THEOREM over write_spec (lib/stream_chunks.rs, theorem_chunking): for every well-formed stream (records without blank lines inside, each followed by a blank line, each parsing) and EVERY partition of its bytes into successive writes - cuts inside the separator, inside a record, inside a multi-byte character - every write is Ok and the final state holds exactly the records in order with an empty buffer, the same as one write of the whole stream (lemma_step: the state after q bytes is a function of q alone; separators are exactly the record ends; split_term of the complete records gives the records back). That a stream prefix cut inside a multi-byte character is invalid UTF-8 and that its longest valid prefix ends at the previous character is PROVED from vstd::utf8 (lemma_mid_char: a strict prefix of one character's encoding is not valid UTF-8, lemma_char_prefix_invalid; the cut is at a leading byte, hence a character boundary). One axiom is left: such a prefix is what from_utf8 reports with error_len() == None (axiom_incomplete_char: the meaning of an uninterpreted std result). The malformed-entry clause is theorem_chunking_malformed: if record b is the first that does not parse, then under EVERY partition the sequence of writes fails with exactly the entries of records 0..b, and the failing write is the first one that completes record b (lemma_step_bad). The last clause is theorem_stream_print: for a stream of canonical records (record i = the printed form of a canonical entry m_i without its final newline) the stream is well formed, the collected entries are exactly m_0..m_n-1, and render_all of them - what Display for SummaryStream is proved to print on the real function - is the stream, character for character (that a printed entry ends in a newline not preceded by CR is lemma_render_tail; that a final newline does not change str::lines is lemma_lines_final_nl).",
        "level_note": VERUS_TRUST + "assumed contracts: str::from_utf8 / Utf8Error::{valid_up_to,error_len} (error_len None == incomplete trailing "
                      "character, an uninterpreted predicate), rfind(\"\\n\\n\"), str::get, split_terminator, Vec::split_off/extend_from_slice (vstd), "
                      "io::Error::new (payload dropped by the shim).",
    },
    "C10": {
        "units": ["distinfo", "digest"],
        "design_ref": "DESIGN.md section 8 / C10",
        "replay": "distinfo",
        "level_text": "Unbounded proof on the real functions: Distinfo::as_bytes / Entry::as_bytes / push_checksum_line / push_size_line write exactly "
                      "print_distinfo(view): RCS Id (or $NetBSD$), blank line, per distfile its checksum lines in order then its size line, per "
                      "patch its checksum lines - the file name emitted as its raw bytes - and Distinfo::from_bytes is proved equal to "
                      "parse_distinfo (C11). The round trip is a THEOREM over those two contracts (lib/distinfo_roundtrip.rs): for every canonical value v (RCS Id line of any bytes without newline starting '$NetBSD: ', or none; names of any non-whitespace bytes, pairwise path-distinct; hashes non-empty ASCII without blanks; every distfile with a checksum or a size <= u64::MAX; patches with checksums only) parse_distinfo(print_distinfo(v)) == v (theorem_parse_print: field splitting of each printed line, the six algorithm names, u64 text, entry blocks by induction), hence print(parse(t)) == t byte for byte for every canonical file t = print(v).",
        "level_note": VERUS_TRUST + "indexmap::IndexMap as an opaque insertion-ordered map keyed by std::path equality (values(), insert, get, get_mut "
                      "with prophecy-style &mut contract); PathBuf/OsString byte views; format!() shims (`{}` of Digest = its Display, proved to be the "
                      "name table; `{}` of a u64 assumed to print the decimal text int_text; that it re-parses to the same value is proved, lemma_int_text_u64); Digest Display via Formatter shim.",
    },
    "C11": {
        "units": ["distinfo", "digest"],
        "design_ref": "DESIGN.md section 8 / C11",
        "replay": "distinfo",
        "level_text": "Unbounded proof on the real functions: Line::from_bytes == line_spec (leading blanks, comments, '$NetBSD: ' lines, "
                      "fields = maximal runs of non-ASCII-whitespace bytes, '(name)' taken byte for byte, '=' required, Size needs a u64, "
                      "algorithm names case-insensitive; everything else ignored); EntryType::from == the statement's patch classification; "
                      "update_size/update_checksum are proved with full frames (target map only; an existing name keeps its position and gets "
                      "the size set / checksum appended, a new name is appended; the other map, the RCS Id and every other entry unchanged); "
                      "Distinfo::from_bytes == fold of these steps over the '\\n'-separated lines.",
        "level_note": VERUS_TRUST + "IndexMap assumed contract (keys compared by std::path equality: names are identified up to repeated '/' and '.' "
                      "components, pkey uninterpreted); classification is stated over the lossily decoded final path component (Path::file_name, "
                      "to_string_lossy assumed); shims for slice split/starts_with, String::from_utf8, u64::from_str, str::to_lowercase (Unicode, "
                      "uninterpreted; ASCII case folding assumed for ASCII names).",
    },
    "C12": {
        "units": ["distinfo", "digest"],
        "design_ref": "DESIGN.md section 8 / C12",
        "replay": "distinfo",
        "level_text": "Unbounded proof on the real functions over an uninterpreted file system (w_len(path), w_content(path)): Entry::verify_size returns "
                      "Ok(size) iff a size is recorded and the file's length equals it, Size(name, recorded, actual) on a mismatch, MissingSize when "
                      "unrecorded, Io when the file cannot be read; verify_checksum_internal uses the first recorded checksum of that algorithm and "
                      "compares it with hex(std_digest(algorithm, content)) - for patch entries of the content with every '$NetBSD' line removed "
                      "(the contracts of Digest::hash_file/hash_patch are imported from unit digest, which proves them in the same run) - Ok iff "
                      "equal, Checksum(name, algo, expected, actual) otherwise, MissingChecksum when none; Distinfo::find_entry returns the entry of "
                      "the SHORTEST recorded trailing sub-path (found_at), NotFound iff none; Distinfo::verify_size / verify_checksum / "
                      "verify_checksums and Entry::verify_checksum(s) are proved to be exactly lookup-then-verify (one result per recorded checksum, "
                      "in order; a single NotFound when the path is unknown); calculate_size / calculate_checksum return the world's length / digest.",
        "level_note": VERUS_TRUST + "world functions File::open / metadata().len() / reading a File (stream_of(file) == w_content(path)); std_digest is the "
                      "standard algorithm only by assumption on the RustCrypto cores (C13); std::path algebra (components, join, parent, equality) as "
                      "uninterpreted functions with three axioms; IndexMap assumed.",
    },
    "C14": {
        "units": ["plist"],
        "design_ref": "DESIGN.md section 8 / C14",
        "replay": "plist",
        "level_text": "Unbounded proof on the real functions: Plist::from_bytes' scanner is proved to collect exactly `ranges(bytes)` - the "
                      "'\\n'-separated segments containing a non-whitespace byte, in order, with or without a final newline (abstraction "
                      "invariant lines ++ ranges(b,start) == ranges(b,0)) - and to push, for each, PlistEntry::from_bytes of exactly that "
                      "slice (so each entry equals parsing that line alone; first failing line fails the whole parse). PlistEntry::from_bytes "
                      "(macros expanded mechanically) is proved equal to entry_spec: the statement's command table with its "
                      "required/optional/forbidden argument rule, argument = bytes after the first space with leading blanks stripped, "
                      "UTF-8 required for name/dependency/mode/owner/group.",
        "level_note": VERUS_TRUST + "OsStr/OsString as opaque byte containers (S-os shims), String::from_utf8, from_utf8_lossy (ASCII words decode "
                      "to themselves and only to themselves), slice position; char::is_whitespace/u8::is_ascii (vstd / assumed scalar). "
                      "`?` with an error conversion is written out as its defining match (rule D14) so that the Utf8 error kind is pinned.",
    },
    "C15": {
        "units": ["plist"],
        "design_ref": "DESIGN.md section 8 / C15",
        "replay": "plist",
        "level_text": "Unbounded proof on the real functions (iterator chains rewritten mechanically into indexed loops, closure bodies "
                      "inlined): files/files_prefixed/install_cmds/uninstall_cmds return exactly kept_files / cmds of the entry sequence "
                      "(flag automaton: an @ignore anywhere since the previous file drops the next file), prefixed with the most recent "
                      "@cwd (+ '/' unless it ends in one); depends/build_depends/conflicts/pkgdirs/pkgrmdirs return every entry of "
                      "their kind in order, pkgname/display the first, is_preserve iff an @option preserve exists; lemma_cmds_files: "
                      "the file entries of both command lists are exactly files().",
        "level_note": VERUS_TRUST + "rewrite rules D1-D4/D7 (loop forms of filter_map/filter/find_map/count, macro expansion) - the verified "
                      "text is the rewritten form; OsString shims (push, to_os_string, to_string_lossy().ends_with('/')).",
    },
    "C18": {
        "units": ["pkgname", "dewey", "summary"],
        "always_devs": ["letter_value_is_ascii_code"],
        "design_ref": "DESIGN.md section 8 / C18",
        "replay": "pkgname",
        "level_text": "Unbounded proof: PkgName::new (real code) returns exactly the split at the last '-' for every string "
                      "(base ++ '-' ++ version == name), reports Some(N) for every version ending in nb<1..18 digits> and None when the "
                      "version contains no 'nb'; lemma_tok_rev proves by induction over the tokeniser that this N is the revision "
                      "vtok extracts, and DeweyVersion::new is proved equal to vtok (unit dewey).",
        "level_note": VERUS_TRUST + "shims (assumed std contracts) for rsplit_once(char), rsplit_once(\"nb\"), parse::<i64>, String::from, "
                      "Option::or, rfind(char); Summary::pkgbase()/pkgversion() are proved (unit summary) to return base_of/version_of of PKGNAME exactly when both parts are non-empty.",
    },
    "C13": {
        "units": ["digest"],
        "design_ref": "DESIGN.md section 8 / C13",
        "replay": "digest",
        "level_text": "Proof on the real functions MODULO the external cores: with each RustCrypto hasher modelled as an accumulator whose "
                      "finalize() is the (uninterpreted) standard digest of the bytes fed to it, hash_file, hash_patch and hash_str are proved, for all "
                      "six algorithms, to dispatch to the core named after the algorithm, to feed exactly the reader's bytes in order (hash_file, "
                      "hash_str: the same digest through both entry points) or exactly the statement's filtered text (hash_patch: every line "
                      "containing '$NetBSD' removed, every kept line newline-terminated, the final unterminated line counting as terminated), to "
                      "return lower-case hex, two digits per byte in order, and to return Err - never a digest - when the reader reports a hard "
                      "error; Digest::from_str / Display are proved against the name table. NOT proved (assumed, validated only by the bounded "
                      "cross-check of the thorough tier against python hashlib and embedded known answers): that the RustCrypto cores compute the "
                      "standard algorithms, chunking-independently, and that io::copy / BufRead::split deliver the same bytes under every read schedule.",
        "level_note": VERUS_TRUST + "external crates blake2/md-5/ripemd/sha1/sha2/digest as opaque stand-ins (lib/digest_cores.rs: only 'type X implements algorithm X' is stated); "
                      "std_digest and stream_of uninterpreted; shims: io::copy(reader, hasher), BufReader::new(r).split(b'\\n'), windows(7).any(== b\"$NetBSD\"), "
                      "format!(\"{b:02x}\") (checked for all 256 byte values at run time); Iterator::fold rewritten to its defining loop (D2.fold_string_to_loop); "
                      "str::to_lowercase uninterpreted, equal to ASCII lower-casing on ASCII text.",
    },
    "C16": {
        "units": ["scanindex"],
        "design_ref": "DESIGN.md section 8 / C16",
        "replay": "scanindex",
        "level_text": "Unbounded proof on the real functions: ScanIndex::from_reader returns exactly scan_spec of the reader's lines - blank "
                      "lines skipped, every trimmed line starting with 'PKGNAME=' closes the block collected so far, each record is built from "
                      "its own block only (the buffer restarts empty), records are in input order, and the first I/O error or rejected block "
                      "fails the whole read (never a partial list); KeyValue::visit_str is proved to map every key to the trimmed text after "
                      "the first '=' of the LAST line carrying that (trimmed) key, ignoring lines without '='. impl Deserialize for ScanIndex (its local "
                      "macro_rules accessors expanded mechanically, the Option/iterator combinator chains written out as matches and one loop) "
                      "returns exactly index_of(text): pkgname from PKGNAME (absent: rejected), pkg_location through PkgPath::new (invalid: rejected), "
                      "all_depends the whitespace-separated items through Depend::new in order (first invalid item: rejected), the eleven scalar "
                      "fields the value of their own key, scan_depends / multi_version the whitespace-separated items, absent keys None / empty, "
                      "depends empty; str_to_index returns index_of(input) with every rejection as an error. index_of is a defined function, "
                      "so scan_spec is the statement end to end.",
        "level_note": VERUS_TRUST + "BufRead::lines as an uninterpreted sequence of Ok(text)/Err lines; str::trim and str::split_whitespace uninterpreted "
                      "(trimmed, words); str::lines, split_once('='), starts_with(literal) shims; HashMap<String,String> key model and 'a String is "
                      "determined by its chars' axioms; serde is a unit-local model (traits Deserializer/DeError; de_text(d): the text a deserializer "
                      "hands to visit_str - StrDeserializer::new(input) hands input; deserialize_str(KeyValue) is visit_str on that text); the "
                      "combinator chains of the accessor macros (Option::map/map_or/map_or_else/transpose/ok_or, Result::map_err, "
                      "split_whitespace().map(F).collect()) by rules D9.map_get_* with their documented std behaviour; PkgName::new / PkgPath::new / "
                      "Depend::new abstracted as functions of their argument (pkgname_of / pkgpath_of / depend_of; their full contracts are proved "
                      "in units pkgname and pkgpath, properties C18 / C19); PathBuf::from(&str) has the str's UTF-8 bytes.",
    },
    "C17": {
        "units": ["dewey", "pkgname", "pattern", "plist", "summary", "distinfo", "pkgdb", "pkgpath", "scanindex", "digest"],
        "always_devs": ["letter_value_is_ascii_code"],
        "design_ref": "DESIGN.md section 8 / C17",
        "replay": "all",
        "all_fns": True,
        "kinds": "execution-hazards",
        "level_text": "Unbounded proof, for every function under contract in the ten units, of the obligations Verus generates for executable "
                      "code: every callee precondition at an exec call site (Option/Result::unwrap, str/slice indexing and slicing on char "
                      "boundaries, Vec indexing), absence of arithmetic overflow/underflow and division by zero, unreachability of panic!/todo!/"
                      "unreachable!, and termination (decreases) of every loop and recursion. Only failures of these obligation kinds in exec code "
                      "are C17 violations (a failed functional postcondition is another property's violation). Entry points not under contract are "
                      "listed in the evidence (coverage.not_under_contract) and are covered only by the bounded panic/hang fuzzer of the thorough tier.",
        "level_note": VERUS_TRUST + "all assumed std contracts and world functions of the ten units (their shims are assumed not to panic when their stated "
                      "preconditions hold); 'promptly' is proved as termination only, not as a time bound; allocation failure and stack depth are outside the model "
                      "(alternate_match recursion depth is bounded by the number of '{' in the pattern).",
        "not_under_contract": ["the RustCrypto cores behind Digest::hash_* (external crates; modelled, C13)",
                               "thiserror-generated Display / Error::source impls of DigestError, PlistError, SummaryError, PatternError, DependError, PkgPathError",
                               "derive-generated Debug/Clone/PartialEq/Hash/Ord impls", "serde Serialize/Deserialize derives"],
    },
    "C19": {
        "units": ["pkgpath", "pattern", "dewey", "pkgname"],
        "always_devs": ["letter_value_is_ascii_code"],
        "design_ref": "DESIGN.md section 8 / C19",
        "replay": "pkgpath",
        "level_text": "Unbounded proof on the real functions over std::path's component view: PkgPath::new / from_str succeed exactly when the "
                      "components are [Normal, Normal] or [ParentDir, ParentDir, Normal, Normal]; the stored short path has the components "
                      "[category, package] and the full path [.., .., category, package] for both spellings (so the two spellings give "
                      "component-wise equal values and re-parsing either accessor succeeds: lemma_both_spellings); Depend::new succeeds exactly "
                      "when the argument splits at ':' into two pieces, the first compiles as a Pattern (pvalid) and the second is a valid "
                      "PkgPath, with parts equal to parsing each half; anything but two pieces is DependError::Invalid.",
        "level_note": VERUS_TRUST + "std::path as an opaque algebra: comps() uninterpreted (normalisation of repeated/trailing slashes and '.' is std's), "
                      "PathBuf::from, components().collect(), push of a relative path appends components, '../../' has components [.., ..]; "
                      "Pattern::new's contract imported from unit pattern (proved in the same run); str::split(\":\") shim.",
    },
    "C20": {
        "units": ["pkgdb"],
        "design_ref": "DESIGN.md section 8 / C20",
        "replay": "pkgdb",
        "level_text": "Unbounded proof on the real functions over an uninterpreted file system: PkgDB::next (an unbounded `loop`, termination by the "
                      "remaining directory entries) skips every entry that is a plain file or lacks +COMMENT/+CONTENTS/+DESC and yields, for the "
                      "first valid one, a Package whose pkgname is the directory name and whose pkgbase/pkgversion are the parts before/after "
                      "its last '-' (whole name / empty for a name without '-'), InvalidData for a non-UTF-8 name; is_valid_pkgdir == the three "
                      "existence tests; PkgDB::open yields a handle whose directory listing is the world's (so next()'s expect() cannot fail) or an error; Package::read_metadata reads <dir>/<+FILE>; Metadata::read_metadata is proved equal to read_spec (trimmed text; list entries = its lines; mandatory texts appended; sizes must be i64 text, otherwise an error and no change) with all 14 getters; MetadataEntry::to_filename/from_filename are proved to be "
                      "mutually inverse over the 14 names (lemma_metadata_names_bijective); Metadata::is_valid == comment, contents and "
                      "description all non-empty.",
        "level_note": VERUS_TRUST + "'each sub-directory exactly once' is std::fs::ReadDir's contract (modelled as a sequence of remaining entries); "
                      "Path::is_dir / is_file / join().exists() / read_dir / read_to_string / DirEntry accessors are world functions; the (unimplemented) "
                      "Database back end yields nothing.",
    },
}

NOT_APPLICABLE = {
}
for _p in ["C%02d" % i for i in range(1, 21)]:
    if _p not in PROPS and _p not in NOT_APPLICABLE:
        # every property is either claimed or listed with its reason; a silent fallback once hid three lost entries
        raise RuntimeError("property %s is neither claimed in PROPS nor listed in NOT_APPLICABLE" % _p)

ALL_IDS = ["C%02d" % i for i in range(1, 21)]
