"""Property -> verification units table.  `units` are spec templates in /verif/specs.
`entry_fns` (optional) restricts the obligations that decide the property to the listed
functions of a unit (otherwise: every function tagged with the property by a `//@ prop`
directive, or untagged)."""

PROPS = {
    "C03": {
        "units": ["dewey_order"],
        "design_ref": "DESIGN.md section 8 / C03",
        "replay": "dewey_order",
        "level_text": "Unbounded proof: dewey_test/dewey_cmp (real code, extracted each run) are proved equal to the "
                      "statement-derived comparison cmp3 for all component vectors of all lengths (three loop invariants), and "
                      "reflexivity, antisymmetry/swap, trichotomy, duality and transitivity are lemmas over cmp3.",
        "level_note": "Trusted: Verus/Z3, vstd specs of Vec/slices/usize::cmp, assumed contract of core::cmp::min. "
                      "The laws are over arbitrary i64 vectors, so they cover whatever DeweyVersion::new returns.",
    },
}

NOT_APPLICABLE = {
    "C13": "Equality with the standard BLAKE2s/MD5/RMD160/SHA digests for every input and every read schedule is a statement "
           "about the RustCrypto cores and std::io (external crates, SIMD/intrinsics; not importable into single-file Verus, "
           "beyond Kani); the in-repo residue is generic glue over those traits with nothing left to prove under assumed contracts.",
}
for _p in ["C%02d" % i for i in range(1, 21)]:
    if _p not in PROPS and _p not in NOT_APPLICABLE:
        NOT_APPLICABLE[_p] = "not yet under contract in this revision of /verif (work in progress; see DESIGN.md section 8)"

ALL_IDS = ["C%02d" % i for i in range(1, 21)]
