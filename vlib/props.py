"""Property -> verification units table.  `units` are spec templates in /verif/specs.
`entry_fns` (optional) restricts the obligations that decide the property to the listed
functions of a unit (otherwise: every function tagged with the property by a `//@ prop`
directive, or untagged)."""

VERUS_TRUST = "Trusted: Verus/Z3/rustc; vstd's specifications of Vec, slices, str (len, as_bytes, chars, slicing preconditions), Option/Result; "

PROPS = {
    "C01": {
        "units": ["dewey"],
        "design_ref": "DESIGN.md section 8 / C01",
        "replay": "dewey",
        "level_text": "Unbounded proof on the real functions: DeweyVersion::new (loop invariant over a ghost character index, "
                      "per-token-class unfolding lemmas) returns exactly the statement's token sequence vtok(s) for every string whose "
                      "digit runs have at most 18 digits, and dewey_cmp/dewey_test return op_holds(op, cmp3(..)) for all component "
                      "vectors. One recorded known finding (letter value = ASCII code, not rank) is isolated by a named deviation.",
        "level_note": VERUS_TRUST + "assumed std contracts: str::to_ascii_lowercase, String::len, Result::unwrap_or, char::is_ascii_* (scalar), "
                      "shims for take_while(is_ascii_digit).collect, parse::<i64> (1..18 digits only), starts_with(literal); "
                      "axioms |s| <= usize::MAX and the byte range of &s[a..b]. UTF-8 offset facts are proved from vstd::utf8, not assumed.",
    },
    "C02": {
        "units": ["dewey"],
        "always_devs": ["letter_value_is_ascii_code"],
        "design_ref": "DESIGN.md section 8 / C02",
        "replay": "dewey",
        "level_text": "Unbounded proof on the real functions: Dewey::new returns Ok exactly for patterns with one operator or a "
                      "lower-then-upper pair (operators located over all chars, '=' suffix, byte/char offset lemmas proved from vstd::utf8), "
                      "with base = text before the first operator and bounds = vtok of the texts between operators; Dewey::matches returns "
                      "exactly dmatch: last '-' split, byte-equal base, every bound holding under cmp3. todo!() and every slice are "
                      "proved unreachable/in range.",
        "level_note": VERUS_TRUST + "shims (assumed std contracts): match_indices(&['>','<']), str::get(a..b), rsplitn(2,'-'), "
                      "&str != String, s[a..b].to_string(); axiom: str values with equal chars are equal (string-literal patterns). "
                      "Letter-value deviation of C01 is enabled (immaterial here). Agreement with Pattern::matches is unit pattern's contract (C05).",
    },
    "C03": {
        "units": ["dewey"],
        "always_devs": ["letter_value_is_ascii_code"],
        "design_ref": "DESIGN.md section 8 / C03",
        "replay": "dewey",
        "level_text": "Unbounded proof: dewey_test/dewey_cmp (real code, extracted each run) are proved equal to the "
                      "statement-derived comparison cmp3 for all component vectors of all lengths (three loop invariants), and "
                      "reflexivity, antisymmetry/swap, trichotomy, duality and transitivity are lemmas over cmp3.",
        "level_note": VERUS_TRUST + "assumed contract of core::cmp::min. "
                      "The laws are over arbitrary integer vectors, so they cover whatever DeweyVersion::new returns on any string.",
    },
    "C18": {
        "units": ["pkgname", "dewey"],
        "always_devs": ["letter_value_is_ascii_code"],
        "design_ref": "DESIGN.md section 8 / C18",
        "replay": "pkgname",
        "level_text": "Unbounded proof: PkgName::new (real code) returns exactly the split at the last '-' for every string "
                      "(base ++ '-' ++ version == name), reports Some(N) for every version ending in nb<1..18 digits> and None when the "
                      "version contains no 'nb'; lemma_tok_rev proves by induction over the tokeniser that this N is the revision "
                      "vtok extracts, and DeweyVersion::new is proved equal to vtok (unit dewey).",
        "level_note": VERUS_TRUST + "shims (assumed std contracts) for rsplit_once(char), rsplit_once(\"nb\"), parse::<i64>, String::from, "
                      "Option::or. The Summary::pkgbase()/pkgversion() accessors are covered by unit summary_accessors when listed in coverage.",
    },
}

NOT_APPLICABLE = {
    "C13": "Equality with the standard BLAKE2s/MD5/RMD160/SHA digests for every input and every read schedule is a statement "
           "about the RustCrypto cores and std::io (external crates, SIMD/intrinsics; not importable into single-file Verus, "
           "beyond Kani); the in-repo residue is generic glue over those traits with nothing left to prove under assumed contracts.",
}
for _p in ["C%02d" % i for i in range(1, 21)]:
    if _p not in PROPS and _p not in NOT_APPLICABLE:
        NOT_APPLICABLE[_p] = "not yet under contract in this revision of /verif (work in progress; see DESIGN.md section 8)"

ALL_IDS = ["C%02d" % i for i in range(1, 21)]
