"""Minimal Rust/Verus lexer and item finder.

Tokens are (kind, text, line) with kind in
  id, num, str, char, life, punct, comment
Comments are dropped by `lex(..., keep_comments=False)`; directive comments
(`//@ ...`) are returned as kind 'dir'.
"""
import re

PUNCT3 = ("<<=", ">>=", "...", "..=")
PUNCT2 = ("::", "->", "=>", "==", "!=", "<=", ">=", "&&", "||", "+=", "-=", "*=", "/=",
          "%=", "^=", "&=", "|=", "<<", ">>", "..")

ID_RE = re.compile(r"[A-Za-z_][A-Za-z0-9_]*")
NUM_RE = re.compile(r"[0-9][0-9A-Za-z_]*(\.[0-9][0-9A-Za-z_]*)?")


class Tok:
    __slots__ = ("kind", "text", "line", "sp", "off")

    def __init__(self, kind, text, line, sp=True, off=-1):
        self.off = off    # character offset in the lexed source (-1: synthesised token)
        self.kind = kind
        self.text = text
        self.line = line
        self.sp = sp      # whitespace (or start of input) before this token

    def __repr__(self):
        return "%s:%r@%d" % (self.kind, self.text, self.line)


def lex(src, keep_comments=False):
    toks = []
    last_end = [-1]

    def emit(kind, text, line, start):
        if kind in ("dir", "comment"):
            toks.append(Tok(kind, text, line, sp=True, off=start))
            return
        toks.append(Tok(kind, text, line, sp=(start != last_end[0]), off=start))
        last_end[0] = start + len(text)

    i = 0
    n = len(src)
    line = 1
    while i < n:
        c = src[i]
        if c == "\n":
            line += 1
            i += 1
            continue
        if c in " \t\r":
            i += 1
            continue
        if src.startswith("//", i):
            j = src.find("\n", i)
            if j < 0:
                j = n
            text = src[i:j]
            if text.startswith("//@"):
                emit("dir", text[3:].strip(), line, -5)
            elif keep_comments:
                emit("comment", text, line, i)
            i = j
            continue
        if src.startswith("/*", i):
            depth = 1
            j = i + 2
            while j < n and depth > 0:
                if src.startswith("/*", j):
                    depth += 1
                    j += 2
                elif src.startswith("*/", j):
                    depth -= 1
                    j += 2
                else:
                    j += 1
            text = src[i:j]
            if keep_comments:
                emit("comment", text, line, i)
            line += text.count("\n")
            i = j
            continue
        # raw strings / byte strings
        m = re.match(r"(b?r)(#*)\"", src[i:i + 40])
        if m:
            hashes = m.group(2)
            start = i
            j = i + len(m.group(0))
            term = '"' + hashes
            k = src.find(term, j)
            if k < 0:
                raise ValueError("unterminated raw string at line %d" % line)
            j = k + len(term)
            text = src[start:j]
            emit("str", text, line, start)
            line += text.count("\n")
            i = j
            continue
        if c == '"' or (c == "b" and i + 1 < n and src[i + 1] == '"'):
            start = i
            j = i + (2 if c == "b" else 1)
            while j < n and src[j] != '"':
                if src[j] == "\\":
                    j += 2
                else:
                    j += 1
            j += 1
            text = src[start:j]
            emit("str", text, line, start)
            line += text.count("\n")
            i = j
            continue
        if c == "'" or (c == "b" and i + 1 < n and src[i + 1] == "'"):
            start = i
            j = i + (2 if c == "b" else 1)
            # char literal or lifetime?
            if j < n and src[j] == "\\":
                k = src.find("'", j + 2)
                text = src[start:k + 1]
                emit("char", text, line, start)
                i = k + 1
                continue
            # 'x' (any single char, possibly multibyte) followed by '
            if j + 1 < n and src[j + 1] == "'":
                text = src[start:j + 2]
                emit("char", text, line, start)
                i = j + 2
                continue
            m = ID_RE.match(src, j)
            if m and c == "'":
                emit("life", src[start:m.end()], line, start)
                i = m.end()
                continue
            raise ValueError("bad quote at line %d" % line)
        m = ID_RE.match(src, i)
        if m:
            emit("id", m.group(0), line, i)
            i = m.end()
            continue
        m = NUM_RE.match(src, i)
        if m:
            text = m.group(0)
            # do not swallow `0..n` as a float
            if ".." in src[i:i + len(text) + 1] and "." in text:
                text = text.split(".")[0]
            elif "." in text and src[i + len(text.split(".")[0]) + 1:i + len(text.split(".")[0]) + 2].isalpha():
                # 1.foo() method call on literal
                text = text.split(".")[0]
            emit("num", text, line, i)
            i += len(text)
            continue
        for p in PUNCT3:
            if src.startswith(p, i):
                emit("punct", p, line, i)
                i += 3
                break
        else:
            for p in PUNCT2:
                if src.startswith(p, i):
                    emit("punct", p, line, i)
                    i += 2
                    break
            else:
                emit("punct", c, line, i)
                i += 1
    return toks


OPEN = {"(": ")", "[": "]", "{": "}"}
CLOSE = {")": "(", "]": "[", "}": "{"}


def match_close(toks, i):
    """toks[i] is an opening bracket; return index of its matching closer."""
    assert toks[i].text in OPEN, toks[i]
    depth = 0
    j = i
    while j < len(toks):
        t = toks[j]
        if t.kind == "punct":
            if t.text in OPEN:
                depth += 1
            elif t.text in CLOSE:
                depth -= 1
                if depth == 0:
                    return j
        j += 1
    raise ValueError("unbalanced from token %r" % toks[i])


def skip_generics(toks, i):
    """toks[i] == '<': return index after the matching '>' (handles >> and ->)."""
    depth = 0
    j = i
    while j < len(toks):
        t = toks[j].text
        if toks[j].kind == "punct":
            if t == "<":
                depth += 1
            elif t == ">":
                depth -= 1
            elif t == ">>":
                depth -= 2
            elif t in OPEN:
                j = match_close(toks, j)
            if depth <= 0 and t in (">", ">>"):
                return j + 1
        j += 1
    raise ValueError("unbalanced generics")


def skip_attrs_back(toks, i):
    return i


def item_end(toks, i):
    """toks[i] starts an item (after attributes/visibility). Return end index (exclusive)."""
    j = i
    while j < len(toks):
        t = toks[j]
        if t.kind == "punct":
            if t.text == ";":
                return j + 1
            if t.text == "{":
                return match_close(toks, j) + 1
            if t.text in ("(", "["):
                j = match_close(toks, j)
        j += 1
    raise ValueError("item without end")


class Item:
    def __init__(self, kind, name, start, end, attr_start, body_open=None, impl_of=None, trait=None):
        self.kind = kind          # fn / struct / enum / impl / mod / const / type / use / macro / trait / static
        self.name = name
        self.start = start        # index of first token (visibility or keyword), attributes excluded
        self.end = end            # exclusive
        self.attr_start = attr_start
        self.body_open = body_open
        self.impl_of = impl_of
        self.trait = trait
        self.children = []

    def __repr__(self):
        return "Item(%s %s [%d,%d))" % (self.kind, self.name, self.start, self.end)


ITEM_KW = {"fn", "struct", "enum", "impl", "mod", "const", "type", "use", "trait", "static", "macro_rules", "union"}
QUALS = {"pub", "unsafe", "async", "extern", "default", "open", "closed", "spec", "proof", "exec",
         "broadcast", "uninterp", "tracked", "ghost", "axiom"}


def parse_items(toks, lo=0, hi=None):
    """Parse the items in toks[lo:hi] (a module body or impl body)."""
    if hi is None:
        hi = len(toks)
    items = []
    i = lo
    while i < hi:
        t = toks[i]
        if t.kind == "dir":
            i += 1
            continue
        attr_start = i
        # attributes
        while i < hi and toks[i].text == "#":
            j = i + 1
            if toks[j].text == "!":
                j += 1
            j = match_close(toks, j)
            i = j + 1
        if i >= hi:
            break
        start = i
        # visibility and qualifiers
        while i < hi and toks[i].kind == "id" and toks[i].text in QUALS:
            if toks[i].text == "const" :
                break
            i += 1
            if i < hi and toks[i].text == "(" and toks[i - 1].text in ("pub", "extern"):
                i = match_close(toks, i) + 1
            if i < hi and toks[i].kind == "str" and toks[i - 1].text == "extern":
                i += 1
        if i >= hi:
            break
        kw = toks[i]
        if kw.kind == "id" and kw.text == "const" and i + 1 < hi and toks[i + 1].text == "fn":
            i += 1
            kw = toks[i]
        if kw.kind != "id" or kw.text not in ITEM_KW:
            # macro invocation item like `verus! { ... }` or stray token
            if kw.kind == "id" and i + 1 < hi and toks[i + 1].text == "!":
                j = i + 2
                if toks[j].kind == "id":
                    j += 1
                end = match_close(toks, j) + 1
                if end < hi and toks[end].text == ";":
                    end += 1
                it = Item("macro", kw.text, start, end, attr_start, body_open=j)
                items.append(it)
                i = end
                continue
            i += 1
            continue
        kind = kw.text
        if kind == "macro_rules":
            j = i + 2
            name = toks[j].text
            end = match_close(toks, j + 1) + 1
            if end < hi and toks[end].text == ";":
                end += 1
            items.append(Item("macro_rules", name, start, end, attr_start))
            i = end
            continue
        if kind == "impl":
            j = i + 1
            if toks[j].text == "<":
                j = skip_generics(toks, j)
            # collect header tokens up to '{'
            k = j
            hdr = []
            while toks[k].text != "{":
                if toks[k].text == "<":
                    k2 = skip_generics(toks, k)
                    hdr.extend(x.text for x in toks[k:k2])
                    k = k2
                    continue
                hdr.append(toks[k].text)
                k += 1
            end = match_close(toks, k) + 1
            hs = " ".join(hdr)
            trait = None
            of = hs
            if " for " in " " + hs + " ":
                parts = hs.split(" for ")
                trait = parts[0].strip().replace(" ", "")
                of = parts[1]
            of = of.split(" where ")[0].strip().replace(" ", "")
            it = Item("impl", of, start, end, attr_start, body_open=k, impl_of=of, trait=trait)
            it.children = parse_items(toks, k + 1, end - 1)
            items.append(it)
            i = end
            continue
        if kind in ("mod", "trait"):
            name = toks[i + 1].text
            end = item_end(toks, i)
            it = Item(kind, name, start, end, attr_start)
            k = i
            while toks[k].text not in ("{", ";"):
                k += 1
            if toks[k].text == "{":
                it.body_open = k
                it.children = parse_items(toks, k + 1, end - 1)
            items.append(it)
            i = end
            continue
        if kind == "fn":
            name = toks[i + 1].text
            # find body '{' : skip params and where/return types; first '{' at depth 0
            j = i + 2
            body_open = None
            while j < hi:
                tt = toks[j]
                if tt.kind == "punct":
                    if tt.text in ("(", "["):
                        j = match_close(toks, j)
                    elif tt.text == "{":
                        body_open = j
                        break
                    elif tt.text == ";":
                        break
                j += 1
            if body_open is None:
                end = j + 1
            else:
                end = match_close(toks, body_open) + 1
            items.append(Item("fn", name, start, end, attr_start, body_open=body_open))
            i = end
            continue
        if kind == "use":
            end = item_end(toks, i)
            items.append(Item("use", "", start, end, attr_start))
            i = end
            continue
        # struct enum const type static union
        name = toks[i + 1].text
        if kind == "const" and name == "_":
            name = "_"
        j = i + 1
        end = None
        if kind in ("struct", "enum", "union"):
            # struct X; | struct X(..); | struct X {..}
            k = j + 1
            if toks[k].text == "<":
                k = skip_generics(toks, k)
            while toks[k].text not in ("{", ";", "("):
                k += 1
            if toks[k].text == "(":
                k = match_close(toks, k) + 1
                while toks[k].text != ";":
                    k += 1
                end = k + 1
            elif toks[k].text == ";":
                end = k + 1
            else:
                end = match_close(toks, k) + 1
        else:
            k = j
            while toks[k].text != ";":
                if toks[k].text in OPEN:
                    k = match_close(toks, k)
                k += 1
            end = k + 1
        items.append(Item(kind, name, start, end, attr_start))
        i = end
    return items


def find_item(items, spec):
    """spec: list of words, e.g. ['fn','dewey_cmp'] or ['impl','DeweyVersion','fn','new']
    or ['impl','FromStr','for','Digest','fn','from_str'] or ['struct','Dewey'] or ['mod','m', ...]."""
    words = list(spec)
    cur = items
    found = None
    while words:
        kind = words.pop(0)
        if kind == "impl":
            a = words.pop(0)
            trait = None
            if words and words[0] == "for":
                words.pop(0)
                trait = a
                a = words.pop(0)
            cands = [it for it in cur if it.kind == "impl" and it.impl_of == a and
                     ((trait is None and it.trait is None) or (trait is not None and it.trait is not None and
                      (it.trait.split("::")[-1] == trait.split("::")[-1] or
                       ("<" not in trait and it.trait.split("<")[0].split("::")[-1] == trait.split("::")[-1]))))]
            if not words:
                if len(cands) != 1:
                    return None
                return cands[0]
            # descend: search all candidate impls for next item
            k2 = words.pop(0)
            n2 = words.pop(0)
            res = []
            for c in cands:
                for ch in c.children:
                    if ch.kind == k2 and ch.name == n2:
                        res.append(ch)
            if len(res) != 1:
                return None
            found = res[0]
            cur = found.children
        else:
            name = words.pop(0)
            res = [it for it in cur if it.kind == kind and it.name == name]
            if len(res) != 1:
                return None
            found = res[0]
            cur = found.children
    return found


def render(toks):
    """Render tokens back to text: newline when the line changes, otherwise the
    original adjacency (tok.sp) is preserved so multi-char operators survive."""
    out = []
    prev = None
    for t in toks:
        if prev is not None:
            if t.line != prev.line:
                out.append("\n")
            elif t.sp:
                out.append(" ")
        out.append(t.text)
        prev = t
    return "".join(out)
