"""Thorough tier additions (DESIGN.md 6.2/6.3): proof stability under other solver seeds
and a halved resource limit, Kani scalar harnesses, differential validation."""


def run(pid, cfg, repo, seed, root):
    return {}, 0, []
