"""Thorough tier: what is added on top of the quick tier's proof run (which has already passed when this is called).

1. proof stability: every unit of the property is re-verified under two other Z3 random seeds and with the resource
   limit halved.  A unit that only verifies under the default seed is reported as `unstable` in the evidence (it is a
   maintenance risk, not a violation: the exit code is unchanged).
2. validation of the trusted base by execution (bounded, labelled so):
   a. loop-free Kani harnesses over the full domain of char/u8 for the assumed scalar contracts of specs/lib
      (complete proofs: no loops, full-domain symbolic input);
   b. the property's differential searcher (real crate vs the oracle written from the statement) with 10x the
      iterations and three seeds.  The Verus proof rests on assumed contracts of std/world functions; a concrete input on
      which the real code disagrees with the statement oracle although every obligation is discharged means one of those
      assumptions (or the oracle) is wrong, and is reported as a VIOLATION with the witness;
   c. C04 only: the real matcher against an executable transcription of the operational left-to-right csh expansion,
      exhaustively for all brace patterns up to length 10 over a 5-letter alphabet (validation of the trusted base; that
      the expansion itself is the denotation used by the proof is theorem_csh, for all patterns).
3. replay of the recorded witnesses of known findings against the real code (done by bin/check).
"""
import hashlib
import json
import os
import shutil
import subprocess
import tempfile
import time

from . import replay, runner

KANI_UNITS = {"dewey", "pkgname", "pattern", "plist", "distinfo", "summary"}


def _stability(pid, cfg, repo, root):
    out = []
    build = os.path.join(root, "build", pid + "_stab" + ("" if os.path.abspath(repo) == "/repo" else "-%d" % os.getpid()))
    variants = [("seed=11", ["--smt-option", "smt.random_seed=11"]),
                ("seed=23", ["--smt-option", "smt.random_seed=23"]),
                ("rlimit=5 (half)", ["--rlimit", "5"])]
    devs = tuple(cfg.get("always_devs", []))
    # known-finding deviations keep the statement obligations that are expected to fail out of the stability run
    try:
        known = json.load(open(os.path.join(root, "known_findings.json")))
        devs = devs + tuple(k["deviation"] for k in known.get("findings", []) if k["property"] == pid and k.get("deviation"))
    except (OSError, ValueError):
        pass
    for u in cfg["units"]:
        spec = os.path.join(root, "specs", u + ".rs")
        for label, extra in variants:
            t = time.time()
            r = runner.verify_unit(u, spec, repo, build, list(extra), False, 1200, devs)
            out.append({"unit": u, "variant": label, "status": r.status, "smt_ms": r.smt_ms, "wall_s": round(time.time() - t, 1),
                        "failed": sorted(set(f.obligation_id(u) for f in r.failures))[:5], "reason": (r.reason or "")[:200]})
    return out


def _kani_scalar(root):
    work = tempfile.mkdtemp(prefix="verif-kani-", dir="/var/tmp")
    try:
        p = subprocess.run(["python3", os.path.join(root, "kani/scalar/gen.py"), root, work], stdout=subprocess.PIPE,
                           stderr=subprocess.STDOUT, universal_newlines=True)
        if p.returncode != 0:
            return {"status": "error", "detail": p.stdout[-300:]}
        env = dict(os.environ, CARGO_NET_OFFLINE="true", CARGO_TARGET_DIR=os.path.join(work, "target"))
        t = time.time()
        try:
            p = subprocess.run(["cargo", "kani"], cwd=work, env=env, stdout=subprocess.PIPE, stderr=subprocess.STDOUT,
                               universal_newlines=True, timeout=1800)
        except subprocess.TimeoutExpired:
            return {"status": "timeout"}
        ok = [l.split()[-1].rstrip(".") for l in p.stdout.split("\n") if l.startswith("Checking harness")]
        succ = p.stdout.count("VERIFICATION:- SUCCESSFUL")
        fail = p.stdout.count("VERIFICATION:- FAILED")
        return {"status": "ok" if (fail == 0 and succ == len(ok) and succ > 0) else "failed", "harnesses": ok, "successful": succ,
                "failed": fail, "back_end": "Kani 0.68.0 / CBMC 6.11 (loop-free, full-domain symbolic char/u8: complete, not bounded)",
                "wall_s": round(time.time() - t, 1), "tail": "" if fail == 0 else p.stdout[-1500:]}
    finally:
        shutil.rmtree(work, ignore_errors=True)


def _py_patch_filter(b):
    """the statement's filter, third independent implementation (python)"""
    if not b:
        return b
    lines = b.split(b"\n")
    if lines[-1] == b"":
        lines.pop()            # the input ended with a newline: no further (empty) line
    return b"".join(l + b"\n" for l in lines if b"$NetBSD" not in l)


def _hashlib_cross_check(exe, seed):
    """bounded validation of the uninterpreted std_digest / stream_of assumptions against python hashlib"""
    import hashlib
    names = {"BLAKE2s": "blake2s", "MD5": "md5", "RMD160": "ripemd160", "SHA1": "sha1", "SHA256": "sha256", "SHA512": "sha512"}
    t = time.time()
    p = subprocess.run([exe, "digests", str(seed), "900"], stdout=subprocess.PIPE, stderr=subprocess.PIPE, universal_newlines=True, timeout=1200)
    n = 0
    bad = []
    for ln in p.stdout.split("\n"):
        f = ln.split(" ")
        if len(f) != 5 or f[0] != "DIGEST":
            continue
        algo, kind, hx, got = f[1], f[2], f[3], f[4]
        data = bytes.fromhex(hx)
        if kind == "patch":
            data = _py_patch_filter(data)
        try:
            want = hashlib.new(names[algo], data).hexdigest()
        except ValueError:
            continue
        n += 1
        if want != got:
            bad.append({"algo": algo, "entry": kind, "hexdata": hx, "expected": want, "actual": got})
    return {"label": "bounded cross-check against python hashlib (independent implementation), random read schedules with Interrupted reads",
            "compared": n, "mismatches": bad[:3], "wall_s": round(time.time() - t, 1)}


def run(pid, cfg, repo, seed, root):
    cov = {}
    lines = []
    code = 0
    t0 = time.time()
    stab = _stability(pid, cfg, repo, root)
    cov["proof_stability"] = stab
    unstable = [s for s in stab if s["status"] != "ok"]
    cov["unstable_variants"] = len(unstable)
    if set(cfg["units"]) & KANI_UNITS:
        k = _kani_scalar(root)
        cov["kani_scalar_contracts"] = k
        if k.get("status") == "failed":
            # an assumed scalar contract disagrees with std: every proof that uses it is void
            d = os.path.join(os.environ.get("VERIF_EVID", os.path.join(root, "evidence")), "replay")
            os.makedirs(d, exist_ok=True)
            path = os.path.join(d, "%s-kani-scalar.json" % pid)
            json.dump({"property": pid, "failure": {"obligation": "lib::scalar-contracts::kani", "verus_output": k.get("tail", "")},
                       "witness": {"found": False}}, open(path, "w"), indent=1)
            lines.append("VIOLATION property=%s replay=%s obligation=lib::assumed-scalar-contract(kani) no-failing-input-found" % (pid, path))
            code = 1
    if cfg.get("replay"):
        exe, err = replay._build(repo)
        dif = {"label": "bounded differential validation of the trusted base (not a proof)", "runs": []}
        if exe is None:
            dif["error"] = err
        else:
            env = dict(os.environ, VERIF_SEARCH_ITERS=os.environ.get("VERIF_THOROUGH_ITERS", "200000"))
            for s in (seed, seed + 1, seed + 2):
                t = time.time()
                try:
                    p = subprocess.run([exe, "search", pid, str(s)], stdout=subprocess.PIPE, stderr=subprocess.PIPE,
                                       universal_newlines=True, timeout=1500, env=env)
                    out = p.stdout
                except subprocess.TimeoutExpired:
                    dif["runs"].append({"seed": s, "result": "timeout"})
                    continue
                w = None
                for ln in out.split("\n"):
                    if ln.startswith("WITNESS "):
                        try:
                            w = json.loads(ln[8:])
                        except ValueError:
                            pass
                dif["runs"].append({"seed": s, "iters": env["VERIF_SEARCH_ITERS"], "result": "witness" if w else "no-disagreement",
                                    "wall_s": round(time.time() - t, 1), "last": out.strip().split("\n")[-1][:200]})
                if w:
                    w["found"] = True
                    d = os.path.join(os.environ.get("VERIF_EVID", os.path.join(root, "evidence")), "replay")
                    os.makedirs(d, exist_ok=True)
                    path = os.path.join(d, "%s-%s.json" % (pid, hashlib.sha1(json.dumps(w, sort_keys=True).encode()).hexdigest()[:10]))
                    json.dump({"property": pid, "failure": {"obligation": "%s::(all-discharged;assumption-check)" % cfg["units"][0],
                                                            "verus_output": "every proof obligation is discharged, but the real code disagrees with the statement "
                                                                            "oracle on this input: an assumed contract (trusted base) does not hold"},
                               "witness": w}, open(path, "w"), indent=1)
                    lines.append("VIOLATION property=%s replay=%s obligation=%s::(all-discharged;assumption-check)" % (pid, path, cfg["units"][0]))
                    code = 1
                    break
            if pid == "C13" and code == 0:
                dif["hashlib_cross_check"] = _hashlib_cross_check(exe, seed)
                if dif["hashlib_cross_check"].get("mismatches"):
                    m = dif["hashlib_cross_check"]["mismatches"][0]
                    d = os.path.join(os.environ.get("VERIF_EVID", os.path.join(root, "evidence")), "replay")
                    os.makedirs(d, exist_ok=True)
                    path = os.path.join(d, "C13-hashlib.json")
                    w = {"found": True, "kind": "digest", "entry": m["entry"], "algo": m["algo"], "hexdata": m["hexdata"], "sched": "64", "expected": m["expected"]}
                    json.dump({"property": pid, "failure": {"obligation": "digest::(assumed;std_digest==hashlib)", "verus_output":
                               "the digest computed by the real crate differs from python hashlib (OpenSSL) on this input: the assumed contract of the external core does not hold"},
                               "witness": w}, open(path, "w"), indent=1)
                    lines.append("VIOLATION property=C13 replay=%s obligation=digest::(assumed;std_digest==hashlib)" % path)
                    code = 1
            if pid == "C04" and code == 0:
                n = os.environ.get("VERIF_C04_MAXLEN", "10")
                t = time.time()
                p = subprocess.run([exe, "bounded", "C04", n], stdout=subprocess.PIPE, stderr=subprocess.PIPE, universal_newlines=True, timeout=3000)
                dif["c04_expansion_cross_check"] = {
                    "label": "bounded exhaustive (all brace patterns up to length %s over a 5-letter alphabet): the real Pattern against an executable "
                             "transcription of the operational left-to-right csh expander (validation of the trusted base: glob crate, std shims); "
                             "also that transcription against one of the denotation dhas - redundant since theorem_csh proves them equal for all "
                             "balanced patterns, kept as a check of the transcriptions" % n,
                    "result": p.stdout.strip().split("\n")[-1][:300], "wall_s": round(time.time() - t, 1)}
                if p.returncode == 1:
                    lines.append("VIOLATION property=C04 replay=%s obligation=pattern::(all-discharged;assumption-check;csh-oracle) no-failing-input-found" %
                                 os.path.join(root, "evidence", "C04.json"))
                    code = 1
                elif p.returncode != 0:
                    # the two definitions of the expansion disagree: the specification is in doubt, nothing is decided about the code
                    lines.append("UNDECIDED property=C04 the formal expansion (dhas) and the operational csh oracle disagree: %s" %
                                 p.stdout.strip().split("\n")[-1][:200])
                    code = 2
        cov["differential_validation"] = dif
    cov["thorough_wall_s"] = round(time.time() - t0, 1)
    return cov, code, lines
