"""Counterexample search and replay against the real crate (public API only).

When an obligation fails, `search` runs the property's differential searcher in the
replay crate (/verif/replay, path-dependency on /repo, built into a scratch target dir)
looking for a concrete input on which the real code disagrees with a reference oracle
written from the property statement.  Verus itself gives no counterexample."""
import json
import os
import subprocess
import shutil
import tempfile

ROOT = os.path.dirname(os.path.dirname(os.path.abspath(__file__)))


def _build(repo):
    """Build the replay binary against `repo`; returns path of the binary or None."""
    crate = os.path.join(ROOT, "replay")
    if not os.path.isdir(crate):
        return None, "no replay crate"
    import hashlib
    # one target dir per repository path: artifacts of a scratch copy are never mistaken for /repo's
    tdir = os.path.join(os.environ.get("VERIF_REPLAY_TARGET", "/var/tmp/verif-replay-target"),
                        hashlib.sha1(os.path.abspath(repo).encode()).hexdigest()[:12])
    # housekeeping: target dirs of scratch copies that no longer exist are removed (disk space)
    troot = os.path.dirname(tdir)
    try:
        os.makedirs(tdir, exist_ok=True)
        with open(os.path.join(tdir, "REPO_PATH"), "w") as f:
            f.write(os.path.abspath(repo))
        for d in os.listdir(troot):
            rp = os.path.join(troot, d, "REPO_PATH")
            if os.path.exists(rp):
                orig = open(rp).read().strip()
                if orig and not os.path.exists(orig):
                    shutil.rmtree(os.path.join(troot, d), ignore_errors=True)
    except OSError:
        pass
    work = tempfile.mkdtemp(prefix="verif-replay-")
    try:
        shutil.copytree(crate, os.path.join(work, "replay"), ignore=shutil.ignore_patterns("target"))
        cargo = os.path.join(work, "replay", "Cargo.toml")
        s = open(cargo).read().replace("@REPO@", repo)
        open(cargo, "w").write(s)
        lock = os.path.join(repo, "Cargo.lock")
        if os.path.exists(lock):
            shutil.copy(lock, os.path.join(work, "replay", "Cargo.lock"))
        env = dict(os.environ, CARGO_NET_OFFLINE="true", CARGO_TARGET_DIR=tdir)
        p = subprocess.run(["cargo", "build", "--release", "--offline", "--quiet"], cwd=os.path.join(work, "replay"),
                           env=env, stdout=subprocess.PIPE, stderr=subprocess.PIPE, universal_newlines=True, timeout=900)
        if p.returncode != 0:
            return None, "replay crate does not build: " + p.stderr[-500:]
        return os.path.join(tdir, "release", "verif-replay"), ""
    finally:
        shutil.rmtree(work, ignore_errors=True)


def _wargs(w):
    out = [str(w.get("kind", ""))]
    for k, v in w.items():
        if k in ("kind", "found", "actual"):
            continue
        if isinstance(v, bool):
            v = "true" if v else "false"
        out.append("%s=%s" % (k, str(v).encode("utf-8").hex()))
    return out


def search(pid, cfg, failure, repo, seed, extra=(), iters=None):
    name = cfg.get("replay")
    if not name:
        return {"found": False, "reason": "no searcher for this property"}
    exe, err = _build(repo)
    if exe is None:
        return {"found": False, "reason": err}
    try:
        env = dict(os.environ)
        if iters:
            env["VERIF_SEARCH_ITERS"] = str(iters)
        p = subprocess.run([exe, "search", pid, str(seed)] + list(extra), stdout=subprocess.PIPE, stderr=subprocess.PIPE,
                           universal_newlines=True, timeout=900, env=env)
    except subprocess.TimeoutExpired:
        return {"found": False, "reason": "search timed out"}
    if p.returncode != 0 and "WITNESS" not in p.stdout:
        # the real code panicked (or aborted) while the searcher was driving it through its public API: that input sequence is the
        # failing input; it is reproduced by re-running the same search
        return {"found": True, "kind": "panic_during_search", "property": pid, "seed": str(seed), "iters": str(iters or ""),
                "expected": "the public API returns normally on every input the searcher generates",
                "actual": "search process exited with %d: %s" % (p.returncode, (p.stderr or "")[-300:])}
    for ln in p.stdout.split("\n"):
        if ln.startswith("WITNESS "):
            try:
                w = json.loads(ln[len("WITNESS "):])
                w["found"] = True
                return w
            except ValueError:
                pass
    return {"found": False, "reason": "searched without finding a failing input", "searcher_output": p.stdout[-400:]}


def confirm_known(k, repo):
    """Replay the witness of a known finding; returns a short status string."""
    w = k.get("witness")
    if not w:
        return "no witness recorded"
    exe, err = _build(repo)
    if exe is None:
        return "witness not replayed: " + err
    try:
        p = subprocess.run([exe, "witness"] + _wargs(w), stdout=subprocess.PIPE, stderr=subprocess.PIPE,
                           universal_newlines=True, timeout=120)
    except subprocess.TimeoutExpired:
        return "witness replay timed out"
    last = (p.stdout.strip().split("\n") or [""])[-1][:200]
    return "witness replayed on the real code: " + ("still fails - " if p.returncode == 1 else "no longer fails - ") + last


def run_replay(path, repo):
    doc = json.load(open(path))
    w = doc.get("witness") or {}
    if w.get("kind") == "panic_during_search":
        exe, err = _build(repo)
        if exe is None:
            print(err)
            return 2
        env = dict(os.environ)
        if w.get("iters"):
            env["VERIF_SEARCH_ITERS"] = w["iters"]
        p = subprocess.run([exe, "search", w.get("property", ""), w.get("seed", "0")], stdout=subprocess.PIPE, stderr=subprocess.PIPE, universal_newlines=True, env=env)
        print(p.stdout[-500:], p.stderr[-500:])
        print("REPLAY: the search %s" % ("still makes the real code panic" if p.returncode != 0 else "now completes"))
        return 1 if p.returncode != 0 else 0
    print("obligation:", doc.get("failure", {}).get("obligation"))
    print(doc.get("failure", {}).get("verus_output", ""))
    if not w.get("found"):
        print("no concrete input recorded (no-failing-input-found)")
        return 0
    exe, err = _build(repo)
    if exe is None:
        print(err)
        return 2
    p = subprocess.run([exe, "witness"] + _wargs(w), stdout=subprocess.PIPE, stderr=subprocess.PIPE, universal_newlines=True)
    print(p.stdout)
    return p.returncode
