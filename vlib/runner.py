"""Run Verus on a generated unit, classify the outcome, run the vacuity canaries and the
trusted-base scan."""
import json
import os
import re
import subprocess
import time

from . import rustlex
from .unit import Unit, ExtractError

VERUS = os.environ.get("VERUS_BIN", "verus")

# messages that are failed *proof obligations* (anything else at error level is a tool /
# typing problem => undecided)
OBLIGATION_MSGS = [
    ("postcondition not satisfied", "postcondition"),
    ("precondition not satisfied", "precondition"),
    ("assertion failed", "assertion"),
    ("invariant not satisfied before loop", "invariant-entry"),
    ("invariant not satisfied at end of loop body", "invariant-preserved"),
    ("loop invariant not satisfied", "invariant"),
    ("possible arithmetic underflow/overflow", "overflow"),
    ("possible division by zero", "div-zero"),
    ("decreases not satisfied", "termination"),
    ("could not prove termination", "termination"),
    ("unreachable", "reachable-panic"),
    ("panic", "reachable-panic"),
    ("possible bit shift underflow/overflow", "overflow"),
    ("recommendation not met", None),          # warning-ish; ignored
    ("failed to prove", "assertion"),
    ("cannot show", "assertion"),
    ("index out of bounds", "bounds"),
    ("index in bounds", "bounds"),             # "precondition not met: index in bounds for this access"
    ("out of bounds", "bounds"),
    ("precondition not met", "precondition"),
    ("loop ensures not satisfied", "loop-ensures"),
    ("constructed value may fail to meet its declared type invariant", "type-invariant"),
    ("value may be out of range of the target type", "overflow"),
]
RLIMIT_MSGS = ["Resource limit (rlimit) exceeded", "rlimit", "timed out", "could not finish"]


class Failure:
    def __init__(self, kind, message, fn, gen_line, origin, clause, rendered, in_proof=False):
        self.in_proof = in_proof      # the failing site lies in ghost code (proof block / assert-by / lemma): never an execution hazard
        self.kind = kind
        self.message = message
        self.fn = fn
        self.gen_line = gen_line
        self.origin = origin
        self.clause = clause
        self.rendered = rendered

    def obligation_id(self, unit):
        if self.kind.startswith("undecided-unit"):
            return "%s::(undecided;bounded-search-witness)" % unit
        c = re.sub(r"\s+", " ", self.clause or "").strip()
        if len(c) > 120:
            c = c[:117] + "..."
        return "%s::%s::%s[%s]" % (unit, self.fn or "?", self.kind, c)

    def to_json(self, unit):
        return {"obligation": self.obligation_id(unit), "kind": self.kind, "function": self.fn, "in_ghost_code": self.in_proof,
                "message": self.message, "generated_line": self.gen_line, "origin": self.origin,
                "clause": self.clause, "verus_output": self.rendered}


class UnitResult:
    def __init__(self, name):
        self.name = name
        self.status = "undecided"     # ok | failed | undecided
        self.reason = ""
        self.functions = {}           # name -> dict(success, mode, time_us, rlimit)
        self.failures = []
        self.regions = []
        self.trusted = []
        self.wall_s = 0.0
        self.smt_ms = 0
        self.verus_total_ms = 0
        self.gen_path = None
        self.props = {}
        self.fn_ranges = []
        self.canary = None            # dict(total, failed_as_expected, vacuous=[...])
        self.clauses = {}             # fn -> count of explicit contract clauses
        self.rewrites = {}
        self.drift = 0
        self.stderr_tail = ""
        self.imports = []

    def fn_props(self, fn, default):
        short = fn.split("::")[-1]
        for key in (fn, short):
            if key in self.props:
                return self.props[key]
        return default


def fn_ranges_of(text):
    """[(name, mode, first_line, last_line, trusted_kind)] for every fn in the file (inside verus!)."""
    toks = rustlex.lex(text)
    items = rustlex.parse_items(toks)
    res = []

    def walk(items, prefix, inside=False):
        for it in items:
            if it.kind == "macro" and it.name == "verus":
                inner = rustlex.parse_items(toks, it.body_open + 1, it.end - 1)
                walk(inner, prefix, True)
            elif it.kind == "impl":
                nm = it.impl_of
                walk(it.children, prefix + [nm], inside)
            elif it.kind == "mod":
                walk(it.children, prefix + [it.name], inside)
            elif it.kind == "fn" and inside:
                quals = [t.text for t in toks[it.start:it.end] if t.kind == "id"][:8]
                hdr = []
                for t in toks[it.start:it.end]:
                    if t.text == "fn":
                        break
                    hdr.append(t.text)
                mode = "spec" if "spec" in hdr else ("proof" if ("proof" in hdr or "axiom" in hdr) else "exec")
                attrs = " ".join(t.text for t in toks[it.attr_start:it.start])
                res.append({"name": "::".join(prefix + [it.name]), "short": it.name, "mode": mode,
                            "first": toks[it.attr_start].line, "last": toks[it.end - 1].line,
                            "external_body": "external_body" in attrs, "axiom": "axiom" in hdr,
                            "body_open_tok": it.body_open, "start_tok": it.start, "end_tok": it.end})
    walk(items, [])
    return toks, res


def ghost_ranges(toks):
    """character ranges of `proof { .. }` blocks and `by { .. }` proof bodies"""
    out = []
    n = len(toks)
    for i, t in enumerate(toks):
        if t.kind == "id" and t.text in ("proof", "by"):
            j = i + 1
            if t.text == "by" and j < n and toks[j].text == "(":
                j = rustlex.match_close(toks, j) + 1
            if j < n and toks[j].kind == "punct" and toks[j].text == "{" and not (t.text == "proof" and i + 1 < n and toks[i + 1].text == "fn"):
                try:
                    k = rustlex.match_close(toks, j)
                except (ValueError, IndexError):
                    continue
                out.append((toks[j].off, toks[k].off))
    return out


def count_clauses(toks, fr):
    """number of explicit contract clauses / proof steps inside a function item"""
    n = 0
    for t in toks[fr["start_tok"]:fr["end_tok"]]:
        if t.kind == "id" and t.text in ("requires", "ensures", "invariant", "decreases", "assert", "invariant_except_break"):
            n += 1
    return n


TRUSTED_PATTERNS = [
    (r"#\[verifier::external_body\]", "external_body"),
    (r"\bassume_specification\b", "assume_specification"),
    (r"\bassume\s*\(", "assume"),
    (r"\badmit\s*\(", "admit"),
    (r"\baxiom\s+fn\b", "axiom"),
    (r"#\[verifier::external\]", "external"),
    (r"#\[verifier::external_type_specification\]", "external_type_specification"),
    (r"#\[verifier::external_trait_specification\]", "external_trait_specification"),
    (r"\buninterp\s+spec\s+fn\b", "uninterp"),
]


def trusted_scan(text):
    out = []
    lines = text.split("\n")
    for i, ln in enumerate(lines):
        code = ln.split("//")[0]
        for pat, kind in TRUSTED_PATTERNS:
            if re.search(pat, code):
                # the item it applies to: next line(s) containing fn/struct/type name
                ctx = code.strip()
                if kind == "external_body" and i > 0 and lines[i - 1].startswith("// ---- contract imported from unit"):
                    continue
                if kind in ("external_body", "external", "external_type_specification", "external_trait_specification"):
                    for k in range(i, min(i + 6, len(lines))):
                        m = re.search(r"\b(fn|struct|trait|enum|type)\s+([A-Za-z_0-9]+)", lines[k].split("//")[0])
                        if m:
                            ctx = m.group(1) + " " + m.group(2)
                            break
                elif kind in ("assume_specification",):
                    m = re.search(r"\[\s*([^\]]+)\]", " ".join(lines[i:i + 3]))
                    ctx = m.group(1).strip() if m else ctx
                elif kind in ("axiom", "uninterp"):
                    m = re.search(r"fn\s+([A-Za-z_0-9]+)", code)
                    ctx = m.group(1) if m else ctx
                out.append("%s: %s" % (kind, re.sub(r"\s+", " ", ctx)[:100]))
    # stable order, duplicates removed
    seen = []
    for x in out:
        if x not in seen:
            seen.append(x)
    return seen


def parse_diags(stderr):
    diags = []
    raw = []
    for ln in stderr.split("\n"):
        s = ln.strip()
        if not s:
            continue
        if s.startswith("{"):
            try:
                diags.append(json.loads(s))
                continue
            except ValueError:
                pass
        raw.append(ln)
    return diags, raw


def run_verus(path, extra=None, timeout=900, multiple_errors=8):
    cmd = [VERUS, path, "--output-json", "--time", "--multiple-errors", str(multiple_errors)]
    if extra:
        cmd += extra
    cmd += ["--", "--error-format=json"]
    t0 = time.time()
    try:
        p = subprocess.run(cmd, stdout=subprocess.PIPE, stderr=subprocess.PIPE, timeout=timeout,
                           cwd=os.path.dirname(path), universal_newlines=True)
        out, err, rc = p.stdout, p.stderr, p.returncode
    except subprocess.TimeoutExpired as e:
        out, err, rc = "", "TIMEOUT after %ds" % timeout, -9
    wall = time.time() - t0
    js = None
    try:
        # stdout may contain non-JSON noise before the object
        k = out.find("{")
        js = json.loads(out[k:]) if k >= 0 else None
    except ValueError:
        js = None
    return rc, js, err, wall, cmd


def classify(msg):
    for m, kind in OBLIGATION_MSGS:
        if m in msg:
            return kind
    return "?"


def verify_unit(name, spec_path, repo, build_dir, extra=None, do_canary=True, timeout=900, devs=()):
    """One unit, and - when the only thing in the way is the solver's resource limit on some function - once more with four times
    the budget (a query that needs a little more than the default on perturbed code is decided instead of left undecided; a query
    that diverges still ends as 'solver resource limit')."""
    res = _verify_unit_once(name, spec_path, repo, build_dir, extra, do_canary, timeout, devs)
    if res.status == "undecided" and (res.reason or "").startswith("solver resource limit") and "--rlimit" not in (extra or []):
        first = res.reason
        res = _verify_unit_once(name, spec_path, repo, build_dir, list(extra or []) + ["--rlimit", "40"], do_canary, timeout, devs)
        res.rlimit_retry = first
    return res


def _verify_unit_once(name, spec_path, repo, build_dir, extra=None, do_canary=True, timeout=900, devs=()):
    res = UnitResult(name)
    t_start = time.time()
    u = Unit(name, spec_path, repo)
    try:
        text = u.build(devs=devs)
    except (ExtractError, ValueError, KeyError, IndexError) as e:
        res.status = "undecided"
        res.reason = "extraction: %s" % e
        res.wall_s = time.time() - t_start
        return res
    os.makedirs(build_dir, exist_ok=True)
    gen = os.path.join(build_dir, name + ".rs")
    with open(gen, "w") as f:
        f.write(text)
    res.gen_path = gen
    res.props = u.props
    res.regions = [{"item": r.name, "rules": r.rewrites_applied, "drift_tokens": r.drift, "locals_renamed_back": getattr(r, "renamed", {}),
                    "generated_lines": list(r.gen_lines)} for r in u.regions]
    res.drift = sum(r.drift for r in u.regions)
    for r in u.regions:
        for k, v in r.rewrites_applied.items():
            res.rewrites[k] = res.rewrites.get(k, 0) + v
    res.trusted = trusted_scan(text)
    res.imports = list(u.imports)
    res.watched_changed = list(u.watched_changed)
    try:
        toks, franges = fn_ranges_of(text)
    except (ValueError, IndexError) as e:
        res.reason = "generated file does not lex/parse: %s" % e
        res.wall_s = time.time() - t_start
        return res
    res.fn_ranges = franges
    for fr in franges:
        res.clauses[fr["name"]] = count_clauses(toks, fr)

    rc, js, err, wall, cmd = run_verus(gen, extra, timeout)
    res.cmd = " ".join(cmd)
    diags, raw = parse_diags(err)
    res.stderr_tail = "\n".join(raw[-15:])
    if js is None:
        res.status = "undecided"
        res.reason = "verus produced no JSON (rc=%s): %s" % (rc, (err or "")[-600:])
        res.wall_s = time.time() - t_start
        return res
    vr = js.get("verification-results", {})
    tm = js.get("times-ms", {})
    res.verus_total_ms = tm.get("total", 0)
    smt = tm.get("smt", {})
    res.smt_ms = smt.get("smt-run", 0)
    for m in smt.get("smt-run-module-times", []):
        for f in m.get("function-breakdown", []):
            nm = f["function"].split("::", 1)[1] if "::" in f["function"] else f["function"]
            res.functions[nm] = {"success": f.get("success"), "mode": f.get("mode:"),
                                 "time_us": f.get("time-micros"), "rlimit": f.get("rlimit")}
    gen_lines = text.split("\n")
    line_off = [0]
    for ln in gen_lines:
        line_off.append(line_off[-1] + len(ln) + 1)
    granges = ghost_ranges(toks)
    mode_of = {fr["name"]: fr["mode"] for fr in franges}

    def in_ghost(span, fn):
        if fn is not None and mode_of.get(fn, "exec") != "exec":
            return True
        if not span:
            return False
        ln = span.get("line_start", 0)
        if not (0 < ln <= len(gen_lines)):
            return False
        # rustc columns are 1-based character columns
        off = line_off[ln - 1] + max(0, span.get("column_start", 1) - 1)
        return any(a <= off <= b for a, b in granges)

    def fn_at(line):
        best = None
        for fr in franges:
            if fr["first"] <= line <= fr["last"]:
                if best is None or fr["first"] >= best["first"]:
                    best = fr
        return best["name"] if best else None

    hard_errors = []
    rlimit_hit = []
    for d in diags:
        if d.get("level") != "error":
            continue
        msg = d.get("message", "")
        if msg.startswith("aborting due to"):
            continue
        allspans = d.get("spans", [])
        gbase = os.path.basename(gen)
        spans = [s for s in allspans if os.path.basename(s.get("file_name", "")) == gbase]
        prim = [s for s in spans if s.get("is_primary")] or spans
        line = prim[0]["line_start"] if prim else 0
        if any(x in msg for x in RLIMIT_MSGS):
            rlimit_hit.append((fn_at(line), msg))
            continue
        kind = classify(msg)
        if kind == "?" or d.get("code"):
            hard_errors.append("%s (generated line %d: %s)" % (msg, line, gen_lines[line - 1].strip()[:100] if 0 < line <= len(gen_lines) else ""))
            continue
        if kind is None:
            continue
        # function = the one containing the non-primary "at this exit"/call-site span if any, else primary
        fn = None
        for s in spans:
            if not s.get("is_primary"):
                fn = fn_at(s["line_start"]) or fn
        # for postcondition failures the primary span is the ensures clause (same fn); for
        # precondition failures the primary span is the callee's requires, the secondary is the call site
        site = prim[0] if prim else None
        if kind == "precondition":
            sec = [s for s in spans if not s.get("is_primary")]
            if sec:
                fn = fn_at(sec[0]["line_start"])
                site = sec[0]
        if fn is None:
            fn = fn_at(line)
        clause = gen_lines[line - 1].strip() if 0 < line <= len(gen_lines) else ""
        org = u.linemap[line - 1] if 0 < line <= len(u.linemap) else {}
        res.failures.append(Failure(kind, msg, fn, line, org, clause, d.get("rendered", ""), in_proof=in_ghost(site, fn)))
    if hard_errors or vr.get("encountered-vir-error"):
        res.status = "undecided"
        res.reason = "generated unit does not compile / is outside the Verus subset: " + "; ".join(hard_errors[:5])
        if not hard_errors:
            res.reason += res.stderr_tail[-800:]
    elif res.failures:
        res.status = "failed"
    elif rlimit_hit:
        res.status = "undecided"
        res.reason = "solver resource limit: " + "; ".join("%s: %s" % x for x in rlimit_hit[:5])
    elif vr.get("success") and rc == 0:
        res.status = "ok"
    else:
        # some function reported failure without a diagnostic we understand
        bad = [k for k, v in res.functions.items() if v["success"] is False]
        res.status = "undecided"
        res.reason = "verus rc=%s, success=%s, unexplained failing functions: %s; %s" % (rc, vr.get("success"), bad, res.stderr_tail[-500:])
    res.rlimit_hit = rlimit_hit

    if res.status == "ok":
        try:
            from . import pins
            ch = pins.changed_files(repo, [r.file for r in u.regions])
        except Exception as e:      # a pin that cannot be evaluated is a changed pin
            ch = ["(pins: %s)" % e]
        if ch:
            res.status = "undecided"
            res.reason = "code outside the functions under contract changed in %s (derive lists, impls, helpers): not decided by the verifier" % ", ".join(ch)
            res.remainder_changed = ch
    if res.status == "ok" and getattr(res, "watched_changed", None):
        res.status = "undecided"
        res.reason = "a watched function outside the verifier's reach changed: %s" % ", ".join(res.watched_changed)
    if do_canary and res.status in ("ok", "failed"):
        res.canary = run_canary(text, gen, extra, timeout)
    res.wall_s = time.time() - t_start
    return res


def make_canary_text(text):
    text = text.replace("#[verifier::loop_isolation(false)]", "")
    toks, franges = fn_ranges_of(text)
    inserts = {}   # token index after which to insert -> canary id
    cid = 0
    meta = {}
    for fr in franges:
        if fr["mode"] == "spec" or fr["external_body"] or fr["axiom"] or fr["body_open_tok"] is None:
            continue
        cid += 1
        inserts[fr["body_open_tok"]] = (cid, fr["mode"])
        meta[cid] = {"fn": fr["name"], "where": "body-start"}
        # loops
        i = fr["body_open_tok"] + 1
        end = fr["end_tok"]
        in_proof_depth = []
        while i < end:
            t = toks[i]
            if t.kind == "id" and t.text in ("for", "while", "loop") and fr["mode"] == "exec":
                # loop body = first '{' at depth 0 after the keyword
                j = i + 1
                ok = True
                while j < end:
                    tj = toks[j]
                    if tj.kind == "punct":
                        if tj.text in ("(", "["):
                            j = rustlex.match_close(toks, j)
                        elif tj.text == "{":
                            break
                        elif tj.text in (";", "}"):
                            ok = False
                            break
                    j += 1
                if ok and j < end:
                    cid += 1
                    inserts[j] = (cid, "exec")
                    meta[cid] = {"fn": fr["name"], "where": "loop-body-start@line%d" % t.line}
            i += 1
    out = []
    for idx, t in enumerate(toks):
        if t.kind == "dir":
            continue
        out.append(t)
        if idx in inserts:
            c, mode = inserts[idx]
            line = -c
            seq = (["proof", "{"] if mode == "exec" else []) + ["assert", "(", "canary_false", "(", str(c), ")", ")", ";"] + (["}"] if mode == "exec" else [])
            first = True
            for tx in seq:
                out.append(rustlex.Tok("id", tx, line, sp=True))
            # force a newline after the canary
            nxt = idx + 1
    # render: newline on line change
    text2 = rustlex.render(out)
    # the helper spec fn goes right after `verus! {`
    text2 = re.sub(r"verus!\s*\{", "verus! {\npub open spec fn canary_false(k: int) -> bool { false }\n", text2, count=1)
    return text2, meta


def run_canary(text, gen_path, extra, timeout):
    try:
        ctext, meta = make_canary_text(text)
    except (ValueError, IndexError) as e:
        return {"error": "canary generation failed: %s" % e}
    cpath = gen_path[:-3] + "__canary.rs"
    with open(cpath, "w") as f:
        f.write(ctext)
    cmd_extra = list(extra or [])
    rc, js, err, wall, cmd = run_verus(cpath, cmd_extra, timeout, multiple_errors=64)
    if js is None:
        return {"error": "canary run produced no output: %s" % (err or "")[-300:], "path": cpath}
    diags, raw = parse_diags(err)
    lines = ctext.split("\n")
    failed_ids = set()
    rlimit_fns = set()
    other_errors = []
    for d in diags:
        if d.get("level") != "error":
            continue
        msg = d.get("message", "")
        if msg.startswith("aborting"):
            continue
        hit = False
        for s in d.get("spans", []):
            for ln in range(s["line_start"], s["line_end"] + 1):
                if 0 < ln <= len(lines):
                    m = re.search(r"canary_false\s*\(\s*(\d+)\s*\)", lines[ln - 1])
                    if m and "assertion failed" in msg:
                        failed_ids.add(int(m.group(1)))
                        hit = True
                    if "Resource limit" in msg:
                        # the solver gave up on this function: its canaries were NOT proved (inconclusive, not vacuous)
                        m2 = re.search(r"\bfn\s+([A-Za-z_][A-Za-z0-9_]*)", lines[ln - 1])
                        if m2:
                            rlimit_fns.add(m2.group(1))
                            hit = True
        if not hit and (d.get("code") or classify(msg) == "?"):
            other_errors.append(msg)
    if other_errors and not failed_ids:
        return {"error": "canary unit does not compile: %s" % "; ".join(other_errors[:3]), "path": cpath}
    vacuous = [dict(meta[c], id=c) for c in sorted(meta) if c not in failed_ids and str(meta[c].get("fn", "")).split("::")[-1] not in rlimit_fns]
    inconclusive = [dict(meta[c], id=c) for c in sorted(meta) if c not in failed_ids and str(meta[c].get("fn", "")).split("::")[-1] in rlimit_fns]
    return {"total": len(meta), "failed_as_expected": len(failed_ids & set(meta)), "vacuous": vacuous, "inconclusive_rlimit": inconclusive,
            "errors": other_errors[:5], "wall_s": round(wall, 2), "path": cpath}
