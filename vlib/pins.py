"""Pins for the code that is NOT under contract.  For every source file a unit extracts from, the tokens that belong to no
extracted or watched item and to no test module (derive lists and other attributes, impls without a contract, helper functions,
use declarations, ...) are hashed; the hashes of the unchanged tree are committed in specs/pins.json.  When such a remainder
changes, the units reading that file are undecided and the bounded stand-in runs: a change outside every contract can still break
a property (a hand-written PartialEq, a new helper that an extracted function starts to call)."""
import glob
import hashlib
import json
import os
import re

from . import rustlex

ROOT = os.path.dirname(os.path.dirname(os.path.abspath(__file__)))


def directives():
    out = {}
    for f in glob.glob(os.path.join(ROOT, "specs", "*.rs")) + glob.glob(os.path.join(ROOT, "specs", "lib", "*.rs")):
        for ln in open(f):
            m = re.match(r"\s*//@ (extract|watch) (\S+)\s*:\s*(.+)$", ln)
            if m:
                out.setdefault(m.group(2), set()).add(tuple(m.group(3).split()))
    return out


def remainder_hash(repo, rel, dirs=None):
    dirs = dirs if dirs is not None else directives()
    path = os.path.join(repo, rel)
    toks = rustlex.lex(open(path).read())
    items = rustlex.parse_items(toks)
    drop = []          # token ranges of items under contract / watched, and of test modules
    for spec in dirs.get(rel, ()):
        it = rustlex.find_item(items, list(spec))
        if it is not None:
            drop.append((it.start, it.end))      # attributes in front of the item stay in the remainder
    for it in items:
        if it.kind == "mod" and it.name == "tests":
            drop.append((it.attr_start, it.end))
    # macro_rules definitions are read from the current source whenever an extracted function uses them (rule D7): a changed
    # macro is decided through its expansion, not pinned
    i = 0
    while i + 3 < len(toks):
        if toks[i].text == "macro_rules" and toks[i + 1].text == "!" and toks[i + 3].text in ("{", "("):
            try:
                drop.append((i, rustlex.match_close(toks, i + 3) + 1))
            except (ValueError, IndexError):
                pass
        i += 1
    keep = []
    for i, t in enumerate(toks):
        if t.kind in ("dir", "comment"):
            continue
        if any(a <= i < b for a, b in drop):
            continue
        keep.append(t.text)
    return hashlib.sha1(" ".join(keep).encode()).hexdigest()


def load():
    p = os.path.join(ROOT, "specs", "pins.json")
    return json.load(open(p)) if os.path.exists(p) else {}


def changed_files(repo, rels):
    """the files (of `rels`) whose not-under-contract remainder differs from the committed pin"""
    pins = load()
    dirs = directives()
    out = []
    for rel in sorted(set(rels)):
        if rel not in pins:
            continue
        try:
            h = remainder_hash(repo, rel, dirs)
        except (OSError, ValueError, IndexError):
            out.append(rel)
            continue
        if h != pins[rel]:
            out.append(rel)
    return out
