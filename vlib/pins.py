"""Pins for the code that is NOT under contract.  For every source file a unit extracts from, the tokens that belong to no
extracted or watched item and to no test module (derive lists and other attributes, impls without a contract, helper functions,
use declarations, ...) are hashed; the hashes of the unchanged tree are committed in specs/pins.json.  When such a remainder
changes, the units reading that file are undecided and the bounded stand-in runs: a change outside every contract can still break
a property (a hand-written PartialEq, a new helper that an extracted function starts to call)."""
import glob
import hashlib
import json
import os
import re

from . import rustlex

ROOT = os.path.dirname(os.path.dirname(os.path.abspath(__file__)))


def directives():
    out = {}
    for f in glob.glob(os.path.join(ROOT, "specs", "*.rs")) + glob.glob(os.path.join(ROOT, "specs", "lib", "*.rs")):
        for ln in open(f):
            m = re.match(r"\s*//@ (extract|watch) (\S+)\s*:\s*(.+)$", ln)
            if m:
                out.setdefault(m.group(2), set()).add(tuple(m.group(3).split()))
    return out


def remainder_hash(repo, rel, dirs=None):
    dirs = dirs if dirs is not None else directives()
    path = os.path.join(repo, rel)
    toks = rustlex.lex(open(path).read())
    items = rustlex.parse_items(toks)
    drop = []          # token ranges of items under contract / watched, and of test modules
    for spec in dirs.get(rel, ()):
        it = rustlex.find_item(items, list(spec))
        if it is not None:
            drop.append((it.start, it.end))      # attributes in front of the item stay in the remainder
    for it in items:
        if it.kind == "mod" and it.name == "tests":
            drop.append((it.attr_start, it.end))
    # macro_rules definitions are read from the current source whenever an extracted function uses them (rule D7): a changed
    # macro is decided through its expansion, not pinned
    i = 0
    while i + 3 < len(toks):
        if toks[i].text == "macro_rules" and toks[i + 1].text == "!" and toks[i + 3].text in ("{", "("):
            try:
                drop.append((i, rustlex.match_close(toks, i + 3) + 1))
            except (ValueError, IndexError):
                pass
        i += 1
    # a function that is defined here, is neither under contract nor part of a trait impl, and whose name occurs NOWHERE else in the
    # crate's sources (no call, no path, no method of that name anywhere) cannot influence any function under contract: adding such
    # a function is not a change of the remainder.  (On the unchanged tree every written function is under contract, so there is none.)
    def walk(its, inherent=True):
        for it in its:
            if it.kind == "fn" and inherent and not any(a <= it.start < b for a, b in drop):
                yield it
            elif it.kind == "impl":
                for x in walk(it.children, it.trait is None):
                    yield x
            elif it.kind == "mod" and it.name != "tests":
                for x in walk(it.children, True):
                    yield x
    cands = list(walk(items))
    if cands:
        counts = _name_counts(repo)
        gone = set()
        for it in cands:
            if it.name and counts.get(it.name, 0) == 1:
                drop.append((it.attr_start, it.end))
                gone.add(id(it))
        # an inherent impl block that consists of such functions only goes with them
        for it in items:
            if it.kind == "impl" and it.trait is None and it.children and all(id(c) in gone for c in it.children):
                drop.append((it.attr_start, it.end))
    keep = []
    for i, t in enumerate(toks):
        if t.kind in ("dir", "comment"):
            continue
        if any(a <= i < b for a, b in drop):
            continue
        keep.append(t.text)
    return hashlib.sha1(" ".join(keep).encode()).hexdigest()


_COUNTS = {}


def _name_counts(repo):
    """identifier -> number of occurrences over all of <repo>/src/**/*.rs (comments and string literals excluded)"""
    key = os.path.abspath(repo)
    if key not in _COUNTS:
        c = {}
        for f in glob.glob(os.path.join(repo, "src", "**", "*.rs"), recursive=True):
            try:
                for t in rustlex.lex(open(f).read()):
                    if t.kind == "id":
                        c[t.text] = c.get(t.text, 0) + 1
            except (OSError, ValueError, IndexError):
                pass
        _COUNTS[key] = c
    return _COUNTS[key]


def load():
    p = os.path.join(ROOT, "specs", "pins.json")
    return json.load(open(p)) if os.path.exists(p) else {}


def changed_files(repo, rels):
    """the files (of `rels`) whose not-under-contract remainder differs from the committed pin"""
    pins = load()
    dirs = directives()
    out = []
    for rel in sorted(set(rels)):
        if rel not in pins:
            continue
        try:
            h = remainder_hash(repo, rel, dirs)
        except (OSError, ValueError, IndexError):
            out.append(rel)
            continue
        if h != pins[rel]:
            out.append(rel)
    return out
