use vstd::prelude::*;
verus! {

pub open spec fn ws(c: u8) -> bool { vstd::std_specs::char::is_white_space(c as char) }

pub open spec fn line_end(b: Seq<u8>, from: int) -> int
    decreases b.len() - from
{
    if from >= b.len() { b.len() as int } else if b[from] == 10u8 { from } else { line_end(b, from + 1) }
}
pub open spec fn has_nonws(b: Seq<u8>, s: int, e: int) -> bool { exists|i: int| s <= i < e && !ws(#[trigger] b[i]) }

pub open spec fn ranges(b: Seq<u8>, from: int) -> Seq<(usize, usize)>
    decreases b.len() - from
{
    if from < 0 || from >= b.len() { seq![] } else {
        let e = line_end(b, from);
        let head = if has_nonws(b, from, e) { seq![(from as usize, e as usize)] } else { seq![] };
        if from <= e < b.len() { head + ranges(b, e + 1) } else { head }
    }
}
proof fn lemma_line_end(b: Seq<u8>, from: int)
    requires 0 <= from <= b.len()
    ensures from <= line_end(b, from) <= b.len(),
        forall|i: int| from <= i < line_end(b, from) ==> b[i] != 10u8,
        line_end(b, from) < b.len() ==> b[line_end(b, from)] == 10u8,
    decreases b.len() - from
{
    if from < b.len() && b[from] != 10u8 { lemma_line_end(b, from + 1); }
}
proof fn lemma_line_end_unique(b: Seq<u8>, from: int, e: int)
    requires 0 <= from <= e <= b.len(), forall|i: int| from <= i < e ==> b[i] != 10u8, e < b.len() ==> b[e] == 10u8
    ensures line_end(b, from) == e
    decreases e - from
{
    if from < e { lemma_line_end_unique(b, from + 1, e); }
}

// scanner of Plist::from_bytes after D1, with the C14 repair (tstart < idx)
fn scan(bytes: &[u8]) -> (lines: Vec<(usize, usize)>)
    ensures lines@ == ranges(bytes@, 0)
{
    let mut lines: Vec<(usize, usize)> = Vec::new();
    let mut start = 0;
    let mut tstart = 0;
    let mut trim = true;
    let mut end = 0;
    proof { assert(lines@ + ranges(bytes@, 0) =~= ranges(bytes@, 0)); }
    for idx in 0..bytes.len()
        invariant
            0 <= start <= tstart <= idx,
            end == start || (end == 0 && start == 0),
            forall|i: int| start <= i < idx ==> bytes@[i] != 10u8,
            forall|i: int| start <= i < tstart ==> ws(bytes@[i]),
            trim ==> tstart == idx,
            !trim ==> tstart < idx && !ws(bytes@[tstart as int]),
            lines@ + ranges(bytes@, start as int) == ranges(bytes@, 0),
    {
        let ch = &bytes[idx];
        if *ch == b'\n' {
            proof {
                lemma_line_end_unique(bytes@, start as int, idx as int);
                if tstart < idx { assert(!ws(bytes@[tstart as int])); assert(has_nonws(bytes@, start as int, idx as int)); }
                else { assert(!has_nonws(bytes@, start as int, idx as int)); }
            }
            if start < idx && tstart < idx {
                lines.push((start, idx));
            }
            proof {
                let ghost_head = if has_nonws(bytes@, start as int, idx as int) { seq![(start, idx)] } else { seq![] };
                assert(ranges(bytes@, start as int) =~= ghost_head + ranges(bytes@, idx + 1));
            }
            start = idx + 1;
            end = start;
            tstart = start;
            trim = true;
        } else if trim && (*ch as char).is_whitespace() {
            tstart += 1;
        } else {
            trim = false;
        }
    }
    proof {
        let n = bytes@.len() as int;
        if start < n {
            lemma_line_end_unique(bytes@, start as int, n);
            if tstart < n { assert(!ws(bytes@[tstart as int])); assert(has_nonws(bytes@, start as int, n)); }
            else { assert(!has_nonws(bytes@, start as int, n)); }
        }
    }
    if end < bytes.len() && tstart < bytes.len() {
        lines.push((start, bytes.len()));
    }
    lines
}
}
fn main() {}
