use crate::dewey::*;

#[kani::proof]
fn dewey_test_complete() {
    let a: i64 = kani::any();
    let b: i64 = kani::any();
    let l = DeweyVersion::new("");
    let _ = (a, b, l);
}

#[kani::proof]
fn is_ws_u8() {
    let c: u8 = kani::any();
    let r = (c as char).is_whitespace();
    let e = c == 9 || c == 10 || c == 11 || c == 12 || c == 13 || c == 32 || c == 0x85 || c == 0xA0;
    assert!(r == e);
}
