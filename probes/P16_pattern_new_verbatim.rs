use vstd::prelude::*;
verus! {
// stubs (D10)
pub mod glob {
    use vstd::prelude::*;
    verus!{
    #[verifier::external_body]
    pub struct Pattern { _p: () }
    #[verifier::external_body]
    pub struct PatternError { _p: () }
    impl Pattern {
        #[verifier::external_body]
        pub fn new(p: &str) -> Result<Pattern, PatternError> { unimplemented!() }
        #[verifier::external_body]
        pub fn matches(&self, s: &str) -> bool { unimplemented!() }
    }
    }
}
pub struct DeweyError { pub pos: usize, pub msg: &'static str }
pub struct Dewey { pkgname: String }
impl Dewey {
    #[verifier::external_body]
    pub fn new(pattern: &str) -> Result<Dewey, DeweyError> { unimplemented!() }
    #[verifier::external_body]
    pub fn matches(&self, pkg: &str) -> bool { unimplemented!() }
}

#[derive(Clone, Debug, Default, Eq, Hash, PartialEq)]
enum PatternType { Alternate, Dewey, Glob, #[default] Simple, }

pub enum PatternError { Alternate, Dewey(DeweyError), Glob(glob::PatternError), }
// D12: thiserror #[from]
impl From<DeweyError> for PatternError { fn from(e: DeweyError) -> PatternError { PatternError::Dewey(e) } }
impl From<glob::PatternError> for PatternError { fn from(e: glob::PatternError) -> PatternError { PatternError::Glob(e) } }

pub struct Pattern {
    matchtype: PatternType,
    pattern: String,
    likely: bool,
    dewey: Option<Dewey>,
    glob: Option<glob::Pattern>,
}
impl Default for Pattern { fn default() -> Pattern { Pattern { matchtype: PatternType::Simple, pattern: String::new(), likely: false, dewey: None, glob: None } } }

#[verifier::external_body]
fn shim_contains_char(s: &str, c: char) -> (r: bool) ensures r == s@.contains(c) { s.contains(c) }

impl Pattern {
    pub fn new(pattern: &str) -> Result<Self, PatternError> {
        if shim_contains_char(pattern, '{') || shim_contains_char(pattern, '}') {
            let matchtype = PatternType::Alternate;
            let mut stack = vec![];
            for ch in pattern.chars() {
                if ch == '{' {
                    stack.push(ch);
                } else if ch == '}' && stack.pop().is_none() {
                    return Err(PatternError::Alternate);
                }
            }
            if !stack.is_empty() {
                return Err(PatternError::Alternate);
            }
            return Ok(Pattern {
                matchtype,
                pattern: pattern.to_string(),
                ..Default::default()
            });
        }
        if shim_contains_char(pattern, '>') || shim_contains_char(pattern, '<') {
            let matchtype = PatternType::Dewey;
            let dewey = Some(Dewey::new(pattern)?);
            return Ok(Pattern {
                matchtype,
                pattern: pattern.to_string(),
                dewey,
                ..Default::default()
            });
        }
        if shim_contains_char(pattern, '*')
            || shim_contains_char(pattern, '?')
            || shim_contains_char(pattern, '[')
            || shim_contains_char(pattern, ']')
        {
            let matchtype = PatternType::Glob;
            let glob = Some(glob::Pattern::new(pattern)?);
            return Ok(Pattern {
                matchtype,
                pattern: pattern.to_string(),
                glob,
                ..Default::default()
            });
        }
        Ok(Pattern {
            matchtype: PatternType::Simple,
            pattern: pattern.to_string(),
            ..Default::default()
        })
    }
    fn quick_pkg_match(pattern: &str, pkg: &str) -> bool {
        let mut p1 = pattern.chars();
        let mut p2 = pkg.chars();
        let mut p;

        p = p1.next();
        if p.is_none() || !Self::is_simple_char(p.unwrap()) {
            return true;
        }
        if p != p2.next() {
            return false;
        }

        p = p1.next();
        if p.is_none() || !Self::is_simple_char(p.unwrap()) {
            return true;
        }
        if p != p2.next() {
            return false;
        }
        true
    }
    #[verifier::external_body]
    fn is_simple_char(c: char) -> bool {
        c.is_ascii_alphanumeric() || c == '-'
    }
}
}
fn main() {}
