use vstd::prelude::*;
verus! {
pub open spec fn count_open(s: Seq<char>) -> nat decreases s.len() {
    if s.len() == 0 { 0 } else { (if s[0] == '{' { 1nat } else { 0nat }) + count_open(s.skip(1)) }
}
pub struct Pat { pattern: String, alt: bool }
#[verifier::external_body]
fn shim_has_brace(s: &str) -> (r: bool) ensures r == (count_open(s@) > 0) { s.contains('{') }
#[verifier::external_body]
fn shim_expand_last(s: &str) -> (r: Vec<String>)
    requires count_open(s@) > 0
    ensures forall|i: int| 0 <= i < r@.len() ==> count_open(#[trigger] r@[i]@) == count_open(s@) - 1
{ unimplemented!() }

impl Pat {
    pub closed spec fn measure(&self) -> nat { count_open(self.pattern@) }
    fn new(p: &str) -> (r: Pat) ensures r.measure() == count_open(p@) {
        Pat { pattern: p.to_string(), alt: shim_has_brace(p) }
    }
    fn matches(&self, pkg: &str) -> bool
        decreases self.measure(), 1nat
    {
        if self.alt && shim_has_brace(self.pattern.as_str()) { Self::alternate_match(self.pattern.as_str(), pkg) } else { self.pattern.as_str() == pkg }
    }
    fn alternate_match(pattern: &str, pkg: &str) -> bool
        requires count_open(pattern@) > 0
        decreases count_open(pattern@), 0nat
    {
        let alts = shim_expand_last(pattern);
        for i in 0..alts.len()
            invariant forall|j: int| 0 <= j < alts@.len() ==> count_open(#[trigger] alts@[j]@) == count_open(pattern@) - 1
        {
            let pat = Pat::new(alts[i].as_str());
            if pat.matches(pkg) { return true; }
        }
        false
    }
}
}
fn main() {}
