use vstd::prelude::*;
use std::collections::HashMap;
verus! {
#[derive(Clone, Debug, Ord, PartialOrd, PartialEq, Eq, Hash)]
pub enum SummaryVariable { BuildDate, Categories, Conflicts, SizePkg }

#[derive(Clone, Debug, PartialEq, Eq, Hash)]
enum SummaryValue { S(String), I(i64), A(Vec<String>), }

impl SummaryValue {
    fn push(&mut self, val: &SummaryValue) {
        let v = match val {
            SummaryValue::A(s) => s,
            _ => panic!("pushing only supported on A()"),
        };

        match self {
            SummaryValue::A(s) => s.extend_from_slice(v),
            _ => panic!("pushing only supported on A()"),
        }
    }
}
pub struct Summary {
    entries: HashMap<SummaryVariable, SummaryValue>,
}

impl Summary {
    fn get_i(&self, var: SummaryVariable) -> Option<i64> {
        match &self.entries.get(&var) {
            Some(entry) => match entry {
                SummaryValue::I(i) => Some(*i),
                _ => panic!("internal error"),
            },
            None => None,
        }
    }
    fn insert_or_update(&mut self, var: SummaryVariable, val: SummaryValue) {
        match self.entries.entry(var) {
            std::collections::hash_map::Entry::Occupied(mut entry) => {
                *entry.get_mut() = val;
            }
            std::collections::hash_map::Entry::Vacant(entry) => {
                entry.insert(val);
            }
        }
    }
}
}
fn main() {}
