use pkgsrc::*;
use pkgsrc::plist::*;
use pkgsrc::distinfo::*;
use pkgsrc::summary::*;
use std::io::Write;
fn m(p: &str, n: &str) -> String { match Pattern::new(p) { Ok(x) => format!("{}", x.matches(n)), Err(e) => format!("ERR {e}") } }
fn catch<F: FnOnce() -> String + std::panic::UnwindSafe>(f: F) -> String { match std::panic::catch_unwind(f) { Ok(s) => s, Err(_) => "PANIC".into() } }
fn main() {
    std::panic::set_hook(Box::new(|_| {}));
    println!("C01 pre:   p<1.0 vs p-1.0pre1 => {} (expect true: pre=-1)", m("p<1.0", "p-1.0pre1"));
    println!("C01 RC:    p<1.0 vs p-1.0RC1 => {} (expect true)", m("p<1.0", "p-1.0RC1"));
    println!("C01 NB:    p>1.0 vs p-1.0NB1 => {} (expect true)", m("p>1.0", "p-1.0NB1"));
    println!("C01 rank:  p<1.50 vs p-1a => {} (expect true: a=rank 1 <50)", m("p<1.50", "p-1a"));
    println!("C01 case:  p>=1.0a<=1.0a vs p-1.0A => {} (expect true)", m("p>=1.0a", "p-1.0A"));
    println!("C04: {{a{{b,c}},d}}-1.0 vs ad-1.0 => {} (expect false)", m("{a{b,c},d}-1.0", "ad-1.0"));
    println!("C17 20 digits: {}", catch(|| m("p>1", "p-99999999999999999999")));
    println!("C17 20 digits pattern: {}", catch(|| m("p>99999999999999999999", "p-1")));
    let p = Plist::from_bytes(b"a\nbb\n").unwrap();
    println!("C14 'a\\nbb\\n' files = {:?} (expect [a, bb])", p.files());
    let p = Plist::from_bytes(b"a").unwrap();
    println!("C14 'a' files = {:?}", p.files());
    let d = Distinfo::from_bytes(b"SHA1 (foo\xc3\xa0bar) = abc\nSize (x\xe9y) = 5 bytes\n");
    println!("C11 names: {:?}", d.distfiles().iter().map(|e| e.filename.clone()).collect::<Vec<_>>());
    println!("C10 as_bytes: {:?}", String::from_utf8_lossy(&d.as_bytes()));
    let mut s = SummaryStream::new();
    let txt = "BUILD_DATE=d\nCATEGORIES=c\nCOMMENT=\u{e9}\nDESCRIPTION=x\nMACHINE_ARCH=m\nOPSYS=o\nOS_VERSION=1\nPKGNAME=p-1\nPKGPATH=a/b\nPKGTOOLS_VERSION=1\nSIZE_PKG=1\n\n";
    let b = txt.as_bytes();
    let cut = txt.find('\u{e9}').unwrap() + 1;
    let r1 = s.write(&b[..cut]); let r2 = s.write(&b[cut..]);
    println!("C09 cut inside multibyte: {:?} {:?} entries={}", r1.map_err(|e| e.kind()), r2.map_err(|e| e.kind()), s.entries().len());
    let mut md = Metadata::new();
    println!("C17 metadata: {}", catch(move || format!("{:?}", md.read_metadata(MetadataEntry::SizePkg, "abc"))));
    let dir = std::env::temp_dir().join("wit_pkgdb"); let _ = std::fs::remove_dir_all(&dir);
    std::fs::create_dir_all(dir.join("foo-1.0")).unwrap();
    for f in ["+COMMENT", "+CONTENTS", "+DESC"] { std::fs::write(dir.join("foo-1.0").join(f), "x").unwrap(); }
    let db = pkgsrc::pkgdb::PkgDB::open(&dir).unwrap();
    for p in db { let p = p.unwrap(); println!("C20 pkgname={} base={} version={}", p.pkgname(), p.pkgbase(), p.pkgversion()); }
    std::fs::create_dir_all(dir.join("nodash")).unwrap();
    for f in ["+COMMENT", "+CONTENTS", "+DESC"] { std::fs::write(dir.join("nodash").join(f), "x").unwrap(); }
    let dir2 = dir.clone();
    println!("C17 pkgdb nodash: {}", catch(move || { let db = pkgsrc::pkgdb::PkgDB::open(&dir2).unwrap(); let mut n = 0; for _p in db { n += 1; } format!("{n} ok") }));
    let _ = std::fs::remove_dir_all(&dir);
}
