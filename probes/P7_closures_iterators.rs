use vstd::prelude::*;
verus! {
pub enum E { A, B }
fn m1(s: &str) -> Option<E> {
    match s {
        "+A" => Some(E::A),
        "+B" => Some(E::B),
        _ => None,
    }
}
fn m2(e: &E) -> &str {
    match e { E::A => "+A", E::B => "+B" }
}
fn m3(v: &Vec<u8>) -> usize {
    let mut n: usize = 0;
    for x in v.iter() { if *x == 1u8 && n < 10 { n += 1; } }
    n
}
fn m4(v: &[u8]) -> usize {
    let mut n: usize = 0;
    for x in v.iter() { if *x == 1u8 && n < 10 { n += 1; } }
    n
}
fn m5(v: &Vec<u8>) -> Vec<u8> {
    let mut ignore = false;
    v.iter().filter_map(|x| if *x == 0 { ignore = true; None } else { Some(*x) }).collect()
}
fn m6(b: &[u8]) -> Option<usize> { b.iter().position(|c| *c == 32u8) }
}
fn main() {}
