use vstd::prelude::*;
use std::collections::{BTreeMap, HashMap};
use std::fmt;
verus! {
pub uninterp spec fn fout(f: &fmt::Formatter) -> Seq<char>;
#[verifier::external_body]
fn shim_fmt_str(f: &mut fmt::Formatter, s: &str) -> (r: fmt::Result)
    ensures r is Ok ==> fout(final(f)) == fout(old(f)) + s@
{ f.write_str(s) }

#[derive(Clone, Debug, Ord, PartialOrd, PartialEq, Eq, Hash)]
pub enum SummaryVariable { BuildDate, Categories, Conflicts, SizePkg }
#[derive(Clone, Debug, PartialEq, Eq, Hash)]
enum SummaryValue { S(String), I(i64), A(Vec<String>), }
pub struct Summary { entries: HashMap<SummaryVariable, SummaryValue>, }

impl Summary {
    fn display_fmt(&self, f: &mut fmt::Formatter) -> fmt::Result {
        let mut bmap = BTreeMap::new();
        for (key, val) in &self.entries {
            bmap.insert(key, val);
        }
        for (key, val) in bmap {
            match val {
                SummaryValue::S(s) => { shim_fmt_str(f, "x")?; shim_fmt_str(f, s)?; }
                SummaryValue::I(i) => { shim_fmt_str(f, "y")?; }
                SummaryValue::A(a) => {
                    for s in a.iter() {
                        shim_fmt_str(f, s)?;
                    }
                }
            };
        }
        Ok(())
    }
}
}
fn main() {}
