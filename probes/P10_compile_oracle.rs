use vstd::prelude::*;
verus! {
spec fn dbl(x: int) -> int { 2 * x }
fn oracle(x: u32) -> (r: u64) ensures r == dbl(x as int) { (x as u64) * 2 }
}
fn main() {
    let mut s = String::new();
    std::io::stdin().read_line(&mut s).unwrap();
    let x: u32 = s.trim().parse().unwrap();
    println!("{}", oracle(x));
}
