#![feature(pattern)]
use vstd::prelude::*;
use vstd::utf8::*;
use vstd::string::*;
use std::str::pattern::Pattern;
verus! {

pub uninterp spec fn pat_prefix<P>(s: Seq<char>, p: P) -> bool;

pub assume_specification<P: Pattern> [str::starts_with] (s: &str, p: P) -> (r: bool)
    ensures r == pat_prefix::<P>(s@, p);

pub broadcast axiom fn axiom_pat_prefix_str(s: Seq<char>, p: &str)
    ensures #[trigger] pat_prefix::<&str>(s, p) == p@.is_prefix_of(s);

pub assume_specification [char::is_ascii_alphabetic] (c: &char) -> (r: bool)
    ensures r == (('a' <= *c && *c <= 'z') || ('A' <= *c && *c <= 'Z'));

pub assume_specification [char::is_ascii_digit] (c: &char) -> (r: bool)
    ensures r == ('0' <= *c && *c <= '9');

fn g(s: &str) -> (r: bool)
    ensures r == "nb"@.is_prefix_of(s@)
{
    broadcast use axiom_pat_prefix_str;
    s.starts_with("nb")
}
fn q(c: char) -> bool { c.is_ascii_alphabetic() }
}
fn main() {}
