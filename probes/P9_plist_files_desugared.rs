use vstd::prelude::*;
use std::ffi::{OsStr, OsString};
verus! {

#[verifier::external_type_specification]
#[verifier::external_body]
pub struct ExOsString(OsString);
#[verifier::external_type_specification]
#[verifier::external_body]
pub struct ExOsStr(OsStr);

pub uninterp spec fn osb(s: &OsStr) -> Seq<u8>;
pub uninterp spec fn osbs(s: &OsString) -> Seq<u8>;
pub assume_specification [OsString::as_os_str] (s: &OsString) -> (r: &OsStr)
    ensures osb(r) == osbs(s);

pub enum PlistOption { Preserve }
pub enum PlistEntry {
    File(OsString),
    Cwd(OsString),
    Mode(Option<String>),
    PkgOpt(PlistOption),
    Ignore,
    Name(String),
}
pub struct Plist { entries: Vec<PlistEntry> }

pub open spec fn files_spec(es: Seq<PlistEntry>, ignore: bool) -> Seq<Seq<u8>>
    decreases es.len()
{
    if es.len() == 0 { seq![] } else {
        match es[0] {
            PlistEntry::Ignore => files_spec(es.skip(1), true),
            PlistEntry::File(f) => if ignore { files_spec(es.skip(1), false) } else { seq![osbs(&f)] + files_spec(es.skip(1), false) },
            _ => files_spec(es.skip(1), ignore),
        }
    }
}
pub open spec fn osv(v: Seq<&OsStr>) -> Seq<Seq<u8>> { v.map_values(|x: &OsStr| osb(x)) }

impl Plist {
    pub closed spec fn view(&self) -> Seq<PlistEntry> { self.entries@ }
    // desugared form of: self.entries.iter().filter_map(|entry| match entry {...}).collect()
    pub fn files(&self) -> (r: Vec<&OsStr>)
        ensures osv(r@) == files_spec(self.view(), false)
    {
        let mut ignore = false;
        let mut __out: Vec<&OsStr> = Vec::new();
        proof { assert(self.entries@.skip(0) =~= self.entries@); assert(osv(__out@) =~= seq![]); }
        for __i in 0..self.entries.len()
            invariant osv(__out@) + files_spec(self.entries@.skip(__i as int), ignore) == files_spec(self.entries@, false)
        {
            let entry = &self.entries[__i];
            let __r = match entry {
                PlistEntry::Ignore => {
                    ignore = true;
                    None
                }
                PlistEntry::File(file) => {
                    if ignore {
                        ignore = false;
                        None
                    } else {
                        Some(file.as_os_str())
                    }
                }
                _ => None,
            };
            proof {
                let es = self.entries@.skip(__i as int);
                assert(es.skip(1) =~= self.entries@.skip(__i as int + 1));
                assert(es[0] == self.entries@[__i as int]);
            }
            if let Some(__x) = __r {
                proof { assert(osv(__out@.push(__x)) =~= osv(__out@) + seq![osb(__x)]); }
                __out.push(__x);
            }
        }
        proof { assert(self.entries@.skip(self.entries@.len() as int) =~= seq![]); assert(self.entries@.skip(0) =~= self.entries@);}
        __out
    }
}
}
fn main() {}
