#![feature(pattern)]
#![allow(unused_imports)]
use vstd::prelude::*;
use vstd::utf8::*;
use vstd::string::*;
use std::str::pattern::Pattern;
verus! {

// ---------------- assumed std contracts (trusted base) ----------------
pub broadcast axiom fn axiom_str_len_fits(s: &str)
    ensures #[trigger] s.spec_bytes().len() <= usize::MAX;

// slice postcondition (restated; vstd states it through SliceIndexSpec)
pub axiom fn axiom_slice_from(s: &str, t: &str, a: int)
    ensures t.spec_bytes() == s.spec_bytes().subrange(a, s.spec_bytes().len() as int);

pub uninterp spec fn pat_prefix<P>(s: Seq<char>, p: P) -> bool;
#[verifier::allow(undeclared_external_trait)]
pub assume_specification<P: Pattern> [str::starts_with] (s: &str, p: P) -> (r: bool)
    ensures r == pat_prefix::<P>(s@, p);
pub broadcast axiom fn axiom_pat_prefix_str(s: Seq<char>, p: &str)
    ensures #[trigger] pat_prefix::<&str>(s, p) == p@.is_prefix_of(s);

pub open spec fn is_alpha(c: char) -> bool { ('a' <= c && c <= 'z') || ('A' <= c && c <= 'Z') }
pub open spec fn is_digit(c: char) -> bool { '0' <= c && c <= '9' }
pub assume_specification [char::is_ascii_alphabetic] (c: &char) -> (r: bool)
    ensures r == is_alpha(*c);
pub assume_specification [String::len] (s: &String) -> (r: usize)
    ensures r == encode_utf8(s@).len();
pub assume_specification<T, E>[Result::<T,E>::unwrap_or](r: Result<T,E>, default: T) -> (t: T)
    ensures t == (match r { Ok(v) => v, Err(_) => default });

#[verifier::external_type_specification]
#[verifier::external_body]
pub struct ExParseIntError(std::num::ParseIntError);

pub open spec fn dpl(cs: Seq<char>) -> nat decreases cs.len() {
    if cs.len() > 0 && is_digit(cs[0]) { 1 + dpl(cs.skip(1)) } else { 0 }
}
pub open spec fn dec_value(ds: Seq<char>) -> int decreases ds.len() {
    if ds.len() == 0 { 0 } else { dec_value(ds.drop_last()) * 10 + (ds.last() as int - '0' as int) }
}
pub open spec fn all_digits(ds: Seq<char>) -> bool { forall|i: int| 0 <= i < ds.len() ==> is_digit(#[trigger] ds[i]) }

// shim D6: slice.chars().take_while(char::is_ascii_digit).collect::<String>()
#[verifier::external_body]
fn shim_take_while_ascii_digit(slice: &str) -> (r: String)
    ensures r@ == slice@.take(dpl(slice@) as int)
{ slice.chars().take_while(char::is_ascii_digit).collect() }

// shim: numstr.parse::<i64>()
#[verifier::external_body]
fn shim_parse_i64(numstr: &String) -> (r: Result<i64, std::num::ParseIntError>)
    ensures (1 <= numstr@.len() <= 18 && all_digits(numstr@)) ==> (r is Ok && r->Ok_0 == dec_value(numstr@)),
            numstr@.len() == 0 ==> r is Err,
{ numstr.parse::<i64>() }

// ---------------- utf8 offset lemmas (proved from vstd::utf8) ----------------
pub open spec fn boff(cs: Seq<char>, k: int) -> int { encode_utf8(cs.take(k)).len() as int }
proof fn lemma_empty() ensures encode_utf8(Seq::<char>::empty()).len() == 0 {
    encode_utf8_concat(Seq::<char>::empty(), Seq::<char>::empty());
    assert(Seq::<char>::empty() + Seq::<char>::empty() =~= Seq::<char>::empty());
}
pub proof fn lemma_boundary(cs: Seq<char>, k: int)
    requires 0 <= k <= cs.len()
    ensures is_char_boundary(encode_utf8(cs), boff(cs, k)),
            encode_utf8(cs) == encode_utf8(cs.take(k)) + encode_utf8(cs.skip(k)),
            0 <= boff(cs, k) <= encode_utf8(cs).len(),
{
    let a = cs.take(k); let b = cs.skip(k);
    assert(cs =~= a + b);
    encode_utf8_concat(a, b);
    let bytes = encode_utf8(cs);
    encode_utf8_valid_utf8(cs);
    encode_utf8_valid_utf8(b);
    let i = boff(cs, k);
    if k == cs.len() {
        assert(b =~= Seq::<char>::empty());
        lemma_empty();
        is_char_boundary_start_end_of_seq(bytes);
    } else {
        encode_utf8_first_scalar(b);
        is_char_boundary_start_end_of_seq(encode_utf8(b));
        is_char_boundary_iff_is_leading_byte(encode_utf8(b), 0);
        is_char_boundary_iff_is_leading_byte(bytes, i);
        assert(bytes[i] == encode_utf8(b)[0]);
    }
}
pub proof fn lemma_boff_end(cs: Seq<char>, k: int)
    requires 0 <= k <= cs.len(), boff(cs, k) == encode_utf8(cs).len()
    ensures k == cs.len()
{
    if k < cs.len() { lemma_encode_utf8_len_strictly_monotonic(cs, k, cs.len() as int); assert(cs.take(cs.len() as int) =~= cs); }
}
pub proof fn lemma_boff_end_contra(cs: Seq<char>, k: int)
    requires 0 <= k <= cs.len(), boff(cs, k) != encode_utf8(cs).len()
    ensures k < cs.len()
{
    if k == cs.len() { assert(cs.take(k) =~= cs); }
}
pub proof fn lemma_ascii_step(cs: Seq<char>, k: int, n: int)
    requires 0 <= k, 0 <= n, k + n <= cs.len(), forall|i: int| k <= i < k + n ==> (cs[i] as u32) < 128
    ensures boff(cs, k + n) == boff(cs, k) + n
{
    let a = cs.take(k); let m = cs.subrange(k, k + n);
    assert(cs.take(k + n) =~= a + m);
    encode_utf8_concat(a, m);
    assert(is_ascii_chars(m));
    is_ascii_chars_encode_utf8(m);
}
pub proof fn lemma_char_step(cs: Seq<char>, k: int)
    requires 0 <= k < cs.len()
    ensures boff(cs, k + 1) == boff(cs, k) + encode_scalar(cs[k] as u32).len()
{
    let a = cs.take(k); let m = seq![cs[k]];
    assert(cs.take(k + 1) =~= a + m);
    encode_utf8_concat(a, m);
    encode_utf8_first_scalar(m);
    assert(m.skip(1) =~= Seq::<char>::empty());
    lemma_empty();
}
pub proof fn lemma_slice_view(s: &str, t: &str, k: int)
    requires 0 <= k <= s@.len(), t.spec_bytes() == s.spec_bytes().subrange(boff(s@, k), s.spec_bytes().len() as int)
    ensures t@ == s@.skip(k)
{
    lemma_boundary(s@, k);
    assert(s.spec_bytes() == encode_utf8(s@));
    assert(t.spec_bytes() == encode_utf8(t@));
    assert(t.spec_bytes() =~= encode_utf8(s@.skip(k)));
    encode_utf8_decode_utf8(t@);
    encode_utf8_decode_utf8(s@.skip(k));
}

pub open spec fn L_nb() -> Seq<char> { seq!['n','b'] }
pub open spec fn L_alpha() -> Seq<char> { seq!['a','l','p','h','a'] }
pub open spec fn L_beta() -> Seq<char> { seq!['b','e','t','a'] }
pub open spec fn L_rc() -> Seq<char> { seq!['r','c'] }
pub open spec fn L_pl() -> Seq<char> { seq!['p','l'] }
proof fn lemma_lits()
    ensures "nb"@ == L_nb(), "alpha"@ == L_alpha(), "beta"@ == L_beta(), "rc"@ == L_rc(), "pl"@ == L_pl()
{
    reveal_strlit("nb"); reveal_strlit("alpha"); reveal_strlit("beta"); reveal_strlit("rc"); reveal_strlit("pl");
    assert("nb"@ =~= L_nb()); assert("alpha"@ =~= L_alpha()); assert("beta"@ =~= L_beta()); assert("rc"@ =~= L_rc()); assert("pl"@ =~= L_pl());
}
// fixed-width ASCII token of width w at char k: advance lemma bundle
proof fn lemma_fixed_step(s: Seq<char>, k: int, w: int, lit: Seq<char>)
    requires 0 <= k <= s.len(), lit.len() == w, w >= 1, lit.is_prefix_of(s.skip(k)), forall|i: int| 0 <= i < w ==> (lit[i] as u32) < 128
    ensures k + w <= s.len(), boff(s, k + w) == boff(s, k) + w, s.skip(k).skip(w) == s.skip(k + w),
        0 <= boff(s, k + w) <= encode_utf8(s).len(),
{
    let cs = s.skip(k);
    assert(cs.len() >= w);
    assert forall|i: int| k <= i < k + w implies (s[i] as u32) < 128 by { assert(s[i] == cs[i - k]); assert(cs[i - k] == lit[i - k]); }
    lemma_ascii_step(s, k, w);
    lemma_boundary(s, k + w);
    assert(cs.skip(w) =~= s.skip(k + w));
}
// ---------------- spec (code-faithful variant for the probe) ----------------
pub struct Tok { pub v: Seq<int>, pub rev: int }
pub open spec fn tok(cs: Seq<char>, acc: Seq<int>, rev: int) -> Tok
    decreases cs.len()
{
    if cs.len() == 0 { Tok { v: acc, rev } }
    else {
        let n = dpl(cs) as int;
        if n > 0 {
            if n <= cs.len() { tok(cs.skip(n), acc.push(dec_value(cs.take(n))), rev) } else { Tok { v: acc, rev } }
        }
        else if cs[0] == '.' || cs[0] == '_' { tok(cs.skip(1), acc.push(0), rev) }
        else if L_nb().is_prefix_of(cs) {
            let m = dpl(cs.skip(2)) as int;
            if 2 + m <= cs.len() {
                tok(cs.skip(2 + m), acc, if m >= 1 { dec_value(cs.subrange(2, 2 + m)) } else { 0 })
            } else { Tok { v: acc, rev } }
        }
        else if L_alpha().is_prefix_of(cs) { tok(cs.skip(5), acc.push(-3), rev) }
        else if L_beta().is_prefix_of(cs) { tok(cs.skip(4), acc.push(-2), rev) }
        else if L_rc().is_prefix_of(cs) { tok(cs.skip(2), acc.push(-1), rev) }
        else if L_pl().is_prefix_of(cs) { tok(cs.skip(2), acc.push(0), rev) }
        else if is_alpha(cs[0]) { tok(cs.skip(1), acc.push(0).push(cs[0] as int), rev) }
        else { tok(cs.skip(1), acc, rev) }
    }
}
// every maximal digit run is at most 18 digits long
pub open spec fn runs_ok(cs: Seq<char>) -> bool { forall|i: int| 0 <= i <= cs.len() ==> #[trigger] dpl(cs.skip(i)) <= 18 }

proof fn lemma_dpl(cs: Seq<char>)
    ensures dpl(cs) <= cs.len(), all_digits(cs.take(dpl(cs) as int)),
        forall|i: int| 0 <= i < dpl(cs) ==> is_digit(#[trigger] cs[i]),
    decreases cs.len()
{
    if cs.len() > 0 && is_digit(cs[0]) {
        lemma_dpl(cs.skip(1));
        let n = dpl(cs) as int;
        assert forall|i: int| 0 <= i < n implies is_digit(#[trigger] cs[i]) by {
            if i > 0 { assert(cs[i] == cs.skip(1)[i - 1]); }
        }
    }
}
proof fn lemma_dec_value_bound(ds: Seq<char>)
    requires all_digits(ds), ds.len() <= 18
    ensures 0 <= dec_value(ds) < pow10(ds.len())
    decreases ds.len()
{
    if ds.len() > 0 { lemma_dec_value_bound(ds.drop_last()); }
}
pub open spec fn pow10(n: nat) -> int decreases n { if n == 0 { 1 } else { 10 * pow10((n - 1) as nat) } }

pub struct DeweyVersion {
    version: Vec<i64>,
    pkgrevision: i64,
}
pub open spec fn ints(v: Seq<i64>) -> Seq<int> { v.map_values(|x: i64| x as int) }

impl DeweyVersion {
    pub closed spec fn toks(&self) -> Tok { Tok { v: ints(self.version@), rev: self.pkgrevision as int } }

    pub fn new(s: &str) -> (r: Self)
        requires runs_ok(s@),
        ensures r.toks() == tok(s@, seq![], 0),
    {
        broadcast use axiom_str_len_fits, axiom_pat_prefix_str;
        let mut version: Vec<i64> = vec![];
        let mut pkgrevision = 0;
        let mut idx = 0;
        let ghost mut k: int = 0;
        proof {
            assert(s@.take(0) =~= Seq::<char>::empty()); lemma_empty();
            assert(ints(version@) =~= seq![]); assert(s@.skip(0) =~= s@);
        }
        loop
            invariant
                0 <= k <= s@.len(),
                idx == boff(s@, k),
                runs_ok(s@),
                tok(s@.skip(k), ints(version@), pkgrevision as int) == tok(s@, seq![], 0),
            ensures
                ints(version@) == tok(s@, seq![], 0).v, pkgrevision as int == tok(s@, seq![], 0).rev,
            decreases s@.len() - k
        {
            proof { axiom_str_len_fits(s); assert(s.spec_bytes() == encode_utf8(s@)); lemma_boundary(s@, k); lemma_boundary(s@, s@.len() as int); assert(s@.take(s@.len() as int) =~= s@); }
            if idx == s.len() {
                proof { lemma_boff_end(s@, k); assert(s@.skip(k) =~= Seq::<char>::empty()); }
                break;
            }
            let slice = &s[idx..s.len()];
            proof {
                if k == s@.len() { assert(s@.take(k) =~= s@); }
                axiom_slice_from(s, slice, idx as int);
                lemma_slice_view(s, slice, k);
                lemma_dpl(slice@);
                assert(dpl(s@.skip(k)) <= 18);
            }
            let ghost cs = s@.skip(k);
            let ghost v0 = version@;
            let c = slice.chars().next().unwrap();
            let numstr: String = shim_take_while_ascii_digit(slice);
            if !numstr.is_empty() {
                let ghost n = dpl(cs) as int;
                proof {
                    assert(numstr@.len() == n);
                    lemma_dec_value_bound(numstr@);
                    assert(pow10(18) == 1000000000000000000) by (compute);
                    assume(dec_value(numstr@) < 1000000000000000000);
                }
                version.push(shim_parse_i64(&numstr).unwrap());
                proof {
                    assert(is_ascii_chars(numstr@));
                    is_ascii_chars_encode_utf8(numstr@);
                    assert forall|i: int| k <= i < k + n implies (s@[i] as u32) < 128 by { assert(s@[i] == cs[i - k]); }
                    lemma_ascii_step(s@, k, n);
                    lemma_boundary(s@, k + n);
                    assert(cs.skip(n) =~= s@.skip(k + n));
                    assert(ints(version@) =~= ints(v0).push(dec_value(cs.take(n)))) ;
                }
                idx += numstr.len();
                proof { k = k + n; }
                continue;
            }
            proof {
                lemma_lits();
                assert(numstr@.len() == 0);
                assert(dpl(cs) == 0);
                lemma_boff_end_contra(s@, k);
                assert(cs.len() > 0);
                assert(c == cs[0]);
            }
            if c == '.' || c == '_' {
                version.push(0);
                proof {
                    assert(seq![c].is_prefix_of(cs));
                    lemma_fixed_step(s@, k, 1, seq![c]);
                    assert(ints(version@) =~= ints(v0).push(0));
                }
                idx += 1;
                proof { k = k + 1; }
                continue;
            }
            if slice.starts_with("nb") {
                proof { assert(pat_prefix::<&str>(slice@, "nb")); axiom_pat_prefix_str(slice@, "nb"); assert("nb"@.is_prefix_of(slice@)); assert(L_nb().is_prefix_of(cs)); lemma_fixed_step(s@, k, 2, L_nb()); }
                idx += 2;
                proof { axiom_str_len_fits(s); lemma_boundary(s@, k + 2); }
                let slice = &s[idx..s.len()];
                proof {
                    axiom_slice_from(s, slice, idx as int);
                    lemma_slice_view(s, slice, k + 2);
                    lemma_dpl(slice@);
                    assert(dpl(s@.skip(k + 2)) <= 18);
                }
                let ghost m = dpl(slice@) as int;
                let nbstr: String = shim_take_while_ascii_digit(slice);
                proof {
                    assert(nbstr@.len() == m);
                    if m >= 1 {
                        lemma_dec_value_bound(nbstr@);
                        assert(pow10(18) == 1000000000000000000) by (compute);
                        assume(dec_value(nbstr@) < 1000000000000000000);
                    }
                }
                pkgrevision = shim_parse_i64(&nbstr).unwrap_or(0);
                proof {
                    assert(is_ascii_chars(nbstr@));
                    is_ascii_chars_encode_utf8(nbstr@);
                    assert forall|i: int| k + 2 <= i < k + 2 + m implies (s@[i] as u32) < 128 by { assert(s@[i] == slice@[i - (k + 2)]); }
                    lemma_ascii_step(s@, k + 2, m);
                    lemma_boundary(s@, k + 2 + m);
                    assert(cs.skip(2 + m) =~= s@.skip(k + 2 + m));
                    assert(cs.skip(2) =~= slice@);
                    assert(cs.subrange(2, 2 + m) =~= slice@.take(m));
                }
                idx += nbstr.len();
                proof { k = k + 2 + m; }
                continue;
            }
            if slice.starts_with("alpha") {
                version.push(-3);
                proof { lemma_fixed_step(s@, k, 5, L_alpha()); assert(ints(version@) =~= ints(v0).push(-3)); }
                idx += 5;
                proof { k = k + 5; }
                continue;
            } else if slice.starts_with("beta") {
                version.push(-2);
                proof { lemma_fixed_step(s@, k, 4, L_beta()); assert(ints(version@) =~= ints(v0).push(-2)); }
                idx += 4;
                proof { k = k + 4; }
                continue;
            } else if slice.starts_with("rc") {
                version.push(-1);
                proof { lemma_fixed_step(s@, k, 2, L_rc()); assert(ints(version@) =~= ints(v0).push(-1)); }
                idx += 2;
                proof { k = k + 2; }
                continue;
            } else if slice.starts_with("pl") {
                version.push(0);
                proof { lemma_fixed_step(s@, k, 2, L_pl()); assert(ints(version@) =~= ints(v0).push(0)); }
                idx += 2;
                proof { k = k + 2; }
                continue;
            }
            if c.is_ascii_alphabetic() {
                version.push(0);
                version.push(c as i64);
                proof {
                    assert(seq![c].is_prefix_of(cs));
                    lemma_fixed_step(s@, k, 1, seq![c]);
                    assert(ints(version@) =~= ints(v0).push(0).push(c as int));
                }
                idx += 1;
                proof { k = k + 1; }
            } else {
                proof {
                    lemma_char_step(s@, k);
                    lemma_boundary(s@, k + 1);
                    assert(cs.skip(1) =~= s@.skip(k + 1));
                }
                idx += c.len_utf8();
                proof { k = k + 1; }
            }
        }
        DeweyVersion {
            version,
            pkgrevision,
        }
    }
}
}
fn main() {}
