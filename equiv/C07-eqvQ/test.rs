/*
 * Behaviour documentation for printing (Display) and parsing (FromStr) of
 * pkg_summary entries through the public API.
 */
use pkgsrc::summary::{MissingVariable, Summary, SummaryError};
use std::str::FromStr;

const CANONICAL: &str = "\
BUILD_DATE=2019-08-12 15:58:02 +0100
CATEGORIES=devel pkgtools
COMMENT=a = b, ünïcode
CONFLICTS=foo-[0-9]*
CONFLICTS=bar>=1
DEPENDS=dep1-[0-9]*
DEPENDS=dep2>=2<3
DESCRIPTION=first
DESCRIPTION=
DESCRIPTION=third = line
FILE_CKSUM=SHA1 abcdef
FILE_NAME=testpkg-1.0.tgz
FILE_SIZE=-1
HOMEPAGE=https://example.org/?a=b
LICENSE=
MACHINE_ARCH=x86_64
OPSYS=Darwin
OS_VERSION=18.7.0
PKG_OPTIONS=a b c
PKGNAME=testpkg-1.0
PKGPATH=pkgtools/testpkg
PKGTOOLS_VERSION=20091115
PREV_PKGPATH=pkgtools/old
PROVIDES=/opt/pkg/lib/libfoo.so
REQUIRES=/usr/lib/libc.so
REQUIRES=/usr/lib/libm.so
SIZE_PKG=9223372036854775807
SUPERSEDES=oldpkg-[0-9]*
";

fn required(sum: &mut Summary) {
    sum.set_build_date("d");
    sum.set_categories("c");
    sum.set_comment("");
    sum.set_description(&["x".to_string()]);
    sum.set_machine_arch("m");
    sum.set_opsys("o");
    sum.set_os_version("v");
    sum.set_pkgname("p-1");
    sum.set_pkgpath("a/p");
    sum.set_pkgtools_version("1");
    sum.set_size_pkg(0);
}

#[test]
fn canonical_text_round_trips_byte_for_byte() {
    let sum = Summary::from_str(CANONICAL).unwrap();
    assert_eq!(sum.to_string(), CANONICAL);
    assert_eq!(sum.comment(), Some("a = b, ünïcode"));
    assert_eq!(sum.license(), Some(""));
    assert_eq!(sum.file_size(), Some(-1));
    assert_eq!(sum.size_pkg(), Some(i64::MAX));
    assert_eq!(
        sum.description(),
        Some(
            &[
                "first".to_string(),
                "".to_string(),
                "third = line".to_string()
            ][..]
        )
    );
    assert_eq!(sum.requires().map(|r| r.len()), Some(2));
    assert_eq!(sum.homepage(), Some("https://example.org/?a=b"));
}

#[test]
fn shuffled_input_prints_in_fixed_order() {
    let mut lines: Vec<&str> = CANONICAL.lines().collect();
    /* Reverse the single-valued lines around, keep multi-line order. */
    lines.sort_by_key(|l| {
        let multi = ["CONFLICTS", "DEPENDS", "DESCRIPTION", "REQUIRES"]
            .iter()
            .any(|m| l.starts_with(m));
        if multi { 0 } else { 1 }
    });
    let text = lines.join("\n");
    let sum = Summary::from_str(&text).unwrap();
    assert_eq!(sum.to_string(), CANONICAL);
}

#[test]
fn output_depends_only_on_final_values() {
    let mut a = Summary::new();
    required(&mut a);
    a.push_depends("one");
    a.push_depends("two");
    a.set_file_size(i64::MIN);

    let mut b = Summary::new();
    b.set_file_size(7);
    b.set_file_size(i64::MIN);
    b.set_depends(&["zero".to_string()]);
    b.set_depends(&["one".to_string(), "two".to_string()]);
    b.set_size_pkg(5);
    required(&mut b);

    let expect = "BUILD_DATE=d\nCATEGORIES=c\nCOMMENT=\nDEPENDS=one\n\
                  DEPENDS=two\nDESCRIPTION=x\n\
                  FILE_SIZE=-9223372036854775808\nMACHINE_ARCH=m\nOPSYS=o\n\
                  OS_VERSION=v\nPKGNAME=p-1\nPKGPATH=a/p\n\
                  PKGTOOLS_VERSION=1\nSIZE_PKG=0\n";
    assert_eq!(a.to_string(), expect);
    assert_eq!(b.to_string(), expect);
    let back = Summary::from_str(&a.to_string()).unwrap();
    assert_eq!(back.to_string(), expect);
    assert_eq!(back.depends(), a.depends());
}

#[test]
fn empty_summary_prints_nothing() {
    assert_eq!(Summary::new().to_string(), "");
    let mut s = Summary::new();
    s.set_description(&[]);
    assert_eq!(s.to_string(), "");
}

#[test]
fn errors() {
    assert!(matches!(
        Summary::from_str("BUILD_DATE"),
        Err(SummaryError::ParseLine(l)) if l == "BUILD_DATE"
    ));
    assert!(matches!(
        Summary::from_str("BILD_DATE=x=y"),
        Err(SummaryError::ParseVariable(v)) if v == "BILD_DATE"
    ));
    assert!(matches!(
        Summary::from_str("=x"),
        Err(SummaryError::ParseVariable(v)) if v.is_empty()
    ));
    assert!(matches!(
        Summary::from_str("build_date=x"),
        Err(SummaryError::ParseVariable(_))
    ));
    assert!(matches!(
        Summary::from_str("SIZE_PKG="),
        Err(SummaryError::ParseInt(_))
    ));
    assert!(matches!(
        Summary::from_str("FILE_SIZE=9223372036854775808"),
        Err(SummaryError::ParseInt(_))
    ));
    assert!(matches!(
        Summary::from_str(""),
        Err(SummaryError::Incomplete(MissingVariable::BuildDate))
    ));
    assert!(matches!(
        Summary::from_str("BUILD_DATE=x\n\nCOMMENT=y"),
        Err(SummaryError::ParseLine(l)) if l.is_empty()
    ));
    let no_size = CANONICAL.replace("SIZE_PKG=9223372036854775807\n", "");
    assert!(matches!(
        Summary::from_str(&no_size),
        Err(SummaryError::Incomplete(MissingVariable::SizePkg))
    ));
    /* The first bad line wins. */
    assert!(matches!(
        Summary::from_str("FILE_SIZE=x\nnonsense"),
        Err(SummaryError::ParseInt(_))
    ));
}

/*
 * Every getter returns None when unset and the stored value when set,
 * for each of the three value kinds (string, integer, line list).
 */
#[test]
fn getters_by_kind() {
    let mut s = Summary::new();
    assert_eq!(s.build_date(), None);
    assert_eq!(s.file_size(), None);
    assert_eq!(s.size_pkg(), None);
    assert_eq!(s.provides(), None);
    assert_eq!(s.description_as_str(), None);
    assert!(!s.is_completed());

    s.set_build_date("");
    assert_eq!(s.build_date(), Some(""));
    s.set_build_date("日本");
    assert_eq!(s.build_date(), Some("日本"));
    s.set_file_size(0);
    assert_eq!(s.file_size(), Some(0));
    s.set_size_pkg(-5);
    assert_eq!(s.size_pkg(), Some(-5));
    s.push_provides("a");
    s.push_provides("");
    assert_eq!(s.provides(), Some(&["a".to_string(), "".to_string()][..]));
    s.set_provides(&[]);
    assert_eq!(s.provides(), Some(&[][..]));
    s.set_pkgname("foo-bar-1.0nb1");
    assert_eq!(s.pkgbase(), Some("foo-bar"));
    assert_eq!(s.pkgversion(), Some("1.0nb1"));
    required(&mut s);
    assert!(s.is_completed());
}
