/*
 * Behaviour check for csh-style brace alternation (Pattern::new brace
 * validation and the alternate_match expansion), via the public API.
 * Passes before and after the refactoring.
 */
use pkgsrc::Pattern;

fn m(pattern: &str, pkg: &str) -> bool {
    Pattern::new(pattern).unwrap().matches(pkg)
}

fn matching<'a>(pattern: &str, names: &[&'a str]) -> Vec<&'a str> {
    names.iter().copied().filter(|n| m(pattern, n)).collect()
}

#[test]
fn single_group() {
    let names = ["a-1", "b-1", "c-1", "ab-1", "-1", "", "a,b-1", "{a,b}-1"];
    assert_eq!(matching("{a,b}-1", &names), ["a-1", "b-1"]);
    assert_eq!(matching("{a}-1", &names), ["a-1"]);
    assert_eq!(matching("{}-1", &names), ["-1"]);
    assert_eq!(matching("{a,}-1", &names), ["a-1", "-1"]);
    assert_eq!(matching("{,a}-1", &names), ["a-1", "-1"]);
    assert_eq!(matching("{,}-1", &names), ["-1"]);
    assert_eq!(matching("{}", &names), [""]);
    assert_eq!(matching("{,,}", &names), [""]);
}

#[test]
fn several_groups_and_nesting() {
    let names = [
        "ac-1", "ad-1", "bc-1", "bd-1", "a-1", "c-1", "abc-1", "ab-1", "d-1",
        "abd-1", "acd-1", "ae-1",
    ];
    assert_eq!(
        matching("{a,b}{c,d}-1", &names),
        ["ac-1", "ad-1", "bc-1", "bd-1"]
    );
    /* nested: {a{b,c},d} expands to ab, ac, d - never "ad" or "a" */
    assert_eq!(matching("{a{b,c},d}-1", &names), ["ac-1", "ab-1", "d-1"]);
    assert_eq!(matching("{{a,b},c}-1", &names), ["a-1", "c-1"]);
    assert_eq!(matching("{a,{b,c}d}-1", &names), ["bd-1", "a-1"]);
    assert_eq!(matching("{{{a}}}-1", &names), ["a-1"]);
    assert_eq!(matching("a{b{c,d},e}-1", &names), ["abc-1", "abd-1", "ae-1"]);
    /* commas outside any group are literal */
    assert!(m("a,{b,c}-1", "a,b-1"));
    assert!(!m("a,{b,c}-1", "a-1"));
    assert!(!m("a,{b,c}-1", "b-1"));
}

#[test]
fn expansions_are_patterns_themselves() {
    /* dewey */
    assert!(m("{foo,bar}>=1.0", "foo-1.0"));
    assert!(m("{foo,bar}>=1.0", "bar-2"));
    assert!(!m("{foo,bar}>=1.0", "baz-2"));
    assert!(!m("{foo,bar}>=1.0", "foo-0.9"));
    assert!(m("foo{>=1<2,>=3<4}", "foo-1.5"));
    assert!(m("foo{>=1<2,>=3<4}", "foo-3"));
    assert!(!m("foo{>=1<2,>=3<4}", "foo-2.5"));
    /* glob */
    assert!(m("{foo,bar}-[0-9]*", "bar-1.0"));
    assert!(!m("{foo,bar}-[0-9]*", "bar-x"));
    assert!(m("{foo-[0-9]*,bar>=2}", "bar-2"));
    assert!(m("{foo-[0-9]*,bar>=2}", "foo-1"));
    assert!(!m("{foo-[0-9]*,bar>=2}", "bar-1"));
    /* invalid expansions are skipped, valid siblings still match */
    assert!(m("foo{>1>2,>=1}", "foo-1"));
    assert!(!m("foo{>1>2,<1<2}", "foo-1"));
    assert!(m("{foo-[,foo-1}", "foo-1"));
    assert!(!m("{foo-[,foo-2}", "foo-1"));
    /* non-ASCII text around and inside groups */
    assert!(m("p\u{e9}{\u{4e16},b}-1", "p\u{e9}\u{4e16}-1"));
    assert!(m("p\u{e9}{\u{4e16},b}-1", "p\u{e9}b-1"));
    assert!(!m("p\u{e9}{\u{4e16},b}-1", "p\u{e9}-1"));
}

#[test]
fn brace_validation() {
    for ok in ["{}", "{a}", "{a,b}", "{{}}", "{}{}", "a{b{c}d}e", "{a{b,c},d}-1"] {
        assert!(Pattern::new(ok).is_ok(), "{ok}");
    }
    for bad in [
        "{", "}", "}{", "{{}", "{}}", "a{b", "a}b", "{a,b}}", "{{a,b}", "}a{",
        "{a}}{", "\u{e9}{", "}\u{e9}",
    ] {
        assert!(Pattern::new(bad).is_err(), "{bad}");
    }
}
