use pkgsrc::digest::{Digest, DigestError};
use std::io::{self, Cursor, Read};
use std::str::FromStr;

const ALL: [Digest; 6] = [
    Digest::BLAKE2s,
    Digest::MD5,
    Digest::RMD160,
    Digest::SHA1,
    Digest::SHA256,
    Digest::SHA512,
];

/* Known answers for "" and "abc", same order as ALL. */
const EMPTY: [&str; 6] = [
    "69217a3079908094e11121d042354a7c1f55b6482ca1a51e1b250dfd1ed0eef9",
    "d41d8cd98f00b204e9800998ecf8427e",
    "9c1185a5c5e9fc54612808977ee8f548b2258d31",
    "da39a3ee5e6b4b0d3255bfef95601890afd80709",
    "e3b0c44298fc1c149afbf4c8996fb92427ae41e4649b934ca495991b7852b855",
    "cf83e1357eefb8bdf1542850d66d8007d620e4050b5715dc83f4a921d36ce9ce47d0d13c5d85f2b0ff8318d2877eec2f63b931bd47417a81a538327af927da3e",
];
const ABC: [&str; 6] = [
    "508c5e8c327c14e2e1a72ba34eeb452f37458b209ed63a294d999b4c86675982",
    "900150983cd24fb0d6963f7d28e17f72",
    "8eb208f7e05d987a9b044a8e98c6b087f15a0bfc",
    "a9993e364706816aba3e25717850c26c9cd0d89d",
    "ba7816bf8f01cfea414140de5dae2223b00361a396177a9cb410ff61f20015ad",
    "ddaf35a193617abacc417349ae20413112e6fa4e89a97ea20a9eeee64b55d39a2192992a274fc1a836ba3c23a3feebbd454d4423643ce80e2a9ac94fa54ca49f",
];

/* Reader giving at most `chunk` bytes per call, with scripted faults. */
struct Script<'a> {
    data: &'a [u8],
    pos: usize,
    chunk: usize,
    calls: usize,
    interrupt_every: usize,
    fail_at_pos: Option<usize>,
}

impl Read for Script<'_> {
    fn read(&mut self, buf: &mut [u8]) -> io::Result<usize> {
        self.calls += 1;
        if let Some(p) = self.fail_at_pos {
            if self.pos >= p {
                return Err(io::Error::new(io::ErrorKind::Other, "boom"));
            }
        }
        if self.interrupt_every != 0 && self.calls % self.interrupt_every == 0 {
            return Err(io::Error::new(io::ErrorKind::Interrupted, "eintr"));
        }
        let mut n = (self.data.len() - self.pos).min(self.chunk).min(buf.len());
        if let Some(p) = self.fail_at_pos {
            n = n.min(p - self.pos);
        }
        buf[..n].copy_from_slice(&self.data[self.pos..self.pos + n]);
        self.pos += n;
        Ok(n)
    }
}

fn filtered(input: &[u8]) -> Vec<u8> {
    let mut out = Vec::new();
    if input.is_empty() {
        return out;
    }
    let body = input.strip_suffix(b"\n").unwrap_or(input);
    for line in body.split(|&b| b == b'\n') {
        if line.windows(7).any(|w| w == b"$NetBSD") {
            continue;
        }
        out.extend_from_slice(line);
        out.push(b'\n');
    }
    out
}

fn is_lower_hex(s: &str) -> bool {
    s.bytes().all(|b| b.is_ascii_digit() || (b'a'..=b'f').contains(&b))
}

#[test]
fn known_answers_and_shape() {
    let lens = [64, 32, 40, 40, 64, 128];
    for (i, d) in ALL.iter().enumerate() {
        assert_eq!(d.hash_str("").unwrap(), EMPTY[i]);
        assert_eq!(d.hash_str("abc").unwrap(), ABC[i]);
        assert_eq!(d.hash_file(&mut Cursor::new(b"")).unwrap(), EMPTY[i]);
        assert_eq!(d.hash_file(&mut Cursor::new(b"abc")).unwrap(), ABC[i]);
        assert_eq!(d.hash_patch(&mut Cursor::new(b"")).unwrap(), EMPTY[i]);
        let h = d.hash_str("snowman \u{2603} and \u{1F600}").unwrap();
        assert_eq!(h.len(), lens[i]);
        assert!(is_lower_hex(&h));
    }
    /* Digests with leading-zero bytes keep their padding. */
    assert_eq!(
        Digest::MD5.hash_str("jk8ssl").unwrap(),
        "0000000018e6137ac2caab16074784a6"
    );
}

#[test]
fn file_and_str_agree_under_all_schedules() {
    for len in [0usize, 1, 55, 56, 63, 64, 65, 119, 128, 129, 4097] {
        let s: String =
            (0..len).map(|i| (b' ' + (i % 90) as u8) as char).collect();
        for d in ALL {
            let want = d.hash_str(&s).unwrap();
            for (chunk, intr) in [(1, 0), (1, 2), (7, 3), (64, 0), (10000, 5)] {
                let mut r = Script {
                    data: s.as_bytes(),
                    pos: 0,
                    chunk,
                    calls: 0,
                    interrupt_every: intr,
                    fail_at_pos: None,
                };
                assert_eq!(d.hash_file(&mut r).unwrap(), want, "{d} {len}");
            }
        }
    }
}

#[test]
fn patch_filtering() {
    let inputs: Vec<Vec<u8>> = vec![
        b"".to_vec(),
        b"\n".to_vec(),
        b"\n\n".to_vec(),
        b"no newline".to_vec(),
        b"$NetBSD".to_vec(),
        b"$NetBSD$\n".to_vec(),
        b"$NetBS\nD$\n".to_vec(),
        b"a\n$NetBSD: x $\nb\n".to_vec(),
        b"a\n# $Id$ $NetBSD$\nb".to_vec(),
        b"a\n$$NetBSD$$\n$netbsd$\nb\r\n".to_vec(),
        b"keep\nlast $NetBSD$".to_vec(),
        b"\xff\xfe$NetBSD\xff\n\xff\xfe\n\x00\n".to_vec(),
        "caf\u{e9} $NetBSD$\ncaf\u{e9}\n".as_bytes().to_vec(),
        {
            let mut v = Vec::new();
            for i in 0..300 {
                if i % 7 == 0 {
                    v.extend_from_slice(b"+# $NetBSD: f,v 1.1 $\n");
                } else {
                    v.extend_from_slice(format!("+line {i}\n").as_bytes());
                }
            }
            v
        },
    ];
    for input in &inputs {
        let want_bytes = filtered(input);
        for d in ALL {
            let want = d.hash_file(&mut Cursor::new(&want_bytes)).unwrap();
            for (chunk, intr) in [(1, 0), (1, 2), (3, 4), (5, 0), (100000, 0)] {
                let mut r = Script {
                    data: input,
                    pos: 0,
                    chunk,
                    calls: 0,
                    interrupt_every: intr,
                    fail_at_pos: None,
                };
                assert_eq!(
                    d.hash_patch(&mut r).unwrap(),
                    want,
                    "{d} chunk {chunk} on {input:?}"
                );
            }
        }
    }
}

#[test]
fn hard_errors_are_reported() {
    let data = b"first\n$NetBSD$\nthird line\nfourth";
    for d in ALL {
        for at in 0..data.len() {
            for chunk in [1usize, 4, 1000] {
                let mut r = Script {
                    data,
                    pos: 0,
                    chunk,
                    calls: 0,
                    interrupt_every: 0,
                    fail_at_pos: Some(at),
                };
                match d.hash_file(&mut r) {
                    Err(DigestError::Io(e)) => {
                        assert_eq!(e.kind(), io::ErrorKind::Other)
                    }
                    other => panic!("hash_file: {other:?}"),
                }
                let mut r = Script {
                    data,
                    pos: 0,
                    chunk,
                    calls: 0,
                    interrupt_every: 0,
                    fail_at_pos: Some(at),
                };
                match d.hash_patch(&mut r) {
                    Err(DigestError::Io(e)) => {
                        assert_eq!(e.kind(), io::ErrorKind::Other)
                    }
                    other => panic!("hash_patch: {other:?}"),
                }
            }
        }
    }
}

#[test]
fn names_round_trip() {
    for d in ALL {
        let name = d.to_string();
        assert_eq!(Digest::from_str(&name).unwrap(), d);
        assert_eq!(Digest::from_str(&name.to_lowercase()).unwrap(), d);
        assert_eq!(Digest::from_str(&name.to_uppercase()).unwrap(), d);
    }
    assert!(Digest::from_str("").is_err());
    assert!(Digest::from_str("sha-1").is_err());
}
