/*
 * Size and checksum verification: passes exactly for matching files, and
 * reports mismatch / missing / not found otherwise.
 */
use pkgsrc::digest::Digest;
use pkgsrc::distinfo::{Checksum, Distinfo, DistinfoError, Entry, EntryType};
use std::fs;
use std::path::{Path, PathBuf};

const ALL: [Digest; 6] = [
    Digest::BLAKE2s,
    Digest::MD5,
    Digest::RMD160,
    Digest::SHA1,
    Digest::SHA256,
    Digest::SHA512,
];

fn scratch(name: &str) -> PathBuf {
    let dir = std::env::temp_dir()
        .join(format!("c12r7-demo3-{}-{}", std::process::id(), name));
    let _ = fs::remove_dir_all(&dir);
    fs::create_dir_all(&dir).unwrap();
    dir
}

fn digest_of(d: Digest, bytes: &[u8]) -> String {
    let mut r: &[u8] = bytes;
    d.hash_file(&mut r).unwrap()
}

fn strip_rcs_lines(content: &[u8]) -> Vec<u8> {
    let mut out = Vec::new();
    let mut lines: Vec<&[u8]> = content.split(|b| *b == b'\n').collect();
    if lines.last().is_some_and(|l| l.is_empty()) {
        lines.pop();
    }
    for l in lines {
        if l.windows(7).any(|w| w == b"$NetBSD") {
            continue;
        }
        out.extend_from_slice(l);
        out.push(b'\n');
    }
    out
}

fn contents() -> Vec<Vec<u8>> {
    vec![
        vec![],
        b"\n".to_vec(),
        b"no trailing newline".to_vec(),
        b"one line\nand another\n".to_vec(),
        b"$NetBSD: x,v 1.1 ken Exp $\nbody\n".to_vec(),
        (0u8..=255).collect(),
        vec![0u8; 70000],
    ]
}

fn flip_first_hex(h: &str) -> String {
    let mut s = String::from(if h.starts_with('0') { "1" } else { "0" });
    s.push_str(&h[1..]);
    s
}

#[test]
fn distfile_size() {
    let dir = scratch("size");
    for (i, content) in contents().iter().enumerate() {
        let name = format!("dist-{i}.tar.gz");
        let file = dir.join("sub").join(&name);
        fs::create_dir_all(file.parent().unwrap()).unwrap();
        fs::write(&file, content).unwrap();
        let len = content.len() as u64;
        assert_eq!(Distinfo::calculate_size(&file).unwrap(), len);

        for recorded in [len, len + 1, len.saturating_sub(1), 0, u64::MAX] {
            let text = format!("Size (sub/{name}) = {recorded} bytes\n");
            let di = Distinfo::from_bytes(text.as_bytes());
            let entry = di.find_entry(&file).unwrap();
            for r in [di.verify_size(&file), entry.verify_size(&file)] {
                if recorded == len {
                    assert_eq!(r.unwrap(), len);
                } else {
                    match r {
                        Err(DistinfoError::Size(p, e, a)) => {
                            assert_eq!(p, PathBuf::from(format!("sub/{name}")));
                            assert_eq!(e, recorded);
                            assert_eq!(a, len);
                        }
                        other => panic!("expected size error: {other:?}"),
                    }
                }
            }
        }

        /* No size recorded. */
        let text = format!("MD5 (sub/{name}) = 00\n");
        let di = Distinfo::from_bytes(text.as_bytes());
        match di.verify_size(&file) {
            Err(DistinfoError::MissingSize(p)) => assert_eq!(p, file),
            other => panic!("expected missing size: {other:?}"),
        }
        /* Missing size is reported even if the file does not exist. */
        let gone = dir.join("nowhere").join("sub").join(&name);
        match di.verify_size(&gone) {
            Err(DistinfoError::MissingSize(p)) => assert_eq!(p, gone),
            other => panic!("expected missing size: {other:?}"),
        }
        /* Recorded, but the file cannot be opened. */
        let di = Distinfo::from_bytes(
            format!("Size (sub/{name}) = 1 bytes\n").as_bytes(),
        );
        assert!(matches!(di.verify_size(&gone), Err(DistinfoError::Io(_))));
    }
    let _ = fs::remove_dir_all(&dir);
}

#[test]
fn distfile_checksums() {
    let dir = scratch("sum");
    for (i, content) in contents().iter().enumerate() {
        let name = format!("dist-{i}.tar.gz");
        let file = dir.join(&name);
        fs::write(&file, content).unwrap();

        /* Record everything but SHA256, in a shuffled order. */
        let order = [
            Digest::SHA512,
            Digest::MD5,
            Digest::BLAKE2s,
            Digest::SHA1,
            Digest::RMD160,
        ];
        let mut text = String::new();
        for d in order {
            let h = digest_of(d, content);
            assert_eq!(Distinfo::calculate_checksum(&file, d).unwrap(), h);
            text.push_str(&format!("{d} ({name}) = {h}\n"));
        }
        let di = Distinfo::from_bytes(text.as_bytes());
        let entry = di.find_entry(&file).unwrap();
        assert_eq!(entry.filetype, EntryType::Distfile);

        for d in ALL {
            for r in
                [di.verify_checksum(&file, d), entry.verify_checksum(&file, d)]
            {
                if d == Digest::SHA256 {
                    match r {
                        Err(DistinfoError::MissingChecksum(p, dd)) => {
                            assert_eq!(p, file);
                            assert_eq!(dd, d);
                        }
                        other => panic!("expected missing: {other:?}"),
                    }
                } else {
                    assert!(matches!(r, Ok(x) if x == d));
                }
            }
        }
        for results in [di.verify_checksums(&file), entry.verify_checksums(&file)]
        {
            assert_eq!(results.len(), order.len());
            for (r, d) in results.iter().zip(order) {
                assert!(matches!(r, Ok(x) if *x == d), "{r:?}");
            }
        }

        /* Corrupt the file: every recorded digest now mismatches. */
        let mut bad = content.clone();
        if bad.is_empty() {
            bad.push(b'x');
        } else {
            let n = bad.len() / 2;
            bad[n] ^= 0x01;
        }
        fs::write(&file, &bad).unwrap();
        for results in [di.verify_checksums(&file), entry.verify_checksums(&file)]
        {
            assert_eq!(results.len(), order.len());
            for (r, d) in results.iter().zip(order) {
                match r {
                    Err(DistinfoError::Checksum(p, dd, e, a)) => {
                        assert_eq!(p, &PathBuf::from(&name));
                        assert_eq!(*dd, d);
                        assert_eq!(*e, digest_of(d, content));
                        assert_eq!(*a, digest_of(d, &bad));
                    }
                    other => panic!("expected checksum error: {other:?}"),
                }
            }
        }
        /* SHA256 is still reported as missing, not as a mismatch. */
        assert!(matches!(
            di.verify_checksum(&file, Digest::SHA256),
            Err(DistinfoError::MissingChecksum(_, Digest::SHA256))
        ));
        fs::write(&file, content).unwrap();

        /* Corrupt the recorded value instead. */
        for d in order {
            let good = digest_of(d, content);
            for recorded in [
                flip_first_hex(&good),
                good[..good.len() - 1].to_string(),
                format!("{good}0"),
                good.to_uppercase(),
            ] {
                if recorded == good {
                    continue;
                }
                let di = Distinfo::from_bytes(
                    format!("{d} ({name}) = {recorded}\n").as_bytes(),
                );
                match di.verify_checksum(&file, d) {
                    Err(DistinfoError::Checksum(p, dd, e, a)) => {
                        assert_eq!(p, PathBuf::from(&name));
                        assert_eq!(dd, d);
                        assert_eq!(e, recorded);
                        assert_eq!(a, good);
                    }
                    other => panic!("expected checksum error: {other:?}"),
                }
            }
        }
    }

    /* Recorded digest, unreadable file. */
    let di = Distinfo::from_bytes(b"SHA1 (gone.tgz) = 00\n");
    let gone = dir.join("gone.tgz");
    assert!(matches!(
        di.verify_checksum(&gone, Digest::SHA1),
        Err(DistinfoError::Io(_))
    ));
    assert!(matches!(
        di.verify_checksum(&gone, Digest::MD5),
        Err(DistinfoError::MissingChecksum(_, Digest::MD5))
    ));
    let r = di.verify_checksums(&gone);
    assert_eq!(r.len(), 1);
    assert!(matches!(r[0], Err(DistinfoError::Io(_))));
    let _ = fs::remove_dir_all(&dir);
}

#[test]
fn duplicate_digest_lines_use_the_first() {
    let dir = scratch("dup");
    let file = dir.join("dup.tgz");
    fs::write(&file, b"dup").unwrap();
    let good = digest_of(Digest::SHA1, b"dup");
    let bad = flip_first_hex(&good);

    let di = Distinfo::from_bytes(
        format!("SHA1 (dup.tgz) = {good}\nSHA1 (dup.tgz) = {bad}\n").as_bytes(),
    );
    assert!(matches!(di.verify_checksum(&file, Digest::SHA1), Ok(Digest::SHA1)));
    let r = di.verify_checksums(&file);
    assert_eq!(r.len(), 2);
    assert!(r.iter().all(|x| matches!(x, Ok(Digest::SHA1))));

    let di = Distinfo::from_bytes(
        format!("SHA1 (dup.tgz) = {bad}\nSHA1 (dup.tgz) = {good}\n").as_bytes(),
    );
    match di.verify_checksum(&file, Digest::SHA1) {
        Err(DistinfoError::Checksum(_, _, e, a)) => {
            assert_eq!(e, bad);
            assert_eq!(a, good);
        }
        other => panic!("expected checksum error: {other:?}"),
    }
    let r = di.verify_checksums(&file);
    assert_eq!(r.len(), 2);
    assert!(r.iter().all(|x| matches!(x, Err(DistinfoError::Checksum(..)))));
    let _ = fs::remove_dir_all(&dir);
}

#[test]
fn patchfile_checksums() {
    let dir = scratch("patch");
    let name = "patch-configure";
    let file = dir.join("patches").join(name);
    fs::create_dir_all(file.parent().unwrap()).unwrap();
    let content: &[u8] = b"$NetBSD: patch-configure,v 1.3 2024/02/02 10:00:00 wiz Exp $\n\nMention $NetBSD$ in the middle of a line.\nA comment line.\n\n--- configure.orig\n+++ configure\n@@ -1 +1 @@\n-a\n+b\n";
    fs::write(&file, content).unwrap();
    let stripped = strip_rcs_lines(content);

    let mut text = String::new();
    for d in ALL {
        let h = digest_of(d, &stripped);
        assert_ne!(h, digest_of(d, content));
        assert_eq!(Distinfo::calculate_checksum(&file, d).unwrap(), h);
        text.push_str(&format!("{d} ({name}) = {h}\n"));
    }
    let di = Distinfo::from_bytes(text.as_bytes());
    let entry = di.find_entry(&file).unwrap();
    assert_eq!(entry.filetype, EntryType::Patchfile);
    assert!(matches!(
        di.verify_size(&file),
        Err(DistinfoError::MissingSize(_))
    ));
    for results in [di.verify_checksums(&file), entry.verify_checksums(&file)] {
        assert_eq!(results.len(), 6);
        for (r, d) in results.iter().zip(ALL) {
            assert!(matches!(r, Ok(x) if *x == d));
        }
    }

    /* A changed RCS Id does not matter, a changed body line does. */
    let expanded = String::from_utf8_lossy(content)
        .replace("v 1.3 2024/02/02", "v 1.4 2025/03/03")
        .into_bytes();
    fs::write(&file, &expanded).unwrap();
    for d in ALL {
        assert!(matches!(di.verify_checksum(&file, d), Ok(x) if x == d));
    }
    let changed = String::from_utf8_lossy(content)
        .replace("+b\n", "+c\n")
        .into_bytes();
    fs::write(&file, &changed).unwrap();
    for d in ALL {
        match entry.verify_checksum(&file, d) {
            Err(DistinfoError::Checksum(p, dd, e, a)) => {
                assert_eq!(p, PathBuf::from(name));
                assert_eq!(dd, d);
                assert_eq!(e, digest_of(d, &stripped));
                assert_eq!(a, digest_of(d, &strip_rcs_lines(&changed)));
            }
            other => panic!("expected checksum error: {other:?}"),
        }
    }

    /* Whole-file digest recorded for a patch: mismatch. */
    fs::write(&file, content).unwrap();
    let di = Distinfo::from_bytes(
        format!("SHA1 ({name}) = {}\n", digest_of(Digest::SHA1, content))
            .as_bytes(),
    );
    assert!(matches!(
        di.verify_checksum(&file, Digest::SHA1),
        Err(DistinfoError::Checksum(..))
    ));
    let _ = fs::remove_dir_all(&dir);
}

#[test]
fn hand_made_entries() {
    let dir = scratch("entry");
    let file = dir.join("thing.tar.gz");
    fs::write(&file, b"thing").unwrap();

    let sums = vec![
        Checksum::new(Digest::RMD160, digest_of(Digest::RMD160, b"thing")),
        Checksum::new(Digest::MD5, String::new()),
    ];
    let e = Entry::new("thing.tar.gz", &file, sums, Some(5));
    assert_eq!(e.verify_size(&file).unwrap(), 5);
    assert!(matches!(e.verify_checksum(&file, Digest::RMD160), Ok(Digest::RMD160)));
    match e.verify_checksum(&file, Digest::MD5) {
        Err(DistinfoError::Checksum(_, Digest::MD5, exp, act)) => {
            assert_eq!(exp, "");
            assert_eq!(act, digest_of(Digest::MD5, b"thing"));
        }
        other => panic!("expected checksum error: {other:?}"),
    }
    assert!(matches!(
        e.verify_checksum(&file, Digest::SHA1),
        Err(DistinfoError::MissingChecksum(_, Digest::SHA1))
    ));
    let r = e.verify_checksums(&file);
    assert_eq!(r.len(), 2);
    assert!(matches!(r[0], Ok(Digest::RMD160)));
    assert!(matches!(r[1], Err(DistinfoError::Checksum(..))));

    let none = Entry::new("thing.tar.gz", &file, vec![], None);
    assert!(matches!(
        none.verify_size(&file),
        Err(DistinfoError::MissingSize(_))
    ));
    assert!(none.verify_checksums(&file).is_empty());

    let mut di = Distinfo::new();
    assert!(di.insert(e));
    assert_eq!(di.verify_size(&file).unwrap(), 5);
    let r = di.verify_checksums(&file);
    assert_eq!(r.len(), 2);
    assert!(matches!(r[0], Ok(Digest::RMD160)));
    assert!(matches!(r[1], Err(DistinfoError::Checksum(..))));
    let _ = fs::remove_dir_all(&dir);
}

#[test]
fn not_found() {
    let di = Distinfo::from_bytes(
        b"Size (sub/a.tgz) = 1 bytes\nSHA1 (sub/a.tgz) = 00\nSHA1 (patch-a) = 00\n",
    );
    for p in ["a.tgz", "/x/a.tgz", "bus/a.tgz", "/x/sub/b.tgz", "", "/"] {
        let p = Path::new(p);
        assert!(matches!(di.find_entry(p), Err(DistinfoError::NotFound)));
        assert!(matches!(di.verify_size(p), Err(DistinfoError::NotFound)));
        assert!(matches!(
            di.verify_checksum(p, Digest::SHA1),
            Err(DistinfoError::NotFound)
        ));
        let r = di.verify_checksums(p);
        assert_eq!(r.len(), 1);
        assert!(matches!(r[0], Err(DistinfoError::NotFound)));
    }
    assert!(di.find_entry("/x/sub/a.tgz").is_ok());
    assert!(di.find_entry("sub/a.tgz").is_ok());
    assert!(di.find_entry("/y/patches/patch-a").is_ok());
    /* Patches and distfiles are looked up separately. */
    assert!(matches!(
        di.find_entry("/y/patch-a.tar.gz"),
        Err(DistinfoError::NotFound)
    ));
}
