/*
 * Exercise the version comparison through the public pattern API on a broad
 * spread of version strings, with every version placed on both sides, and
 * check the verdicts against an independent model of the documented rules.
 */
use pkgsrc::{Dewey, Pattern};
use std::cmp::Ordering;

const VERSIONS: &[&str] = &[
    "", "0", "00", "0.0", ".", "_", "..", "1", "1.0", "1.0.0", "1.0.0.0", "1.",
    "1_", "1.0pl", "1pl1", "1.0nb", "1.0nb0", "1.0nb1", "1.0nb2", "1nb10",
    "nb3", "nb", "1.0alpha", "1.0alpha1", "1.0ALPHA1", "1.0beta", "1.0beta2",
    "1.0rc", "1.0rc1", "1.0pre1", "1.0RC1", "1alpha", "1rc", "rc", "alpha",
    "1.0a", "1.0A", "1.0b", "1.0z", "1a", "1.1", "1.01", "1.10", "1.2", "1.22b2",
    "1.1blah2", "2", "2.0beta4nb7", "2.0rc1", "10", "010", "20240101",
    "9223372036854775806", "9223372036854775807", "9223372036854775808",
    "99999999999999999999", "1.99999999999999999999999", "1.0nb99999999999999999999",
    "é", "1é", "1.é0", "1é2", "1.0é", "日本", "1~2", "1+2", "1,2", "1 2", "1:2",
    "1!", "!!", "1.0.0.0.0.0.0.0.0.0.1", "1.0.0.0.0.0.0.0.0.0alpha",
    "1.0.0.0.0.0.0.0.0.0", "3.14159pl7_2nb4", "ojnknb30_", "plpl", "prerc",
    "1.0nb1nb2", "nb1.5",
];

/* Independent model: tokenise, then compare zero-padded, then nb. */
fn model(s: &str) -> (Vec<i128>, i128) {
    let s = s.to_ascii_lowercase();
    let b: Vec<char> = s.chars().collect();
    let mut v = vec![];
    let mut nb: i128 = 0;
    let mut i = 0;
    let starts = |i: usize, w: &str| {
        let w: Vec<char> = w.chars().collect();
        b.len() >= i + w.len() && b[i..i + w.len()] == w[..]
    };
    while i < b.len() {
        if b[i].is_ascii_digit() {
            let mut n: i128 = 0;
            while i < b.len() && b[i].is_ascii_digit() {
                n = (n * 10 + b[i].to_digit(10).unwrap() as i128)
                    .min(i64::MAX as i128);
                i += 1;
            }
            v.push(n);
        } else if b[i] == '.' || b[i] == '_' {
            v.push(0);
            i += 1;
        } else if starts(i, "nb") {
            i += 2;
            let mut n: i128 = 0;
            let mut overflow = false;
            while i < b.len() && b[i].is_ascii_digit() {
                n = n * 10 + b[i].to_digit(10).unwrap() as i128;
                if n > i64::MAX as i128 {
                    overflow = true;
                    n = 0;
                }
                i += 1;
            }
            nb = if overflow { 0 } else { n };
        } else if starts(i, "alpha") {
            v.push(-3);
            i += 5;
        } else if starts(i, "beta") {
            v.push(-2);
            i += 4;
        } else if starts(i, "rc") {
            v.push(-1);
            i += 2;
        } else if starts(i, "pre") {
            v.push(-1);
            i += 3;
        } else if starts(i, "pl") {
            v.push(0);
            i += 2;
        } else if b[i].is_ascii_alphabetic() {
            v.push(0);
            v.push(b[i] as i128);
            i += 1;
        } else {
            i += 1;
        }
    }
    (v, nb)
}

fn model_cmp(a: &str, b: &str) -> Ordering {
    let (mut va, na) = model(a);
    let (mut vb, nb) = model(b);
    let n = va.len().max(vb.len());
    va.resize(n, 0);
    vb.resize(n, 0);
    va.cmp(&vb).then(na.cmp(&nb))
}

fn holds(op: &str, ord: Ordering) -> bool {
    match op {
        "<" => ord == Ordering::Less,
        "<=" => ord != Ordering::Greater,
        ">" => ord == Ordering::Greater,
        ">=" => ord != Ordering::Less,
        _ => unreachable!(),
    }
}

#[test]
fn single_bounds_agree_with_model() {
    for a in VERSIONS {
        for b in VERSIONS {
            let ord = model_cmp(a, b);
            for op in ["<", "<=", ">", ">="] {
                let m = Dewey::new(&format!("pkg{op}{b}")).unwrap();
                assert_eq!(
                    m.matches(&format!("pkg-{a}")),
                    holds(op, ord),
                    "{a:?} {op} {b:?}"
                );
            }
        }
    }
}

#[test]
fn ranges_agree_with_model() {
    let some: Vec<&str> = VERSIONS.iter().copied().step_by(3).collect();
    for lo in &some {
        for hi in &some {
            for (lop, hop) in [(">", "<"), (">=", "<"), (">", "<="), (">=", "<=")]
            {
                let m = Dewey::new(&format!("pkg{lop}{lo}{hop}{hi}")).unwrap();
                for v in VERSIONS {
                    let expect = holds(lop, model_cmp(v, lo))
                        && holds(hop, model_cmp(v, hi));
                    assert_eq!(
                        m.matches(&format!("pkg-{v}")),
                        expect,
                        "pkg{lop}{lo}{hop}{hi} against {v:?}"
                    );
                }
            }
        }
    }
}

#[test]
fn best_match_agrees_with_model() {
    let any = Pattern::new("pkg>=").unwrap();
    for a in VERSIONS {
        for b in VERSIONS {
            let (pa, pb) = (format!("pkg-{a}"), format!("pkg-{b}"));
            if !any.matches(&pa) || !any.matches(&pb) {
                continue;
            }
            let expect = match model_cmp(a, b) {
                Ordering::Greater => &pa,
                Ordering::Less => &pb,
                Ordering::Equal => {
                    if pa < pb {
                        &pa
                    } else {
                        &pb
                    }
                }
            };
            assert_eq!(any.best_match(&pa, &pb), Some(expect.as_str()));
        }
    }
}
