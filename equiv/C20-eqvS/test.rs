/*
 * Behaviour documentation for the C20 refactoring S: Metadata::is_valid().
 */
use pkgsrc::{Metadata, MetadataEntry};

fn build(comment: Option<&str>, contents: Option<&str>, desc: Option<&str>) -> Metadata {
    let mut m = Metadata::new();
    if let Some(v) = comment {
        m.read_metadata(MetadataEntry::Comment, v).unwrap();
    }
    if let Some(v) = contents {
        m.read_metadata(MetadataEntry::Contents, v).unwrap();
    }
    if let Some(v) = desc {
        m.read_metadata(MetadataEntry::Desc, v).unwrap();
    }
    m
}

const C: &str = "Missing or empty +COMMENT";
const T: &str = "Missing or empty +CONTENTS";
const D: &str = "Missing or empty +DESC";

#[test]
fn all_subsets() {
    let x = Some("x");
    assert_eq!(build(x, x, x).is_valid(), Ok(()));
    assert_eq!(build(None, x, x).is_valid(), Err(C));
    assert_eq!(build(x, None, x).is_valid(), Err(T));
    assert_eq!(build(x, x, None).is_valid(), Err(D));
    /* Several missing: the first in COMMENT, CONTENTS, DESC order wins. */
    assert_eq!(build(None, None, x).is_valid(), Err(C));
    assert_eq!(build(None, x, None).is_valid(), Err(C));
    assert_eq!(build(x, None, None).is_valid(), Err(T));
    assert_eq!(build(None, None, None).is_valid(), Err(C));
    assert_eq!(Metadata::new().is_valid(), Err(C));
}

#[test]
fn empty_and_whitespace_values() {
    let x = Some("x");
    /* Values are trimmed, so whitespace-only content counts as empty. */
    assert_eq!(build(Some(""), x, x).is_valid(), Err(C));
    assert_eq!(build(Some(" \n\t"), x, x).is_valid(), Err(C));
    assert_eq!(build(x, Some("\n"), x).is_valid(), Err(T));
    assert_eq!(build(x, x, Some("  ")).is_valid(), Err(D));
    assert_eq!(build(x, Some(""), Some("")).is_valid(), Err(T));
    assert_eq!(
        build(Some(" c\n"), Some("bin/a\nbin/b\n"), Some("\u{e9}\n")).is_valid(),
        Ok(())
    );
}

#[test]
fn other_entries_do_not_matter() {
    let mut m = Metadata::new();
    for e in [
        MetadataEntry::BuildInfo,
        MetadataEntry::BuildVersion,
        MetadataEntry::DeInstall,
        MetadataEntry::Display,
        MetadataEntry::Install,
        MetadataEntry::InstalledInfo,
        MetadataEntry::MtreeDirs,
        MetadataEntry::Preserve,
        MetadataEntry::RequiredBy,
    ] {
        m.read_metadata(e, "text").unwrap();
    }
    m.read_metadata(MetadataEntry::SizeAll, "12").unwrap();
    m.read_metadata(MetadataEntry::SizePkg, " 34\n").unwrap();
    assert_eq!(m.read_metadata(MetadataEntry::SizePkg, "x"), Err("Invalid +SIZE_PKG"));
    assert_eq!(m.is_valid(), Err(C));
    m.read_metadata(MetadataEntry::Comment, "c").unwrap();
    assert_eq!(m.is_valid(), Err(T));
    m.read_metadata(MetadataEntry::Contents, "f").unwrap();
    assert_eq!(m.is_valid(), Err(D));
    m.read_metadata(MetadataEntry::Desc, "d").unwrap();
    assert_eq!(m.is_valid(), Ok(()));
    assert_eq!(m.comment(), "c");
    assert_eq!(m.contents(), "f");
    assert_eq!(m.desc(), "d");
    assert_eq!(m.size_all(), &Some(12));
    assert_eq!(m.size_pkg(), &Some(34));
}
