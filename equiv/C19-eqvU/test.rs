use pkgsrc::{Depend, PkgPath};
use std::ffi::OsStr;
use std::path::PathBuf;

/*
 * Independent model of which inputs are accepted, working on the string:
 * returns Some((category, package)) for valid inputs.
 */
fn model(path: &str) -> Option<(String, String)> {
    if path.is_empty() || path.starts_with('/') {
        return None;
    }
    let mut comps: Vec<&str> = vec![];
    for (i, seg) in path.split('/').enumerate() {
        if seg.is_empty() {
            continue;
        }
        if seg == "." && i != 0 {
            continue;
        }
        comps.push(seg);
    }
    let name = |s: &str| s != "." && s != "..";
    match comps.as_slice() {
        [a, b] if name(a) && name(b) => Some((a.to_string(), b.to_string())),
        ["..", "..", a, b] if name(a) && name(b) => {
            Some((a.to_string(), b.to_string()))
        }
        _ => None,
    }
}

fn check(path: &str) {
    let got = PkgPath::new(path);
    match model(path) {
        None => assert!(got.is_err(), "{path:?} should be rejected"),
        Some((cat, pkg)) => {
            let p = got.unwrap_or_else(|_| panic!("{path:?} should be ok"));
            let short = format!("{cat}/{pkg}");
            let full = format!("../../{cat}/{pkg}");
            assert_eq!(p.as_path(), OsStr::new(&short), "{path:?}");
            assert_eq!(p.as_full_path(), OsStr::new(&full), "{path:?}");
            assert_eq!(p.as_path().components().count(), 2, "{path:?}");
            assert_eq!(p.as_full_path().components().count(), 4, "{path:?}");
            assert_eq!(p, PkgPath::new(&short).unwrap(), "{path:?}");
            assert_eq!(p, PkgPath::new(&full).unwrap(), "{path:?}");
            let again = PkgPath::new(p.as_path().to_str().unwrap()).unwrap();
            assert_eq!(p, again, "{path:?}");
            let again =
                PkgPath::new(p.as_full_path().to_str().unwrap()).unwrap();
            assert_eq!(p, again, "{path:?}");
            // Same through Depend.
            let d = Depend::new(&format!("x-[0-9]*:{path}"));
            if !path.contains(':') {
                assert_eq!(d.unwrap().pkgpath(), &p, "{path:?}");
            }
        }
    }
}

#[test]
fn fixed_examples() {
    let p = PkgPath::new("pkgtools/pkg_install").unwrap();
    assert_eq!(p.as_path(), PathBuf::from("pkgtools/pkg_install"));
    assert_eq!(p.as_full_path(), PathBuf::from("../../pkgtools/pkg_install"));
    assert_eq!(p, PkgPath::new("../../pkgtools/pkg_install").unwrap());
    assert_eq!(p, PkgPath::new("..//.././pkgtools//pkg_install/.").unwrap());
    assert_ne!(p, PkgPath::new("pkgtools/pkg_instal").unwrap());
    for bad in [
        "", "\0", "/", "//", ".", "..", "./", "../", "foo", "foo/", "./foo",
        "../foo", "../../foo", "../../", "../..", "../../..", "../../../..",
        "../../../foo", "../../foo/..", "foo/..", "../foo/bar",
        "../foo/bar/baz", "foo/../bar/baz", "foo/bar/baz", "foo/bar/baz/qux",
        "/foo/bar", "/../../foo/bar", "./../../foo/bar", "./foo/bar",
        "../../foo/bar/baz", "../../../../foo/bar", "foo/bar/../..",
        ".. /../foo/bar", "../../foo/.", "../.././foo",
    ] {
        assert!(PkgPath::new(bad).is_err(), "{bad:?}");
        check(bad);
    }
    for good in [
        "foo/bar", "foo//bar", "foo/bar/", "foo/./bar", "foo/bar/.",
        "foo/././bar/./", "../../foo/bar", "..//..//foo//bar//",
        "../.././foo/bar", ".././../foo/./bar/.", "\0/\0", "f o/b r",
        "caf\u{e9}/\u{65e5}\u{672c}", "../../caf\u{e9}/\u{65e5}\u{672c}/",
        ".../....", "../../.../.hidden", "..a/b..", "a:b/c", "-/-",
    ] {
        assert!(PkgPath::new(good).is_ok(), "{good:?}");
        check(good);
    }
}

#[test]
fn all_segment_combinations() {
    let segs = ["", ".", "..", "foo", "b\u{e4}r", ".x", "..."];
    let mut n = 0usize;
    // All sequences of up to five segments, with and without a leading '/'.
    let mut stack: Vec<Vec<&str>> = vec![vec![]];
    while let Some(cur) = stack.pop() {
        let joined = cur.join("/");
        check(&joined);
        check(&format!("/{joined}"));
        n += 2;
        if cur.len() < 5 {
            for s in segs {
                let mut next = cur.clone();
                next.push(s);
                stack.push(next);
            }
        }
    }
    assert!(n > 30000);
    // Six segments: prefix of two fixed, rest enumerated.
    for a in segs {
        for b in segs {
            for c in segs {
                for d in segs {
                    check(&format!("../../{a}/{b}/{c}/{d}"));
                    check(&format!("../{a}/../{b}/{c}/{d}"));
                    check(&format!("{a}/{b}/{c}/{d}/foo/bar"));
                }
            }
        }
    }
}
