/*
 * Exercise SummaryStream::write() over well-formed, malformed, non-UTF-8 and
 * degenerate input with many different ways of chunking it.
 */
use pkgsrc::summary::SummaryStream;
use std::io::{ErrorKind, Write};

fn entry(name: &str, comment: &str) -> String {
    format!(
        "BUILD_DATE=2019-08-12 15:58:02 +0100\n\
         CATEGORIES=devel pkgtools\n\
         COMMENT={}\n\
         DEPENDS=dep-pkg1-[0-9]*\n\
         DEPENDS=dep-pkg2>=2.0\n\
         DESCRIPTION=A test description\n\
         DESCRIPTION=\n\
         DESCRIPTION=Second paragraph\n\
         FILE_SIZE=1234\n\
         MACHINE_ARCH=x86_64\n\
         OPSYS=Darwin\n\
         OS_VERSION=18.7.0\n\
         PKGNAME={}\n\
         PKGPATH=pkgtools/testpkg\n\
         PKGTOOLS_VERSION=20091115\n\
         SIZE_PKG=4321\n\n",
        comment, name
    )
}

const COMMENT: &str = "caf\u{e9} \u{65e5}\u{672c} \u{1f600}x";

/*
 * Feed bytes cut at the given positions.  Returns the stream, and the index
 * of the first failing write with its error kind, if any; feeding stops at the
 * first failure.
 */
fn feed(bytes: &[u8], cuts: &[usize]) -> (SummaryStream, Option<(usize, ErrorKind)>) {
    let mut s = SummaryStream::new();
    let mut prev = 0;
    let mut ends: Vec<usize> = cuts.to_vec();
    ends.push(bytes.len());
    for (i, end) in ends.into_iter().enumerate() {
        match s.write(&bytes[prev..end]) {
            Ok(n) => assert_eq!(n, end - prev),
            Err(e) => return (s, Some((i, e.kind()))),
        }
        prev = end;
    }
    (s, None)
}

fn names(s: &SummaryStream) -> Vec<String> {
    s.entries()
        .iter()
        .map(|e| e.pkgname().unwrap().to_string())
        .collect()
}

/* Small deterministic generator for random partitions. */
struct Lcg(u64);
impl Lcg {
    fn next(&mut self) -> u64 {
        self.0 = self
            .0
            .wrapping_mul(6364136223846793005)
            .wrapping_add(1442695040888963407);
        self.0 >> 33
    }
}

#[test]
fn empty_and_trivial_input() {
    let mut s = SummaryStream::new();
    assert_eq!(s.write(b"").unwrap(), 0);
    assert_eq!(s.write(b"\n").unwrap(), 1);
    assert_eq!(s.entries().len(), 0);
    assert_eq!(s.to_string(), "");
    s.flush().unwrap();

    /* No separator yet: everything is just buffered. */
    let mut s = SummaryStream::new();
    assert_eq!(s.write(b"garbage without equals").unwrap(), 22);
    assert_eq!(s.write(b"\nMORE").unwrap(), 5);
    assert_eq!(s.entries().len(), 0);
}

#[test]
fn well_formed_single_cuts() {
    let stream = format!(
        "{}{}{}",
        entry("a-1", "one"),
        entry("b-2", COMMENT),
        entry("c-3", "three")
    );
    let bytes = stream.as_bytes();
    for cut in 0..=bytes.len() {
        let (s, err) = feed(bytes, &[cut]);
        assert_eq!(err, None, "cut {}", cut);
        assert_eq!(names(&s), ["a-1", "b-2", "c-3"], "cut {}", cut);
        assert_eq!(s.to_string(), stream, "cut {}", cut);
    }
}

#[test]
fn well_formed_chunk_sizes_and_random_partitions() {
    let stream = format!(
        "{}{}{}{}",
        entry("a-1", COMMENT),
        entry("b-2", "two"),
        entry("c-3", COMMENT),
        entry("d-4", "")
    );
    let bytes = stream.as_bytes();
    for size in 1..=40 {
        let cuts: Vec<usize> = (size..bytes.len()).step_by(size).collect();
        let (s, err) = feed(bytes, &cuts);
        assert_eq!(err, None, "size {}", size);
        assert_eq!(s.entries().len(), 4);
        assert_eq!(s.to_string(), stream, "size {}", size);
    }
    let mut rng = Lcg(0x5eed);
    for round in 0..200 {
        let n = (rng.next() % 8) as usize;
        let mut cuts: Vec<usize> = (0..n)
            .map(|_| (rng.next() as usize) % (bytes.len() + 1))
            .collect();
        cuts.sort();
        let (s, err) = feed(bytes, &cuts);
        assert_eq!(err, None, "round {} cuts {:?}", round, cuts);
        assert_eq!(names(&s), ["a-1", "b-2", "c-3", "d-4"]);
        assert_eq!(s.to_string(), stream, "round {} cuts {:?}", round, cuts);
    }
}

#[test]
fn intermediate_state_after_each_write() {
    let e1 = entry("a-1", "one");
    let e2 = entry("b-2", COMMENT);
    let stream = format!("{}{}", e1, e2);
    let bytes = stream.as_bytes();
    for cut in 0..=bytes.len() {
        let mut s = SummaryStream::new();
        assert_eq!(s.write(&bytes[..cut]).unwrap(), cut);
        let expect = if cut >= bytes.len() {
            2
        } else if cut >= e1.len() {
            1
        } else {
            0
        };
        assert_eq!(s.entries().len(), expect, "cut {}", cut);
        assert_eq!(s.write(&bytes[cut..]).unwrap(), bytes.len() - cut);
        assert_eq!(s.entries().len(), 2, "cut {}", cut);
    }
}

#[test]
fn malformed_entries() {
    let bads = [
        "BUILD_DATE=2019-08-12 15:58:02 +0100\nNOT_A_VARIABLE=1\n\n".to_string(),
        "BUILD_DATE\n\n".to_string(),
        entry("x-1", "bad size").replace("SIZE_PKG=4321", "SIZE_PKG=12x"),
        entry("x-1", "no opsys").replace("OPSYS=Darwin\n", ""),
        /* An extra blank line is an empty, hence incomplete, entry. */
        "\n\n".to_string(),
    ];
    for bad in &bads {
        for pos in 0..3 {
            let mut parts = vec![entry("g-0", COMMENT), entry("g-1", "ok")];
            parts.insert(pos, bad.clone());
            let stream: String = parts.concat();
            let bytes = stream.as_bytes();
            let bad_end: usize =
                parts[..=pos].iter().map(|p| p.len()).sum();
            let good: Vec<String> =
                (0..pos).map(|i| format!("g-{}", i)).collect();
            for cut in 0..=bytes.len() {
                let (s, err) = feed(bytes, &[cut]);
                /*
                 * A blank line straight after a separator already fails on
                 * its first newline ("\n\n\n" ends in a one-line record).
                 */
                let done = if bad == "\n\n" && pos > 0 {
                    bad_end - 1
                } else {
                    bad_end
                };
                let idx = if cut >= done { 0 } else { 1 };
                assert_eq!(
                    err,
                    Some((idx, ErrorKind::InvalidData)),
                    "bad {:?} pos {} cut {}",
                    bad,
                    pos,
                    cut
                );
                assert_eq!(names(&s), good, "bad {:?} pos {} cut {}", bad, pos, cut);
            }
        }
    }
}

#[test]
fn leading_blank_line() {
    /* A stream starting with a blank line has an empty first entry. */
    let stream = format!("\n\n{}", entry("a-1", "one"));
    let (s, err) = feed(stream.as_bytes(), &[]);
    assert_eq!(err, Some((0, ErrorKind::InvalidData)));
    assert_eq!(s.entries().len(), 0);

    /* A single leading newline just becomes an empty line of the entry. */
    let stream = format!("\n{}", entry("a-1", "one"));
    let (s, err) = feed(stream.as_bytes(), &[1]);
    assert_eq!(err, Some((1, ErrorKind::InvalidData)));
    assert_eq!(s.entries().len(), 0);
}

#[test]
fn invalid_utf8() {
    let good = entry("a-1", "one");
    /* Stray continuation byte, overlong lead, lone 0xff. */
    for junk in [&[0x80u8][..], &[0xc0, 0xaf], &[0xff], &[0xe6, 0x97, b'x']] {
        let mut bytes = good.clone().into_bytes();
        bytes.extend_from_slice(b"COMMENT=");
        let junk_at = bytes.len();
        bytes.extend_from_slice(junk);
        bytes.extend_from_slice(b"\n\n");
        for cut in 0..=bytes.len() {
            let (s, err) = feed(&bytes, &[cut]);
            let (i, kind) = err.expect("invalid UTF-8 must be reported");
            assert_eq!(kind, ErrorKind::InvalidData);
            if cut <= junk_at {
                assert_eq!(i, 1, "junk {:?} cut {}", junk, cut);
            }
            if cut >= junk_at + junk.len() {
                assert_eq!(i, 0, "junk {:?} cut {}", junk, cut);
            }
            /* The good entry is collected only if it was cut off first. */
            let expect = if i == 1 && cut >= good.len() { 1 } else { 0 };
            assert_eq!(s.entries().len(), expect, "junk {:?} cut {}", junk, cut);
        }
    }

    /* A truncated character at the very end is just left pending. */
    let mut bytes = good.clone().into_bytes();
    bytes.extend_from_slice(&[0xf0, 0x9f, 0x98]);
    let (s, err) = feed(&bytes, &[10, 200]);
    assert_eq!(err, None);
    assert_eq!(names(&s), ["a-1"]);
}

#[test]
fn writes_after_a_failure() {
    /*
     * After a failed write the buffered text is kept, so a following write
     * parses it again: the good entry is collected a second time and the
     * same error is returned.
     */
    let stream = format!("{}BUILD_DATE\n\n", entry("a-1", "one"));
    let mut s = SummaryStream::new();
    let e = s.write(stream.as_bytes()).unwrap_err();
    assert_eq!(e.kind(), ErrorKind::InvalidData);
    assert_eq!(names(&s), ["a-1"]);
    let e = s.write(b"").unwrap_err();
    assert_eq!(e.kind(), ErrorKind::InvalidData);
    assert_eq!(names(&s), ["a-1", "a-1"]);
}

#[test]
fn io_copy_and_clone() {
    let stream = format!("{}{}", entry("a-1", COMMENT), entry("b-2", "two"));
    let mut s = SummaryStream::new();
    let half = stream.len() / 2;
    s.write_all(&stream.as_bytes()[..half]).unwrap();
    let mut t = s.clone();
    std::io::copy(&mut &stream.as_bytes()[half..], &mut s).unwrap();
    t.write_all(&stream.as_bytes()[half..]).unwrap();
    assert_eq!(s.to_string(), stream);
    assert_eq!(t.to_string(), stream);
    s.entries_mut().clear();
    assert_eq!(s.to_string(), "");
    s.write_all(stream.as_bytes()).unwrap();
    assert_eq!(s.entries().len(), 2);
}
