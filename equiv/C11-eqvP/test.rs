/*
 * Behaviour check for Distinfo::from_bytes (public API only), exercising the
 * per-line field splitter.  Passes before and after the refactoring.
 */
use pkgsrc::digest::Digest;
use pkgsrc::distinfo::{Distinfo, EntryType};
use std::ffi::OsStr;
use std::os::unix::ffi::OsStrExt;
use std::path::{Path, PathBuf};

fn names(v: Vec<&pkgsrc::distinfo::Entry>) -> Vec<PathBuf> {
    v.iter().map(|e| e.filename.clone()).collect()
}

#[test]
fn interleaved_files_grouped_in_order() {
    let text = b"$NetBSD: distinfo,v 1.1 1970/01/01 01:01:01 ken Exp $\n\
\n\
# comment\n\
BLAKE2s (b.tar.gz) = bb\n\
SHA512\t(a.tar.gz)  =   a512\n\
  Size (b.tar.gz) = 10 bytes\n\
SHA1 (patch-aa) = p1\n\
BLAKE2s (a.tar.gz) = ab\n\
\t \n\
Size (a.tar.gz) = 20 bytes\n\
SHA512 (b.tar.gz) = b512\n\
SHA1 (emul-linux-patch-ab) = p2\n\
SHA1 (patch-local-x) = d1\n\
SHA1 (patch-2.7.6.tar.xz) = d2\n\
SHA1 (patch-aa.orig) = d3\n\
SHA1 (patch-aa.rej) = d4\n\
SHA1 (patch-aa~) = d5\n\
SHA1 (foo.patch-1) = d6\n";
    let di = Distinfo::from_bytes(text);
    assert_eq!(
        di.rcsid().unwrap().as_bytes(),
        &b"$NetBSD: distinfo,v 1.1 1970/01/01 01:01:01 ken Exp $"[..]
    );
    let want: Vec<PathBuf> = [
        "b.tar.gz",
        "a.tar.gz",
        "patch-local-x",
        "patch-2.7.6.tar.xz",
        "patch-aa.orig",
        "patch-aa.rej",
        "patch-aa~",
        "foo.patch-1",
    ]
    .iter()
    .map(PathBuf::from)
    .collect();
    assert_eq!(names(di.distfiles()), want);
    let wantp: Vec<PathBuf> =
        ["patch-aa", "emul-linux-patch-ab"].iter().map(PathBuf::from).collect();
    assert_eq!(names(di.patchfiles()), wantp);

    let b = di.get_distfile("b.tar.gz").unwrap();
    assert_eq!(b.size, Some(10));
    assert_eq!(b.filetype, EntryType::Distfile);
    let cs: Vec<(Digest, &str)> =
        b.checksums.iter().map(|c| (c.digest, c.hash.as_str())).collect();
    assert_eq!(cs, vec![(Digest::BLAKE2s, "bb"), (Digest::SHA512, "b512")]);
    let a = di.get_distfile("a.tar.gz").unwrap();
    assert_eq!(a.size, Some(20));
    let cs: Vec<(Digest, &str)> =
        a.checksums.iter().map(|c| (c.digest, c.hash.as_str())).collect();
    assert_eq!(cs, vec![(Digest::SHA512, "a512"), (Digest::BLAKE2s, "ab")]);
    let p = di.get_patchfile("patch-aa").unwrap();
    assert_eq!(p.filetype, EntryType::Patchfile);
    assert_eq!(p.size, None);
    assert_eq!(p.checksums.len(), 1);
    assert_eq!(p.checksums[0].hash, "p1");
    assert!(di.get_patchfile("foo.patch-1").is_none());
}

#[test]
fn ignored_lines_change_nothing() {
    let text = b"Size (a) = 1 bytes\n\
FOO (a) = abc\n\
Size (a) = notanumber bytes\n\
Size (a) = 18446744073709551616 bytes\n\
Size (a) = -1 bytes\n\
Size a = 5 bytes\n\
Size (a = 5 bytes\n\
Size a) = 5 bytes\n\
Size ( = 5\n\
Size ) = 5\n\
Size (a) == 5\n\
Size (a) =\n\
Size (a)\n\
Size\n\
#Size (a) = 7 bytes\n\
 # Size (a) = 8 bytes\n\
garbage\n\
SHA1 (a) x h\n\
\xff\xfe (a) = h\n\
SHA1 (a) = \xff\n\
sha1 (a) = lower\n";
    let di = Distinfo::from_bytes(text);
    assert!(di.rcsid().is_none());
    assert!(di.patchfiles().is_empty());
    assert_eq!(names(di.distfiles()), vec![PathBuf::from("a")]);
    let a = di.get_distfile("a").unwrap();
    assert_eq!(a.size, Some(1));
    assert_eq!(a.checksums.len(), 1);
    assert_eq!(a.checksums[0].digest, Digest::SHA1);
    assert_eq!(a.checksums[0].hash, "lower");
}

#[test]
fn odd_names_and_edge_cases() {
    /* Non-UTF-8 and non-ASCII whitespace-lookalike bytes stay in the name. */
    let di = Distinfo::from_bytes(
        b"SHA1 (a\x85b\xa0c\xff.tgz) = h1\nSize (a\x85b\xa0c\xff.tgz) = 3 bytes\n",
    );
    let key = Path::new(OsStr::from_bytes(b"a\x85b\xa0c\xff.tgz"));
    assert_eq!(di.distfiles().len(), 1);
    let e = di.get_distfile(key).unwrap();
    assert_eq!(e.size, Some(3));
    assert_eq!(e.checksums[0].hash, "h1");

    /* UTF-8 name, vertical tab / form feed / CR as separators. */
    let di = Distinfo::from_bytes(
        "SHA1\x0b(caf\u{e9}-\u{1F600}.tgz)\x0c=\rh2\r\n".as_bytes(),
    );
    let e = di.get_distfile("caf\u{e9}-\u{1F600}.tgz").unwrap();
    assert_eq!(e.checksums[0].hash, "h2");

    /* Empty name "()" and nested parens. */
    let di = Distinfo::from_bytes(b"SHA1 () = e\nSHA1 ((x)) = n\nSHA1 (dir/sub/f.tgz) = s\n");
    assert_eq!(
        names(di.distfiles()),
        vec![PathBuf::from(""), PathBuf::from("(x)"), PathBuf::from("dir/sub/f.tgz")]
    );

    /* Extra trailing fields are ignored, the 4th field is the value. */
    let di = Distinfo::from_bytes(b"SHA1 (f) = h extra more\nSize (f) = 9 bytes trailing");
    let e = di.get_distfile("f").unwrap();
    assert_eq!(e.checksums[0].hash, "h");
    assert_eq!(e.size, Some(9));

    /* Empty input and whitespace only. */
    assert!(Distinfo::from_bytes(b"").distfiles().is_empty());
    assert!(Distinfo::from_bytes(b"  \n\t\n\n").distfiles().is_empty());

    /* Very long name. */
    let long = "x".repeat(100_000);
    let di = Distinfo::from_bytes(format!("Size ({}) = 1 bytes\n", long).as_bytes());
    assert_eq!(di.get_distfile(&long).unwrap().size, Some(1));
}

#[test]
fn roundtrip_as_bytes() {
    let text = b"$NetBSD: x $\n\nBLAKE2s (a.tgz) = h1\nSHA512 (a.tgz) = h2\nSize (a.tgz) = 5 bytes\nSHA1 (patch-aa) = h3\n";
    let di = Distinfo::from_bytes(text);
    assert_eq!(di.as_bytes(), text.to_vec());
    /* Repeated Size: last wins; repeated checksum: appended. */
    let di = Distinfo::from_bytes(b"Size (a) = 1\nSize (a) = 2\nSHA1 (a) = x\nSHA1 (a) = y\n");
    let a = di.get_distfile("a").unwrap();
    assert_eq!(a.size, Some(2));
    assert_eq!(a.checksums.len(), 2);
    assert_eq!(a.checksums[1].hash, "y");
}
