/*
 * Behaviour check for the restructured early returns in Dewey::matches
 * (length test inverted with the base test nested under it, bound test
 * inverted).  Public API only; passes before and after the change.
 */
use pkgsrc::{Dewey, Pattern};

fn both(pattern: &str, pkg: &str) -> bool {
    let d = Dewey::new(pattern).unwrap().matches(pkg);
    let p = Pattern::new(pattern).unwrap().matches(pkg);
    assert_eq!(d, p, "Dewey and Pattern disagree on {pattern:?} / {pkg:?}");
    d
}

#[test]
fn names_without_dash_never_match() {
    for pat in ["pkg>0", "pkg>=0", "pkg<9", "pkg<=9", "pkg>=0<9", ">=0", "pkg>="] {
        assert!(!both(pat, "pkg"), "{pat}");
        assert!(!both(pat, ""), "{pat}");
        assert!(!both(pat, "pkg1"), "{pat}");
        assert!(!both(pat, "\u{e9}"), "{pat}");
    }
}

#[test]
fn base_compared_byte_for_byte_at_last_dash() {
    assert!(both("pkg>=0", "pkg-1"));
    assert!(!both("pkg>=0", "pkg2-1"));
    assert!(!both("pkg>=0", "pk-1"));
    assert!(!both("pkg>=0", "Pkg-1"));
    assert!(!both("pkg>=0", "-1"));
    assert!(!both("pkg>=0", "pkg-extra-1"));
    assert!(both("pkg-extra>=0", "pkg-extra-1"));
    assert!(!both("pkg-extra>=0", "pkg-1"));
    assert!(both("pkg>=0", "pkg-"));
    assert!(both(">=0", "-1"));
    assert!(both("-->=0", "---1"));
    assert!(both("p\u{e9}-q>=0", "p\u{e9}-q-1"));
    assert!(!both("p\u{e9}-q>=0", "pe\u{301}-q-1"));
}

#[test]
fn every_bound_is_checked() {
    /* lower bound fails, upper holds */
    assert!(!both("pkg>=2<3", "pkg-1"));
    assert!(!both("pkg>2<=3", "pkg-2"));
    /* lower holds, upper fails */
    assert!(!both("pkg>=2<3", "pkg-3"));
    assert!(!both("pkg>2<=3", "pkg-3.0.1"));
    /* both hold */
    assert!(both("pkg>=2<3", "pkg-2"));
    assert!(both("pkg>2<=3", "pkg-3"));
    assert!(both("pkg>2<=3", "pkg-3.0"));
    /* both fail (empty range) */
    assert!(!both("pkg>3<2", "pkg-2.5"));
    assert!(!both("pkg>=3<=2", "pkg-3"));
    /* single bounds */
    assert!(both("pkg<3", "pkg-2.9nb7"));
    assert!(!both("pkg<3", "pkg-3nb1"));
    assert!(both("pkg>3", "pkg-3nb1"));
}

#[test]
fn wrong_base_with_satisfied_bounds_and_long_input() {
    assert!(!both("pkg>=1<2", "pkh-1.5"));
    assert!(!both("pkg>=1<2", "pkg-1.5-"));
    let long_base = "b".repeat(5000);
    let pat = format!("{long_base}>=1");
    assert!(both(&pat, &format!("{long_base}-1")));
    assert!(!both(&pat, &format!("{long_base}b-1")));
    assert!(!both(&pat, &long_base));
}
