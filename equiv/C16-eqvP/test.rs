/*
 * Behaviour-documenting tests for ScanIndex::from_reader (record splitting).
 * Uses only the public API; passes on the unmodified and refactored code.
 */
use pkgsrc::{Depend, PkgName, PkgPath, ScanIndex};
use std::io::{self, BufRead, BufReader, Read};
use std::path::PathBuf;

/* A reader that yields `data` and then fails with an I/O error. */
struct FailAfter<'a> {
    data: &'a [u8],
}

impl Read for FailAfter<'_> {
    fn read(&mut self, buf: &mut [u8]) -> io::Result<usize> {
        if self.data.is_empty() {
            return Err(io::Error::new(io::ErrorKind::Other, "boom"));
        }
        let n = self.data.len().min(buf.len());
        buf[..n].copy_from_slice(&self.data[..n]);
        self.data = &self.data[n..];
        Ok(n)
    }
}

fn parse(input: &str) -> io::Result<Vec<ScanIndex>> {
    ScanIndex::from_reader(input.as_bytes())
}

#[test]
fn empty_and_blank_only() {
    assert_eq!(parse("").unwrap().len(), 0);
    assert_eq!(parse("\n\n   \n\t\n").unwrap().len(), 0);
}

#[test]
fn adjacent_records_do_not_leak() {
    let input = "\n  PKGNAME=a-1.0  \nMAINTAINER=one@example.org\n\
                 CATEGORIES=devel\n\n\
                 PKGNAME=b-2.0\nMAINTAINER= two@example.org \n\
                 PKGNAME=c-3.0\nCATEGORIES=net www\n";
    let idx = parse(input).unwrap();
    assert_eq!(idx.len(), 3);
    assert_eq!(idx[0].pkgname, PkgName::new("a-1.0"));
    assert_eq!(idx[0].maintainer.as_deref(), Some("one@example.org"));
    assert_eq!(idx[0].categories.as_deref(), Some("devel"));
    assert_eq!(idx[1].pkgname, PkgName::new("b-2.0"));
    assert_eq!(idx[1].maintainer.as_deref(), Some("two@example.org"));
    assert_eq!(idx[1].categories, None);
    assert_eq!(idx[2].pkgname, PkgName::new("c-3.0"));
    assert_eq!(idx[2].maintainer, None);
    assert_eq!(idx[2].categories.as_deref(), Some("net www"));
}

#[test]
fn fields_before_first_pkgname_form_a_block_without_pkgname() {
    /* Lines preceding the first PKGNAME line are flushed as their own block,
     * which lacks PKGNAME, so the whole read fails. */
    assert!(parse("RESTRICTED=yes\nPKGNAME=a-1\nPKGNAME=b-1\n").is_err());
    /* A non-field line before PKGNAME has the same effect. */
    assert!(parse("garbage\nPKGNAME=a-1\n").is_err());
}

#[test]
fn last_value_wins_lists_and_ignored_lines() {
    let input = "PKGNAME=x-1\nPBULK_WEIGHT=1\nPBULK_WEIGHT=a=b\n\
                 UNKNOWN_KEY=zzz\nno equals here\n\
                 ALL_DEPENDS=foo-[0-9]*:../../cat/foo bar>=1:../../cat/bar\n\
                 SCAN_DEPENDS=/a/b  /c/d\tm\u{e9}\n\
                 MULTI_VERSION=A=1 B=2\nPKG_LOCATION=cat/x\n\
                 PKGNAME_NOT=1\n";
    let idx = parse(input).unwrap();
    assert_eq!(idx.len(), 1);
    let r = &idx[0];
    assert_eq!(r.pbulk_weight.as_deref(), Some("a=b"));
    assert_eq!(
        r.all_depends,
        vec![
            Depend::new("foo-[0-9]*:../../cat/foo").unwrap(),
            Depend::new("bar>=1:../../cat/bar").unwrap()
        ]
    );
    assert_eq!(
        r.scan_depends,
        vec![
            PathBuf::from("/a/b"),
            PathBuf::from("/c/d"),
            PathBuf::from("m\u{e9}")
        ]
    );
    assert_eq!(r.multi_version, vec!["A=1".to_string(), "B=2".to_string()]);
    assert_eq!(r.pkg_location, Some(PkgPath::new("cat/x").unwrap()));
    assert!(r.depends.is_empty());
}

#[test]
fn pkgname_prefix_is_matched_after_trimming() {
    /* Leading whitespace is trimmed before the PKGNAME= check. */
    let idx = parse("PKGNAME=a-1\n \t PKGNAME=b-1\nPKGNAMEX=c\n").unwrap();
    assert_eq!(idx.len(), 2);
    assert_eq!(idx[1].pkgname, PkgName::new("b-1"));
}

#[test]
fn whole_read_fails_on_faults() {
    /* Block lacking PKGNAME. */
    assert!(parse("MAINTAINER=x\n").is_err());
    /* Bad dependency in the middle record. */
    assert!(parse("PKGNAME=a-1\nPKGNAME=b-1\nALL_DEPENDS=bad\nPKGNAME=c-1\n")
        .is_err());
    /* Bad location in the last record. */
    assert!(parse("PKGNAME=a-1\nPKGNAME=b-1\nPKG_LOCATION=/abs/path\n")
        .is_err());
    let e = parse("PKGNAME=a-1\nALL_DEPENDS=bad\n").unwrap_err();
    assert_eq!(e.kind(), io::ErrorKind::InvalidData);
}

#[test]
fn io_error_is_propagated() {
    let rdr = BufReader::new(FailAfter {
        data: b"PKGNAME=a-1\nPKGNAME=b-1\nMAINT",
    });
    let e = ScanIndex::from_reader(rdr).unwrap_err();
    assert_eq!(e.kind(), io::ErrorKind::Other);

    /* Invalid UTF-8 is reported by BufRead::lines as InvalidData. */
    let bytes: &[u8] = b"PKGNAME=a-1\nMAINTAINER=\xff\xfe\n";
    let e = ScanIndex::from_reader(bytes).unwrap_err();
    assert_eq!(e.kind(), io::ErrorKind::InvalidData);

    /* Sanity: a BufRead built from a plain slice works. */
    let ok: Box<dyn BufRead> = Box::new(&b"PKGNAME=a-1"[..]);
    assert_eq!(ScanIndex::from_reader(ok).unwrap().len(), 1);
}
