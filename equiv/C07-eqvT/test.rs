/*
 * Exercises Summary::from_str (line splitting, errors), insert_or_update via
 * the set_* functions (fresh and repeated) and the ordered Display.
 */
use pkgsrc::summary::{Summary, SummaryError};
use std::str::FromStr;

const FULL: &str = "BUILD_DATE=2019-08-12 15:58:02 +0100\n\
CATEGORIES=devel pkgtools\n\
COMMENT=a=b==c \u{e9}\u{4e16}\n\
CONFLICTS=cfl-pkg1-[0-9]*\n\
CONFLICTS=cfl-pkg2>=2.0\n\
DEPENDS=dep-pkg1-[0-9]*\n\
DEPENDS=dep-pkg2>=2.0\n\
DESCRIPTION=A test description\n\
DESCRIPTION=\n\
DESCRIPTION=\n\
DESCRIPTION==leading equals\n\
FILE_CKSUM=SHA1 a4801e9b26eeb5b8bd1f54bac1c8e89dec67786a\n\
FILE_NAME=testpkg-1.0.tgz\n\
FILE_SIZE=-1234\n\
HOMEPAGE=https://docs.rs/pkgsrc/?a=b&c=d\n\
LICENSE=\n\
MACHINE_ARCH=x86_64\n\
OPSYS=Darwin\n\
OS_VERSION=18.7.0\n\
PKG_OPTIONS=http2 idn inet6 ldap libssh2\n\
PKGNAME=testpkg-1.0\n\
PKGPATH=pkgtools/testpkg\n\
PKGTOOLS_VERSION=20091115\n\
PREV_PKGPATH=obsolete/testpkg\n\
PROVIDES=/opt/pkg/lib/libfoo.dylib\n\
PROVIDES=/opt/pkg/lib/libbar.dylib\n\
REQUIRES=/usr/lib/libSystem.B.dylib\n\
REQUIRES=/usr/lib/libiconv.2.dylib\n\
SIZE_PKG=9223372036854775807\n\
SUPERSEDES=oldpkg-[0-9]*\n\
SUPERSEDES=badpkg>=2.0\n";

fn strs(v: &[&str]) -> Vec<String> {
    v.iter().map(|s| s.to_string()).collect()
}

#[test]
fn parse_full_entry_and_print_it_back() {
    let sum = Summary::from_str(FULL).expect("parse");
    assert_eq!(sum.build_date(), Some("2019-08-12 15:58:02 +0100"));
    assert_eq!(sum.categories(), Some("devel pkgtools"));
    assert_eq!(sum.comment(), Some("a=b==c \u{e9}\u{4e16}"));
    assert_eq!(
        sum.conflicts(),
        Some(strs(&["cfl-pkg1-[0-9]*", "cfl-pkg2>=2.0"]).as_slice())
    );
    assert_eq!(
        sum.depends(),
        Some(strs(&["dep-pkg1-[0-9]*", "dep-pkg2>=2.0"]).as_slice())
    );
    assert_eq!(
        sum.description(),
        Some(strs(&["A test description", "", "", "=leading equals"]).as_slice())
    );
    assert_eq!(
        sum.file_cksum(),
        Some("SHA1 a4801e9b26eeb5b8bd1f54bac1c8e89dec67786a")
    );
    assert_eq!(sum.file_name(), Some("testpkg-1.0.tgz"));
    assert_eq!(sum.file_size(), Some(-1234));
    assert_eq!(sum.homepage(), Some("https://docs.rs/pkgsrc/?a=b&c=d"));
    assert_eq!(sum.license(), Some(""));
    assert_eq!(sum.machine_arch(), Some("x86_64"));
    assert_eq!(sum.opsys(), Some("Darwin"));
    assert_eq!(sum.os_version(), Some("18.7.0"));
    assert_eq!(sum.pkg_options(), Some("http2 idn inet6 ldap libssh2"));
    assert_eq!(sum.pkgname(), Some("testpkg-1.0"));
    assert_eq!(sum.pkgpath(), Some("pkgtools/testpkg"));
    assert_eq!(sum.pkgtools_version(), Some("20091115"));
    assert_eq!(sum.prev_pkgpath(), Some("obsolete/testpkg"));
    assert_eq!(
        sum.provides(),
        Some(
            strs(&["/opt/pkg/lib/libfoo.dylib", "/opt/pkg/lib/libbar.dylib"])
                .as_slice()
        )
    );
    assert_eq!(
        sum.requires(),
        Some(
            strs(&["/usr/lib/libSystem.B.dylib", "/usr/lib/libiconv.2.dylib"])
                .as_slice()
        )
    );
    assert_eq!(sum.size_pkg(), Some(i64::MAX));
    assert_eq!(
        sum.supersedes(),
        Some(strs(&["oldpkg-[0-9]*", "badpkg>=2.0"]).as_slice())
    );
    assert_eq!(sum.to_string(), FULL);
}

#[test]
fn shuffled_and_repeated_lines_print_in_canonical_order() {
    /* Reverse the lines of single-valued variables, keep list lines in order. */
    let mut single: Vec<&str> = Vec::new();
    let mut multi: Vec<&str> = Vec::new();
    for l in FULL.lines() {
        let name = l.split('=').next().unwrap();
        match name {
            "CONFLICTS" | "DEPENDS" | "DESCRIPTION" | "PROVIDES"
            | "REQUIRES" | "SUPERSEDES" => multi.push(l),
            _ => single.push(l),
        }
    }
    single.reverse();
    let mut text = String::from("COMMENT=overwritten later\nSIZE_PKG=1\n");
    for l in multi.iter().chain(single.iter()) {
        text.push_str(l);
        text.push('\n');
    }
    let sum = Summary::from_str(&text).expect("parse shuffled");
    assert_eq!(sum.to_string(), FULL);
}

#[test]
fn crlf_and_missing_final_newline_are_accepted() {
    let text = FULL.trim_end_matches('\n').replace('\n', "\r\n");
    let sum = Summary::from_str(&text).expect("parse crlf");
    assert_eq!(sum.to_string(), FULL);
}

#[test]
fn malformed_lines_are_rejected_with_the_same_errors() {
    match Summary::from_str("BUILD_DATE") {
        Err(SummaryError::ParseLine(l)) => assert_eq!(l, "BUILD_DATE"),
        other => panic!("unexpected {:?}", other.map(|s| s.to_string())),
    }
    /* An empty line inside an entry has no '='. */
    match Summary::from_str("COMMENT=x\n\nOPSYS=y\n") {
        Err(SummaryError::ParseLine(l)) => assert_eq!(l, ""),
        other => panic!("unexpected {:?}", other.map(|s| s.to_string())),
    }
    /* '=' first: empty variable name. */
    match Summary::from_str("=value") {
        Err(SummaryError::ParseVariable(v)) => assert_eq!(v, ""),
        other => panic!("unexpected {:?}", other.map(|s| s.to_string())),
    }
    match Summary::from_str("COMMENT =x") {
        Err(SummaryError::ParseVariable(v)) => assert_eq!(v, "COMMENT "),
        other => panic!("unexpected {:?}", other.map(|s| s.to_string())),
    }
    match Summary::from_str("SIZE_PKG=") {
        Err(SummaryError::ParseInt(_)) => {}
        other => panic!("unexpected {:?}", other.map(|s| s.to_string())),
    }
    match Summary::from_str("FILE_SIZE=12=3") {
        Err(SummaryError::ParseInt(_)) => {}
        other => panic!("unexpected {:?}", other.map(|s| s.to_string())),
    }
    match Summary::from_str("COMMENT=only this") {
        Err(SummaryError::Incomplete(_)) => {}
        other => panic!("unexpected {:?}", other.map(|s| s.to_string())),
    }
    match Summary::from_str("") {
        Err(SummaryError::Incomplete(_)) => {}
        other => panic!("unexpected {:?}", other.map(|s| s.to_string())),
    }
}

#[test]
fn setters_insert_then_update_and_display_is_ordered() {
    let mut sum = Summary::new();
    assert_eq!(sum.to_string(), "");

    /* Deliberately not in pkg_summary order; each set twice or more. */
    sum.set_size_pkg(1);
    sum.set_size_pkg(-2);
    sum.set_supersedes(&strs(&["old"]));
    sum.set_supersedes(&strs(&["s1", "s2"]));
    sum.set_pkgname("a-1");
    sum.set_pkgname("b-2");
    sum.set_pkgname("c=3");
    sum.set_file_size(7);
    sum.set_file_size(0);
    sum.set_comment("first");
    sum.set_comment("");
    sum.push_description("d1");
    sum.set_description(&strs(&["e1"]));
    sum.push_description("e2");
    sum.set_build_date("later");
    sum.set_build_date("now");
    sum.push_depends("x>=1");
    sum.push_depends("x>=1");

    assert_eq!(sum.size_pkg(), Some(-2));
    assert_eq!(sum.pkgname(), Some("c=3"));
    assert_eq!(sum.comment(), Some(""));
    assert_eq!(sum.description(), Some(strs(&["e1", "e2"]).as_slice()));
    assert!(!sum.is_completed());

    assert_eq!(
        sum.to_string(),
        "BUILD_DATE=now\n\
         COMMENT=\n\
         DEPENDS=x>=1\n\
         DEPENDS=x>=1\n\
         DESCRIPTION=e1\n\
         DESCRIPTION=e2\n\
         FILE_SIZE=0\n\
         PKGNAME=c=3\n\
         SIZE_PKG=-2\n\
         SUPERSEDES=s1\n\
         SUPERSEDES=s2\n"
    );

    /* A clone prints the same (its map has a different internal order). */
    let copy = sum.clone();
    assert_eq!(copy.to_string(), sum.to_string());
}
