/*
 * Behaviour documentation for the C19 refactoring R: PkgPath::new().
 */
use pkgsrc::{PkgPath, PkgPathError};
use std::path::Path;
use std::str::FromStr;

fn good(s: &str, short: &str, full: &str) {
    let p = PkgPath::new(s).unwrap_or_else(|_| panic!("{:?} rejected", s));
    assert_eq!(p.as_path(), Path::new(short), "short of {:?}", s);
    assert_eq!(p.as_full_path(), Path::new(full), "full of {:?}", s);
    /* FromStr is the same function. */
    assert_eq!(PkgPath::from_str(s).unwrap(), p);
    /* Re-parsing either accessor gives an equal value. */
    let again = PkgPath::new(p.as_path().to_str().unwrap()).unwrap();
    assert_eq!(again.as_path(), p.as_path());
    assert_eq!(again.as_full_path(), p.as_full_path());
    let again = PkgPath::new(p.as_full_path().to_str().unwrap()).unwrap();
    assert_eq!(again.as_path(), p.as_path());
    assert_eq!(again.as_full_path(), p.as_full_path());
}

fn bad(s: &str) {
    assert_eq!(PkgPath::new(s), Err(PkgPathError::InvalidPath), "{:?}", s);
}

#[test]
fn accepted() {
    good("foo/bar", "foo/bar", "../../foo/bar");
    good("../../foo/bar", "foo/bar", "../../foo/bar");
    good("foo//bar//", "foo/bar", "../../foo/bar");
    good("..//..//foo//bar//", "foo/bar", "../../foo/bar");
    good("foo/./bar", "foo/bar", "../../foo/bar");
    good("foo/bar/.", "foo/bar", "../../foo/bar");
    good(".././../foo/./bar/./", "foo/bar", "../../foo/bar");
    good("caf\u{e9}/\u{3b1}", "caf\u{e9}/\u{3b1}", "../../caf\u{e9}/\u{3b1}");
    good(".. /...", ".. /...", "../../.. /...");
}

#[test]
fn both_spellings_equal() {
    let a = PkgPath::new("pkgtools/pkg_install").unwrap();
    let b = PkgPath::new("../../pkgtools/pkg_install").unwrap();
    assert_eq!(a, b);
    assert_eq!(a.as_path(), b.as_path());
    assert_eq!(a.as_full_path(), b.as_full_path());
    let c = PkgPath::new("pkgtools//pkg_install/").unwrap();
    assert_eq!(a, c);
}

#[test]
fn rejected() {
    for s in [
        "",
        "\0",
        "/",
        ".",
        "..",
        "foo",
        "foo/",
        "./foo",
        "./foo/bar",
        "/foo/bar",
        "../foo",
        "../foo/bar",
        "../..",
        "../../",
        "../../foo",
        "../../foo/bar/baz",
        "foo/bar/baz",
        "foo/bar/baz/qux",
        "a/../b",
        "a/..",
        "../a",
        "a/b/../..",
        "../../a/..",
        "../../../a",
        "../a/../b",
        "a/../../b",
        "a/b/c/d",
        "../../../../a/b",
        "/../../a/b",
        "/../a/b",
        "../../a/b/c/d",
    ] {
        bad(s);
    }
}
