/*
 * Behaviour check for Dewey::matches (base comparison, split at the last
 * '-', every bound evaluated), via the public API.  Passes before and after
 * the refactoring.
 */
use pkgsrc::{Dewey, Pattern};

fn m(pattern: &str, pkg: &str) -> bool {
    let d = Dewey::new(pattern).unwrap().matches(pkg);
    let p = Pattern::new(pattern).unwrap().matches(pkg);
    assert_eq!(d, p, "Dewey and Pattern disagree on {pattern:?} / {pkg:?}");
    d
}

#[test]
fn base_must_be_equal() {
    assert!(m("foo>=1", "foo-1"));
    assert!(!m("foo>=1", "fo-1"));
    assert!(!m("foo>=1", "fooo-1"));
    assert!(!m("foo>=1", "foo1-1"));
    assert!(!m("foo>=1", "xfoo-1"));
    assert!(!m("foo>=1", "Foo-1"));
    assert!(!m("foo>=1", "bar-1"));
    assert!(!m("foo>=1", "-1"));
    assert!(!m("foo>=1", "foo"));
    assert!(!m("foo>=1", ""));
    assert!(!m("foo>=1", "1"));
}

#[test]
fn split_at_last_dash() {
    assert!(m("foo-bar>=1", "foo-bar-1"));
    assert!(!m("foo-bar>=1", "foo-bar"));
    assert!(!m("foo>=1", "foo-bar-1"));
    assert!(!m("foo-bar>=1", "foo-1"));
    assert!(m("a-b-c>0", "a-b-c-1"));
    assert!(!m("a-b-c>0", "a-b-c"));
    /* trailing '-' gives an empty version, which behaves as 0 */
    assert!(m("foo>=0", "foo-"));
    assert!(!m("foo>0", "foo-"));
    assert!(m("foo->=0", "foo--"));
    assert!(!m("foo>=0", "foo--"));
    assert!(!m("foo>=0", "foo--1"));
    assert!(m("foo->=0", "foo--1"));
}

#[test]
fn empty_and_non_ascii_base() {
    assert!(m(">=1", "-1"));
    assert!(!m(">=1", "1"));
    assert!(!m(">=1", "a-1"));
    assert!(m("p\u{e9}>=1", "p\u{e9}-1"));
    assert!(!m("p\u{e9}>=1", "pe-1"));
    assert!(!m("pe>=1", "p\u{e9}-1"));
    assert!(m("\u{4e16}\u{754c}<2", "\u{4e16}\u{754c}-1"));
}

#[test]
fn every_bound_is_evaluated() {
    for (pkg, want) in [
        ("foo-0.9", false),
        ("foo-1.0", true),
        ("foo-1.5", true),
        ("foo-2.0", false),
        ("foo-2.1", false),
    ] {
        assert_eq!(m("foo>=1.0<2.0", pkg), want, "{pkg}");
    }
    for (pkg, want) in [
        ("foo-1.0", false),
        ("foo-1.0nb1", true),
        ("foo-2.0", true),
        ("foo-2.0nb1", false),
    ] {
        assert_eq!(m("foo>1.0<=2.0", pkg), want, "{pkg}");
    }
    /* empty range */
    assert!(!m("foo>2<1", "foo-1.5"));
    assert!(!m("foo>=1<1", "foo-1"));
    assert!(m("foo>=1<=1", "foo-1"));
    /* wrong base with in-range version */
    assert!(!m("foo>=1.0<2.0", "bar-1.5"));
}
