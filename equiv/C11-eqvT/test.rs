use pkgsrc::digest::Digest;
use pkgsrc::distinfo::*;
use std::ffi::{OsStr, OsString};
use std::os::unix::ffi::OsStrExt;
use std::path::{Path, PathBuf};

fn p(b: &[u8]) -> PathBuf {
    PathBuf::from(OsStr::from_bytes(b))
}

fn ck(d: Digest, h: &str) -> Checksum {
    Checksum::new(d, h.to_string())
}

fn names(v: Vec<&Entry>) -> Vec<PathBuf> {
    v.iter().map(|e| e.filename.clone()).collect()
}

/*
 * Leading whitespace of every ASCII kind, whitespace-only lines, a line made
 * of a single non-blank byte, and bytes >= 0x80 which are never whitespace.
 */
#[test]
fn leading_whitespace_is_skipped() {
    let mut text: Vec<u8> = Vec::new();
    text.extend_from_slice(b"   \t \n");
    text.extend_from_slice(b"\t\t\n");
    text.extend_from_slice(b"\x0b\x0c \n");
    text.extend_from_slice(b"  \t$NetBSD: distinfo,v 1.2 2024/01/01 00:00:00 wiz Exp $\n");
    text.extend_from_slice(b" \t  # SHA1 (commented.tgz) = 00\n");
    text.extend_from_slice(b"\x0c\x0b\t SHA1 (one.tgz) = 01\r\n");
    text.extend_from_slice(b"SHA512 (two.tgz) = 02\n");
    text.extend_from_slice(b"\xa0SHA1 (three.tgz) = 03\n");
    text.extend_from_slice(b"\x85 SHA1 (four.tgz) = 04\n");
    text.extend_from_slice(b"x\n");
    text.extend_from_slice(b" \n");
    text.extend_from_slice(b"        Size (one.tgz) = 11 bytes");
    let di = Distinfo::from_bytes(&text);

    assert_eq!(
        di.rcsid(),
        Some(&OsString::from(
            "$NetBSD: distinfo,v 1.2 2024/01/01 00:00:00 wiz Exp $"
        ))
    );
    assert_eq!(names(di.distfiles()), vec![p(b"one.tgz"), p(b"two.tgz")]);
    assert!(di.patchfiles().is_empty());
    let one = di.get_distfile("one.tgz").unwrap();
    assert_eq!(one.size, Some(11));
    assert_eq!(one.checksums, vec![ck(Digest::SHA1, "01")]);
    let two = di.get_distfile("two.tgz").unwrap();
    assert_eq!(two.size, None);
    assert_eq!(two.checksums, vec![ck(Digest::SHA512, "02")]);
}

/*
 * The "(name)" field: both parentheses are needed, "()" is an empty name, a
 * lone "(" or ")" is not a name, inner parentheses belong to the name.
 */
#[test]
fn name_field_parentheses() {
    let text = b"\
SHA1 ( = 01
SHA1 ) = 02
SHA1 (open.tgz = 03
SHA1 close.tgz) = 04
SHA1 bare.tgz = 05
SHA1 )swapped.tgz( = 06
SHA1 (sp ace.tgz) = 07
SHA1 () = 08
SHA1 (() = 09
SHA1 ()) = 10
SHA1 ((in)ner(1).tgz) = 11
SHA1 (x) = 12
Size ( = 1 bytes
Size (nosize.tgz = 2 bytes
Size (x) = 3 bytes
Size () = 4 bytes
";
    let di = Distinfo::from_bytes(text);
    assert_eq!(
        names(di.distfiles()),
        vec![p(b""), p(b"("), p(b")"), p(b"(in)ner(1).tgz"), p(b"x")]
    );
    assert!(di.patchfiles().is_empty());
    let e = di.get_distfile("").unwrap();
    assert_eq!(e.checksums, vec![ck(Digest::SHA1, "08")]);
    assert_eq!(e.size, Some(4));
    assert_eq!(e.filetype, EntryType::Distfile);
    assert_eq!(
        di.get_distfile("(").unwrap().checksums,
        vec![ck(Digest::SHA1, "09")]
    );
    assert_eq!(
        di.get_distfile(")").unwrap().checksums,
        vec![ck(Digest::SHA1, "10")]
    );
    assert_eq!(
        di.get_distfile("(in)ner(1).tgz").unwrap().checksums,
        vec![ck(Digest::SHA1, "11")]
    );
    let x = di.get_distfile("x").unwrap();
    assert_eq!(x.checksums, vec![ck(Digest::SHA1, "12")]);
    assert_eq!(x.size, Some(3));
}

/*
 * Other rejected shapes are still rejected, and do not disturb neighbours.
 */
#[test]
fn rejected_lines_change_nothing() {
    let text = b"\
SHA1 (a.tgz) = 01
SHA1 (a.tgz) == 02
SHA1 (a.tgz) 03
SHA1 (a.tgz) =
SHA1 (a.tgz)
SHA1
CRC32 (a.tgz) = 04
sha1 (a.tgz) = 05
Size (a.tgz) = 12x bytes
Size (a.tgz) = -1 bytes
Size (a.tgz) = 18446744073709551616 bytes
size (a.tgz) = 7 bytes
SHA1 (a.tgz) = \xff\xfe
\xffHA1 (a.tgz) = 06
# Size (a.tgz) = 8 bytes
RMD160 (a.tgz) = 07 trailing words are ignored
Size (a.tgz) = 18446744073709551615 bytes
";
    let di = Distinfo::from_bytes(text);
    assert_eq!(names(di.distfiles()), vec![p(b"a.tgz")]);
    assert!(di.patchfiles().is_empty());
    let a = di.get_distfile("a.tgz").unwrap();
    assert_eq!(
        a.checksums,
        vec![
            ck(Digest::SHA1, "01"),
            /* digest names are matched without regard to case */
            ck(Digest::SHA1, "05"),
            ck(Digest::RMD160, "07"),
        ]
    );
    assert_eq!(a.size, Some(u64::MAX));
    assert_eq!(di.rcsid(), None);
}

/*
 * Names are raw bytes: 0x85 / 0xa0 / invalid UTF-8 do not split or drop.
 */
#[test]
fn names_with_arbitrary_bytes() {
    let mut text: Vec<u8> = Vec::new();
    text.extend_from_slice(b"SHA1 (caf\xc3\xa0.tgz) = 01\n");
    text.extend_from_slice(b"SHA1 (n\x85l.tgz) = 02\n");
    text.extend_from_slice(b"SHA1 (patch-\xff\xa0) = 03\n");
    text.extend_from_slice(b"Size (caf\xc3\xa0.tgz) = 5 bytes\n");
    text.extend_from_slice(b"SHA512 (n\x85l.tgz) = 04\n");
    let di = Distinfo::from_bytes(&text);
    assert_eq!(
        names(di.distfiles()),
        vec![p(b"caf\xc3\xa0.tgz"), p(b"n\x85l.tgz")]
    );
    assert_eq!(names(di.patchfiles()), vec![p(b"patch-\xff\xa0")]);
    let e = di.get_distfile(p(b"caf\xc3\xa0.tgz")).unwrap();
    assert_eq!(e.size, Some(5));
    assert_eq!(e.checksums, vec![ck(Digest::SHA1, "01")]);
    let e = di.get_distfile(p(b"n\x85l.tgz")).unwrap();
    assert_eq!(
        e.checksums,
        vec![ck(Digest::SHA1, "02"), ck(Digest::SHA512, "04")]
    );
    let e = di.get_patchfile(p(b"patch-\xff\xa0")).unwrap();
    assert_eq!(e.checksums, vec![ck(Digest::SHA1, "03")]);
    assert_eq!(e.filetype, EntryType::Patchfile);
    assert_eq!(e.filename, p(b"patch-\xff\xa0"));
    assert_eq!(e.filepath, PathBuf::new());
}

/*
 * Model based check of the merge: a pseudo-random interleaving of checksum
 * and size lines for several distfiles and patch files, with extra blanks,
 * compared with a straightforward reference.
 */
struct Model {
    files: Vec<(PathBuf, Option<u64>, Vec<Checksum>)>,
}

impl Model {
    fn slot(&mut self, name: &Path) -> usize {
        if let Some(i) = self.files.iter().position(|f| f.0 == name) {
            return i;
        }
        self.files.push((name.to_path_buf(), None, vec![]));
        self.files.len() - 1
    }
}

fn check(model: &Model, got: Vec<&Entry>, ty: EntryType) {
    assert_eq!(got.len(), model.files.len());
    for (e, m) in got.iter().zip(model.files.iter()) {
        assert_eq!(e.filename, m.0);
        assert_eq!(e.size, m.1);
        assert_eq!(e.checksums, m.2);
        assert_eq!(e.filetype, ty);
        assert_eq!(e.filepath, PathBuf::new());
    }
}

#[test]
fn interleaved_merge_matches_model() {
    let files: [&[u8]; 8] = [
        b"foo-1.0.tar.gz",
        b"sub/dir/bar-2.tgz",
        b"patch-2.7.6.tar.xz",
        b"patch-local-fix",
        b"patch-aa",
        b"patch-src_main.c",
        b"emul-linux-patch-ab",
        b"patch-aa.orig",
    ];
    let is_patch = [false, false, false, false, true, true, true, false];
    let digests = [
        ("SHA1", Digest::SHA1),
        ("RMD160", Digest::RMD160),
        ("SHA512", Digest::SHA512),
        ("BLAKE2s", Digest::BLAKE2s),
    ];
    let seps = [" ", "  ", "\t", " \t ", "\x0c", "\x0b "];

    for seed in 1u64..=40 {
        let mut x = seed.wrapping_mul(0x9e3779b97f4a7c15) | 1;
        let mut next = |n: usize| -> usize {
            x ^= x << 13;
            x ^= x >> 7;
            x ^= x << 17;
            (x % n as u64) as usize
        };
        let mut text: Vec<u8> = Vec::new();
        let mut dist = Model { files: vec![] };
        let mut patch = Model { files: vec![] };
        for n in 0..60 {
            let f = next(files.len());
            let sep = seps[next(seps.len())];
            let lead = ["", "", " ", "\t  "][next(4)];
            let model = if is_patch[f] { &mut patch } else { &mut dist };
            text.extend_from_slice(lead.as_bytes());
            match next(7) {
                0 => {
                    let size = next(100000) as u64;
                    text.extend_from_slice(b"Size");
                    text.extend_from_slice(sep.as_bytes());
                    text.push(b'(');
                    text.extend_from_slice(files[f]);
                    text.push(b')');
                    text.extend_from_slice(sep.as_bytes());
                    text.push(b'=');
                    text.extend_from_slice(sep.as_bytes());
                    text.extend_from_slice(size.to_string().as_bytes());
                    text.extend_from_slice(sep.as_bytes());
                    text.extend_from_slice(b"bytes");
                    let i = model.slot(&p(files[f]));
                    model.files[i].1 = Some(size);
                }
                1 => text.extend_from_slice(b"# a comment (x) = 1"),
                2 => {
                    text.extend_from_slice(b"MD4 (");
                    text.extend_from_slice(files[f]);
                    text.extend_from_slice(b") = 00");
                }
                _ => {
                    let (dn, d) = digests[next(digests.len())];
                    let hash = format!("{:04x}{:02}", next(65536), n);
                    text.extend_from_slice(dn.as_bytes());
                    text.extend_from_slice(sep.as_bytes());
                    text.push(b'(');
                    text.extend_from_slice(files[f]);
                    text.push(b')');
                    text.extend_from_slice(sep.as_bytes());
                    text.push(b'=');
                    text.extend_from_slice(sep.as_bytes());
                    text.extend_from_slice(hash.as_bytes());
                    let i = model.slot(&p(files[f]));
                    model.files[i].2.push(Checksum::new(d, hash));
                }
            }
            text.extend_from_slice(sep.as_bytes());
            text.push(b'\n');
        }
        let di = Distinfo::from_bytes(&text);
        check(&dist, di.distfiles(), EntryType::Distfile);
        check(&patch, di.patchfiles(), EntryType::Patchfile);

        /* Writing out and reading back groups the lines but keeps it all. */
        let again = Distinfo::from_bytes(&di.as_bytes());
        check(&dist, again.distfiles(), EntryType::Distfile);
        /* ... except the size of patch files, which is not written. */
        for f in patch.files.iter_mut() {
            f.1 = None;
        }
        patch.files.retain(|f| !f.2.is_empty());
        check(&patch, again.patchfiles(), EntryType::Patchfile);
    }
}
