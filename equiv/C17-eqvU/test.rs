use pkgsrc::{Dewey, Pattern};

/*
 * Independent reference tokeniser for version strings, written over a
 * Vec<char> rather than byte offsets.
 */
fn reference(s: &str) -> (Vec<i64>, i64) {
    let cs: Vec<char> = s.to_ascii_lowercase().chars().collect();
    let starts = |i: usize, w: &str| -> bool {
        let w: Vec<char> = w.chars().collect();
        cs.len() >= i + w.len() && cs[i..i + w.len()] == w[..]
    };
    let mut v = vec![];
    let mut rev = 0i64;
    let mut i = 0;
    while i < cs.len() {
        let c = cs[i];
        if c.is_ascii_digit() {
            let mut j = i;
            let mut n = String::new();
            while j < cs.len() && cs[j].is_ascii_digit() {
                n.push(cs[j]);
                j += 1;
            }
            v.push(n.parse::<i64>().unwrap_or(i64::MAX));
            i = j;
        } else if c == '.' || c == '_' {
            v.push(0);
            i += 1;
        } else if starts(i, "nb") {
            let mut j = i + 2;
            let mut n = String::new();
            while j < cs.len() && cs[j].is_ascii_digit() {
                n.push(cs[j]);
                j += 1;
            }
            rev = n.parse::<i64>().unwrap_or(0);
            i = j;
        } else if starts(i, "alpha") {
            v.push(-3);
            i += 5;
        } else if starts(i, "beta") {
            v.push(-2);
            i += 4;
        } else if starts(i, "rc") {
            v.push(-1);
            i += 2;
        } else if starts(i, "pre") {
            v.push(-1);
            i += 3;
        } else if starts(i, "pl") {
            v.push(0);
            i += 2;
        } else if c.is_ascii_alphabetic() {
            v.push(0);
            v.push(c as i64);
            i += 1;
        } else {
            i += 1;
        }
    }
    (v, rev)
}

/* The compiled version is only observable through Dewey's Debug output. */
fn compiled(ver: &str) -> String {
    format!("{:?}", Dewey::new(&format!("p>={ver}")).unwrap())
}

fn expected(ver: &str) -> String {
    let (v, rev) = reference(ver);
    format!(
        "Dewey {{ pkgname: \"p\", matches: [DeweyMatch {{ op: GE, version: \
         DeweyVersion {{ version: {v:?}, pkgrevision: {rev} }} }}] }}"
    )
}

const VERSIONS: &[&str] = &[
    "", "0", "1", "1.0", "1.0.0", "1_0", "1..2", ".", "_", "1.", "1_",
    "1.0alpha1beta2rc3pl4_5nb17", "ojnknb30_-", "100nb", "nb", "nbnb", "nb1nb2",
    "1nb99999999999999999999", "99999999999999999999", "9223372036854775807",
    "9223372036854775808", "007", "1alpha", "1ALPHA", "1Alpha2", "1alph", "1alp",
    "alphabeta", "beta", "bet", "betarc", "rc", "r", "rcpre", "pre", "pr", "prepl",
    "pl", "p", "plpl", "prc", "prerc1", "1.0pre1", "1.0rc1", "1.0pl1", "1.0beta",
    "2.0BETA3NB8", "1.1blah2", "1.1a2", "1.1c2", "a", "z", "A", "Z", "abcxyz",
    "n", "nx", "nb-", "b", "be", "al", "alpha-", "1-2", "-", "--", " ", "1 2",
    "\u{e9}", "1\u{e9}2", "\u{e9}nb3", "n\u{e9}b3", "al\u{e9}pha", "\u{4e2d}\u{6587}",
    "1.0\u{1f600}rc1", "\u{0}", "1\u{0}2", "\t", "1+2", "1~2", "1,2", "1:2", "1/2",
    "\u{130}", "\u{212a}", "pr\u{e9}", "\u{e9}pl", "\u{ff11}\u{ff12}", "\u{663}",
    "1.22b2", "20240101", "3.14.15.92.65.35", "1rc", "1rcc", "1prep", "1plu", "1nbb",
];

#[test]
fn compiled_versions_match_reference() {
    for v in VERSIONS {
        assert_eq!(compiled(v), expected(v), "version {v:?}");
    }
    /* And all pairwise concatenations, to exercise every token following every other. */
    for a in VERSIONS {
        for b in VERSIONS {
            let v = format!("{a}{b}");
            assert_eq!(compiled(&v), expected(&v), "version {v:?}");
        }
    }
}

#[test]
fn known_values() {
    assert_eq!(
        reference("1.0alpha1beta2rc3pl4_5nb17"),
        (vec![1, 0, 0, -3, 1, -2, 2, -1, 3, 0, 4, 0, 5], 17)
    );
    assert_eq!(
        compiled("ojnknb30_-"),
        "Dewey { pkgname: \"p\", matches: [DeweyMatch { op: GE, version: DeweyVersion \
         { version: [0, 111, 0, 106, 0, 110, 0, 107, 0], pkgrevision: 30 } }] }"
    );
    assert_eq!(
        compiled("\u{e9}"),
        "Dewey { pkgname: \"p\", matches: [DeweyMatch { op: GE, version: DeweyVersion \
         { version: [], pkgrevision: 0 } }] }"
    );
}

/* The package side of a match goes through the same tokeniser. */
#[test]
fn matching_behaviour() {
    let m = Dewey::new("pkg>1.0alpha3nb2<2.0beta4nb7").unwrap();
    for (pkg, want) in [
        ("pkg-1.1", true),
        ("pkg-1.0alpha3nb2", false),
        ("pkg-1.0ALPHA3nb3", true),
        ("pkg-2.0alpha3nb3", true),
        ("pkg-2.0beta3nb8", true),
        ("pkg-2.0beta5nb6", false),
        ("pkg-2.0beta4nb7", false),
        ("pkg-2.0", false),
        ("pkg-2.0nb8", false),
        ("pkg-1.0pre", true),
        ("pkg-1.0alpha2", false),
        ("pkg-1.0rc9", true),
        ("pkg-1.0pl", true),
        ("pkg-1.5\u{e9}", true),
        ("pkg-\u{e9}", false),
        ("pkg-", false),
        ("pkg", false),
        ("", false),
    ] {
        assert_eq!(m.matches(pkg), want, "{pkg:?}");
    }

    let p = Pattern::new("pkg-[0-9]*").unwrap();
    assert_eq!(p.best_match("pkg-1.0rc1", "pkg-1.0pre1"), Some("pkg-1.0pre1"));
    assert_eq!(p.best_match("pkg-1.0rc1", "pkg-1.0beta9"), Some("pkg-1.0rc1"));
    assert_eq!(p.best_match("pkg-1.0pl1", "pkg-1.0.1"), Some("pkg-1.0.1"));
    assert_eq!(p.best_match("pkg-1.0alpha", "pkg-1.0beta"), Some("pkg-1.0beta"));
    assert_eq!(p.best_match("pkg-1<2", "pkg-1>2"), Some("pkg-1<2"));
    assert_eq!(p.best_match("pkg-1nb2", "pkg-1nb10"), Some("pkg-1nb10"));
    assert_eq!(
        p.best_match("pkg-99999999999999999999", "pkg-9223372036854775807"),
        Some("pkg-9223372036854775807")
    );
}
