/*
 * Behaviour check for size / checksum verification (public API only).
 * Passes before and after the control-flow refactoring of Entry::verify_size,
 * Entry::verify_checksum_internal and Distinfo::find_entry.
 */
use pkgsrc::digest::Digest;
use pkgsrc::distinfo::{Distinfo, DistinfoError, Entry, EntryType};
use std::fs;
use std::io::Cursor;
use std::path::{Path, PathBuf};

const ALL: [Digest; 6] = [
    Digest::BLAKE2s,
    Digest::MD5,
    Digest::RMD160,
    Digest::SHA1,
    Digest::SHA256,
    Digest::SHA512,
];

fn scratch(name: &str) -> PathBuf {
    let mut d = PathBuf::from(env!("CARGO_TARGET_TMPDIR"));
    d.push(format!("{}-{}", name, std::process::id()));
    let _ = fs::remove_dir_all(&d);
    fs::create_dir_all(&d).unwrap();
    d
}

fn file_hash(d: Digest, content: &[u8]) -> String {
    d.hash_file(&mut Cursor::new(content.to_vec())).unwrap()
}

/* Reference for patch hashing: drop every line containing "$NetBSD". */
fn patch_hash(d: Digest, content: &[u8]) -> String {
    let mut out: Vec<u8> = vec![];
    let mut lines: Vec<&[u8]> = content.split(|b| *b == b'\n').collect();
    if lines.last().map(|l| l.is_empty()).unwrap_or(false) {
        lines.pop();
    }
    for l in lines {
        if l.windows(7).any(|w| w == b"$NetBSD") {
            continue;
        }
        out.extend_from_slice(l);
        out.push(b'\n');
    }
    file_hash(d, &out)
}

fn distinfo_for(name: &str, content: &[u8], patch: bool) -> Vec<u8> {
    let mut t = String::from("$NetBSD$\n\n");
    for d in ALL {
        let h = if patch { patch_hash(d, content) } else { file_hash(d, content) };
        t.push_str(&format!("{} ({}) = {}\n", d, name, h));
    }
    if !patch {
        t.push_str(&format!("Size ({}) = {} bytes\n", name, content.len()));
    }
    t.into_bytes()
}

#[test]
fn distfile_match_and_mismatch() {
    let dir = scratch("equivq-dist");
    let contents: Vec<Vec<u8>> = vec![
        vec![],
        b"hello\n".to_vec(),
        b"no trailing newline".to_vec(),
        b"line\n$NetBSD: x $\nline2\n".to_vec(),
        (0u16..=255).map(|b| b as u8).collect(),
        vec![b'z'; 70_000],
    ];
    for (i, content) in contents.iter().enumerate() {
        let name = format!("file{}.tgz", i);
        let path = dir.join(&name);
        fs::write(&path, content).unwrap();
        let di = Distinfo::from_bytes(&distinfo_for(&name, content, false));
        assert_eq!(di.verify_size(&path).unwrap(), content.len() as u64);
        for d in ALL {
            assert_eq!(di.verify_checksum(&path, d).unwrap(), d);
        }
        let all = di.verify_checksums(&path);
        assert_eq!(all.len(), 6);
        for (r, d) in all.into_iter().zip(ALL) {
            assert_eq!(r.unwrap(), d);
        }
        /* Entry-level API gives the same answers. */
        let e = di.find_entry(&path).unwrap();
        assert_eq!(e.filetype, EntryType::Distfile);
        assert_eq!(e.verify_size(&path).unwrap(), content.len() as u64);
        assert_eq!(e.verify_checksum(&path, Digest::SHA1).unwrap(), Digest::SHA1);

        /* Corrupt the file: append a byte. */
        let mut bad = content.clone();
        bad.push(b'!');
        fs::write(&path, &bad).unwrap();
        match di.verify_size(&path) {
            Err(DistinfoError::Size(p, exp, act)) => {
                assert_eq!(p, PathBuf::from(&name));
                assert_eq!(exp, content.len() as u64);
                assert_eq!(act, bad.len() as u64);
            }
            other => panic!("unexpected {:?}", other),
        }
        for d in ALL {
            match di.verify_checksum(&path, d) {
                Err(DistinfoError::Checksum(p, dd, exp, act)) => {
                    assert_eq!(p, PathBuf::from(&name));
                    assert_eq!(dd, d);
                    assert_eq!(exp, file_hash(d, content));
                    assert_eq!(act, file_hash(d, &bad));
                }
                other => panic!("unexpected {:?}", other),
            }
        }
        /* Same length, one byte flipped: size passes, checksums fail. */
        if !content.is_empty() {
            let mut flip = content.clone();
            flip[0] ^= 1;
            fs::write(&path, &flip).unwrap();
            assert_eq!(di.verify_size(&path).unwrap(), content.len() as u64);
            for r in di.verify_checksums(&path) {
                assert!(matches!(r, Err(DistinfoError::Checksum(_, _, _, _))));
            }
        }
    }
    fs::remove_dir_all(&dir).unwrap();
}

#[test]
fn patchfile_ignores_rcsid_lines() {
    let dir = scratch("equivq-patch");
    let content = b"$NetBSD: patch-aa,v 1.1 2020/01/01 00:00:00 joe Exp $\n\n--- a.orig\n+++ a\n@@ -1 +1 @@\n-x\n+y $NetBSD$ tail\n+z\n";
    let path = dir.join("patch-aa");
    fs::write(&path, content).unwrap();
    let di = Distinfo::from_bytes(&distinfo_for("patch-aa", content, true));
    assert!(di.get_patchfile("patch-aa").is_some());
    for d in ALL {
        assert_eq!(di.verify_checksum(&path, d).unwrap(), d);
    }
    assert!(matches!(di.verify_size(&path), Err(DistinfoError::MissingSize(p)) if p == path));
    /* Changing only the RCS Id line keeps the patch valid. */
    let changed = String::from_utf8(content.to_vec()).unwrap().replace("1.1 2020", "1.2 2024");
    fs::write(&path, changed.as_bytes()).unwrap();
    for d in ALL {
        assert_eq!(di.verify_checksum(&path, d).unwrap(), d);
    }
    /* The plain file hash differs from the patch hash, so a distfile-style hash fails. */
    assert_ne!(file_hash(Digest::SHA1, content), patch_hash(Digest::SHA1, content));
    /* Changing a real line is detected. */
    let changed = String::from_utf8(content.to_vec()).unwrap().replace("+z", "+w");
    fs::write(&path, changed.as_bytes()).unwrap();
    for d in ALL {
        match di.verify_checksum(&path, d) {
            Err(DistinfoError::Checksum(p, dd, exp, act)) => {
                assert_eq!(p, PathBuf::from("patch-aa"));
                assert_eq!(dd, d);
                assert_eq!(exp, patch_hash(d, content));
                assert_eq!(act, patch_hash(d, changed.as_bytes()));
            }
            other => panic!("unexpected {:?}", other),
        }
    }
    /* No trailing newline and empty patch. */
    for c in [&b"a\nb"[..], &b""[..], &b"$NetBSD$"[..]] {
        fs::write(&path, c).unwrap();
        let di = Distinfo::from_bytes(&distinfo_for("patch-aa", c, true));
        for d in ALL {
            assert_eq!(di.verify_checksum(&path, d).unwrap(), d);
        }
    }
    fs::remove_dir_all(&dir).unwrap();
}

#[test]
fn missing_notfound_and_subdir_lookup() {
    let dir = scratch("equivq-lookup");
    fs::create_dir_all(dir.join("sub/dir")).unwrap();
    let top = dir.join("foo.tgz");
    let nested = dir.join("sub/dir/foo.tgz");
    let other = dir.join("sub/dir/bar.tgz");
    fs::write(&top, b"top").unwrap();
    fs::write(&nested, b"nested!").unwrap();
    fs::write(&other, b"bar").unwrap();
    let text = format!(
        "SHA1 (dir/foo.tgz) = {}\nSize (dir/foo.tgz) = 7 bytes\nSHA1 (sub/dir/bar.tgz) = {}\n",
        file_hash(Digest::SHA1, b"nested!"),
        file_hash(Digest::SHA1, b"bar"),
    );
    let di = Distinfo::from_bytes(text.as_bytes());
    /* DIST_SUBDIR entries are found from full paths. */
    assert_eq!(di.find_entry(&nested).unwrap().filename, PathBuf::from("dir/foo.tgz"));
    assert_eq!(di.verify_size(&nested).unwrap(), 7);
    assert_eq!(di.verify_checksum(&nested, Digest::SHA1).unwrap(), Digest::SHA1);
    assert_eq!(di.find_entry(&other).unwrap().filename, PathBuf::from("sub/dir/bar.tgz"));
    assert!(matches!(di.verify_size(&other), Err(DistinfoError::MissingSize(p)) if p == other));
    match di.verify_checksum(&other, Digest::MD5) {
        Err(DistinfoError::MissingChecksum(p, d)) => {
            assert_eq!(p, other);
            assert_eq!(d, Digest::MD5);
        }
        r => panic!("unexpected {:?}", r),
    }
    /* top-level foo.tgz has no recorded trailing sub-path. */
    assert!(matches!(di.find_entry(&top), Err(DistinfoError::NotFound)));
    assert!(matches!(di.verify_size(&top), Err(DistinfoError::NotFound)));
    assert!(matches!(di.verify_checksum(&top, Digest::SHA1), Err(DistinfoError::NotFound)));
    let v = di.verify_checksums(&top);
    assert_eq!(v.len(), 1);
    assert!(matches!(v[0], Err(DistinfoError::NotFound)));
    assert!(matches!(di.find_entry(Path::new("")), Err(DistinfoError::NotFound)));

    /* Shortest recorded trailing sub-path wins when names share a tail. */
    let text = "Size (dir/foo.tgz) = 7 bytes\nSize (foo.tgz) = 3 bytes\n";
    let di = Distinfo::from_bytes(text.as_bytes());
    assert_eq!(di.find_entry(&nested).unwrap().filename, PathBuf::from("foo.tgz"));
    assert!(matches!(di.verify_size(&nested), Err(DistinfoError::Size(_, 3, 7))));
    assert_eq!(di.verify_size(&top).unwrap(), 3);

    /* Recorded but nonexistent file: I/O error. */
    let gone = dir.join("sub/dir/gone/foo.tgz");
    assert!(matches!(di.verify_size(&gone), Err(DistinfoError::Io(_))));
    let e = Entry::new("x", "x", vec![], None);
    assert!(matches!(e.verify_size(&gone), Err(DistinfoError::MissingSize(_))));
    assert!(e.verify_checksums(&gone).is_empty());
    fs::remove_dir_all(&dir).unwrap();
}

#[test]
fn patch_lookup_uses_patch_map() {
    let dir = scratch("equivq-patchlookup");
    fs::create_dir_all(dir.join("patches")).unwrap();
    let path = dir.join("patches/patch-ab");
    fs::write(&path, b"+line\n").unwrap();
    /* Entry constructed by hand and inserted; also a distfile with a size. */
    let mut di = Distinfo::new();
    let h = patch_hash(Digest::SHA1, b"+line\n");
    assert!(di.insert(Entry::new(
        "patch-ab",
        &path,
        vec![pkgsrc::distinfo::Checksum::new(Digest::SHA1, h)],
        Some(999),
    )));
    let e = di.find_entry(&path).unwrap();
    assert_eq!(e.filetype, EntryType::Patchfile);
    assert_eq!(di.verify_checksum(&path, Digest::SHA1).unwrap(), Digest::SHA1);
    assert!(matches!(di.verify_size(&path), Err(DistinfoError::Size(_, 999, 6))));
    /* A patch-looking path is never resolved against distfiles. */
    let di = Distinfo::from_bytes(b"Size (patch-ab.orig) = 6 bytes\n");
    assert!(matches!(di.find_entry(&path), Err(DistinfoError::NotFound)));
    fs::remove_dir_all(&dir).unwrap();
}
