/*
 * Exercises hash_str / hash_file / hash_patch (hex encoding of the result,
 * the "$NetBSD" line filter, error propagation) plus the name table.
 * Expected digests were computed independently (Python hashlib).
 */
use pkgsrc::digest::{Digest, DigestError};
use std::io::{self, ErrorKind, Read};
use std::str::FromStr;

const ALL: [Digest; 6] = [
    Digest::BLAKE2s,
    Digest::MD5,
    Digest::RMD160,
    Digest::SHA1,
    Digest::SHA256,
    Digest::SHA512,
];

fn text(len: usize) -> String {
    (0..len).map(|i| (b'a' + (i * 7 % 26) as u8) as char).collect()
}

/* (length of text(len), digests in the order of ALL) */
const KAT: [(usize, [&str; 6]); 6] = [
    (0, [
        "69217a3079908094e11121d042354a7c1f55b6482ca1a51e1b250dfd1ed0eef9",
        "d41d8cd98f00b204e9800998ecf8427e",
        "9c1185a5c5e9fc54612808977ee8f548b2258d31",
        "da39a3ee5e6b4b0d3255bfef95601890afd80709",
        "e3b0c44298fc1c149afbf4c8996fb92427ae41e4649b934ca495991b7852b855",
        "cf83e1357eefb8bdf1542850d66d8007d620e4050b5715dc83f4a921d36ce9ce47d0d13c5d85f2b0ff8318d2877eec2f63b931bd47417a81a538327af927da3e",
    ]),
    (3, [
        "39db3dae1272e65ca75b74bee8b431bbc1b2ba56b0316bd39038b0535851d128",
        "cc7bcfbc58c467939c5987584fc882cb",
        "4100dbd01cef7697e950af9f35ef0e65f66d8619",
        "dc7faf3c5cd4a3d5e67a6c53ac919667d748969c",
        "2fe3269fa210706de21ff97cc964590ec5bddd6677885fc55cfa6bfd94924822",
        "0c5c97a05ceeeb08a5f1a12fd921f5e3e6e0ccf5f473b8c7ee41285739058d91ecc40993b6daf88b5bfcb2a010c424b2f5a535caa671142d86b0555f51eca0a0",
    ]),
    (56, [
        "7d0929bc82221fc404e06ca627e25b71578b227fc3ff112b25136c1e1d6d5d85",
        "a6be95aef9ae896877681971e82c050d",
        "fcbb4feb5ffcada8748ddd7176085dbffe862e13",
        "dd95883bff80770f68bda678786c64aa79fb86e4",
        "642b572edefc37c5664b4b95a7a83bdc5617dc06b241bfac5c8094b10fec734e",
        "0c2bb7c181a44a2837f20e02ed2578ed1880458de9733f4ad205ba140d524373f7a83c4ab673ef8d4118039be3eaf6b999494d35b32234f3ca95348a63ec36a0",
    ]),
    (64, [
        "be8a91cc6701575a78f16b1e4a169d6d254314af62ec26f543fa7f5b3c71643f",
        "ce6e22000dda0f845d5f3e3600099e15",
        "a6743ff8e8e78be66bf2abf50a65f84f990875b7",
        "95e0f141dcbf424ea4f274d5bb42b33f51f4da80",
        "15c32cfa73534b3c34a1244e4331e3757b34daf267f6a7322d471c849e3a5c65",
        "c5ca44a841154096380fa9c25edbf6e7c52156dd1b2c2e85587abfc1bcdad3a89e2024b8bde6b9f5d857a96d795bd39dc44d641c006d94b9520050dc6729fdb6",
    ]),
    (119, [
        "8bc0aaeb36ca2b0994c423c456b162afd2449dbb603f610d175bc0055efd8fb6",
        "f7276e47af32f9d59574739bdc428eaf",
        "9b8e1ff22576031cd22d957c68676bca67bd0d1d",
        "462fbd2c395f6bf85645b9302babe74308946556",
        "a1913d07c18ff09efb38be9e5317b92e7a4cf103f6fb7448257c30c7cab59462",
        "634d2c45c6e04ebc7b9cb3b7ce0cf3ad49822e82d18e4b0e7b27fa58a6d8d82d70abbd15203db6b27101d96e4e77908420d0d83b89c54797b6dbe468b1b2e42a",
    ]),
    (5000, [
        "84782284bc01250760e86d5c98b59cd5ceac1043dff29bbd1a9e6477b60b6327",
        "54d60b505315a86cd4bf3453b8ee78a1",
        "784198f1185e461dc09b150913feed9ee7428b41",
        "5fe9ebecb1939bde665cbfccae1255cab3ee6afe",
        "40fc20d658050aadcc044194e402dcd5522c5cc04c65eb52e5cc79a9f1b76ee4",
        "fd305a35ec760e7b5da57e3ee95349eb3fb407b314b3453a1a276217586bc32f5d57121aae44dab52fdb40f2c3126a0656a27815f48ecba820df8bf3cb2ff209",
    ]),
];

/* Reader that hands out at most `chunk` bytes per call. */
struct Chunked<'a> {
    data: &'a [u8],
    chunk: usize,
}

impl Read for Chunked<'_> {
    fn read(&mut self, buf: &mut [u8]) -> io::Result<usize> {
        let n = self.chunk.min(buf.len()).min(self.data.len());
        buf[..n].copy_from_slice(&self.data[..n]);
        self.data = &self.data[n..];
        Ok(n)
    }
}

/* Reader that delivers `data` and then fails with a hard error. */
struct ThenFail<'a> {
    data: &'a [u8],
}

impl Read for ThenFail<'_> {
    fn read(&mut self, buf: &mut [u8]) -> io::Result<usize> {
        if self.data.is_empty() {
            return Err(io::Error::new(ErrorKind::BrokenPipe, "gone"));
        }
        let n = buf.len().min(self.data.len()).min(5);
        buf[..n].copy_from_slice(&self.data[..n]);
        self.data = &self.data[n..];
        Ok(n)
    }
}

fn filtered(input: &[u8]) -> Vec<u8> {
    let mut out = Vec::new();
    let mut rest = input;
    while !rest.is_empty() {
        let (line, next) = match rest.iter().position(|&b| b == b'\n') {
            Some(i) => (&rest[..i], &rest[i + 1..]),
            None => (rest, &rest[rest.len()..]),
        };
        if !line.windows(7).any(|w| w == b"$NetBSD") {
            out.extend_from_slice(line);
            out.push(b'\n');
        }
        rest = next;
    }
    out
}

#[test]
fn known_answers_str_and_file() {
    for (len, want) in KAT {
        let s = text(len);
        for (d, w) in ALL.iter().zip(want) {
            assert_eq!(d.hash_str(&s).unwrap(), w, "{} str len={}", d, len);
            assert_eq!(
                d.hash_file(&mut s.as_bytes()).unwrap(),
                w,
                "{} file len={}",
                d,
                len
            );
            for chunk in [1usize, 3, 64, 4096] {
                let mut r = Chunked { data: s.as_bytes(), chunk };
                assert_eq!(d.hash_file(&mut r).unwrap(), w, "{} chunk={}", d, chunk);
            }
        }
    }
}

#[test]
fn digest_shape() {
    let lens = [64usize, 32, 40, 40, 64, 128];
    for (d, n) in ALL.iter().zip(lens) {
        for s in ["", "x", "hello world", "\u{e9}\u{0}\u{7f}"] {
            let h = d.hash_str(s).unwrap();
            assert_eq!(h.len(), n, "{}", d);
            assert!(h.bytes().all(|b| b.is_ascii_digit() || (b'a'..=b'f').contains(&b)));
        }
    }
}

#[test]
fn patch_without_marker_is_plain_hash_of_terminated_text() {
    /* text(n) has no newline: one unterminated line, counted as terminated */
    for (len, _) in KAT {
        let s = text(len);
        for d in ALL {
            let got = d.hash_patch(&mut s.as_bytes()).unwrap();
            let want = if len == 0 {
                d.hash_str("").unwrap()
            } else {
                d.hash_str(&format!("{s}\n")).unwrap()
            };
            assert_eq!(got, want, "{} len={}", d, len);
        }
    }
    /* documented example from the crate: SHA1 of a known string */
    assert_eq!(
        Digest::SHA1.hash_patch(&mut &b"hello there"[..]).unwrap(),
        Digest::SHA1.hash_str("hello there\n").unwrap()
    );
}

#[test]
fn patch_filter_matches_reference() {
    let inputs: [&[u8]; 12] = [
        b"",
        b"\n",
        b"\n\n",
        b"$NetBSD$\n",
        b"$NetBSD$",
        b"$NetBSD: patch-aa,v 1.1 2020/01/01 00:00:00 joe Exp $\n\n--- a.orig\n+++ a\n@@ -1 +1 @@\n-x\n+y\n",
        b"a\nb $NetBSD$ c\nd\n# $NetBSD$\ne",
        b"keep $NetBS\nkeep NetBSD\nkeep $netbsd\ndrop x$NetBSDy\n",
        b"${FOO} $NetBSD$\n$$NetBSD\n$Id$\n",
        b"bin \xff\xfe\x00 line\n\xff$NetBSD\xff\nmore\x00\n",
        b"crlf\r\n$NetBSD$\r\nend\r\n",
        b"last line has it\nno newline $NetBSD",
    ];
    for input in inputs {
        let want_bytes = filtered(input);
        for d in ALL {
            let want = d.hash_file(&mut &want_bytes[..]).unwrap();
            assert_eq!(d.hash_patch(&mut &input[..]).unwrap(), want, "{} {:?}", d, input);
            for chunk in [1usize, 2, 7, 8, 13] {
                let mut r = Chunked { data: input, chunk };
                assert_eq!(
                    d.hash_patch(&mut r).unwrap(),
                    want,
                    "{} chunk={} {:?}",
                    d,
                    chunk,
                    input
                );
            }
        }
    }
}

#[test]
fn patch_filter_long_generated() {
    /* many lines, every third one carrying the marker at a varying column */
    let mut input = Vec::new();
    for i in 0..400usize {
        let pad = text(i % 23);
        if i % 3 == 0 {
            input.extend_from_slice(format!("{pad}$NetBSD: f,v 1.{i} $ {pad}\n").as_bytes());
        } else {
            input.extend_from_slice(format!("{pad} line {i} ${{VAR{i}}}\n").as_bytes());
        }
    }
    let want_bytes = filtered(&input);
    assert!(want_bytes.len() < input.len());
    for d in ALL {
        let want = d.hash_file(&mut &want_bytes[..]).unwrap();
        assert_eq!(d.hash_patch(&mut &input[..]).unwrap(), want, "{}", d);
        let mut r = Chunked { data: &input, chunk: 11 };
        assert_eq!(d.hash_patch(&mut r).unwrap(), want, "{} chunked", d);
    }
}

#[test]
fn hard_errors_are_returned() {
    for d in ALL {
        for data in [&b""[..], b"abc", b"line\n$NetBSD$\nline\n"] {
            match d.hash_file(&mut ThenFail { data }) {
                Err(DigestError::Io(e)) => assert_eq!(e.kind(), ErrorKind::BrokenPipe),
                other => panic!("{} hash_file: {:?}", d, other),
            }
            match d.hash_patch(&mut ThenFail { data }) {
                Err(DigestError::Io(e)) => assert_eq!(e.kind(), ErrorKind::BrokenPipe),
                other => panic!("{} hash_patch: {:?}", d, other),
            }
        }
    }
}

#[test]
fn names_round_trip() {
    let names = ["BLAKE2s", "MD5", "RMD160", "SHA1", "SHA256", "SHA512"];
    for (d, n) in ALL.iter().zip(names) {
        assert_eq!(d.to_string(), n);
        assert_eq!(Digest::from_str(n).unwrap(), *d);
        assert_eq!(Digest::from_str(&n.to_lowercase()).unwrap(), *d);
        assert_eq!(Digest::from_str(&n.to_uppercase()).unwrap(), *d);
    }
    assert_eq!(
        Digest::from_str("sha384"),
        Err(DigestError::Unsupported("sha384".to_string()))
    );
    assert!(Digest::from_str("").is_err());
    assert!(Digest::from_str(" sha1").is_err());
}
