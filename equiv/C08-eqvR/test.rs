/*
 * Equivalence test: documents that pkg_summary entry parsing behaves the
 * same before and after the refactoring.  Public API only.
 */
use pkgsrc::summary::{MissingVariable, Summary, SummaryError};
use std::str::FromStr;

const REQUIRED: [(&str, &str); 11] = [
    ("BUILD_DATE", "2019-08-12 15:58:02 +0100"),
    ("CATEGORIES", "devel pkgtools"),
    ("COMMENT", "This is a test"),
    ("DESCRIPTION", "A test description"),
    ("MACHINE_ARCH", "x86_64"),
    ("OPSYS", "Darwin"),
    ("OS_VERSION", "18.7.0"),
    ("PKGNAME", "testpkg-1.0"),
    ("PKGPATH", "pkgtools/testpkg"),
    ("PKGTOOLS_VERSION", "20091115"),
    ("SIZE_PKG", "4321"),
];

fn full() -> String {
    let mut s = String::new();
    for (k, v) in REQUIRED.iter() {
        s.push_str(&format!("{}={}\n", k, v));
    }
    s
}

fn missing_name(m: &MissingVariable) -> &'static str {
    match m {
        MissingVariable::BuildDate => "BUILD_DATE",
        MissingVariable::Categories => "CATEGORIES",
        MissingVariable::Comment => "COMMENT",
        MissingVariable::Description => "DESCRIPTION",
        MissingVariable::MachineArch => "MACHINE_ARCH",
        MissingVariable::Opsys => "OPSYS",
        MissingVariable::OsVersion => "OS_VERSION",
        MissingVariable::Pkgname => "PKGNAME",
        MissingVariable::Pkgpath => "PKGPATH",
        MissingVariable::PkgtoolsVersion => "PKGTOOLS_VERSION",
        MissingVariable::SizePkg => "SIZE_PKG",
    }
}

#[test]
fn accepts_complete_entry() {
    let sum = Summary::from_str(&full()).expect("complete entry parses");
    assert!(sum.is_completed());
    assert_eq!(sum.build_date(), Some("2019-08-12 15:58:02 +0100"));
    assert_eq!(sum.categories(), Some("devel pkgtools"));
    assert_eq!(sum.comment(), Some("This is a test"));
    assert_eq!(
        sum.description(),
        Some(&["A test description".to_string()][..])
    );
    assert_eq!(sum.machine_arch(), Some("x86_64"));
    assert_eq!(sum.opsys(), Some("Darwin"));
    assert_eq!(sum.os_version(), Some("18.7.0"));
    assert_eq!(sum.pkgname(), Some("testpkg-1.0"));
    assert_eq!(sum.pkgpath(), Some("pkgtools/testpkg"));
    assert_eq!(sum.pkgtools_version(), Some("20091115"));
    assert_eq!(sum.size_pkg(), Some(4321));
    assert_eq!(sum.file_size(), None);
    assert_eq!(sum.conflicts(), None);
}

#[test]
fn each_missing_required_variable_is_named() {
    for skip in 0..REQUIRED.len() {
        let mut s = String::new();
        let mut partial = Summary::new();
        for (i, (k, v)) in REQUIRED.iter().enumerate() {
            if i != skip {
                s.push_str(&format!("{}={}\n", k, v));
            }
        }
        match Summary::from_str(&s) {
            Err(SummaryError::Incomplete(m)) => {
                assert_eq!(missing_name(&m), REQUIRED[skip].0)
            }
            other => panic!("expected Incomplete, got {:?}", other),
        }
        /* is_completed agrees with the parser. */
        partial.set_build_date("x");
        assert!(!partial.is_completed());
    }
    /* Several missing: the first in the fixed order is reported. */
    match Summary::from_str("SIZE_PKG=1\nCOMMENT=c\n") {
        Err(SummaryError::Incomplete(MissingVariable::BuildDate)) => {}
        other => panic!("expected Incomplete(BuildDate), got {:?}", other),
    }
    match Summary::from_str("") {
        Err(SummaryError::Incomplete(MissingVariable::BuildDate)) => {}
        other => panic!("expected Incomplete(BuildDate), got {:?}", other),
    }
}

#[test]
fn is_completed_tracks_the_eleven() {
    let mut sum = Summary::new();
    assert!(!sum.is_completed());
    sum.set_build_date("d");
    sum.set_categories("c");
    sum.set_comment("c");
    sum.set_description(&["d".to_string()]);
    sum.set_machine_arch("m");
    sum.set_opsys("o");
    sum.set_os_version("v");
    sum.set_pkgname("p-1");
    sum.set_pkgpath("a/p");
    sum.set_pkgtools_version("1");
    assert!(!sum.is_completed());
    sum.set_size_pkg(0);
    assert!(sum.is_completed());
    /* Optional variables do not matter. */
    sum.set_file_size(1);
    sum.set_homepage("");
    assert!(sum.is_completed());
}

#[test]
fn faults_are_classified() {
    /* Line without '='. */
    let s = format!("{}HOMEPAGE\n", full());
    match Summary::from_str(&s) {
        Err(SummaryError::ParseLine(l)) => assert_eq!(l, "HOMEPAGE"),
        other => panic!("expected ParseLine, got {:?}", other),
    }
    /* Empty line inside an entry. */
    let s = format!("{}\nHOMEPAGE=x\n", full());
    match Summary::from_str(&s) {
        Err(SummaryError::ParseLine(l)) => assert_eq!(l, ""),
        other => panic!("expected ParseLine, got {:?}", other),
    }
    /* Unknown, misspelt, lower-case, empty and non-ASCII names. */
    for name in ["BILD_DATE", "pkgname", "", "PKGNAME ", " PKGNAME", "PKGN\u{c4}ME", "FILE_SIZ", "SIZE_PKGS"] {
        let s = format!("{}{}=1\n", full(), name);
        match Summary::from_str(&s) {
            Err(SummaryError::ParseVariable(v)) => assert_eq!(v, name),
            other => panic!("expected ParseVariable({:?}), got {:?}", name, other),
        }
    }
    /* Bad integers. */
    for var in ["FILE_SIZE", "SIZE_PKG"] {
        for val in ["NaN", "", " 1", "1 ", "1.0", "0x10", "9223372036854775808", "\u{663}"] {
            let s = format!("{}{}={}\n", full(), var, val);
            match Summary::from_str(&s) {
                Err(SummaryError::ParseInt(_)) => {}
                other => panic!("expected ParseInt for {}={:?}, got {:?}", var, val, other),
            }
        }
        for (val, n) in [("0", 0i64), ("+7", 7), ("-12", -12), ("9223372036854775807", i64::MAX), ("-9223372036854775808", i64::MIN), ("007", 7)] {
            let s = format!("{}{}={}\n", full(), var, val);
            let sum = Summary::from_str(&s).expect("valid integer");
            if var == "FILE_SIZE" {
                assert_eq!(sum.file_size(), Some(n));
                assert_eq!(sum.size_pkg(), Some(4321));
            } else {
                assert_eq!(sum.size_pkg(), Some(n));
                assert_eq!(sum.file_size(), None);
            }
        }
    }
    /* The first fault in line order wins. */
    match Summary::from_str("FILE_SIZE=x\nBOGUS=1\nnoequals\n") {
        Err(SummaryError::ParseInt(_)) => {}
        other => panic!("expected ParseInt, got {:?}", other),
    }
    match Summary::from_str("BOGUS=1\nFILE_SIZE=x\n") {
        Err(SummaryError::ParseVariable(v)) => assert_eq!(v, "BOGUS"),
        other => panic!("expected ParseVariable, got {:?}", other),
    }
}

#[test]
fn values_repetitions_and_all_23_variables() {
    let mut s = String::new();
    s.push_str("SUPERSEDES=old<1\n");
    s.push_str("REQUIRES=/lib/a.so\n");
    s.push_str("PROVIDES=/lib/p.so\n");
    s.push_str("PREV_PKGPATH=old/testpkg\n");
    s.push_str("PKG_OPTIONS=a b\n");
    s.push_str("LICENSE=mit\n");
    s.push_str("HOMEPAGE=https://example.org/?a=b=c\n");
    s.push_str("FILE_SIZE=10\n");
    s.push_str("FILE_NAME=testpkg-1.0.tgz\n");
    s.push_str("FILE_CKSUM=SHA1 abc\n");
    s.push_str("DEPENDS=dep1>=1\n");
    s.push_str("CONFLICTS=c1-[0-9]*\n");
    s.push_str("COMMENT=first\n");
    s.push_str(&full());
    s.push_str("DESCRIPTION=\n");
    s.push_str("DESCRIPTION=caf\u{e9} = \u{1f600}\n");
    s.push_str("DEPENDS=dep2-[0-9]*\n");
    s.push_str("CONFLICTS=c2\n");
    s.push_str("PROVIDES=/lib/q.so\n");
    s.push_str("REQUIRES=/lib/b.so\n");
    s.push_str("SUPERSEDES=older\n");
    s.push_str("FILE_SIZE=20\n");
    s.push_str("SIZE_PKG=30\n");
    s.push_str("PKGNAME=other-2.0nb1\n");
    s.push_str("HOMEPAGE=\n");
    let sum = Summary::from_str(&s).expect("parses");
    assert!(sum.is_completed());
    /* value is everything after the first '=' */
    assert_eq!(sum.depends(), Some(&["dep1>=1".to_string(), "dep2-[0-9]*".to_string()][..]));
    assert_eq!(sum.conflicts(), Some(&["c1-[0-9]*".to_string(), "c2".to_string()][..]));
    assert_eq!(sum.provides(), Some(&["/lib/p.so".to_string(), "/lib/q.so".to_string()][..]));
    assert_eq!(sum.requires(), Some(&["/lib/a.so".to_string(), "/lib/b.so".to_string()][..]));
    assert_eq!(sum.supersedes(), Some(&["old<1".to_string(), "older".to_string()][..]));
    assert_eq!(
        sum.description(),
        Some(&["A test description".to_string(), "".to_string(), "caf\u{e9} = \u{1f600}".to_string()][..])
    );
    /* single-valued: last value wins */
    assert_eq!(sum.comment(), Some("This is a test"));
    assert_eq!(sum.file_size(), Some(20));
    assert_eq!(sum.size_pkg(), Some(30));
    assert_eq!(sum.pkgname(), Some("other-2.0nb1"));
    assert_eq!(sum.pkgbase(), Some("other"));
    assert_eq!(sum.pkgversion(), Some("2.0nb1"));
    assert_eq!(sum.homepage(), Some(""));
    assert_eq!(sum.prev_pkgpath(), Some("old/testpkg"));
    assert_eq!(sum.pkg_options(), Some("a b"));
    assert_eq!(sum.license(), Some("mit"));
    assert_eq!(sum.file_name(), Some("testpkg-1.0.tgz"));
    assert_eq!(sum.file_cksum(), Some("SHA1 abc"));
    /* CRLF line endings are handled by lines(); long values are kept. */
    let long = "x".repeat(100_000);
    let s2 = format!("{}LICENSE={}\r\n", full().replace('\n', "\r\n"), long);
    let sum2 = Summary::from_str(&s2).expect("crlf parses");
    assert_eq!(sum2.license(), Some(long.as_str()));
    assert_eq!(sum2.opsys(), Some("Darwin"));
}
