/*
 * Exercise PkgDB iteration (and through it PkgDB::is_valid_pkgdir) over a
 * spread of directory trees: complete packages, every subset of the three
 * mandatory files missing, stray files, an empty database, extra optional
 * files, mandatory names that are directories, non-ASCII names.
 */
use pkgsrc::pkgdb::PkgDB;
use pkgsrc::MetadataEntry;
use std::fs;
use std::path::{Path, PathBuf};

struct TmpDir(PathBuf);

impl TmpDir {
    fn new(tag: &str) -> TmpDir {
        let p = std::env::temp_dir().join(format!(
            "pkgsrc-c20-equiv-{}-{}",
            std::process::id(),
            tag
        ));
        let _ = fs::remove_dir_all(&p);
        fs::create_dir_all(&p).unwrap();
        TmpDir(p)
    }
    fn path(&self) -> &Path {
        &self.0
    }
}

impl Drop for TmpDir {
    fn drop(&mut self) {
        let _ = fs::remove_dir_all(&self.0);
    }
}

const MANDATORY: [&str; 3] = ["+COMMENT", "+CONTENTS", "+DESC"];

/* Create directory `name` containing the mandatory files selected by mask. */
fn mkdir_with(root: &Path, name: &str, mask: u8) {
    let d = root.join(name);
    fs::create_dir_all(&d).unwrap();
    for (i, f) in MANDATORY.iter().enumerate() {
        if mask & (1 << i) != 0 {
            fs::write(d.join(f), format!("{} of {}\n", f, name)).unwrap();
        }
    }
}

fn listing(root: &Path) -> Vec<(String, String, String)> {
    let db = PkgDB::open(root).unwrap();
    let mut v = vec![];
    for p in db {
        let p = p.unwrap();
        v.push((
            p.pkgname().clone(),
            p.pkgbase().clone(),
            p.pkgversion().clone(),
        ));
    }
    v.sort();
    v
}

fn row(name: &str, base: &str, version: &str) -> (String, String, String) {
    (name.to_string(), base.to_string(), version.to_string())
}

#[test]
fn empty_database() {
    let t = TmpDir::new("empty");
    assert!(listing(t.path()).is_empty());
}

#[test]
fn only_stray_files() {
    let t = TmpDir::new("stray");
    fs::write(t.path().join("pkg-vulnerabilities"), "x").unwrap();
    fs::write(t.path().join("pkgdb.byfile.db"), "").unwrap();
    fs::write(t.path().join("+COMMENT"), "not a package").unwrap();
    assert!(listing(t.path()).is_empty());
}

#[test]
fn every_subset_of_mandatory_files() {
    let t = TmpDir::new("subsets");
    for mask in 0u8..8 {
        mkdir_with(t.path(), &format!("sub{}-1.{}", mask, mask), mask);
    }
    /* Only the directory with all three files is a package. */
    assert_eq!(listing(t.path()), vec![row("sub7-1.7", "sub7", "1.7")]);
}

#[test]
fn mixed_tree() {
    let t = TmpDir::new("mixed");
    mkdir_with(t.path(), "mktool-1.3.2nb2", 7);
    mkdir_with(t.path(), "py312-foo-bar-1.0", 7);
    mkdir_with(t.path(), "p5-Foo--2", 7);
    mkdir_with(t.path(), "nodash", 7);
    mkdir_with(t.path(), "trailing-", 7);
    mkdir_with(t.path(), "caf\u{e9}-\u{3b1}1.0nb1", 7);
    mkdir_with(t.path(), "broken-1.0", 3);
    mkdir_with(t.path(), "broken-2.0", 5);
    mkdir_with(t.path(), "broken-3.0", 6);
    mkdir_with(t.path(), "emptydir-1.0", 0);
    fs::write(t.path().join("pkg-vulnerabilities"), "x").unwrap();
    fs::write(t.path().join("stray-1.0"), "a file, not a dir").unwrap();

    /* Optional files alone do not make a package; extra ones do no harm. */
    fs::write(t.path().join("emptydir-1.0").join("+BUILD_INFO"), "A=b\n")
        .unwrap();
    fs::write(t.path().join("mktool-1.3.2nb2").join("+SIZE_PKG"), "42\n")
        .unwrap();

    assert_eq!(
        listing(t.path()),
        vec![
            row("caf\u{e9}-\u{3b1}1.0nb1", "caf\u{e9}", "\u{3b1}1.0nb1"),
            row("mktool-1.3.2nb2", "mktool", "1.3.2nb2"),
            row("nodash", "nodash", ""),
            row("p5-Foo--2", "p5-Foo-", "2"),
            row("py312-foo-bar-1.0", "py312-foo-bar", "1.0"),
            row("trailing-", "trailing", ""),
        ]
    );
}

#[test]
fn mandatory_names_as_directories_and_empty_files() {
    let t = TmpDir::new("odd");
    /* Existence is all that is checked: empty files count ... */
    let d = t.path().join("hollow-0.1");
    fs::create_dir_all(&d).unwrap();
    for f in MANDATORY {
        fs::write(d.join(f), "").unwrap();
    }
    /* ... and so does a directory carrying a mandatory name. */
    let d = t.path().join("dirs-0.2");
    fs::create_dir_all(d.join("+COMMENT")).unwrap();
    fs::create_dir_all(d.join("+CONTENTS")).unwrap();
    fs::write(d.join("+DESC"), "d").unwrap();
    /* Wrong case or near-miss names do not count. */
    let d = t.path().join("nearmiss-0.3");
    fs::create_dir_all(&d).unwrap();
    fs::write(d.join("+comment"), "c").unwrap();
    fs::write(d.join("+CONTENTS"), "c").unwrap();
    fs::write(d.join("+DESCR"), "c").unwrap();
    fs::write(d.join("DESC"), "c").unwrap();

    assert_eq!(
        listing(t.path()),
        vec![row("dirs-0.2", "dirs", "0.2"), row("hollow-0.1", "hollow", "0.1")]
    );
}

#[test]
fn metadata_readable_from_listed_packages() {
    let t = TmpDir::new("read");
    mkdir_with(t.path(), "zlib-1.3", 7);
    mkdir_with(t.path(), "zlib-1.3nb1", 7);
    mkdir_with(t.path(), "half-1.0", 1);
    let db = PkgDB::open(t.path()).unwrap();
    let mut n = 0;
    for p in db {
        let p = p.unwrap();
        n += 1;
        assert_eq!(
            p.read_metadata(MetadataEntry::Comment).unwrap(),
            format!("+COMMENT of {}\n", p.pkgname())
        );
        assert_eq!(
            p.read_metadata(MetadataEntry::Contents).unwrap(),
            format!("+CONTENTS of {}\n", p.pkgname())
        );
        assert_eq!(
            p.read_metadata(MetadataEntry::Desc).unwrap(),
            format!("+DESC of {}\n", p.pkgname())
        );
        assert!(p.read_metadata(MetadataEntry::Install).is_err());
    }
    assert_eq!(n, 2);
}
