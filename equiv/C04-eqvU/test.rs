use pkgsrc::Pattern;

/* Reference csh-style brace expansion (left-most group first, depth aware). */
fn expand(p: &str) -> Vec<String> {
    let b = p.as_bytes();
    let Some(open) = p.find('{') else {
        return vec![p.to_string()];
    };
    let mut depth = 0usize;
    let mut close = None;
    let mut cuts = vec![open];
    for (i, &c) in b.iter().enumerate().skip(open) {
        match c {
            b'{' => depth += 1,
            b'}' => {
                depth -= 1;
                if depth == 0 {
                    close = Some(i);
                    break;
                }
            }
            b',' if depth == 1 => cuts.push(i),
            _ => {}
        }
    }
    let close = close.expect("balanced");
    cuts.push(close);
    let mut out = vec![];
    for w in cuts.windows(2) {
        let alt = &p[w[0] + 1..w[1]];
        let s = format!("{}{}{}", &p[..open], alt, &p[close + 1..]);
        out.extend(expand(&s));
    }
    out
}

fn reference(p: &str, name: &str) -> bool {
    expand(p)
        .iter()
        .any(|e| Pattern::new(e).map(|q| q.matches(name)).unwrap_or(false))
}

const PATTERNS: &[&str] = &[
    "{foo,bar}-[0-9]*",
    "{mysql,mariadb,percona}-[0-9]*",
    "a-{b,c}-{d{e,f},g}-h>=1",
    "{a,b}{c,d}-1",
    "{{a,b},{c,d}}-1",
    "{a,{b,{c,d}}}-1.0",
    "foo{,-bar}-1.0",
    "foo{-bar,}-1.0",
    "{,}",
    "{}",
    "{}{}",
    "x{}y",
    "{,,}foo-1",
    "{foo}-1",
    "{{foo}}-1",
    "pkg>=1.{0,5}",
    "foo>=1<{2,3}",
    "{foo,bar}>=1<{2,3}",
    "foo>1.0{,nb2}",
    "foo{>,<}1",
    "foo{>=1<2<3,>=5}",
    "foo-{[0-9,[a-z]}*",
    "foo-{[0-9]*,***}",
    "{f?o,b*r}-[0-9]*",
    "{föö,bär}-[0-9]*",
    "é{ö,ü}-1",
    "{a,b},c-1",
    "a,b{c,d}",
    "{a,b}-{1,2}.{0,1}",
    "py{27,310,311}-foo-[0-9]*",
    "{py{27,310},ruby{31,32}}-foo>=1",
];

const NAMES: &[&str] = &[
    "", "foo", "bar", "foo-1", "bar-1", "foo-1.0", "bar-2.5", "foo-bar-1.0",
    "mysql-8.0", "mariadb-10", "percona-5nb1", "postgres-1",
    "a-b-de-h-2", "a-b-df-h-2", "a-c-g-h-2", "a-a-g-h-2", "a-b-d-h-2", "a-b-g-h-0",
    "ac-1", "ad-1", "bc-1", "bd-1", "a-1", "b-1", "c-1", "d-1", "a-1.0", "d-1.0",
    "xy", "pkg-1.7", "pkg-1.2", "pkg-0.9", "foo-1.5", "foo-2.5", "foo-3.5", "foo-0.5",
    "foo-1.0nb1", "foo-1.0nb3", "foo-6", "foo-a1", "foo-9x", "fxo-1", "bxxr-22",
    "föö-1", "bär-2", "éö-1", "éü-1", "éa-1", "a,c-1", "b,c-1", "a,bc", "a,bd",
    "a-1.0", "a-2.1", "b-1.1", "b-3.0",
    "py27-foo-1", "py311-foo-2.0", "py39-foo-1", "py310-foo-1.0", "ruby32-foo-2", "ruby33-foo-2",
];

#[test]
fn alternate_match_agrees_with_reference_expansion() {
    for p in PATTERNS {
        let pat = Pattern::new(p).unwrap_or_else(|_| panic!("{:?} should compile", p));
        assert_eq!(pat.pattern(), *p);
        for n in NAMES {
            assert_eq!(pat.matches(n), reference(p, n), "pattern {:?} name {:?}", p, n);
        }
    }
}

#[test]
fn known_answers() {
    let t = |p: &str, n: &str| Pattern::new(p).unwrap().matches(n);
    assert!(t("{foo,bar}-[0-9]*", "bar-1.0"));
    assert!(!t("{foo,bar}-[0-9]*", "baz-1.0"));
    assert!(t("a-{b,c}-{d{e,f},g}-h>=1", "a-c-df-h-2"));
    assert!(!t("a-{b,c}-{d{e,f},g}-h>=1", "a-b-d-h-2"));
    assert!(t("foo{,-bar}-1.0", "foo-1.0"));
    assert!(t("foo{,-bar}-1.0", "foo-bar-1.0"));
    assert!(t("{}", ""));
    assert!(t("x{}y", "xy"));
    assert!(t("{föö,bär}-[0-9]*", "bär-2"));
    assert!(t("pkg>=1.{0,5}", "pkg-1.7"));
    assert!(t("foo{>=1<2<3,>=5}", "foo-6"));
    assert!(!t("foo{>=1<2<3,>=5}", "foo-1.5"));
    assert!(t("{a,b},c-1", "b,c-1"));
    assert!(!t("{a,b},c-1", "c-1"));
    let m = Pattern::new("{foo,bar}-[0-9]*").unwrap();
    assert_eq!(m.best_match("foo-1.0", "bar-1.1"), Some("bar-1.1"));
}

#[test]
fn unbalanced_still_rejected() {
    for p in ["foo}>=1", "{foo,bar}}>=1", "{{foo,bar}>=1", "}foo,bar}>=1", "foo}b{ar", "{a}}{{b}", "{", "}"] {
        assert!(Pattern::new(p).is_err(), "{:?}", p);
    }
}
