/*
 * Behaviour check for Summary::is_completed (true exactly when the eleven
 * required variables are set, and in agreement with the parser) and for the
 * accumulate behaviour of the multi-line variables, via the public API.
 * Passes before and after the refactoring.
 */
use pkgsrc::summary::{Summary, SummaryError};
use std::str::FromStr;

const REQUIRED: [(&str, &str); 11] = [
    ("BUILD_DATE", "2019-08-12 15:58:02 +0100"),
    ("CATEGORIES", "devel pkgtools"),
    ("COMMENT", "This is a test"),
    ("DESCRIPTION", "A test description"),
    ("MACHINE_ARCH", "x86_64"),
    ("OPSYS", "Darwin"),
    ("OS_VERSION", "18.7.0"),
    ("PKGNAME", "testpkg-1.0"),
    ("PKGPATH", "pkgtools/testpkg"),
    ("PKGTOOLS_VERSION", "20091115"),
    ("SIZE_PKG", "4321"),
];

const OPTIONAL: [(&str, &str); 12] = [
    ("CONFLICTS", "c-[0-9]*"),
    ("DEPENDS", "d-[0-9]*"),
    ("FILE_CKSUM", "SHA1 abc"),
    ("FILE_NAME", "testpkg-1.0.tgz"),
    ("FILE_SIZE", "1234"),
    ("HOMEPAGE", "https://example.org/"),
    ("LICENSE", "mit"),
    ("PKG_OPTIONS", "inet6"),
    ("PREV_PKGPATH", "old/testpkg"),
    ("PROVIDES", "/lib/libp.so"),
    ("REQUIRES", "/lib/libr.so"),
    ("SUPERSEDES", "s-[0-9]*"),
];

/* Apply VAR=value through the public setters. */
fn set(sum: &mut Summary, var: &str, val: &str) {
    match var {
        "BUILD_DATE" => sum.set_build_date(val),
        "CATEGORIES" => sum.set_categories(val),
        "COMMENT" => sum.set_comment(val),
        "CONFLICTS" => sum.push_conflicts(val),
        "DEPENDS" => sum.push_depends(val),
        "DESCRIPTION" => sum.push_description(val),
        "FILE_CKSUM" => sum.set_file_cksum(val),
        "FILE_NAME" => sum.set_file_name(val),
        "FILE_SIZE" => sum.set_file_size(val.parse().unwrap()),
        "HOMEPAGE" => sum.set_homepage(val),
        "LICENSE" => sum.set_license(val),
        "MACHINE_ARCH" => sum.set_machine_arch(val),
        "OPSYS" => sum.set_opsys(val),
        "OS_VERSION" => sum.set_os_version(val),
        "PKG_OPTIONS" => sum.set_pkg_options(val),
        "PKGNAME" => sum.set_pkgname(val),
        "PKGPATH" => sum.set_pkgpath(val),
        "PKGTOOLS_VERSION" => sum.set_pkgtools_version(val),
        "PREV_PKGPATH" => sum.set_prev_pkgpath(val),
        "PROVIDES" => sum.push_provides(val),
        "REQUIRES" => sum.push_requires(val),
        "SIZE_PKG" => sum.set_size_pkg(val.parse().unwrap()),
        "SUPERSEDES" => sum.push_supersedes(val),
        _ => unreachable!(),
    }
}

#[test]
fn empty_and_optional_only_are_incomplete() {
    assert!(!Summary::new().is_completed());
    let mut sum = Summary::new();
    for (k, v) in OPTIONAL {
        set(&mut sum, k, v);
        assert!(!sum.is_completed(), "after {k}");
    }
}

#[test]
fn complete_exactly_when_all_eleven_set() {
    /* building up in order, and in reverse order: true only at the end */
    for reverse in [false, true] {
        let mut order: Vec<(&str, &str)> = REQUIRED.to_vec();
        if reverse {
            order.reverse();
        }
        let mut sum = Summary::new();
        for (i, (k, v)) in order.iter().enumerate() {
            assert!(!sum.is_completed(), "before {k}");
            set(&mut sum, k, v);
            assert_eq!(sum.is_completed(), i == 10, "after {k}");
        }
    }
    /* leave each one out in turn, with and without the optional ones */
    for with_optional in [false, true] {
        for skip in 0..11 {
            let mut sum = Summary::new();
            let mut text = String::new();
            if with_optional {
                for (k, v) in OPTIONAL {
                    set(&mut sum, k, v);
                    text.push_str(&format!("{k}={v}\n"));
                }
            }
            for (i, (k, v)) in REQUIRED.iter().enumerate() {
                if i != skip {
                    set(&mut sum, k, v);
                    text.push_str(&format!("{k}={v}\n"));
                }
            }
            assert!(!sum.is_completed(), "without {}", REQUIRED[skip].0);
            /* the parser agrees */
            assert!(
                matches!(
                    Summary::from_str(&text),
                    Err(SummaryError::Incomplete(_))
                ),
                "without {}",
                REQUIRED[skip].0
            );
            /* adding it back completes the entry for both */
            let (k, v) = REQUIRED[skip];
            set(&mut sum, k, v);
            text.push_str(&format!("{k}={v}\n"));
            assert!(sum.is_completed(), "with {k} restored");
            let parsed = Summary::from_str(&text).unwrap();
            assert!(parsed.is_completed());
            assert_eq!(parsed.to_string(), sum.to_string());
        }
    }
}

#[test]
fn empty_values_still_count_as_set() {
    let mut sum = Summary::new();
    for (k, _) in REQUIRED {
        if k == "SIZE_PKG" {
            set(&mut sum, k, "0");
        } else {
            set(&mut sum, k, "");
        }
    }
    assert!(sum.is_completed());
    sum.set_description(&[]);
    assert!(sum.is_completed());
    assert_eq!(sum.description().unwrap().len(), 0);
}

#[test]
fn multi_line_variables_accumulate_in_order() {
    let mut sum = Summary::new();
    assert_eq!(sum.description(), None);
    sum.push_description("one");
    assert_eq!(sum.description().unwrap(), ["one"]);
    sum.push_description("");
    sum.push_description("three");
    assert_eq!(sum.description().unwrap(), ["one", "", "three"]);
    assert_eq!(sum.description_as_str().unwrap(), "one\n\nthree");

    sum.push_depends("a");
    sum.push_depends("b");
    sum.push_conflicts("c");
    sum.push_conflicts("c");
    sum.push_provides("p1");
    sum.push_provides("p2");
    sum.push_requires("r1");
    sum.push_requires("r2");
    sum.push_supersedes("s1");
    sum.push_supersedes("s2");
    assert_eq!(sum.depends().unwrap(), ["a", "b"]);
    assert_eq!(sum.conflicts().unwrap(), ["c", "c"]);
    assert_eq!(sum.provides().unwrap(), ["p1", "p2"]);
    assert_eq!(sum.requires().unwrap(), ["r1", "r2"]);
    assert_eq!(sum.supersedes().unwrap(), ["s1", "s2"]);

    /* set_* replaces, a later push_* appends to the replacement */
    sum.set_depends(&["x".to_string(), "y".to_string()]);
    sum.push_depends("z");
    assert_eq!(sum.depends().unwrap(), ["x", "y", "z"]);
    sum.set_description(&[]);
    sum.push_description("only");
    assert_eq!(sum.description().unwrap(), ["only"]);

    /* same through the parser */
    let text: String = REQUIRED
        .iter()
        .map(|(k, v)| format!("{k}={v}\n"))
        .chain(
            ["DESCRIPTION=2", "DEPENDS=a", "DESCRIPTION=3", "DEPENDS=b"]
                .iter()
                .map(|l| format!("{l}\n")),
        )
        .collect();
    let parsed = Summary::from_str(&text).unwrap();
    assert_eq!(
        parsed.description().unwrap(),
        ["A test description", "2", "3"]
    );
    assert_eq!(parsed.depends().unwrap(), ["a", "b"]);
}
