/*
 * Behaviour check for the dewey comparison (dewey_cmp), exercised through
 * the public Dewey / Pattern API.  Passes before and after the refactoring.
 */
use pkgsrc::{Dewey, Pattern};

fn m(pattern: &str, pkg: &str) -> bool {
    let d = Dewey::new(pattern).unwrap().matches(pkg);
    let p = Pattern::new(pattern).unwrap().matches(pkg);
    assert_eq!(d, p, "Dewey and Pattern disagree on {pattern} / {pkg}");
    d
}

/* Returns the results of (>, >=, <, <=) for "pkg-<ver>" against bound. */
fn ops(ver: &str, bound: &str) -> (bool, bool, bool, bool) {
    let pkg = format!("pkg-{ver}");
    (
        m(&format!("pkg>{bound}"), &pkg),
        m(&format!("pkg>={bound}"), &pkg),
        m(&format!("pkg<{bound}"), &pkg),
        m(&format!("pkg<={bound}"), &pkg),
    )
}

const GT: (bool, bool, bool, bool) = (true, true, false, false);
const LT: (bool, bool, bool, bool) = (false, false, true, true);
const EQ: (bool, bool, bool, bool) = (false, true, false, true);

#[test]
fn same_length() {
    assert_eq!(ops("1.0", "1.0"), EQ);
    assert_eq!(ops("1.1", "1.0"), GT);
    assert_eq!(ops("1.0", "1.1"), LT);
    assert_eq!(ops("2.0", "10.0"), LT);
    assert_eq!(ops("1.0alpha1", "1.0beta1"), LT);
    assert_eq!(ops("1.0rc1", "1.0beta1"), GT);
    assert_eq!(ops("1.0rc1", "1.0pre1"), EQ);
    assert_eq!(ops("1.0RC1", "1.0rc1"), EQ);
    assert_eq!(ops("", ""), EQ);
}

#[test]
fn different_length_both_directions() {
    /* lhs shorter, remaining rhs components zero -> tie, revision decides */
    assert_eq!(ops("1", "1.0.0"), EQ);
    assert_eq!(ops("1.0.0", "1"), EQ);
    assert_eq!(ops("1nb1", "1.0.0"), GT);
    assert_eq!(ops("1.0.0", "1nb1"), LT);
    assert_eq!(ops("1.0.0nb2", "1nb1"), GT);
    /* lhs shorter, first non-zero rhs component decides */
    assert_eq!(ops("1", "1.0.1"), LT);
    assert_eq!(ops("1", "1.0alpha"), GT);
    assert_eq!(ops("1nb9", "1.0.1"), LT);
    /* lhs longer, first non-zero lhs component decides */
    assert_eq!(ops("1.0.1", "1"), GT);
    assert_eq!(ops("1.0alpha", "1"), LT);
    assert_eq!(ops("1.0alpha", "1nb9"), LT);
    /* empty against something */
    assert_eq!(ops("", "0.0"), EQ);
    assert_eq!(ops("", "1"), LT);
    assert_eq!(ops("1", ""), GT);
    assert_eq!(ops("", "rc"), GT);
}

#[test]
fn revision_only_on_tie() {
    assert_eq!(ops("1.0nb1", "1.0"), GT);
    assert_eq!(ops("1.0", "1.0nb1"), LT);
    assert_eq!(ops("1.0nb3", "1.0nb3"), EQ);
    assert_eq!(ops("1.1nb1", "1.2nb0"), LT);
    assert_eq!(ops("1.2", "1.1nb7"), GT);
}

#[test]
fn letters_and_ignored_characters() {
    assert_eq!(ops("1.0a", "1.0b"), LT);
    assert_eq!(ops("1.0B", "1.0a"), GT);
    assert_eq!(ops("1.0a", "1.0.1"), GT);
    assert_eq!(ops("1\u{e9}2", "12"), LT);
    assert_eq!(ops("1+2", "1.2"), GT);
    assert_eq!(ops("99999999999999999999", "9223372036854775807"), EQ);
}

#[test]
fn best_match_uses_same_order() {
    let p = Pattern::new("pkg-[0-9]*").unwrap();
    assert_eq!(p.best_match("pkg-1.0", "pkg-1.0.1"), Some("pkg-1.0.1"));
    assert_eq!(p.best_match("pkg-1.0.1", "pkg-1.0"), Some("pkg-1.0.1"));
    assert_eq!(p.best_match("pkg-1.0alpha", "pkg-1"), Some("pkg-1"));
    assert_eq!(p.best_match("pkg-1", "pkg-1.0alpha"), Some("pkg-1"));
    assert_eq!(p.best_match("pkg-1.0", "pkg-1"), Some("pkg-1"));
    assert_eq!(p.best_match("pkg-1", "pkg-1.0"), Some("pkg-1"));
    assert_eq!(p.best_match("pkg-1nb2", "pkg-1.0nb1"), Some("pkg-1nb2"));
}
