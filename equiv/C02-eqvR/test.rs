/*
 * Behaviour check for the local renames / disjoint-arm reordering in
 * Dewey::new and Dewey::matches.  Public API only; passes before and after.
 */
use pkgsrc::{Dewey, Pattern};

fn both(pattern: &str, pkg: &str) -> bool {
    let d = Dewey::new(pattern).unwrap().matches(pkg);
    let p = Pattern::new(pattern).unwrap().matches(pkg);
    assert_eq!(d, p, "Dewey and Pattern disagree on {pattern:?} / {pkg:?}");
    d
}

#[test]
fn operators_are_recognised() {
    assert!(both("pkg>1", "pkg-2"));
    assert!(!both("pkg>1", "pkg-1"));
    assert!(both("pkg>=1", "pkg-1"));
    assert!(!both("pkg>=1", "pkg-0.9"));
    assert!(both("pkg<1", "pkg-0.9"));
    assert!(!both("pkg<1", "pkg-1"));
    assert!(both("pkg<=1", "pkg-1"));
    assert!(!both("pkg<=1", "pkg-1.1"));
    for (op1, lo) in [(">", false), (">=", true)] {
        for (op2, hi) in [("<", false), ("<=", true)] {
            let pat = format!("pkg{op1}1{op2}2");
            assert_eq!(both(&pat, "pkg-1"), lo, "{pat}");
            assert_eq!(both(&pat, "pkg-2"), hi, "{pat}");
            assert!(both(&pat, "pkg-1.5"), "{pat}");
            assert!(!both(&pat, "pkg-0.5"), "{pat}");
            assert!(!both(&pat, "pkg-2.5"), "{pat}");
        }
    }
}

#[test]
fn rejected_patterns() {
    for bad in [
        "pkg<1>2", "pkg<=1>=2", "pkg>1>2", "pkg>1>=2", "pkg<1<2", "pkg<=1<2",
        "pkg>1<2<3", "pkg>=1<2>3", "pkg>>>", "pkg<<", "><>", "pkg>=>",
    ] {
        assert!(Dewey::new(bad).is_err(), "{bad}");
        assert!(Pattern::new(bad).is_err(), "{bad}");
    }
    assert!(Dewey::new("pkg").is_err());
    assert!(Dewey::new("").is_err());
    assert_eq!(Dewey::new("pkg").unwrap_err().pos, 0);
    assert_eq!(Dewey::new("pkg<1>2").unwrap_err().pos, 3);
    assert_eq!(Dewey::new("pkg>1<2<3").unwrap_err().pos, 7);
    assert_eq!(Dewey::new("p\u{e9}>1<2<3").unwrap_err().pos, 7);
}

#[test]
fn empty_bounds_and_adjacent_operators() {
    assert!(both("pkg>=", "pkg-"));
    assert!(!both("pkg>", "pkg-"));
    assert!(both("pkg>", "pkg-0nb1"));
    assert!(both("pkg><1", "pkg-0.5"));
    assert!(!both("pkg><1", "pkg-0"));
    assert!(both("pkg>=<=", "pkg-0"));
    assert!(!both("pkg>=<", "pkg-0"));
    assert!(both("pkg>=1<=", "pkg-") == false);
    /* '=' not directly after the operator is bound text, not an operator */
    assert!(both("pkg>\u{e9}=1", "pkg-2"));
    assert!(both("pkg>=\u{e9}", "pkg-0"));
    assert!(both("pkg>\u{e9}", "pkg-1"));
    assert!(!both("pkg>\u{e9}", "pkg-0"));
}

#[test]
fn base_must_be_equal_and_split_at_last_dash() {
    assert!(!both("pkg>0", "pkg"));
    assert!(!both("pkg>0", "pkgx-1"));
    assert!(!both("pkg>0", "pk-1"));
    assert!(!both("pkg>0", "xpkg-1"));
    assert!(!both("pkg>0", "PKG-1"));
    assert!(both("my-pkg>0", "my-pkg-1"));
    assert!(!both("my-pkg>0", "my-1"));
    assert!(!both("my>0", "my-pkg-1"));
    assert!(both("a-b-c>=1<2", "a-b-c-1.5"));
    assert!(!both("a-b-c>=1<2", "a-b-c-1.5-1"));
    assert!(both("p\u{e9}>0", "p\u{e9}-1"));
    assert!(!both("p\u{e9}>0", "pe-1"));
    assert!(both(">0", "-1"));
    assert!(!both(">0", "1"));
    assert!(both("pkg->0", "pkg--1"));
}
