use pkgsrc::{Depend, PkgName, PkgPath, ScanIndex};
use std::io::{self, BufRead, BufReader, Read};
use std::path::PathBuf;

fn parse(s: &str) -> io::Result<Vec<ScanIndex>> {
    ScanIndex::from_reader(s.as_bytes())
}

/* A reader that yields `good` and then fails. */
struct FailAfter<'a> {
    good: &'a [u8],
    pos: usize,
}

impl Read for FailAfter<'_> {
    fn read(&mut self, buf: &mut [u8]) -> io::Result<usize> {
        if self.pos >= self.good.len() {
            return Err(io::Error::new(io::ErrorKind::Other, "boom"));
        }
        let n = buf.len().min(self.good.len() - self.pos);
        buf[..n].copy_from_slice(&self.good[self.pos..self.pos + n]);
        self.pos += n;
        Ok(n)
    }
}

#[test]
fn empty_and_blank_inputs() {
    assert_eq!(parse("").unwrap().len(), 0);
    assert_eq!(parse("\n\n  \n\t\n").unwrap().len(), 0);
    assert_eq!(parse("\r\n\r\n").unwrap().len(), 0);
}

#[test]
fn single_records() {
    let idx = parse("PKGNAME=").unwrap();
    assert_eq!(idx.len(), 1);
    assert_eq!(idx[0].pkgname, PkgName::new(""));
    assert_eq!(idx[0].pkg_location, None);
    assert!(idx[0].all_depends.is_empty());
    assert!(idx[0].depends.is_empty());

    let idx = parse("  PKGNAME=foo-1.0  \n").unwrap();
    assert_eq!(idx.len(), 1);
    assert_eq!(idx[0].pkgname, PkgName::new("foo-1.0"));

    let idx = parse("PKGNAME=foo-1.0").unwrap();
    assert_eq!(idx.len(), 1);
}

#[test]
fn full_record_all_keys() {
    let input = "PKGNAME=foo-1.0\n\
        ALL_DEPENDS=bar>=1.0:../../devel/bar baz-[0-9]*:../../x11/baz\n\
        PKG_SKIP_REASON=\n\
        PKG_FAIL_REASON=broken = yes\n\
        NO_BIN_ON_FTP=nope\n\
        RESTRICTED=r\n\
        CATEGORIES=devel x11\n\
        MAINTAINER=pkgsrc-users@NetBSD.org\n\
        USE_DESTDIR=user-destdir\n\
        BOOTSTRAP_PKG=no\n\
        USERGROUP_PHASE=configure\n\
        SCAN_DEPENDS=/a/b /c/d   /e\n\
        PBULK_WEIGHT=100\n\
        MULTI_VERSION=PYTHON_VERSION_REQD=312 PHP_VERSION_REQD=82\n\
        PKG_LOCATION=devel/foo\n";
    let idx = parse(input).unwrap();
    assert_eq!(idx.len(), 1);
    let r = &idx[0];
    assert_eq!(r.pkgname, PkgName::new("foo-1.0"));
    assert_eq!(r.pkg_location, Some(PkgPath::new("devel/foo").unwrap()));
    assert_eq!(
        r.all_depends,
        vec![
            Depend::new("bar>=1.0:../../devel/bar").unwrap(),
            Depend::new("baz-[0-9]*:../../x11/baz").unwrap()
        ]
    );
    assert_eq!(r.pkg_skip_reason.as_deref(), Some(""));
    assert_eq!(r.pkg_fail_reason.as_deref(), Some("broken = yes"));
    assert_eq!(r.no_bin_on_ftp.as_deref(), Some("nope"));
    assert_eq!(r.restricted.as_deref(), Some("r"));
    assert_eq!(r.categories.as_deref(), Some("devel x11"));
    assert_eq!(r.maintainer.as_deref(), Some("pkgsrc-users@NetBSD.org"));
    assert_eq!(r.use_destdir.as_deref(), Some("user-destdir"));
    assert_eq!(r.bootstrap_pkg.as_deref(), Some("no"));
    assert_eq!(r.usergroup_phase.as_deref(), Some("configure"));
    assert_eq!(
        r.scan_depends,
        vec![PathBuf::from("/a/b"), PathBuf::from("/c/d"), PathBuf::from("/e")]
    );
    assert_eq!(r.pbulk_weight.as_deref(), Some("100"));
    assert_eq!(
        r.multi_version,
        vec!["PYTHON_VERSION_REQD=312".to_string(), "PHP_VERSION_REQD=82".to_string()]
    );
    assert!(r.depends.is_empty());
}

#[test]
fn multiple_records_no_leak_and_order() {
    let input = "\n  \nPKGNAME=a-1\nMAINTAINER=alice\nCATEGORIES=devel\n\n\
                 PKGNAME=b-2\nUNKNOWN_KEY=zzz\nno equals here\n=novalue\n\
                 PKGNAME=c-3\nMAINTAINER=carol\nMAINTAINER = carol2 \n\
                 PKGNAME=c-3\n\n";
    let idx = parse(input).unwrap();
    assert_eq!(idx.len(), 4);
    assert_eq!(idx[0].pkgname, PkgName::new("a-1"));
    assert_eq!(idx[0].maintainer.as_deref(), Some("alice"));
    assert_eq!(idx[0].categories.as_deref(), Some("devel"));
    assert_eq!(idx[1].pkgname, PkgName::new("b-2"));
    assert_eq!(idx[1].maintainer, None);
    assert_eq!(idx[1].categories, None);
    assert_eq!(idx[2].pkgname, PkgName::new("c-3"));
    assert_eq!(idx[2].maintainer.as_deref(), Some("carol2"));
    assert_eq!(idx[3].pkgname, PkgName::new("c-3"));
    assert_eq!(idx[3].maintainer, None);
}

#[test]
fn pkgname_with_blank_before_equals_does_not_start_a_record() {
    // "PKGNAME =x" is not a record start but still sets the key.
    let idx = parse("PKGNAME=a-1\nMAINTAINER=m\nPKGNAME =b-2\n").unwrap();
    assert_eq!(idx.len(), 1);
    assert_eq!(idx[0].pkgname, PkgName::new("b-2"));
    assert_eq!(idx[0].maintainer.as_deref(), Some("m"));
}

#[test]
fn non_ascii_and_crlf() {
    let input = "PKGNAME=caf\u{e9}-1.0\r\nMAINTAINER=J\u{f6}rg \u{2603}\r\n\
                 \u{a0}PKGNAME=x-1\r\n\u{3000}\r\nPKGNAME=y-2\u{2003}\r\n";
    let idx = parse(input).unwrap();
    // U+00A0 is whitespace for trim(), so the second PKGNAME starts a record.
    assert_eq!(idx.len(), 3);
    assert_eq!(idx[0].pkgname, PkgName::new("caf\u{e9}-1.0"));
    assert_eq!(idx[0].maintainer.as_deref(), Some("J\u{f6}rg \u{2603}"));
    assert_eq!(idx[1].pkgname, PkgName::new("x-1"));
    assert_eq!(idx[2].pkgname, PkgName::new("y-2"));
}

#[test]
fn failures() {
    // leading block without PKGNAME
    assert!(parse("ALL_DEPENDS=").is_err());
    assert!(parse("MAINTAINER=x\nPKGNAME=a-1\n").is_err());
    assert!(parse("junk\nPKGNAME=a-1\n").is_err());
    // only junk, no PKGNAME at all
    assert!(parse("junk\n").is_err());
    // bad dependency in first, middle, last record
    assert!(parse("PKGNAME=a\nALL_DEPENDS=hello\n").is_err());
    assert!(parse("PKGNAME=a\nALL_DEPENDS=hello\nPKGNAME=b\n").is_err());
    assert!(parse("PKGNAME=a\nPKGNAME=b\nALL_DEPENDS=x>=1:../../a/b bad\nPKGNAME=c\n").is_err());
    assert!(parse("PKGNAME=a\nPKGNAME=b\nPKGNAME=c\nALL_DEPENDS=bad").is_err());
    // bad location
    assert!(parse("PKGNAME=a\nPKG_LOCATION=a/b/c\n").is_err());
    assert!(parse("PKGNAME=a\nPKG_LOCATION=\n").is_err());
    assert!(parse("PKGNAME=a\nPKG_LOCATION=devel/a\nPKGNAME=b\nPKG_LOCATION=/\nPKGNAME=c\n").is_err());
    // a bad value overridden by a later good one is fine
    let idx = parse("PKGNAME=a\nPKG_LOCATION=a/b/c\nPKG_LOCATION=devel/a\n").unwrap();
    assert_eq!(idx[0].pkg_location, Some(PkgPath::new("devel/a").unwrap()));
}

#[test]
fn io_errors() {
    // invalid UTF-8 is reported by lines() as an error, wherever it is
    assert!(ScanIndex::from_reader(&b"PKGNAME=a\nMAINTAINER=\xff\xfe\n"[..]).is_err());
    assert!(ScanIndex::from_reader(&b"PKGNAME=a\nPKGNAME=b\n\xff\n"[..]).is_err());
    assert!(ScanIndex::from_reader(&b"\xff\n"[..]).is_err());

    let text = b"PKGNAME=a\nMAINTAINER=m\nPKGNAME=b\nCATEGORIES=c\n";
    for cut in 0..=text.len() {
        let r = BufReader::with_capacity(
            4,
            FailAfter { good: &text[..cut], pos: 0 },
        );
        assert!(ScanIndex::from_reader(r).is_err(), "cut at {}", cut);
    }
    // sanity: the same text without the failure parses
    let idx = ScanIndex::from_reader(&text[..]).unwrap();
    assert_eq!(idx.len(), 2);
    assert_eq!(idx[1].categories.as_deref(), Some("c"));
}

#[test]
fn real_world_file() {
    let mut scanfile = PathBuf::from(env!("CARGO_MANIFEST_DIR"));
    scanfile.push("tests/data/scanindex/pbulk-index.txt");
    let text = std::fs::read_to_string(&scanfile).unwrap();
    let idx = parse(&text).unwrap();
    assert_eq!(idx.len(), 40);
    // one record per PKGNAME= line, in order
    let names: Vec<&str> = text
        .lines()
        .filter_map(|l| l.trim().strip_prefix("PKGNAME="))
        .collect();
    assert_eq!(names.len(), idx.len());
    for (n, r) in names.iter().zip(idx.iter()) {
        assert_eq!(r.pkgname, PkgName::new(n.trim()));
    }
    assert_eq!(idx[0].all_depends.len(), 11);
    assert_eq!(idx[0].scan_depends.len(), 155);
    assert_eq!(idx[0].multi_version.len(), 2);
    // generic BufRead path as well
    let r = BufReader::with_capacity(7, text.as_bytes());
    let idx2 = ScanIndex::from_reader(r).unwrap();
    assert_eq!(idx, idx2);
    let _ = (&b""[..]).lines();
}
