/*
 * Behaviour documentation for dewey version tokenising and comparison, as
 * seen through Dewey::new / Dewey::matches and Pattern.
 */
use pkgsrc::{Dewey, Pattern};

fn m(pattern: &str, pkg: &str) -> bool {
    let d = Dewey::new(pattern).expect(pattern);
    let r = d.matches(pkg);
    /* Pattern must agree with Dewey for dewey-style patterns. */
    let p = Pattern::new(pattern).expect(pattern);
    assert_eq!(p.matches(pkg), r, "{pattern} vs {pkg}");
    r
}

#[test]
fn basic_ranges() {
    assert!(!m("pkg>=1.0<2", "pkg-1.0rc1"));
    assert!(m("pkg>=1.0<2", "pkg-1.0"));
    assert!(m("pkg>=1.0<2", "pkg-2.0rc1"));
    assert!(!m("pkg>=1.0<2", "pkg-2.0"));
    assert!(m("pkg>=0", "pkg-0"));
    assert!(m("pkg<=1", "pkg-1"));
    assert!(!m("pkg<1", "pkg-1"));
    assert!(!m("pkg>1", "pkg-1"));
}

#[test]
fn name_split() {
    /* No '-' at all, empty input, wrong base, base containing '-'. */
    assert!(!m("pkg>=0", "pkg"));
    assert!(!m("pkg>=0", ""));
    assert!(!m("pkg>=0", "other-1.5"));
    assert!(!m("pkg>=0", "pkg-extra-1.5"));
    assert!(m("pkg-extra>=0", "pkg-extra-1.5"));
    assert!(m("pkg>=0", "pkg-"));
    assert!(!m("pkg>0", "pkg-"));
    /* Empty package name on both sides. */
    let d = Dewey::new(">=1").unwrap();
    assert!(d.matches("-1.5"));
    assert!(!d.matches("1.5"));
    assert!(!d.matches("x-1.5"));
}

#[test]
fn different_lengths_and_revisions() {
    /* Package version longer than the pattern's: trailing zeros ignored. */
    assert!(m("pkg>=1.0", "pkg-1.0.0.0"));
    assert!(m("pkg<=1.0", "pkg-1.0.0.0"));
    assert!(!m("pkg>1.0", "pkg-1.0.0.0"));
    assert!(m("pkg>1.0", "pkg-1.0.0nb1"));
    assert!(!m("pkg>1.0nb2", "pkg-1.0.0nb1"));
    assert!(m("pkg<1.0nb2", "pkg-1.0.0nb1"));
    assert!(m("pkg<1.0", "pkg-1.0.0alpha"));
    assert!(!m("pkg<1.0", "pkg-1.0.0.1"));
    assert!(m("pkg>1.0", "pkg-1.0.0.1"));
    /* Package version shorter than the pattern's. */
    assert!(!m("pkg>=1.0.1", "pkg-1.0"));
    assert!(m("pkg<1.0.1", "pkg-1.0"));
    assert!(m("pkg>=1.0.0", "pkg-1.0"));
    assert!(m("pkg>1.0.0", "pkg-1.0nb1"));
    assert!(!m("pkg>1.0.0nb1", "pkg-1.0nb1"));
    assert!(m("pkg>1.0beta", "pkg-1.0"));
    /* Same length: revision decides. */
    assert!(m("pkg>=1.0nb3", "pkg-1.0nb3"));
    assert!(!m("pkg>1.0nb3", "pkg-1.0nb3"));
    assert!(m("pkg>1.0nb3", "pkg-1.0nb4"));
    assert!(m("pkg>=1.0nb", "pkg-1.0"));
}

#[test]
fn odd_tokens() {
    /* Case-insensitive modifiers and letters. */
    assert!(m("pkg>=1.0RC1", "pkg-1.0rc1"));
    assert!(m("pkg<=1.0rc1", "pkg-1.0RC1"));
    assert!(m("pkg>=1.0a", "pkg-1.0A"));
    assert!(m("pkg>1.0a", "pkg-1.0b"));
    assert!(m("pkg>1.0pre1", "pkg-1.0pl1"));
    assert!(m("pkg>=1_0", "pkg-1.0"));
    /* Non-ASCII and other ignored characters, also at the very end. */
    assert!(m("pkg>=1\u{e9}", "pkg-1"));
    assert!(m("pkg<=1", "pkg-1\u{2603}"));
    assert!(m("pkg>=1.0\u{2603}nb3", "pkg-1.0nb3\u{e9}"));
    assert!(m("pkg>=\u{e9}", "pkg-\u{e9}\u{e9}"));
    assert!(m("pkg>=1+~", "pkg-1"));
    /* Numbers too long for an i64 saturate, an overlong nb counts as 0. */
    assert!(m("pkg>=99999999999999999999", "pkg-99999999999999999999"));
    assert!(m("pkg>=9223372036854775807", "pkg-99999999999999999999"));
    assert!(!m("pkg>9223372036854775807", "pkg-99999999999999999999"));
    assert!(m("pkg<=1.0", "pkg-1.0nb99999999999999999999"));
    assert!(m("pkg>=1.0nb1", "pkg-1.0nb9223372036854775807"));
    /* Very long version. */
    let long = format!("pkg-{}", "1.".repeat(5000));
    assert!(m("pkg>=1", &long));
    assert!(!m("pkg<1", &long));
}

#[test]
fn compile_errors() {
    assert!(Dewey::new("pkg").is_err());
    assert!(Dewey::new("").is_err());
    assert!(Dewey::new("pkg<1>2").is_err());
    assert!(Dewey::new("pkg>1>=2").is_err());
    assert!(Dewey::new("pkg>1<2<3").is_err());
    assert!(Dewey::new("pkg>").is_ok());
    assert!(Dewey::new("pkg>=").is_ok());
    assert!(Dewey::new("\u{e9}>\u{e9}").is_ok());
}
