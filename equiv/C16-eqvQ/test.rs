/*
 * Behaviour-documenting tests for Depend::new and the per-record parse step
 * of ScanIndex::from_reader (error conversion).  Uses only the public API;
 * passes on the unmodified and refactored code.
 */
use pkgsrc::{Depend, DependError, Pattern, PkgName, PkgPath, ScanIndex};
use std::io;

#[test]
fn depend_new_good() {
    let d = Depend::new("mktool-[0-9]*:../../pkgtools/mktool").unwrap();
    assert_eq!(d.pattern(), &Pattern::new("mktool-[0-9]*").unwrap());
    assert_eq!(d.pkgpath(), &PkgPath::new("pkgtools/mktool").unwrap());
    /* Short pkgpath form and non-ASCII text. */
    let d = Depend::new("caf\u{e9}>=1.0:cat/caf\u{e9}").unwrap();
    assert_eq!(d.pattern(), &Pattern::new("caf\u{e9}>=1.0").unwrap());
    assert_eq!(d.pkgpath(), &PkgPath::new("../../cat/caf\u{e9}").unwrap());
    assert_eq!(d, "caf\u{e9}>=1.0:cat/caf\u{e9}".parse::<Depend>().unwrap());
}

#[test]
fn depend_new_bad() {
    /* Wrong number of ':' separated parts -> Invalid. */
    for s in ["", "pkg", "a:b:c", "::", "pkg-[0-9]*::../../cat/pkg"] {
        assert!(
            matches!(Depend::new(s), Err(DependError::Invalid)),
            "{s:?}"
        );
    }
    /* Exactly two parts: pattern is checked first, then pkgpath. */
    assert!(matches!(
        Depend::new("pkg>2>3:../../cat/pkg"),
        Err(DependError::Pattern(_))
    ));
    assert!(matches!(
        Depend::new("pkg>2>3:notapath"),
        Err(DependError::Pattern(_))
    ));
    assert!(matches!(
        Depend::new("ojnk:foo"),
        Err(DependError::PkgPath(_))
    ));
    assert!(matches!(Depend::new(":"), Err(_)));
    /* Very long input without a separator. */
    let long = "x".repeat(100_000);
    assert!(matches!(Depend::new(&long), Err(DependError::Invalid)));
}

#[test]
fn record_parse_success() {
    let idx = ScanIndex::from_reader(
        "PKGNAME=a-1.0\nALL_DEPENDS=b-[0-9]*:../../cat/b\nPKGNAME=c-2\n"
            .as_bytes(),
    )
    .unwrap();
    assert_eq!(idx.len(), 2);
    assert_eq!(idx[0].pkgname, PkgName::new("a-1.0"));
    assert_eq!(
        idx[0].all_depends,
        vec![Depend::new("b-[0-9]*:../../cat/b").unwrap()]
    );
    assert_eq!(idx[1].pkgname, PkgName::new("c-2"));
    assert!(idx[1].all_depends.is_empty());
}

fn err_of(input: &str) -> io::Error {
    ScanIndex::from_reader(input.as_bytes()).unwrap_err()
}

#[test]
fn record_parse_errors_are_invalid_data_with_message() {
    let cases = [
        /* Missing PKGNAME in the only block. */
        "MAINTAINER=x\n",
        /* Missing PKGNAME in the leading block. */
        "MAINTAINER=x\nPKGNAME=a-1\n",
        /* Bad dependency: no separator, too many, bad pattern, bad path. */
        "PKGNAME=a-1\nALL_DEPENDS=hello\n",
        "PKGNAME=a-1\nALL_DEPENDS=ok-[0-9]*:cat/ok a::b\nPKGNAME=b-1\n",
        "PKGNAME=a-1\nALL_DEPENDS=pkg>2>3:cat/pkg\n",
        "PKGNAME=a-1\nALL_DEPENDS=ojnk:foo\n",
        /* Bad location. */
        "PKGNAME=a-1\nPKG_LOCATION=foo\n",
    ];
    for c in cases {
        let e = err_of(c);
        assert_eq!(e.kind(), io::ErrorKind::InvalidData, "{c:?}");
        let msg = e.to_string();
        assert!(msg.starts_with("Failed to parse: "), "{c:?}: {msg}");
        assert!(msg.len() > "Failed to parse: ".len(), "{c:?}: {msg}");
    }
    /* The message embeds the underlying error text. */
    assert!(err_of("MAINTAINER=x\n").to_string().contains("PKGNAME"));
    assert!(err_of("PKGNAME=a\nALL_DEPENDS=x\n")
        .to_string()
        .contains("Invalid DEPENDS string"));
}
