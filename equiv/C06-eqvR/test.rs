/*
 * Behaviour check for the reordered (disjoint) match arms, the renamed
 * version locals and their swapped `let`s in Pattern::best_match.
 * Public API only; passes before and after the change.
 */
use pkgsrc::Pattern;

fn best<'a>(pattern: &str, a: &'a str, b: &'a str) -> Option<&'a str> {
    Pattern::new(pattern).unwrap().best_match(a, b)
}

/* same winner whichever way round the candidates are given */
fn best_sym<'a>(pattern: &str, a: &'a str, b: &'a str) -> Option<&'a str> {
    let r1 = best(pattern, a, b);
    let r2 = best(pattern, b, a);
    assert_eq!(r1, r2, "{pattern:?} {a:?} {b:?}");
    r1
}

#[test]
fn all_four_match_combinations() {
    assert_eq!(best_sym("pkg>=2", "pkg-1", "pkg-1.5"), None);
    assert_eq!(best_sym("pkg>=2", "pkg-2", "pkg-1.5"), Some("pkg-2"));
    assert_eq!(best_sym("pkg>=2", "pkg-1", "pkg-3"), Some("pkg-3"));
    assert_eq!(best_sym("pkg>=2", "pkg-2", "pkg-3"), Some("pkg-3"));
    assert_eq!(best_sym("pkg-[0-9]*", "pkg-1", "other-9"), Some("pkg-1"));
    assert_eq!(best_sym("pkg-[0-9]*", "", "pkg"), None);
    assert_eq!(best_sym("pkg-1", "pkg-1", "pkg-1"), Some("pkg-1"));
    assert_eq!(best_sym("pkg-1", "pkg-1", "pkg-2"), Some("pkg-1"));
    assert_eq!(best_sym("pkg-1", "pkg-2", "pkg-3"), None);
}

#[test]
fn higher_version_wins() {
    assert_eq!(best_sym("pkg-[0-9]*", "pkg-1.9", "pkg-1.10"), Some("pkg-1.10"));
    assert_eq!(best_sym("pkg-[0-9]*", "pkg-1.0", "pkg-1.0nb1"), Some("pkg-1.0nb1"));
    assert_eq!(best_sym("pkg-[0-9]*", "pkg-1.0rc1", "pkg-1.0"), Some("pkg-1.0"));
    assert_eq!(best_sym("pkg-[0-9]*", "pkg-1.0alpha", "pkg-1.0beta"), Some("pkg-1.0beta"));
    assert_eq!(best_sym("pkg-[0-9]*", "pkg-1.0", "pkg-1.0.0.1"), Some("pkg-1.0.0.1"));
    assert_eq!(best_sym("pkg-[0-9]*", "pkg-1.0a", "pkg-1.0B"), Some("pkg-1.0B"));
    assert_eq!(best_sym("pkg>0", "pkg-2nb1", "pkg-10"), Some("pkg-10"));
    assert_eq!(best_sym("{foo,bar}-[0-9]*", "foo-1.1", "bar-1.2"), Some("bar-1.2"));
    assert_eq!(best_sym("{foo,bar}-[0-9]*", "foo-1.3", "bar-1.2"), Some("foo-1.3"));
}

#[test]
fn ties_go_to_the_byte_wise_smaller_name() {
    assert_eq!(best_sym("pkg-[0-9]*", "pkg-1.0", "pkg-1.0.0"), Some("pkg-1.0"));
    assert_eq!(best_sym("pkg-[0-9]*", "pkg-1.0", "pkg-1_0"), Some("pkg-1.0"));
    assert_eq!(best_sym("pkg-[0-9]*", "pkg-1.0rc", "pkg-1.0pre"), Some("pkg-1.0pre"));
    assert_eq!(best_sym("pkg-[0-9]*", "pkg-1.0A", "pkg-1.0a"), Some("pkg-1.0A"));
    assert_eq!(best_sym("pkg-[0-9]*", "pkg-1\u{e9}", "pkg-1"), Some("pkg-1"));
    assert_eq!(best_sym("{foo,bar}-[0-9]*", "foo-1.0", "bar-1.0"), Some("bar-1.0"));
    assert_eq!(best_sym("*", "", ""), Some(""));
    assert_eq!(best_sym("*", "", "x"), Some(""));
    assert_eq!(best_sym("*", "b", "a"), Some("a"));
    assert_eq!(best_sym("*", "a-1", "b-1"), Some("a-1"));
    assert_eq!(best_sym("*", "a-1", "b-2"), Some("b-2"));
}

#[test]
fn pairwise_reduction_is_order_independent() {
    let p = Pattern::new("{pkg,alt}-[0-9]*").unwrap();
    let c = ["pkg-1.0", "alt-1.0.0", "pkg-1.0rc2", "pkg-0.9nb4", "alt-1", "zzz-9"];
    let reduce = |order: &[usize]| {
        let mut acc: Option<&str> = None;
        for &i in order {
            acc = match acc {
                None => p.best_match(c[i], c[i]),
                Some(w) => p.best_match(w, c[i]).or(Some(w)),
            };
        }
        acc
    };
    let expect = Some("alt-1");
    assert_eq!(reduce(&[0, 1, 2, 3, 4, 5]), expect);
    assert_eq!(reduce(&[5, 4, 3, 2, 1, 0]), expect);
    assert_eq!(reduce(&[2, 0, 5, 1, 4, 3]), expect);
    assert_eq!(reduce(&[4, 1, 0, 3, 5, 2]), expect);
    assert_eq!(reduce(&[3, 5, 2, 4, 0, 1]), expect);
}
