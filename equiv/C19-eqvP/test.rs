/*
 * Behaviour-documenting tests for PkgPath::new and Depend::new.  Uses only
 * the public API; passes on the unmodified and refactored code.
 */
use pkgsrc::{Depend, DependError, Pattern, PkgPath, PkgPathError};
use std::path::Path;

fn ok(input: &str, short: &str, full: &str) {
    let p = PkgPath::new(input).unwrap_or_else(|_| panic!("{input:?}"));
    /* Exact spelling of the stored paths. */
    assert_eq!(p.as_path().to_str(), Some(short), "{input:?}");
    assert_eq!(p.as_full_path().to_str(), Some(full), "{input:?}");
    /* Re-parsing either accessor gives an equal value. */
    assert_eq!(PkgPath::new(p.as_path().to_str().unwrap()).unwrap(), p);
    assert_eq!(PkgPath::new(p.as_full_path().to_str().unwrap()).unwrap(), p);
    assert_eq!(input.parse::<PkgPath>().unwrap(), p);
}

fn bad(input: &str) {
    assert_eq!(
        PkgPath::new(input),
        Err(PkgPathError::InvalidPath),
        "{input:?}"
    );
}

#[test]
fn pkgpath_good() {
    ok("cat/pkg", "cat/pkg", "../../cat/pkg");
    ok("../../cat/pkg", "cat/pkg", "../../cat/pkg");
    /* The short form keeps the given spelling, the long form is rebuilt. */
    ok("cat//pkg//", "cat//pkg//", "../../cat//pkg//");
    ok("cat/./pkg/.", "cat/./pkg/.", "../../cat/./pkg/.");
    ok("..//..//cat//pkg//", "cat/pkg", "..//..//cat//pkg//");
    ok(".././../cat/pkg/.", "cat/pkg", ".././../cat/pkg/.");
    ok("caf\u{e9}/\u{3b1}", "caf\u{e9}/\u{3b1}", "../../caf\u{e9}/\u{3b1}");
    ok("../../caf\u{e9}/\u{3b1}", "caf\u{e9}/\u{3b1}", "../../caf\u{e9}/\u{3b1}");
    ok("...//.. ", "...//.. ", "../../...//.. ");
    let long = "n".repeat(50_000);
    let input = format!("{long}/{long}");
    ok(&input, &input, &format!("../../{input}"));
}

#[test]
fn pkgpath_both_spellings_equal() {
    for (a, b) in [
        ("cat/pkg", "../../cat/pkg"),
        ("cat//pkg/", "..//../cat/pkg"),
        ("cat/./pkg/.", ".././../cat/pkg"),
    ] {
        let (pa, pb) = (PkgPath::new(a).unwrap(), PkgPath::new(b).unwrap());
        assert_eq!(pa, pb);
        assert_eq!(pa.as_path(), pb.as_path());
        assert_eq!(pa.as_full_path(), pb.as_full_path());
        assert_eq!(pa.as_path(), Path::new("cat/pkg"));
        assert_eq!(pa.as_full_path(), Path::new("../../cat/pkg"));
    }
}

#[test]
fn pkgpath_bad() {
    for s in [
        "", ".", "..", "/", "//", "\0", "pkg", "pkg/", "./pkg", "./pkg/",
        "/cat/pkg", "./cat/pkg", "../pkg", "../cat/pkg", "../cat/pkg/x",
        "../..", "../../", "../../pkg", "../../cat/pkg/x", "../../../pkg",
        "../../../cat/pkg", "../../cat/..", "../../../..", "cat/..", "../cat",
        "cat/../pkg", "cat/pkg/../..", "a/b/c", "a/b/c/d", "a/b/c/d/e/f",
        "/../../cat/pkg", ".. /../cat/pkg", "../../cat/pkg/x/y",
    ] {
        bad(s);
    }
}

#[test]
fn depend_parts() {
    for (pat, path) in [
        ("mktool-[0-9]*", "../../pkgtools/mktool"),
        ("mktool>=1.0<2", "pkgtools/mktool"),
        ("{a,b}-[0-9]*", "cat//pkg/"),
        ("caf\u{e9}-1.0", "../../caf\u{e9}/\u{3b1}"),
    ] {
        let d = Depend::new(&format!("{pat}:{path}")).unwrap();
        assert_eq!(d.pattern(), &Pattern::new(pat).unwrap());
        assert_eq!(d.pkgpath(), &PkgPath::new(path).unwrap());
        assert_eq!(d, format!("{pat}:{path}").parse::<Depend>().unwrap());
    }
}

#[test]
fn depend_bad() {
    for s in ["", "pkg", "a:b:c", "a-[0-9]*:cat/a:", ":a-[0-9]*:cat/a",
              "a::cat/a", "a:b:c:d", ":::"] {
        assert!(matches!(Depend::new(s), Err(DependError::Invalid)), "{s:?}");
    }
    /* One ':' - the pattern is validated before the pkgpath. */
    assert!(matches!(
        Depend::new("pkg>2>3:../../cat/pkg"),
        Err(DependError::Pattern(_))
    ));
    assert!(matches!(
        Depend::new("pkg>2>3:nonsense"),
        Err(DependError::Pattern(_))
    ));
    assert!(matches!(
        Depend::new("ojnk:foo"),
        Err(DependError::PkgPath(PkgPathError::InvalidPath))
    ));
    assert!(matches!(
        Depend::new("ojnk:"),
        Err(DependError::PkgPath(PkgPathError::InvalidPath))
    ));
    assert!(matches!(
        Depend::new("ojnk:cat/../pkg"),
        Err(DependError::PkgPath(PkgPathError::InvalidPath))
    ));
}
