use pkgsrc::plist::{Plist, PlistEntry};

fn is_blank(line: &[u8]) -> bool {
    line.iter()
        .all(|c| c.is_ascii() && (*c as char).is_whitespace())
}

/*
 * Reference: split on newlines, drop lines made only of ASCII whitespace,
 * parse every other line on its own, stop at the first error.  Rendered
 * with Debug so that it can be compared with the Debug form of Plist.
 */
fn reference(input: &[u8]) -> String {
    let mut entries = Vec::new();
    for line in input.split(|&c| c == b'\n') {
        if is_blank(line) {
            continue;
        }
        match PlistEntry::from_bytes(line) {
            Ok(e) => entries.push(e),
            Err(e) => return format!("Err({:?})", e),
        }
    }
    format!("Plist {{ entries: {:?} }}", entries)
}

fn actual(input: &[u8]) -> String {
    match Plist::from_bytes(input) {
        Ok(p) => format!("{:?}", p),
        Err(e) => format!("Err({:?})", e),
    }
}

fn check(input: &[u8]) {
    assert_eq!(actual(input), reference(input), "input {:?}", input);
}

#[test]
fn fixed_cases() {
    let cases: &[&[u8]] = &[
        b"",
        b"\n",
        b"\n\n\n",
        b" ",
        b"  \t ",
        b" \n",
        b" \n ",
        b"a",
        b"a\n",
        b"\na",
        b"\n\na\n\n",
        b" a",
        b" a\n",
        b"a \n b\n  \nc",
        b"a\n  ",
        b"a\n  \n",
        b"a\n \x0b\x0c\r \nb",
        b"\xa0\n\x85\n",
        b" \xa0 \n",
        b"\xf8\n\xf8",
        b"bin/foo\nbin/bar",
        b"bin/foo\nbin/bar\n",
        b"bin/foo\r\nbin/bar\r\n",
        b"@comment $NetBSD$\n\n@name pkgtest-1.0\n@cwd /opt/pkg\n\n  \nbin/foo\n",
        b"@name pkg-1.0",
        b"@name pkg-1.0\n@name",
        b"@name \xf8\nbin/foo\n",
        b"bin/foo\n@bogus\nbin/bar\n",
        b" @comment \n@comment\n@comment  \n",
        b"@ignore\n+BUILD_INFO\n@ignore  \n+DESC",
        b"@mode\n@mode 0644\n@owner\t\n@group  wheel\n",
        b"@exec echo \xf8 \n@unexec  rm %F\n@pkgdir \xf0\x9f\x92\x96\n",
        b"\t@cwd /\n \n\t\n@cwd /",
    ];
    for c in cases {
        check(c);
    }
}

/*
 * Every byte string up to length 7 over a small alphabet that covers the
 * line separator, the different kinds of blank, a non-ASCII byte whose char
 * value is Unicode whitespace, and an ordinary byte.
 */
#[test]
fn exhaustive_small_alphabet() {
    let alphabet: [u8; 6] = [b'a', b' ', b'\t', b'\n', 0x0b, 0xa0];
    for len in 0..=7usize {
        let total = alphabet.len().pow(len as u32);
        let mut buf = vec![0u8; len];
        for mut n in 0..total {
            for slot in buf.iter_mut() {
                *slot = alphabet[n % alphabet.len()];
                n /= alphabet.len();
            }
            check(&buf);
        }
    }
}

/*
 * The same with command lines mixed in.
 */
#[test]
fn exhaustive_line_combinations() {
    let pieces: [&[u8]; 9] = [
        b"",
        b" ",
        b"\t \r",
        b"bin/foo",
        b"  lib/\xf8",
        b"@comment  hi ",
        b"@ignore",
        b"@name \xf8",
        b"@nonesuch",
    ];
    let n = pieces.len();
    for a in 0..n {
        for b in 0..n {
            for c in 0..n {
                for last_nl in [false, true] {
                    let mut input = Vec::new();
                    input.extend_from_slice(pieces[a]);
                    input.push(b'\n');
                    input.extend_from_slice(pieces[b]);
                    input.push(b'\n');
                    input.extend_from_slice(pieces[c]);
                    if last_nl {
                        input.push(b'\n');
                    }
                    check(&input);
                }
            }
        }
    }
}
