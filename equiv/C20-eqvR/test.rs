/*
 * Behaviour documentation for the C20 refactoring R: PkgDB iteration and
 * MetadataEntry <-> file name conversion.
 */
use pkgsrc::pkgdb::PkgDB;
use pkgsrc::MetadataEntry;
use std::fs;
use std::path::PathBuf;

fn fresh_dir(name: &str) -> PathBuf {
    let mut d = PathBuf::from(env!("CARGO_TARGET_TMPDIR"));
    d.push(format!("equiv_c20r_{}_{}", name, std::process::id()));
    let _ = fs::remove_dir_all(&d);
    fs::create_dir_all(&d).unwrap();
    d
}

fn mkpkg(db: &PathBuf, name: &str, files: &[&str]) {
    let d = db.join(name);
    fs::create_dir_all(&d).unwrap();
    for f in files {
        fs::write(d.join(f), format!("{} of {}\n", f, name)).unwrap();
    }
}

const REQD: [&str; 3] = ["+COMMENT", "+CONTENTS", "+DESC"];

#[test]
fn iteration() {
    let db = fresh_dir("iter");
    mkpkg(&db, "mktool-1.3.2nb2", &["+COMMENT", "+CONTENTS", "+DESC", "+SIZE_PKG"]);
    mkpkg(&db, "p5-Foo-Bar-0.01", &REQD);
    mkpkg(&db, "nodash", &REQD);
    mkpkg(&db, "trailing-", &REQD);
    mkpkg(&db, "-1.0", &REQD);
    mkpkg(&db, "caf\u{e9}-2.0nb1", &REQD);
    /* Incomplete directories and stray files are skipped. */
    mkpkg(&db, "nocomment-1.0", &["+CONTENTS", "+DESC"]);
    mkpkg(&db, "nocontents-1.0", &["+COMMENT", "+DESC"]);
    mkpkg(&db, "nodesc-1.0", &["+COMMENT", "+CONTENTS"]);
    mkpkg(&db, "empty-1.0", &[]);
    fs::write(db.join("pkg-vulnerabilities"), "x").unwrap();
    fs::write(db.join("pkgdb.byfile.db"), "x").unwrap();

    let mut got: Vec<(String, String, String, String)> = vec![];
    for pkg in PkgDB::open(&db).unwrap() {
        let pkg = pkg.unwrap();
        let comment = pkg.read_metadata(MetadataEntry::Comment).unwrap();
        got.push((
            pkg.pkgname().clone(),
            pkg.pkgbase().clone(),
            pkg.pkgversion().clone(),
            comment,
        ));
        assert_eq!(
            pkg.read_metadata(MetadataEntry::Desc).unwrap(),
            format!("+DESC of {}\n", pkg.pkgname())
        );
    }
    got.sort();
    let e = |n: &str, b: &str, v: &str| {
        (
            n.to_string(),
            b.to_string(),
            v.to_string(),
            format!("+COMMENT of {}\n", n),
        )
    };
    let mut want = vec![
        e("mktool-1.3.2nb2", "mktool", "1.3.2nb2"),
        e("p5-Foo-Bar-0.01", "p5-Foo-Bar", "0.01"),
        e("nodash", "nodash", ""),
        e("trailing-", "trailing", ""),
        e("-1.0", "", "1.0"),
        e("caf\u{e9}-2.0nb1", "caf\u{e9}", "2.0nb1"),
    ];
    want.sort();
    assert_eq!(got, want);
    let _ = fs::remove_dir_all(&db);
}

#[test]
fn optional_metadata_and_missing() {
    let db = fresh_dir("meta");
    mkpkg(&db, "a-1", &["+COMMENT", "+CONTENTS", "+DESC", "+SIZE_PKG"]);
    let pkgs: Vec<_> = PkgDB::open(&db).unwrap().collect();
    assert_eq!(pkgs.len(), 1);
    let pkg = pkgs.into_iter().next().unwrap().unwrap();
    assert_eq!(
        pkg.read_metadata(MetadataEntry::SizePkg).unwrap(),
        "+SIZE_PKG of a-1\n"
    );
    assert!(pkg.read_metadata(MetadataEntry::SizeAll).is_err());
    let _ = fs::remove_dir_all(&db);
}

#[test]
fn empty_db_and_bad_path() {
    let db = fresh_dir("empty");
    assert_eq!(PkgDB::open(&db).unwrap().count(), 0);
    assert!(PkgDB::open(&db.join("does-not-exist")).is_err());
    /* A plain file opens as (unimplemented) Database and yields nothing. */
    fs::write(db.join("pkgdb.sqlite"), "").unwrap();
    assert_eq!(PkgDB::open(&db.join("pkgdb.sqlite")).unwrap().count(), 0);
    let _ = fs::remove_dir_all(&db);
}

#[test]
fn filename_bijection() {
    let all = [
        (MetadataEntry::BuildInfo, "+BUILD_INFO"),
        (MetadataEntry::BuildVersion, "+BUILD_VERSION"),
        (MetadataEntry::Comment, "+COMMENT"),
        (MetadataEntry::Contents, "+CONTENTS"),
        (MetadataEntry::DeInstall, "+DEINSTALL"),
        (MetadataEntry::Desc, "+DESC"),
        (MetadataEntry::Display, "+DISPLAY"),
        (MetadataEntry::Install, "+INSTALL"),
        (MetadataEntry::InstalledInfo, "+INSTALLED_INFO"),
        (MetadataEntry::MtreeDirs, "+MTREE_DIRS"),
        (MetadataEntry::Preserve, "+PRESERVE"),
        (MetadataEntry::RequiredBy, "+REQUIRED_BY"),
        (MetadataEntry::SizeAll, "+SIZE_ALL"),
        (MetadataEntry::SizePkg, "+SIZE_PKG"),
    ];
    for (e, f) in all.iter() {
        assert_eq!(e.to_filename(), *f);
        assert_eq!(MetadataEntry::from_filename(f).as_ref(), Some(e));
    }
    for bad in ["", "+", "COMMENT", "+comment", "+COMMENT ", "+SIZE", "+BADFILE", "+SIZE_ALL\n"] {
        assert_eq!(MetadataEntry::from_filename(bad), None);
    }
}
