use pkgsrc::PkgName;

/* Independent statement of what PkgName::new must report. */
fn expect(name: &str) -> (String, String, Option<i64>) {
    let (base, version) = match name.char_indices().filter(|&(_, c)| c == '-').last() {
        Some((i, _)) => (name[..i].to_string(), name[i + 1..].to_string()),
        None => (name.to_string(), String::new()),
    };
    let mut rev = None;
    let bytes = version.as_bytes();
    for i in (0..bytes.len().saturating_sub(1)).rev() {
        if &bytes[i..i + 2] == b"nb" {
            let tail = &version[i + 2..];
            rev = Some(tail.parse::<i64>().unwrap_or(0));
            break;
        }
    }
    (base, version, rev)
}

fn check(name: &str) {
    let pkg = PkgName::new(name);
    let (base, version, rev) = expect(name);
    assert_eq!(pkg.pkgname(), name);
    assert_eq!(pkg.pkgbase(), base, "base of {name:?}");
    assert_eq!(pkg.pkgversion(), version, "version of {name:?}");
    assert_eq!(pkg.pkgrevision(), rev, "revision of {name:?}");
    if name.contains('-') {
        assert_eq!(format!("{}-{}", pkg.pkgbase(), pkg.pkgversion()), name);
    } else {
        assert_eq!(pkg.pkgbase(), name);
        assert_eq!(pkg.pkgversion(), "");
        assert_eq!(pkg.pkgrevision(), None);
    }
    /* Derived traits see the same fields. */
    assert_eq!(pkg, PkgName::new(name));
    assert_eq!(pkg.clone(), pkg);
}

#[test]
fn fixed_names() {
    let cases: [(&str, &str, &str, Option<i64>); 22] = [
        ("mktool-1.3.2nb2", "mktool", "1.3.2nb2", Some(2)),
        ("mktool-1.3.2nb", "mktool", "1.3.2nb", Some(0)),
        ("mktool-1.3-2", "mktool-1.3", "2", None),
        ("mktool", "mktool", "", None),
        ("1.0nb2", "1.0nb2", "", None),
        ("mktool-1nb3alpha2nb", "mktool", "1nb3alpha2nb", Some(0)),
        ("mktool-1nb3alpha2nb7", "mktool", "1nb3alpha2nb7", Some(7)),
        ("mktool-1nb3alpha", "mktool", "1nb3alpha", Some(0)),
        ("nbtool-1.0", "nbtool", "1.0", None),
        ("nb-nb", "nb", "nb", Some(0)),
        ("nb9-1", "nb9", "1", None),
        ("", "", "", None),
        ("-", "", "", None),
        ("--", "-", "", None),
        ("-1.0nb4", "", "1.0nb4", Some(4)),
        ("pkg-", "pkg", "", None),
        ("foo--1.0", "foo-", "1.0", None),
        ("pkg-1.0nb+5", "pkg", "1.0nb+5", Some(5)),
        ("pkg-1.0NB5", "pkg", "1.0NB5", None),
        ("pkg-1.0nb 5", "pkg", "1.0nb 5", Some(0)),
        ("pkg-1.0nb999999999999999999", "pkg", "1.0nb999999999999999999", Some(999999999999999999)),
        ("pkg-1.0nb99999999999999999999", "pkg", "1.0nb99999999999999999999", Some(0)),
    ];
    for (name, base, version, rev) in cases {
        let pkg = PkgName::new(name);
        assert_eq!(pkg.pkgname(), name);
        assert_eq!(pkg.pkgbase(), base, "base of {name:?}");
        assert_eq!(pkg.pkgversion(), version, "version of {name:?}");
        assert_eq!(pkg.pkgrevision(), rev, "revision of {name:?}");
        check(name);
    }
}

#[test]
fn non_ascii() {
    for name in [
        "caf\u{e9}-1.0",
        "caf\u{e9}-1.0\u{e9}nb3",
        "\u{e9}-\u{e9}",
        "\u{1f980}-\u{1f980}nb\u{1f980}",
        "pkg\u{2013}1.0",
        "pkg\u{2013}-1.0nb\u{663}",
        "\u{e9}nb1",
    ] {
        check(name);
    }
    let pkg = PkgName::new("caf\u{e9}-1.0\u{e9}nb3");
    assert_eq!(pkg.pkgbase(), "caf\u{e9}");
    assert_eq!(pkg.pkgversion(), "1.0\u{e9}nb3");
    assert_eq!(pkg.pkgrevision(), Some(3));
}

/* Every string of length <= 5 over a small alphabet that has all the
 * characters the splitter cares about. */
#[test]
fn exhaustive_small() {
    let alphabet = ['-', 'n', 'b', '1', '0', 'a', '\u{e9}'];
    let mut words: Vec<String> = vec![String::new()];
    let mut frontier: Vec<String> = vec![String::new()];
    for _ in 0..5 {
        let mut next = Vec::new();
        for w in &frontier {
            for c in alphabet {
                let mut x = w.clone();
                x.push(c);
                next.push(x);
            }
        }
        words.extend(next.iter().cloned());
        frontier = next;
    }
    assert_eq!(words.len(), 1 + 7 + 49 + 343 + 2401 + 16807);
    for w in &words {
        check(w);
        /* and as the version / base of a longer name */
        check(&format!("pkg-{w}"));
        check(&format!("{w}-1.0nb2"));
    }
}

#[test]
fn ordering_and_hash_follow_fields() {
    use std::collections::HashSet;
    let a = PkgName::new("a-1.0");
    let b = PkgName::new("a-1.0nb1");
    assert!(a < b);
    assert_ne!(a, b);
    let set: HashSet<PkgName> =
        ["a-1.0", "a-1.0", "a-1.0nb1"].iter().map(|s| PkgName::new(s)).collect();
    assert_eq!(set.len(), 2);
    let dbg = format!("{:?}", b);
    assert!(dbg.contains("pkgrevision: Some(1)"), "{dbg}");
}
