use pkgsrc::{Dewey, Pattern};

/*
 * dewey_cmp() is not exported, so exercise it through Dewey::matches (all
 * four operators) and Pattern::best_match (GT and LT on arbitrary pairs).
 */

#[test]
fn dewey_matches_spread() {
    let cases: &[(&str, &str, bool)] = &[
        /* Differences inside the common prefix. */
        ("pkg>1.2", "pkg-1.3", true),
        ("pkg>1.2", "pkg-1.1", false),
        ("pkg<1.2", "pkg-1.1", true),
        ("pkg<=1.2", "pkg-1.2", true),
        ("pkg>=1.2", "pkg-1.2", true),
        ("pkg>1.2", "pkg-1.2", false),
        ("pkg<1.2", "pkg-1.2", false),
        /* Package version shorter than the pattern version. */
        ("pkg>=1.0.0", "pkg-1", true),
        ("pkg>1.0.0", "pkg-1", false),
        ("pkg>1.0.0", "pkg-1nb1", true),
        ("pkg<1.0.0nb2", "pkg-1nb1", true),
        ("pkg<=1.0.0nb2", "pkg-1nb3", false),
        ("pkg>=1.0.0nb2", "pkg-1nb3", true),
        ("pkg>1.0.1", "pkg-1", false),
        ("pkg<1.0.1", "pkg-1", true),
        ("pkg<1.0alpha", "pkg-1", false),
        ("pkg>1.0alpha", "pkg-1", true),
        ("pkg>=1.0rc1", "pkg-1", true),
        ("pkg<=1.0beta2", "pkg-1", false),
        /* Package version longer than the pattern version. */
        ("pkg>=1", "pkg-1.0.0", true),
        ("pkg>1", "pkg-1.0.0", false),
        ("pkg>1", "pkg-1.0.0nb1", true),
        ("pkg<1nb2", "pkg-1.0.0nb1", true),
        ("pkg<=1nb2", "pkg-1.0nb3", false),
        ("pkg<1", "pkg-1.0alpha1", true),
        ("pkg>1", "pkg-1.0alpha1", false),
        ("pkg>1", "pkg-1.0.1", true),
        ("pkg<1", "pkg-1.0.1", false),
        ("pkg>1", "pkg-1a", true),
        ("pkg<=1", "pkg-1_0", true),
        /* Empty, odd and non-ASCII versions. */
        ("pkg>=", "pkg-", true),
        ("pkg>", "pkg-", false),
        ("pkg>", "pkg-0nb1", true),
        ("pkg<", "pkg-0alpha", true),
        ("pkg>=0", "pkg-", true),
        ("pkg<=0", "pkg-\u{e9}", true),
        ("pkg>0", "pkg-\u{e9}1", true),
        ("pkg<1", "pkg-\u{e9}.\u{e9}", true),
        ("pkg>=1.0", "pkg-1.0RC1", false),
        ("pkg>=99999999999999999999", "pkg-99999999999999999999.0", true),
        ("pkg>99999999999999999999", "pkg-99999999999999999999.1", true),
        ("pkg>=1", "pkg", false),
        ("pkg>=1", "other-2", false),
    ];
    for (pat, pkg, want) in cases {
        let d = Dewey::new(pat).unwrap();
        assert_eq!(d.matches(pkg), *want, "{pat} vs {pkg}");
        let p = Pattern::new(pat).unwrap();
        assert_eq!(p.matches(pkg), *want, "{pat} vs {pkg} (Pattern)");
    }
}

#[test]
fn dewey_range_and_lengths() {
    let m = Dewey::new("pkg>1.0.0.0alphanb1<2.0beta4nb7").unwrap();
    let yes = [
        "pkg-1", "pkg-1.0", "pkg-1.0.0.", "pkg-1.0.0.0alpha1",
        "pkg-1.0.0.0alphanb2", "pkg-1.0.0.0_", "pkg-1.0.0.0nb1", "pkg-1.0.1",
        "pkg-2.0alpha3nb3", "pkg-2.0beta3nb8", "pkg-2.0beta4nb6",
    ];
    let no = [
        "pkg-1.0.0.0alphanb1", "pkg-1.0.0.0alpha", "pkg-1.0.0.beta",
        "pkg-1.0alpha", "pkg-2.0beta4nb7", "pkg-2.0beta5nb6", "pkg-2.0",
        "pkg-2", "pkg-2.0.0nb1", "pkg-0.9", "pkg-",
    ];
    for p in yes {
        assert!(m.matches(p), "{p}");
    }
    for p in no {
        assert!(!m.matches(p), "{p}");
    }
}

#[test]
fn best_match_spread() {
    let m = Pattern::new("pkg-*").unwrap();
    /* (a, b, winner) - checked in both argument orders. */
    let cases: &[(&str, &str, &str)] = &[
        ("pkg-1.1", "pkg-1.2", "pkg-1.2"),
        ("pkg-1", "pkg-1.0.1", "pkg-1.0.1"),
        ("pkg-1", "pkg-1.0alpha", "pkg-1"),
        ("pkg-1nb2", "pkg-1.0nb1", "pkg-1nb2"),
        ("pkg-1", "pkg-1.0nb1", "pkg-1.0nb1"),
        ("pkg-1.0", "pkg-1.0.0", "pkg-1.0"),
        ("pkg-1.0", "pkg-1_0", "pkg-1.0"),
        ("pkg-1.0rc1", "pkg-1.0pre1", "pkg-1.0pre1"),
        ("pkg-1.0RC1", "pkg-1.0rc1", "pkg-1.0RC1"),
        ("pkg-", "pkg-0", "pkg-"),
        ("pkg-", "pkg-0nb1", "pkg-0nb1"),
        ("pkg-\u{e9}", "pkg-", "pkg-"),
        ("pkg-\u{e9}2", "pkg-1.9", "pkg-\u{e9}2"),
        ("pkg-1a", "pkg-1.0.97", "pkg-1a"),
        ("pkg-1b", "pkg-1a", "pkg-1b"),
        ("pkg-99999999999999999999", "pkg-9223372036854775807", "pkg-9223372036854775807"),
        ("pkg-2.0beta1", "pkg-2.0alpha9", "pkg-2.0beta1"),
        ("pkg-x-1", "pkg-y-1.0", "pkg-x-1"),
    ];
    for (a, b, want) in cases {
        assert_eq!(m.best_match(a, b), Some(*want), "({a}, {b})");
        assert_eq!(m.best_match(b, a), Some(*want), "({b}, {a})");
    }
    assert_eq!(m.best_match("foo-1", "bar-2"), None);
    assert_eq!(m.best_match("foo-9", "pkg-"), Some("pkg-"));
}
