/*
 * Behaviour documentation for the C15 refactoring R: files() and
 * files_prefixed() over interleavings of files, @ignore and @cwd.
 */
use pkgsrc::plist::{Plist, PlistEntry};
use std::ffi::{OsStr, OsString};
use std::os::unix::ffi::OsStrExt;

fn os(s: &str) -> OsString {
    OsString::from(s)
}

#[test]
fn files_and_prefixed_basic() {
    let input = b"bin/a\n@ignore\n+META\n@cwd /opt\nbin/b\n@cwd /usr/\nbin/c\n";
    let p = Plist::from_bytes(input).unwrap();
    assert_eq!(
        p.files(),
        vec![OsStr::new("bin/a"), OsStr::new("bin/b"), OsStr::new("bin/c")]
    );
    assert_eq!(
        p.files_prefixed(),
        vec![os("/bin/a"), os("/opt/bin/b"), os("/usr/bin/c")]
    );
}

#[test]
fn consecutive_trailing_and_separated_ignore() {
    /* Two @ignore in a row only skip one file. */
    let p = Plist::from_bytes(b"@ignore\n@ignore\nf1\nf2\n").unwrap();
    assert_eq!(p.files(), vec![OsStr::new("f2")]);
    assert_eq!(p.files_prefixed(), vec![os("/f2")]);

    /* Trailing @ignore has no effect. */
    let p = Plist::from_bytes(b"f1\n@ignore").unwrap();
    assert_eq!(p.files(), vec![OsStr::new("f1")]);
    assert_eq!(p.files_prefixed(), vec![os("/f1")]);

    /* @ignore separated from its file by other commands, incl. @cwd. */
    let p = Plist::from_bytes(
        b"@cwd /a\n@ignore\n@comment x\n@cwd /b\n@mode 0644\nf1\nf2\n@ignore\n",
    )
    .unwrap();
    assert_eq!(p.files(), vec![OsStr::new("f2")]);
    assert_eq!(p.files_prefixed(), vec![os("/b/f2")]);
}

#[test]
fn empty_and_no_files() {
    let p = Plist::from_bytes(b"").unwrap();
    assert!(p.files().is_empty());
    assert!(p.files_prefixed().is_empty());
    let p = Plist::from_bytes(b"\n\n@ignore\n@cwd /x\n@ignore\n").unwrap();
    assert!(p.files().is_empty());
    assert!(p.files_prefixed().is_empty());
    let p = Plist::from_bytes(b"@ignore\nonly\n").unwrap();
    assert!(p.files().is_empty());
    assert!(p.files_prefixed().is_empty());
}

#[test]
fn non_utf8_cwd_and_file() {
    let p = Plist::from_bytes(b"@cwd /caf\xe9\nbin/\xff\n@ignore\nx\ny\n")
        .unwrap();
    assert_eq!(
        p.files(),
        vec![OsStr::from_bytes(b"bin/\xff"), OsStr::new("y")]
    );
    assert_eq!(
        p.files_prefixed(),
        vec![
            OsString::from(OsStr::from_bytes(b"/caf\xe9/bin/\xff")),
            OsString::from(OsStr::from_bytes(b"/caf\xe9/y")),
        ]
    );
}

#[test]
fn views_agree_with_cmd_lists() {
    let p = Plist::from_bytes(
        b"@name p-1.0\nf0\n@ignore\n@exec true\nf1\n@cwd /p/\nf2\n@unexec false\n@ignore\n@ignore\nf3\nf4\n",
    )
    .unwrap();
    let files = p.files();
    assert_eq!(
        files,
        vec![OsStr::new("f0"), OsStr::new("f2"), OsStr::new("f4")]
    );
    assert_eq!(
        p.files_prefixed(),
        vec![os("/f0"), os("/p/f2"), os("/p/f4")]
    );
    let inst: Vec<&OsStr> = p
        .install_cmds()
        .into_iter()
        .filter_map(|e| match e {
            PlistEntry::File(f) => Some(f.as_os_str()),
            _ => None,
        })
        .collect();
    assert_eq!(inst, files);
}
