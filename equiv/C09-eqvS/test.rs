/*
 * Equivalence test: documents that SummaryStream::write behaves the same
 * before and after the refactoring.  Public API only.
 */
use pkgsrc::summary::SummaryStream;
use std::io::Write;

fn entry(name: &str, comment: &str) -> String {
    format!(
        "BUILD_DATE=2019-08-12 15:58:02 +0100\n\
         CATEGORIES=devel pkgtools\n\
         COMMENT={}\n\
         DESCRIPTION=A test description\n\
         DESCRIPTION=\n\
         DESCRIPTION=second = line\n\
         MACHINE_ARCH=x86_64\n\
         OPSYS=Darwin\n\
         OS_VERSION=18.7.0\n\
         PKGNAME={}\n\
         PKGPATH=pkgtools/testpkg\n\
         PKGTOOLS_VERSION=20091115\n\
         SIZE_PKG=4321\n",
        comment, name
    )
}

fn stream() -> String {
    format!(
        "{}\n{}\n{}\n",
        entry("one-1.0", "plain ascii"),
        entry("two-2.0", "caf\u{e9} \u{20ac} \u{1f600}"),
        entry("three-3.0nb1", "\u{65e5}\u{672c}\u{8a9e}")
    )
}

fn names(s: &SummaryStream) -> Vec<String> {
    s.entries()
        .iter()
        .map(|e| e.pkgname().unwrap().to_string())
        .collect()
}

/* Write the chunks one after another; Ok(()) if every write took all bytes. */
fn feed(s: &mut SummaryStream, chunks: &[&[u8]]) -> std::io::Result<()> {
    for c in chunks {
        let n = s.write(c)?;
        assert_eq!(n, c.len());
    }
    Ok(())
}

#[test]
fn one_call_collects_all_entries_and_prints_them_back() {
    let text = stream();
    let mut s = SummaryStream::new();
    assert_eq!(s.write(text.as_bytes()).unwrap(), text.len());
    s.flush().unwrap();
    assert_eq!(names(&s), ["one-1.0", "two-2.0", "three-3.0nb1"]);
    assert_eq!(s.entries()[1].comment(), Some("caf\u{e9} \u{20ac} \u{1f600}"));
    assert_eq!(s.entries()[0].description().unwrap().len(), 3);
    assert_eq!(s.to_string(), text);
    /* Empty writes are fine and change nothing. */
    assert_eq!(s.write(b"").unwrap(), 0);
    assert_eq!(s.entries().len(), 3);
    let mut e = SummaryStream::new();
    assert_eq!(e.write(b"").unwrap(), 0);
    assert_eq!(e.entries().len(), 0);
    assert_eq!(e.to_string(), "");
}

#[test]
fn every_single_cut_and_every_chunk_size() {
    let text = stream();
    let bytes = text.as_bytes();
    for cut in 0..=bytes.len() {
        let mut s = SummaryStream::new();
        feed(&mut s, &[&bytes[..cut], &bytes[cut..]])
            .unwrap_or_else(|e| panic!("cut {}: {}", cut, e));
        assert_eq!(names(&s), ["one-1.0", "two-2.0", "three-3.0nb1"]);
        assert_eq!(s.to_string(), text, "cut {}", cut);
    }
    for size in [1usize, 2, 3, 4, 5, 7, 64, 1000] {
        let mut s = SummaryStream::new();
        let chunks: Vec<&[u8]> = bytes.chunks(size).collect();
        feed(&mut s, &chunks).unwrap_or_else(|e| panic!("size {}: {}", size, e));
        assert_eq!(s.to_string(), text, "size {}", size);
    }
}

#[test]
fn entries_appear_as_soon_as_their_blank_line_is_complete() {
    let e1 = format!("{}\n", entry("one-1.0", "c"));
    let e2 = format!("{}\n", entry("two-2.0", "\u{e9}"));
    let mut s = SummaryStream::new();
    let b1 = e1.as_bytes();
    /* Everything but the final newline of the separator: nothing yet. */
    assert_eq!(s.write(&b1[..b1.len() - 1]).unwrap(), b1.len() - 1);
    assert_eq!(s.entries().len(), 0);
    assert_eq!(s.write(&b1[b1.len() - 1..]).unwrap(), 1);
    assert_eq!(names(&s), ["one-1.0"]);
    /* Unterminated second entry stays buffered. */
    let b2 = e2.as_bytes();
    assert_eq!(s.write(&b2[..b2.len() - 2]).unwrap(), b2.len() - 2);
    assert_eq!(names(&s), ["one-1.0"]);
    assert_eq!(s.write(b"\n\n").unwrap(), 2);
    assert_eq!(names(&s), ["one-1.0", "two-2.0"]);
    /* entries_mut gives access to the same vector. */
    s.entries_mut().remove(0);
    assert_eq!(names(&s), ["two-2.0"]);
}

#[test]
fn malformed_entry_fails_with_invalid_data_and_keeps_the_earlier_ones() {
    let good = |n: &str| format!("{}\n", entry(n, "c"));
    let bad_variants = [
        "BOGUS=1\n\n".to_string(),
        "no equals sign\n\n".to_string(),
        format!("{}FILE_SIZE=NaN\n\n", entry("bad-1", "c")),
        "PKGNAME=incomplete-1.0\n\n".to_string(),
    ];
    for bad in bad_variants.iter() {
        for pos in 0..3 {
            let mut parts = vec![good("a-1"), good("b-2")];
            parts.insert(pos, bad.clone());
            let text = parts.concat();
            let bytes = text.as_bytes();
            /* One call. */
            let mut s = SummaryStream::new();
            let err = s.write(bytes).unwrap_err();
            assert_eq!(err.kind(), std::io::ErrorKind::InvalidData);
            let want: Vec<&str> = ["a-1", "b-2"][..pos].to_vec();
            assert_eq!(names(&s), want);
            /* Byte at a time: fails at some write, same prefix collected. */
            let mut s = SummaryStream::new();
            let mut failed = false;
            for b in bytes.chunks(1) {
                match s.write(b) {
                    Ok(n) => assert_eq!(n, 1),
                    Err(e) => {
                        assert_eq!(e.kind(), std::io::ErrorKind::InvalidData);
                        failed = true;
                        break;
                    }
                }
            }
            assert!(failed);
            assert_eq!(names(&s), want);
        }
    }
}

#[test]
fn invalid_utf8_is_invalid_data() {
    let mut s = SummaryStream::new();
    let err = s.write(b"COMMENT=\xff\n\n").unwrap_err();
    assert_eq!(err.kind(), std::io::ErrorKind::InvalidData);
    assert_eq!(s.entries().len(), 0);
    /* A stray continuation byte after a good entry. */
    let mut s = SummaryStream::new();
    let mut v = format!("{}\n", entry("a-1", "c")).into_bytes();
    v.extend_from_slice(b"COMMENT=\x80abc\n\n");
    let err = s.write(&v).unwrap_err();
    assert_eq!(err.kind(), std::io::ErrorKind::InvalidData);
}
