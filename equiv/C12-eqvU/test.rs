use pkgsrc::digest::Digest;
use pkgsrc::distinfo::{Checksum, Distinfo, DistinfoError, Entry, EntryType};
use std::fs;
use std::path::PathBuf;

const ALGS: [Digest; 6] = [
    Digest::BLAKE2s,
    Digest::MD5,
    Digest::RMD160,
    Digest::SHA1,
    Digest::SHA256,
    Digest::SHA512,
];

fn scratch(name: &str) -> PathBuf {
    let mut d = std::env::temp_dir();
    d.push(format!("pkgsrc-equiv-{}-{}", std::process::id(), name));
    let _ = fs::remove_dir_all(&d);
    fs::create_dir_all(&d).unwrap();
    d
}

fn contents() -> Vec<Vec<u8>> {
    vec![
        b"".to_vec(),
        b"\n".to_vec(),
        b"hello world\n".to_vec(),
        b"no trailing newline".to_vec(),
        b"\x00\xff\xfe\x80binary\x00\n\x01".to_vec(),
        "caf\u{e9} \u{1f600}\n".as_bytes().to_vec(),
        b"$NetBSD: x,v 1.1 $\n\nbody\n+$NetBSD$\nend".to_vec(),
        vec![b'a'; 70000],
    ]
}

/* What a patch checksum is computed over in the crate's convention. */
fn patch_bytes(content: &[u8]) -> Vec<u8> {
    let mut out = vec![];
    if content.is_empty() {
        return out;
    }
    let body = content.strip_suffix(b"\n").unwrap_or(content);
    for line in body.split(|b| *b == b'\n') {
        if line.windows(7).any(|w| w == b"$NetBSD") {
            continue;
        }
        out.extend_from_slice(line);
        out.push(b'\n');
    }
    out
}

fn flip(hash: &str, i: usize) -> String {
    let mut b = hash.as_bytes().to_vec();
    b[i] = if b[i] == b'0' { b'1' } else { b'0' };
    String::from_utf8(b).unwrap()
}

#[test]
fn checksums_distfiles_and_patches() {
    let dir = scratch("sums");
    for (n, content) in contents().iter().enumerate() {
        for fname in ["dist-1.0.tar.gz", "patch-aa"] {
            let file = dir.join(format!("{n}")).join(fname);
            fs::create_dir_all(file.parent().unwrap()).unwrap();
            fs::write(&file, content).unwrap();
            let hashed = if fname.starts_with("patch-") {
                patch_bytes(content)
            } else {
                content.clone()
            };
            for d in ALGS {
                let good = d.hash_file(&mut &hashed[..]).unwrap();
                let di = Distinfo::from_bytes(
                    format!("{} ({}) = {}\n", d, fname, good).as_bytes(),
                );
                assert!(matches!(di.verify_checksum(&file, d), Ok(x) if x == d));
                let all = di.verify_checksums(&file);
                assert_eq!(all.len(), 1);
                assert!(matches!(all[0], Ok(x) if x == d));

                /* Every other algorithm is missing. */
                for o in ALGS {
                    if o == d {
                        continue;
                    }
                    match di.verify_checksum(&file, o) {
                        Err(DistinfoError::MissingChecksum(p, x)) => {
                            assert_eq!(p, file);
                            assert_eq!(x, o);
                        }
                        other => panic!("expected missing, got {other:?}"),
                    }
                }

                /* Corrupt, truncated, extended, upper-cased recorded value. */
                let mut bads = vec![
                    flip(&good, 0),
                    flip(&good, good.len() - 1),
                    flip(&good, good.len() / 2),
                    good[..good.len() - 1].to_string(),
                    format!("{good}0"),
                    "x".to_string(),
                ];
                if good.to_uppercase() != good {
                    bads.push(good.to_uppercase());
                }
                for bad in bads {
                    let di = Distinfo::from_bytes(
                        format!("{} ({}) = {}\n", d, fname, bad).as_bytes(),
                    );
                    match di.verify_checksum(&file, d) {
                        Err(DistinfoError::Checksum(p, x, exp, act)) => {
                            assert_eq!(p, PathBuf::from(fname));
                            assert_eq!(x, d);
                            assert_eq!(exp, bad);
                            assert_eq!(act, good);
                        }
                        other => panic!("expected mismatch, got {other:?}"),
                    }
                }

                /* Corrupt the file instead. */
                let mut c2 = content.clone();
                c2.push(b'Z');
                fs::write(&file, &c2).unwrap();
                assert!(matches!(
                    di.verify_checksum(&file, d),
                    Err(DistinfoError::Checksum(_, _, _, _))
                ));
                fs::write(&file, content).unwrap();
            }
        }
    }
    let _ = fs::remove_dir_all(&dir);
}

#[test]
fn sizes() {
    let dir = scratch("sizes");
    for (n, content) in contents().iter().enumerate() {
        let file = dir.join(format!("f{n}.tar.gz"));
        fs::write(&file, content).unwrap();
        let len = content.len() as u64;
        let name = format!("f{n}.tar.gz");
        let di = Distinfo::from_bytes(
            format!("Size ({name}) = {len} bytes\n").as_bytes(),
        );
        assert_eq!(di.verify_size(&file).unwrap(), len);
        for wrong in [len + 1, len.wrapping_sub(1), 0, u64::MAX, len + 256] {
            if wrong == len {
                continue;
            }
            let di = Distinfo::from_bytes(
                format!("Size ({name}) = {wrong} bytes\n").as_bytes(),
            );
            match di.verify_size(&file) {
                Err(DistinfoError::Size(p, exp, act)) => {
                    assert_eq!(p, PathBuf::from(&name));
                    assert_eq!(exp, wrong);
                    assert_eq!(act, len);
                }
                other => panic!("expected size mismatch, got {other:?}"),
            }
        }
        /* Only a checksum recorded: size is missing. */
        let di =
            Distinfo::from_bytes(format!("SHA1 ({name}) = abc\n").as_bytes());
        match di.verify_size(&file) {
            Err(DistinfoError::MissingSize(p)) => assert_eq!(p, file),
            other => panic!("expected missing size, got {other:?}"),
        }
        /* Only a size recorded: every checksum is missing. */
        let di = Distinfo::from_bytes(
            format!("Size ({name}) = {len} bytes\n").as_bytes(),
        );
        assert!(matches!(
            di.verify_checksum(&file, Digest::SHA1),
            Err(DistinfoError::MissingChecksum(_, Digest::SHA1))
        ));
        assert!(di.verify_checksums(&file).is_empty());
    }
    let _ = fs::remove_dir_all(&dir);
}

#[test]
fn entry_level_and_io_errors() {
    let dir = scratch("entry");
    let file = dir.join("thing.tar.gz");
    fs::write(&file, b"abc").unwrap();
    let gone = dir.join("does-not-exist.tar.gz");
    let sha1 = Digest::SHA1.hash_str("abc").unwrap();
    let md5 = Digest::MD5.hash_str("abc").unwrap();

    /* Duplicate digest: the first recorded one decides. */
    let e = Entry::new(
        "thing.tar.gz",
        &file,
        vec![
            Checksum::new(Digest::SHA1, sha1.clone()),
            Checksum::new(Digest::SHA1, "bogus".to_string()),
            Checksum::new(Digest::MD5, md5.clone()),
        ],
        Some(3),
    );
    assert!(matches!(e.verify_checksum(&file, Digest::SHA1), Ok(Digest::SHA1)));
    assert!(matches!(e.verify_checksum(&file, Digest::MD5), Ok(Digest::MD5)));
    let all = e.verify_checksums(&file);
    assert_eq!(all.len(), 3);
    assert!(all.iter().all(|r| r.is_ok()));
    assert_eq!(e.verify_size(&file).unwrap(), 3);

    let e2 = Entry::new(
        "thing.tar.gz",
        &file,
        vec![
            Checksum::new(Digest::SHA1, "bogus".to_string()),
            Checksum::new(Digest::SHA1, sha1.clone()),
        ],
        None,
    );
    match e2.verify_checksum(&file, Digest::SHA1) {
        Err(DistinfoError::Checksum(_, Digest::SHA1, exp, act)) => {
            assert_eq!(exp, "bogus");
            assert_eq!(act, sha1);
        }
        other => panic!("got {other:?}"),
    }

    /* Missing entries are reported without touching the file. */
    assert!(matches!(
        e2.verify_size(&gone),
        Err(DistinfoError::MissingSize(_))
    ));
    assert!(matches!(
        e2.verify_checksum(&gone, Digest::SHA512),
        Err(DistinfoError::MissingChecksum(_, Digest::SHA512))
    ));
    /* Recorded entries against a nonexistent file are I/O errors. */
    assert!(matches!(e.verify_size(&gone), Err(DistinfoError::Io(_))));
    assert!(matches!(
        e.verify_checksum(&gone, Digest::SHA1),
        Err(DistinfoError::Io(_))
    ));

    /* filetype is what selects patch hashing, not the path given. */
    let pfile = dir.join("renamed.txt");
    fs::write(&pfile, b"$NetBSD$\nx\n").unwrap();
    let px = Digest::SHA256.hash_str("x\n").unwrap();
    let pe = Entry::new(
        "patch-x",
        &pfile,
        vec![Checksum::new(Digest::SHA256, px.clone())],
        None,
    );
    assert_eq!(pe.filetype, EntryType::Patchfile);
    assert!(pe.verify_checksum(&pfile, Digest::SHA256).is_ok());
    let mut de = pe.clone();
    de.filetype = EntryType::Distfile;
    assert!(matches!(
        de.verify_checksum(&pfile, Digest::SHA256),
        Err(DistinfoError::Checksum(_, _, _, _))
    ));
    let _ = fs::remove_dir_all(&dir);
}

#[test]
fn subdir_lookup_and_not_found() {
    let dir = scratch("lookup");
    let file = dir.join("a").join("b").join("c.tar.gz");
    fs::create_dir_all(file.parent().unwrap()).unwrap();
    fs::write(&file, b"payload").unwrap();
    let h = Digest::RMD160.hash_str("payload").unwrap();

    for rec in ["c.tar.gz", "b/c.tar.gz", "a/b/c.tar.gz"] {
        let di = Distinfo::from_bytes(
            format!("RMD160 ({rec}) = {h}\nSize ({rec}) = 7 bytes\n").as_bytes(),
        );
        assert_eq!(di.verify_size(&file).unwrap(), 7);
        assert!(di.verify_checksum(&file, Digest::RMD160).is_ok());
        assert_eq!(di.find_entry(&file).unwrap().filename, PathBuf::from(rec));
    }
    /* Shortest recorded trailing sub-path wins. */
    let di = Distinfo::from_bytes(
        format!(
            "RMD160 (b/c.tar.gz) = wrong\nRMD160 (c.tar.gz) = {h}\n\
             Size (a/b/c.tar.gz) = 9 bytes\n"
        )
        .as_bytes(),
    );
    assert!(di.verify_checksum(&file, Digest::RMD160).is_ok());
    assert!(matches!(
        di.verify_size(&file),
        Err(DistinfoError::MissingSize(_))
    ));
    /* Not a trailing sub-path. */
    let di = Distinfo::from_bytes(
        format!("RMD160 (x/c.tar.gz) = {h}\nSize (a/c.tar.gz) = 7 bytes\n")
            .as_bytes(),
    );
    assert!(matches!(di.verify_size(&file), Err(DistinfoError::NotFound)));
    assert!(matches!(
        di.verify_checksum(&file, Digest::RMD160),
        Err(DistinfoError::NotFound)
    ));
    let all = di.verify_checksums(&file);
    assert_eq!(all.len(), 1);
    assert!(matches!(all[0], Err(DistinfoError::NotFound)));
    let _ = fs::remove_dir_all(&dir);
}
