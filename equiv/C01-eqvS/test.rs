/*
 * Behaviour check for the restructured tail of DeweyVersion::new (inverted
 * if/else for letters vs. ignored characters, `idx = idx + n`, swapped `||`).
 * Uses only the public API; passes before and after the change.
 */
use pkgsrc::{Dewey, Pattern};

fn m(pattern: &str, pkg: &str) -> bool {
    Dewey::new(pattern).unwrap().matches(pkg)
}

#[test]
fn separators_are_zero() {
    assert!(m("pkg>=1.0", "pkg-1_0"));
    assert!(m("pkg<=1.0", "pkg-1_0"));
    assert!(m("pkg>=1_", "pkg-1."));
    assert!(m("pkg<=1_", "pkg-1."));
    assert!(m("pkg>=1", "pkg-1._._"));
    assert!(m("pkg<=1", "pkg-1._._"));
    assert!(m("pkg>1.", "pkg-1.1"));
}

#[test]
fn letters_are_zero_then_rank_case_insensitive() {
    assert!(m("pkg>1.0", "pkg-1.0a"));
    assert!(m("pkg>1.0a", "pkg-1.0b"));
    assert!(!m("pkg>1.0b", "pkg-1.0a"));
    assert!(m("pkg>=1.0A", "pkg-1.0a"));
    assert!(m("pkg<=1.0A", "pkg-1.0a"));
    assert!(m("pkg<1.0z", "pkg-1.0Y"));
    /* a letter reads as 0 followed by a positive number */
    assert!(m("pkg>1.0.1", "pkg-1.0a"));
    assert!(m("pkg>1.0.0", "pkg-1.0a"));
    assert!(m("pkg<1.1", "pkg-1.0a"));
    assert!(m("pkg<1a", "pkg-1.5"));
    /* single n / p / r / b are plain letters, not modifiers */
    assert!(m("pkg>1n", "pkg-1p"));
    assert!(m("pkg<1r", "pkg-1rc"));
    assert!(m("pkg<1b", "pkg-1beta"));
}

#[test]
fn other_characters_are_ignored() {
    assert!(m("pkg>=1.0", "pkg-1\u{e9}.\u{4e16}0"));
    assert!(m("pkg<=1.0", "pkg-1\u{e9}.\u{4e16}0"));
    assert!(m("pkg>=1.0", "pkg-1+.~0!"));
    assert!(m("pkg<=1.0", "pkg-1+.~0!"));
    assert!(m("pkg>=", "pkg-\u{1f600}\u{1f600}"));
    assert!(m("pkg<=", "pkg-\u{1f600}\u{1f600}"));
    assert!(m("pkg>=\u{e9}1", "pkg-1"));
    assert!(m("pkg<=\u{e9}1", "pkg-1"));
    /* non-ASCII letters are not letters for this purpose */
    assert!(m("pkg<=1", "pkg-1\u{3b1}"));
    assert!(m("pkg>=1", "pkg-1\u{3b1}"));
    /* U+212A KELVIN SIGN is not lower-cased to k by to_ascii_lowercase */
    assert!(m("pkg<=1", "pkg-1\u{212a}"));
}

#[test]
fn empty_and_long() {
    assert!(m("pkg>=", "pkg-"));
    assert!(m("pkg<=", "pkg-"));
    let long = format!("pkg-1{}", ".0".repeat(2000));
    assert!(m("pkg>=1", &long));
    assert!(m("pkg<=1", &long));
    let long2 = format!("pkg-1{}x", "\u{e9}".repeat(2000));
    assert!(m("pkg>1", &long2));
    assert!(m("pkg>1.1", &long2));
    assert!(m("pkg<1.0.1", &long2.replace("x", "")));
    assert!(m("pkg>=1x", &long2));
    assert!(m("pkg<=1x", &long2));
}

#[test]
fn through_pattern_best_match() {
    let p = Pattern::new("pkg>=1").unwrap();
    assert_eq!(p.best_match("pkg-1.0a", "pkg-1.0B"), Some("pkg-1.0B"));
    assert_eq!(p.best_match("pkg-1_0", "pkg-1.0"), Some("pkg-1.0"));
    assert_eq!(p.best_match("pkg-1.0\u{e9}", "pkg-1.0"), Some("pkg-1.0"));
    assert_eq!(p.best_match("pkg-1.0a", "pkg-1.0.1"), Some("pkg-1.0a"));
    assert_eq!(p.best_match("pkg-1.0a", "pkg-1.1"), Some("pkg-1.1"));
}
