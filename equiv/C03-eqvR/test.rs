/*
 * Behaviour check for the rename of the two length locals and the moved
 * `Ordering::Equal` arm in dewey_cmp.  Public API only; passes before and
 * after the change.
 */
use pkgsrc::Dewey;

const OPS: [&str; 4] = [">", ">=", "<", "<="];

/* verdicts of `a OP b` for OP in > >= < <=, a as the package version */
fn verdicts(a: &str, b: &str) -> [bool; 4] {
    let mut out = [false; 4];
    for (i, op) in OPS.iter().enumerate() {
        let d = Dewey::new(&format!("pkg{op}{b}")).unwrap();
        out[i] = d.matches(&format!("pkg-{a}"));
    }
    out
}

const GT: [bool; 4] = [true, true, false, false];
const LT: [bool; 4] = [false, false, true, true];
const EQ: [bool; 4] = [false, true, false, true];

#[test]
fn equal_length() {
    assert_eq!(verdicts("1.2", "1.2"), EQ);
    assert_eq!(verdicts("1.3", "1.2"), GT);
    assert_eq!(verdicts("1.2", "1.3"), LT);
    assert_eq!(verdicts("", ""), EQ);
    assert_eq!(verdicts("1.2nb1", "1.2"), GT);
    assert_eq!(verdicts("1.2", "1.2nb1"), LT);
    assert_eq!(verdicts("1.2nb3", "1.2nb3"), EQ);
    assert_eq!(verdicts("1.2nb9", "1.3nb1"), LT);
}

#[test]
fn left_shorter() {
    assert_eq!(verdicts("1", "1.0.0"), EQ);
    assert_eq!(verdicts("1", "1.0.1"), LT);
    assert_eq!(verdicts("1", "1.0alpha"), GT);
    assert_eq!(verdicts("1nb1", "1.0.0"), GT);
    assert_eq!(verdicts("1", "1.0.0nb1"), LT);
    assert_eq!(verdicts("", "0"), EQ);
    assert_eq!(verdicts("", "rc"), GT);
    assert_eq!(verdicts("", "a"), LT);
}

#[test]
fn left_longer() {
    assert_eq!(verdicts("1.0.0", "1"), EQ);
    assert_eq!(verdicts("1.0.1", "1"), GT);
    assert_eq!(verdicts("1.0alpha", "1"), LT);
    assert_eq!(verdicts("1.0.0", "1nb1"), LT);
    assert_eq!(verdicts("1.0.0nb1", "1"), GT);
    assert_eq!(verdicts("0", ""), EQ);
    assert_eq!(verdicts("rc", ""), LT);
    assert_eq!(verdicts("a", ""), GT);
}

#[test]
fn laws_on_a_small_grid() {
    let vs = [
        "", "0", "1", "1.0", "1.0.0", "1.0.1", "1.0alpha", "1.0beta2",
        "1.0rc1", "1.0pl1", "1.0a", "1.0B", "1nb1", "1.0nb2", "1_0",
        "\u{e9}", "1\u{e9}.0", "99999999999999999999999", "2.", "..",
    ];
    for a in vs {
        assert_eq!(verdicts(a, a), EQ, "{a:?}");
        for b in vs {
            let ab = verdicts(a, b);
            let ba = verdicts(b, a);
            assert!(ab == GT || ab == LT || ab == EQ, "{a:?} {b:?}");
            /* swapping sides mirrors the verdict */
            assert_eq!([ab[2], ab[3], ab[0], ab[1]], ba, "{a:?} {b:?}");
            for c in vs {
                if ab[3] && verdicts(b, c)[3] {
                    assert!(verdicts(a, c)[3], "{a:?} {b:?} {c:?}");
                }
            }
        }
    }
}
