/*
 * Behaviour check for Plist::from_bytes / PlistEntry::from_bytes (public API
 * only).  Passes before and after the control-flow refactoring of
 * PlistEntry::from_bytes (inverted file/command test, argument whitespace
 * skipping loop, @ignore argument check).
 */
use pkgsrc::plist::{Plist, PlistEntry, PlistError, PlistOption};
use std::ffi::{OsStr, OsString};
use std::os::unix::ffi::OsStrExt;

fn os(b: &[u8]) -> OsString {
    OsStr::from_bytes(b).to_os_string()
}

fn is_ws(b: u8) -> bool {
    matches!(b, 0x09..=0x0d | 0x20)
}

/* One entry per line holding a non-whitespace byte, each parsed on its own. */
fn model(bytes: &[u8]) -> Vec<PlistEntry> {
    bytes
        .split(|b| *b == b'\n')
        .filter(|l| l.iter().any(|b| !is_ws(*b)))
        .map(|l| PlistEntry::from_bytes(l).unwrap())
        .collect()
}

fn check(bytes: &[u8]) {
    let want = format!("Plist {{ entries: {:?} }}", model(bytes));
    let got = format!("{:?}", Plist::from_bytes(bytes).unwrap());
    assert_eq!(got, want, "input {:?}", bytes);
}

const LINES: &[&[u8]] = &[
    b"a",
    b"bin/foo",
    b"  indented/file",
    b"\tshare/caf\xc3\xa9",
    b"lib/latin1-\xe9\xff",
    b"file with spaces  ",
    b"@name pkg-1.0",
    b"@comment",
    b"@comment  $NetBSD$ \xff",
    b"@cwd /opt/pkg",
    b"@src /a b",
    b"@cd \xfe",
    b"@exec echo %D/%F",
    b"@unexec rm -f \xe9",
    b"@option preserve",
    b"@mode",
    b"@mode 0644",
    b"@owner",
    b"@owner r\xc3\xb6\xc3\xb6t",
    b"@group",
    b"@group wheel",
    b"@ignore",
    b"@pkgdep dep>=1.0",
    b"@blddep bld-[0-9]*",
    b"@pkgcfl cfl<2",
    b"@pkgdir share/x",
    b"@dirrm share/y",
    b"@display MESSAGE",
    b"",
    b" ",
    b"\t \r",
    b"\x0b\x0c",
    b"\xa0",
    b"\x85",
];

#[test]
fn one_entry_per_nonblank_line() {
    /* every single line, with and without final newline */
    for l in LINES {
        check(l);
        let mut v = l.to_vec();
        v.push(b'\n');
        check(&v);
        v.push(b'\n');
        check(&v);
        let mut w = b"\n".to_vec();
        w.extend_from_slice(l);
        check(&w);
    }
    /* every ordered pair of lines, with and without final newline */
    for a in LINES {
        for b in LINES {
            let mut v = a.to_vec();
            v.push(b'\n');
            v.extend_from_slice(b);
            check(&v);
            v.push(b'\n');
            check(&v);
        }
    }
    /* all lines together */
    let all = LINES.join(&b'\n');
    check(&all);
    assert_eq!(model(&all).len(), LINES.len() - 4);
    check(b"");
    check(b"\n");
    check(b"\n\n\n");
    assert_eq!(Plist::from_bytes(b"").unwrap(), Plist::new());
}

#[test]
fn entries_keep_arguments_exactly() {
    assert_eq!(PlistEntry::from_bytes(b"a").unwrap(), PlistEntry::File(os(b"a")));
    assert_eq!(PlistEntry::from_bytes(b" a b ").unwrap(), PlistEntry::File(os(b" a b ")));
    assert_eq!(
        PlistEntry::from_bytes(b"@cwd   \t /x\xff y ").unwrap(),
        PlistEntry::Cwd(os(b"/x\xff y "))
    );
    assert_eq!(
        PlistEntry::from_bytes(b"@comment  hi  there").unwrap(),
        PlistEntry::Comment(Some(os(b"hi  there")))
    );
    assert_eq!(PlistEntry::from_bytes(b"@comment").unwrap(), PlistEntry::Comment(None));
    assert_eq!(PlistEntry::from_bytes(b"@comment ").unwrap(), PlistEntry::Comment(None));
    assert_eq!(PlistEntry::from_bytes(b"@comment   ").unwrap(), PlistEntry::Comment(None));
    assert_eq!(
        PlistEntry::from_bytes("@name caf\u{e9}-1.0".as_bytes()).unwrap(),
        PlistEntry::Name("caf\u{e9}-1.0".to_string())
    );
    assert_eq!(PlistEntry::from_bytes(b"@mode").unwrap(), PlistEntry::Mode(None));
    assert_eq!(
        PlistEntry::from_bytes(b"@mode  0755").unwrap(),
        PlistEntry::Mode(Some("0755".to_string()))
    );
    assert_eq!(
        PlistEntry::from_bytes(b"@option preserve").unwrap(),
        PlistEntry::PkgOpt(PlistOption::Preserve)
    );
    assert_eq!(PlistEntry::from_bytes(b"@ignore").unwrap(), PlistEntry::Ignore);
    assert_eq!(PlistEntry::from_bytes(b"@ignore ").unwrap(), PlistEntry::Ignore);
    let long = vec![b'x'; 100_000];
    assert_eq!(PlistEntry::from_bytes(&long).unwrap(), PlistEntry::File(os(&long)));
}

#[test]
fn errors_are_errors() {
    let unsupported: &[&[u8]] = &[b"@", b"@foo", b"@foo bar", b"@option other", b"@NAME x", b"@\xff x"];
    for l in unsupported {
        assert!(
            matches!(PlistEntry::from_bytes(l), Err(PlistError::UnsupportedCommand(_))),
            "{:?}",
            l
        );
        let mut v = b"bin/ok\n".to_vec();
        v.extend_from_slice(l);
        v.extend_from_slice(b"\nbin/after\n");
        assert!(matches!(Plist::from_bytes(&v), Err(PlistError::UnsupportedCommand(_))));
    }
    let incorrect: &[&[u8]] = &[
        b"@name", b"@name ", b"@cwd", b"@cwd   ", b"@exec", b"@unexec", b"@option", b"@pkgdep",
        b"@blddep", b"@pkgcfl", b"@pkgdir", b"@dirrm", b"@display", b"@ignore x", b"@option \xff",
    ];
    for l in incorrect {
        match PlistEntry::from_bytes(l) {
            Err(PlistError::IncorrectArguments(s)) => assert_eq!(s, os(l)),
            other => panic!("{:?} -> {:?}", l, other),
        }
        let mut v = l.to_vec();
        v.push(b'\n');
        assert!(matches!(Plist::from_bytes(&v), Err(PlistError::IncorrectArguments(_))));
        assert!(matches!(Plist::from_bytes(l), Err(PlistError::IncorrectArguments(_))));
    }
    let utf8: &[&[u8]] = &[b"@name \xff", b"@pkgdep a\xe9", b"@mode \xff", b"@owner \xc3", b"@group \x80"];
    for l in utf8 {
        assert!(matches!(PlistEntry::from_bytes(l), Err(PlistError::Utf8(_))), "{:?}", l);
    }
    match PlistEntry::from_bytes(b"@foo bar") {
        Err(PlistError::UnsupportedCommand(s)) => assert_eq!(s, os(b"@foo")),
        other => panic!("{:?}", other),
    }
    /* first error wins */
    assert!(matches!(
        Plist::from_bytes(b"@name\n@foo\n"),
        Err(PlistError::IncorrectArguments(_))
    ));
}

#[test]
fn argument_leading_whitespace_skipping() {
    /* Only ASCII whitespace after the command is skipped, the rest is kept. */
    let cases: &[(&[u8], &[u8])] = &[
        (b"@exec x", b"x"),
        (b"@exec  x", b"x"),
        (b"@exec \t\r\x0b\x0c x \t", b"x \t"),
        (b"@exec \xa0x", b"\xa0x"),
        (b"@exec  \x85 x", b"\x85 x"),
        (b"@exec \xc2\xa0x", b"\xc2\xa0x"),
        (b"@exec \x1fx", b"\x1fx"),
        (b"@exec \x00", b"\x00"),
    ];
    for (line, arg) in cases {
        assert_eq!(
            PlistEntry::from_bytes(line).unwrap(),
            PlistEntry::Exec(os(arg)),
            "{:?}",
            line
        );
    }
    /* A tab directly after the command is part of the command word. */
    assert!(matches!(
        PlistEntry::from_bytes(b"@exec\tx"),
        Err(PlistError::UnsupportedCommand(_))
    ));
    /* Lines not starting with '@' are files whatever they contain. */
    for l in [&b"x @name y"[..], &b" @name y"[..], &b"\xff@"[..], &b"a"[..], &b" "[..]] {
        assert_eq!(PlistEntry::from_bytes(l).unwrap(), PlistEntry::File(os(l)));
    }
    assert_eq!(PlistEntry::from_bytes(b"").unwrap(), PlistEntry::File(os(b"")));
    for l in [&b"@ignore x"[..], &b"@ignore  \xff"[..]] {
        match PlistEntry::from_bytes(l) {
            Err(PlistError::IncorrectArguments(s)) => assert_eq!(s, os(l)),
            other => panic!("{:?}", other),
        }
    }
    assert_eq!(PlistEntry::from_bytes(b"@ignore   ").unwrap(), PlistEntry::Ignore);
}
