use pkgsrc::{Depend, DependError, Pattern, PkgPath, PkgPathError};
use std::path::Path;

#[derive(Clone, Copy, PartialEq)]
enum Seg {
    Up,
    Name,
}

// Independent model: what the component list of `s` looks like, or None if
// it has a root / leading "." component.
fn model(s: &str) -> Option<Vec<(Seg, String)>> {
    if s.starts_with('/') {
        return None;
    }
    let mut out = vec![];
    for (i, seg) in s.split('/').enumerate() {
        match seg {
            "" => {}
            "." => {
                if i == 0 {
                    return None;
                }
            }
            ".." => out.push((Seg::Up, seg.to_string())),
            n => out.push((Seg::Name, n.to_string())),
        }
    }
    Some(out)
}

fn expected(s: &str) -> Option<String> {
    let m = model(s)?;
    let kinds: Vec<Seg> = m.iter().map(|x| x.0).collect();
    if kinds == [Seg::Name, Seg::Name] {
        Some(format!("{}/{}", m[0].1, m[1].1))
    } else if kinds == [Seg::Up, Seg::Up, Seg::Name, Seg::Name] {
        Some(format!("{}/{}", m[2].1, m[3].1))
    } else {
        None
    }
}

fn all_inputs() -> Vec<String> {
    let segs = ["..", ".", "foo", "b-r", "", ".. ", "..."];
    let mut out = vec![String::new()];
    let mut layer = vec![String::new()];
    for depth in 0..6 {
        let mut next = vec![];
        for prefix in &layer {
            for s in segs {
                let v = if depth == 0 {
                    s.to_string()
                } else {
                    format!("{prefix}/{s}")
                };
                next.push(v);
            }
        }
        out.extend(next.iter().cloned());
        // keep the enumeration tractable: full product up to 5 segments,
        // then only extend a sample.
        if depth >= 4 {
            next.truncate(2000);
        }
        layer = next;
    }
    let rooted: Vec<String> = out.iter().take(400).map(|s| format!("/{s}")).collect();
    out.extend(rooted);
    out
}

#[test]
fn pkgpath_matches_model_on_all_segment_sequences() {
    let mut accepted = 0;
    for s in all_inputs() {
        let got = PkgPath::new(&s);
        assert_eq!(got, s.parse::<PkgPath>(), "{s:?}");
        match expected(&s) {
            None => assert_eq!(got, Err(PkgPathError::InvalidPath), "{s:?}"),
            Some(short) => {
                accepted += 1;
                let p = got.unwrap_or_else(|_| panic!("{s:?} should be accepted"));
                let full = format!("../../{short}");
                assert_eq!(p.as_path(), Path::new(&short), "{s:?}");
                assert_eq!(p.as_full_path(), Path::new(&full), "{s:?}");
                assert_eq!(p.as_path().components().count(), 2, "{s:?}");
                assert_eq!(p.as_full_path().components().count(), 4, "{s:?}");
                assert_eq!(p, PkgPath::new(&short).unwrap(), "{s:?}");
                assert_eq!(p, PkgPath::new(&full).unwrap(), "{s:?}");
                // re-parse the accessors' own output
                let a = p.as_path().to_str().unwrap();
                let b = p.as_full_path().to_str().unwrap();
                assert_eq!(PkgPath::new(a).unwrap(), p, "{s:?}");
                assert_eq!(PkgPath::new(b).unwrap(), p, "{s:?}");
            }
        }
    }
    assert!(accepted > 50);
}

#[test]
fn pkgpath_exact_strings() {
    // The stored spelling of the accessors, not only their component view.
    let p = PkgPath::new("foo/bar").unwrap();
    assert_eq!(p.as_path().to_str(), Some("foo/bar"));
    assert_eq!(p.as_full_path().to_str(), Some("../../foo/bar"));
    let p = PkgPath::new("../../foo/bar").unwrap();
    assert_eq!(p.as_path().to_str(), Some("foo/bar"));
    assert_eq!(p.as_full_path().to_str(), Some("../../foo/bar"));
    let p = PkgPath::new("foo//bar/").unwrap();
    assert_eq!(p.as_path().to_str(), Some("foo//bar/"));
    assert_eq!(p.as_full_path().to_str(), Some("../../foo//bar/"));
    let p = PkgPath::new("..//.././foo//bar/.").unwrap();
    assert_eq!(p.as_path().to_str(), Some("foo/bar"));
    assert_eq!(p.as_full_path().to_str(), Some("..//.././foo//bar/."));
    assert_eq!(format!("{:?}", PkgPath::new("a/b").unwrap()),
               format!("{:?}", PkgPath::new("../../a/b").unwrap()));
}

#[test]
fn depend_combinations() {
    let pats = [("pkg-[0-9]*", true), ("pkg>=1.0<2", true), ("pkg>2>3", false), ("{a,b}-1.0", true)];
    let paths = [
        ("cat/pkg", true),
        ("../../cat/pkg", true),
        ("cat//pkg/", true),
        ("cat", false),
        ("../cat/pkg", false),
        ("./cat/pkg", false),
        ("", false),
    ];
    for (pat, pat_ok) in pats {
        assert_eq!(Pattern::new(pat).is_ok(), pat_ok, "{pat}");
        for (path, path_ok) in paths {
            assert_eq!(PkgPath::new(path).is_ok(), path_ok, "{path}");
            let s = format!("{pat}:{path}");
            let d = Depend::new(&s);
            assert_eq!(d.is_ok(), s.parse::<Depend>().is_ok());
            if !pat_ok {
                assert!(matches!(d, Err(DependError::Pattern(_))), "{s}");
            } else if !path_ok {
                assert!(matches!(d, Err(DependError::PkgPath(_))), "{s}");
            } else {
                let d = d.unwrap();
                assert_eq!(d.pattern(), &Pattern::new(pat).unwrap(), "{s}");
                assert_eq!(d.pkgpath(), &PkgPath::new(path).unwrap(), "{s}");
                assert_eq!(d.pkgpath().as_path(), Path::new("cat/pkg"));
                assert_eq!(d.pkgpath().as_full_path(), Path::new("../../cat/pkg"));
            }
            for bad in [
                format!("{pat}{path}"),
                format!("{pat}::{path}"),
                format!("{pat}:{path}:"),
                format!(":{pat}:{path}"),
                format!("{pat}:{path}:{path}"),
                format!("{pat}:::{path}"),
            ] {
                if bad.matches(':').count() != 1 {
                    assert!(matches!(Depend::new(&bad), Err(DependError::Invalid)), "{bad}");
                }
            }
        }
    }
}
