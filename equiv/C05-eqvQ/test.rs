/*
 * Behaviour documentation for Pattern::new() dispatch of glob/plain patterns
 * and for the two-character early rejection inside Pattern::matches().
 */
use pkgsrc::{Pattern, PatternError};

fn m(pattern: &str, pkg: &str) -> bool {
    Pattern::new(pattern).unwrap().matches(pkg)
}

#[test]
fn plain_patterns_match_only_identical_strings() {
    assert!(m("foo-1.0", "foo-1.0"));
    assert!(!m("foo-1.0", "foo-1.0 "));
    assert!(!m("foo-1.0", "Foo-1.0"));
    assert!(!m("foo-1.0", "fOo-1.0"));
    assert!(!m("foo-1.0", "goo-1.0"));
    assert!(!m("foo-1.0", "fpo-1.0"));
    assert!(!m("foo-1.0", "fo"));
    assert!(!m("foo-1.0", "f"));
    assert!(!m("foo-1.0", ""));
    assert!(m("", ""));
    assert!(!m("", "a"));
    assert!(m("a", "a"));
    assert!(!m("a", "b"));
    assert!(!m("a", ""));
    assert!(!m("a", "ab"));
    assert!(m("ab", "ab"));
    assert!(!m("ab", "a"));
    assert!(!m("ab", "ac"));
    assert!(m(".a", ".a"));
    assert!(!m(".a", "_a"));
    assert!(m("é1", "é1"));
    assert!(!m("é1", "e1"));
    assert!(m("aé", "aé"));
    assert!(!m("aé", "ae"));
}

#[test]
fn glob_dispatch_on_each_metacharacter() {
    assert!(m("foo-*", "foo-1.0"));
    assert!(m("foo-?", "foo-1"));
    assert!(!m("foo-?", "foo-"));
    assert!(!m("foo-?", "foo-12"));
    assert!(m("foo-[0-9]", "foo-1"));
    assert!(!m("foo-[!0-9]", "foo-1"));
    assert!(m("foo-[!0-9]", "foo-a"));
    /* A lone ']' still dispatches to the glob matcher. */
    assert!(m("foo]", "foo]"));
    assert!(!m("foo]", "foo"));
    assert!(matches!(Pattern::new("foo-[0-9"), Err(PatternError::Glob(_))));
    assert!(matches!(Pattern::new("foo-***"), Err(PatternError::Glob(_))));
    assert!(matches!(Pattern::new("["), Err(PatternError::Glob(_))));
    /* Case sensitive, whole name. */
    assert!(!m("foo-*", "Foo-1"));
    assert!(!m("foo-[0-9]", "xfoo-1"));
    assert!(!m("foo-[0-9]", "foo-1x"));
}

#[test]
fn metacharacters_in_the_first_two_positions() {
    assert!(m("*", ""));
    assert!(m("*", "anything-1.0"));
    assert!(m("?", "x"));
    assert!(!m("?", ""));
    assert!(!m("?", "xy"));
    assert!(m("?oo-*", "foo-1"));
    assert!(m("f?o-*", "foo-1"));
    assert!(!m("f?o-*", "goo-1"));
    assert!(m("f*", "f"));
    assert!(!m("f*", ""));
    assert!(!m("f*", "g"));
    assert!(m("[fg]oo", "goo"));
    assert!(!m("[fg]oo", "hoo"));
    assert!(m("f[aeiou]o", "foo"));
    assert!(!m("f[aeiou]o", "fxo"));
    assert!(m("fo*", "fo"));
    assert!(!m("fo*", "f"));
    assert!(!m("fo*", "fa"));
    assert!(!m("fo*", "go"));
    assert!(m("-*", "-x"));
    assert!(!m("-*", "x"));
    assert!(m("*é", "é"));
    assert!(m("?", "é"));
}

#[test]
fn other_pattern_kinds_are_not_affected_by_the_shortcut() {
    assert!(m("f>=1", "f-1"));
    assert!(!m("f>=1", "g-1"));
    assert!(m("fo>=1", "fo-1"));
    assert!(!m("fo>=1", "fa-1"));
    assert!(!m("fo>=1", "f"));
    assert!(m("{foo,bar}-[0-9]*", "bar-1"));
    assert!(m("f{oo,ee}-[0-9]*", "fee-1"));
    assert!(!m("f{oo,ee}-[0-9]*", "gee-1"));
    assert!(m("fo{o,e}-[0-9]*", "foe-1"));
    assert!(!m("fo{o,e}-[0-9]*", "fxe-1"));
}

/*
 * Second-character decisions: the verdict of the shortcut's last comparison
 * is the verdict of the function.
 */
#[test]
fn second_character_boundary() {
    assert!(m("ab*", "ab"));
    assert!(m("ab*", "abc"));
    assert!(!m("ab*", "ac"));
    assert!(!m("ab*", "a"));
    assert!(!m("ab*", "aé"));
    assert!(m("a-*", "a-1"));
    assert!(!m("a-*", "a_1"));
    assert!(m("a.*", "a.1"));
    assert!(!m("a.*", "ab1"));
    assert!(m("9z?", "9zz"));
    assert!(!m("9z?", "9Zz"));
}

#[test]
fn best_match_uses_matches() {
    let p = Pattern::new("foo-[0-9]*").unwrap();
    assert_eq!(p.best_match("foo-1.0", "foo-1.1"), Some("foo-1.1"));
    assert_eq!(p.best_match("foo-1.0", "goo-1.1"), Some("foo-1.0"));
    assert_eq!(p.best_match("fo", "f"), None);
    let p = Pattern::new("foo>=1").unwrap();
    assert_eq!(p.best_match("foo-1.0", "foo-0.9"), Some("foo-1.0"));
    assert_eq!(p.best_match("", "foo-2"), Some("foo-2"));
}
