/*
 * Behaviour documentation for distinfo line parsing as seen through
 * Distinfo::from_bytes: accepted and rejected line shapes.
 */
use pkgsrc::digest::Digest;
use pkgsrc::distinfo::Distinfo;
use std::ffi::OsStr;
use std::os::unix::ffi::OsStrExt;
use std::path::Path;

#[test]
fn accepted_lines() {
    let mut input: Vec<u8> = Vec::new();
    input.extend_from_slice(b"  $NetBSD: distinfo,v 1.1 j\xf6rg Exp $\n\n");
    input.extend_from_slice(b"# SHA1 (commented.tgz) = 00\n");
    input.extend_from_slice(b"SHA1 (a.tgz) = 11\n");
    input.extend_from_slice(b"\t sha256   (a.tgz)  =  22   trailing junk\n");
    input.extend_from_slice(b"Size (a.tgz) = 18446744073709551615 bytes\n");
    input.extend_from_slice(b"Size (b\xe9.tgz) = 0\n");
    input.extend_from_slice(b"MD5 () = 33\n");
    input.extend_from_slice(b"RMD160 (patch-aa) = 44\n");
    let di = Distinfo::from_bytes(&input);
    assert_eq!(
        di.rcsid().map(|s| s.as_bytes().to_vec()),
        Some(b"$NetBSD: distinfo,v 1.1 j\xf6rg Exp $".to_vec())
    );
    let a = di.get_distfile("a.tgz").expect("a.tgz");
    assert_eq!(a.size, Some(u64::MAX));
    assert_eq!(a.checksums.len(), 2);
    assert_eq!(a.checksums[0].digest, Digest::SHA1);
    assert_eq!(a.checksums[0].hash, "11");
    assert_eq!(a.checksums[1].digest, Digest::SHA256);
    assert_eq!(a.checksums[1].hash, "22");
    let b = di
        .get_distfile(Path::new(OsStr::from_bytes(b"b\xe9.tgz")))
        .expect("non-UTF-8 name");
    assert_eq!(b.size, Some(0));
    assert!(b.checksums.is_empty());
    let e = di.get_distfile("").expect("empty name");
    assert_eq!(e.checksums[0].digest, Digest::MD5);
    assert_eq!(di.distfiles().len(), 3);
    let p = di.get_patchfile("patch-aa").expect("patch-aa");
    assert_eq!(p.checksums[0].digest, Digest::RMD160);
    assert_eq!(p.size, None);
    assert_eq!(di.patchfiles().len(), 1);
}

#[test]
fn rejected_lines() {
    let lines: Vec<&[u8]> = vec![
        b"",
        b"   ",
        b"#",
        b"$NetBSD$",
        b"SHA1",
        b"SHA1 (a.tgz)",
        b"SHA1 (a.tgz) =",
        b"SHA1 a.tgz = 11",
        b"SHA1 (a.tgz = 11",
        b"SHA1 a.tgz) = 11",
        b"SHA1 ( = 11",
        b"SHA1 ) = 11",
        b"SHA1 (a.tgz) == 11",
        b"SHA1 (a.tgz) : 11",
        b"SHA1 (a b.tgz) = 11",
        b"SHA3 (a.tgz) = 11",
        b"Size (a.tgz) = 18446744073709551616 bytes",
        b"Size (a.tgz) = -1 bytes",
        b"Size (a.tgz) = abc",
        b"size (a.tgz) = 1 bytes",
        b"SH\xe91 (a.tgz) = 11",
        b"SHA1 (a.tgz) = 1\xe91",
    ];
    for l in lines {
        let di = Distinfo::from_bytes(l);
        assert!(di.rcsid().is_none(), "{:?}", l);
        assert!(di.distfiles().is_empty(), "{:?}", l);
        assert!(di.patchfiles().is_empty(), "{:?}", l);
    }
}

#[test]
fn single_paren_token() {
    /* "()" yields an empty name, "(x)" the name "x". */
    let di = Distinfo::from_bytes(b"SHA1 () = 1\nSHA1 (x) = 2\n");
    assert_eq!(di.distfiles().len(), 2);
    assert_eq!(di.get_distfile("x").unwrap().checksums[0].hash, "2");
}
