/*
 * Behaviour documentation for the version comparison reached through
 * Dewey::matches(): verdicts for equal-length, shorter and longer versions
 * on either side, for all four operators.
 */
use pkgsrc::Dewey;

fn verdicts(pat_ver: &str, pkg_ver: &str) -> [bool; 4] {
    let pkg = format!("pkg-{}", pkg_ver);
    let mut out = [false; 4];
    for (i, op) in ["<", "<=", ">=", ">"].iter().enumerate() {
        let m = Dewey::new(&format!("pkg{}{}", op, pat_ver)).unwrap();
        out[i] = m.matches(&pkg);
    }
    out
}

const LT: [bool; 4] = [true, true, false, false];
const EQ: [bool; 4] = [false, true, true, false];
const GT: [bool; 4] = [false, false, true, true];

#[test]
fn equal_length() {
    assert_eq!(verdicts("1.0", "1.0"), EQ);
    assert_eq!(verdicts("1.1", "1.0"), LT);
    assert_eq!(verdicts("1.0", "1.1"), GT);
    assert_eq!(verdicts("", ""), EQ);
    assert_eq!(verdicts("1.0nb2", "1.0nb1"), LT);
    assert_eq!(verdicts("1.0nb1", "1.0nb2"), GT);
    assert_eq!(verdicts("1.0A", "1.0a"), EQ);
}

#[test]
fn package_shorter_than_pattern() {
    assert_eq!(verdicts("1.0.0", "1"), EQ);
    assert_eq!(verdicts("1.0.1", "1"), LT);
    assert_eq!(verdicts("1.0alpha", "1"), GT);
    assert_eq!(verdicts("1.0.0nb3", "1nb2"), LT);
    assert_eq!(verdicts("1.0.0nb1", "1nb2"), GT);
    assert_eq!(verdicts("...", ""), EQ);
    assert_eq!(verdicts("2", "1.5.5"), LT);
}

#[test]
fn package_longer_than_pattern() {
    assert_eq!(verdicts("1", "1.0.0"), EQ);
    assert_eq!(verdicts("1", "1.0.1"), GT);
    assert_eq!(verdicts("1", "1.0alpha"), LT);
    assert_eq!(verdicts("1nb2", "1.0.0nb3"), GT);
    assert_eq!(verdicts("1nb2", "1.0.0nb1"), LT);
    assert_eq!(verdicts("", "___"), EQ);
    assert_eq!(verdicts("1.5.5", "2"), GT);
}

#[test]
fn unusual_text() {
    /* Non-ASCII characters are ignored. */
    assert_eq!(verdicts("1é0", "1.0"), EQ);
    assert_eq!(verdicts("1é1", "1.0"), LT);
    assert_eq!(verdicts("é", ""), EQ);
    assert_eq!(verdicts("1.0", "1.0日本"), EQ);
    /* Over-long digit runs saturate to the same value. */
    assert_eq!(
        verdicts("99999999999999999999", "9223372036854775807"),
        EQ
    );
    assert_eq!(
        verdicts("99999999999999999999", "9223372036854775806"),
        LT
    );
    assert_eq!(verdicts("1.0", "1!0"), EQ);
    assert_eq!(verdicts("1.1", "1!0"), LT);
}

#[test]
fn two_bounds_are_the_conjunction() {
    for (lo, hi) in [("1.0", "2"), ("1", "1.0.0"), ("2", "1"), ("", "0nb1")] {
        for v in ["0", "1", "1.0.0", "1.0alpha", "1.5", "2", "2.0.1", "", "0nb1"] {
            let pkg = format!("pkg-{}", v);
            let both = Dewey::new(&format!("pkg>={}<{}", lo, hi)).unwrap();
            let a = Dewey::new(&format!("pkg>={}", lo)).unwrap();
            let b = Dewey::new(&format!("pkg<{}", hi)).unwrap();
            assert_eq!(both.matches(&pkg), a.matches(&pkg) && b.matches(&pkg));
        }
    }
}

#[test]
fn name_must_match() {
    let m = Dewey::new("pkg>=1").unwrap();
    assert!(!m.matches("other-2"));
    assert!(!m.matches("pkg"));
    assert!(m.matches("pkg-2"));
}
