use pkgsrc::Pattern;

fn m(pattern: &str, name: &str) -> bool {
    Pattern::new(pattern).unwrap().matches(name)
}

#[test]
fn glob_patterns() {
    let yes = [
        ("*", ""),
        ("*", "x"),
        ("*", "foo-1.0"),
        ("?", "x"),
        ("?", "é"),
        ("a*", "a"),
        ("a*", "ab"),
        ("ab*", "ab"),
        ("ab*", "abc"),
        ("a?", "ab"),
        ("[a-z]*", "q"),
        ("[!0-9]*", "q1"),
        ("a[bc]*", "ab"),
        ("foo-[0-9]*", "foo-1.0"),
        ("foo-[0-9]*", "foo-1.0-rc1"),
        ("fo?-[0-9]*", "foo-1.0"),
        ("?oo-[0-9]*", "foo-1.0"),
        ("*oo-[0-9]*", "foo-1.0"),
        ("-*", "-"),
        ("-a*", "-a1"),
        ("é*", "été"),
        ("aé*", "aét"),
        ("A*", "Ab"),
    ];
    for (p, n) in yes {
        assert!(m(p, n), "{p:?} should match {n:?}");
    }
    let no = [
        ("?", ""),
        ("?", "xy"),
        ("a*", ""),
        ("a*", "b"),
        ("a*", "A"),
        ("A*", "ab"),
        ("ab*", "a"),
        ("ab*", "ac"),
        ("ab*", "bb"),
        ("ab*", ""),
        ("a?", "a"),
        ("a?", "b1"),
        ("[a-z]*", ""),
        ("[a-z]*", "1"),
        ("a[bc]*", "ad"),
        ("a[bc]*", "a"),
        ("foo-[0-9]*", "foo-"),
        ("foo-[0-9]*", "goo-1.0"),
        ("foo-[0-9]*", "fpo-1.0"),
        ("foo-[0-9]*", "f"),
        ("boo-[0-9]*", "foo-1.0"),
        ("é*", "e"),
        ("aé*", "ae"),
        ("aé*", "a"),
    ];
    for (p, n) in no {
        assert!(!m(p, n), "{p:?} should not match {n:?}");
    }
}

#[test]
fn plain_patterns() {
    assert!(m("foo-1.0", "foo-1.0"));
    assert!(!m("foo-1.0", "goo-1.0"));
    assert!(!m("foo-1.0", "fpo-1.0"));
    assert!(!m("foo-1.0", "foo-1.1"));
    assert!(!m("foo-1.0", ""));
    assert!(!m("foo-1.0", "f"));
    assert!(m("a", "a"));
    assert!(!m("a", "b"));
    assert!(!m("a", ""));
    assert!(!m("a", "ab"));
    assert!(m("ab", "ab"));
    assert!(!m("ab", "a"));
    assert!(!m("ab", "ac"));
    assert!(m("", ""));
    assert!(!m("", "a"));
    assert!(m("été", "été"));
    assert!(!m("été", "ete"));
    assert!(m(".a", ".a"));
    assert!(!m(".a", ".b"));
    assert!(m("a.", "a."));
    assert!(!m("a.", "a"));
    assert!(!m("a.", "b."));
}

#[test]
fn dewey_and_alternate_patterns() {
    assert!(m("foo>=1", "foo-1.0"));
    assert!(!m("foo>=1", "goo-1.0"));
    assert!(!m("foo>=1", "fpo-1.0"));
    assert!(!m("foo>=1", "f"));
    assert!(!m("foo>=1", ""));
    assert!(m("a>0", "a-1"));
    assert!(!m("a>0", "b-1"));
    assert!(!m("a>0", "a"));
    assert!(m("ab>0", "ab-1"));
    assert!(!m("ab>0", "ac-1"));
    assert!(m("{a,b}", "a"));
    assert!(m("{a,b}", "b"));
    assert!(!m("{a,b}", ""));
    assert!(!m("{a,b}", "c"));
    assert!(m("a{b,c}", "ab"));
    assert!(!m("a{b,c}", "a"));
    assert!(!m("a{b,c}", "bb"));
    assert!(m("a{,c}", "a"));
    assert!(m("{foo,bar}-[0-9]*", "bar-1"));
    assert!(!m("{foo,bar}-[0-9]*", "baz-1"));
    assert!(m("xy{foo,bar}>=1", "xybar-2"));
    assert!(!m("xy{foo,bar}>=1", "xzbar-2"));
}

#[test]
fn malformed_patterns_still_rejected() {
    assert!(Pattern::new("foo-[0-9").is_err());
    assert!(Pattern::new("foo-[0-9]***").is_err());
    assert!(Pattern::new("[").is_err());
    assert!(Pattern::new("foo}").is_err());
    assert!(Pattern::new("foo<1>0").is_err());
}
