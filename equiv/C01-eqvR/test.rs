/*
 * Behaviour check for the operand/arm reordering in dewey_cmp/dewey_test.
 * Uses only the public API; passes before and after the change.
 */
use pkgsrc::{Dewey, Pattern};

fn m(pattern: &str, pkg: &str) -> bool {
    Dewey::new(pattern).unwrap().matches(pkg)
}

#[test]
fn all_four_operators_equal_length() {
    assert!(m("pkg>1.2", "pkg-1.3"));
    assert!(!m("pkg>1.2", "pkg-1.2"));
    assert!(m("pkg>=1.2", "pkg-1.2"));
    assert!(!m("pkg>=1.2", "pkg-1.1"));
    assert!(m("pkg<1.2", "pkg-1.1"));
    assert!(!m("pkg<1.2", "pkg-1.2"));
    assert!(m("pkg<=1.2", "pkg-1.2"));
    assert!(!m("pkg<=1.2", "pkg-1.3"));
}

#[test]
fn unequal_length_padding_both_sides() {
    /* package shorter than the bound */
    assert!(m("pkg>=1.0.0", "pkg-1"));
    assert!(m("pkg<=1.0.0", "pkg-1"));
    assert!(!m("pkg>1.0.0", "pkg-1"));
    assert!(!m("pkg<1.0.0", "pkg-1"));
    assert!(m("pkg<1.0.1", "pkg-1"));
    assert!(m("pkg>1.0alpha", "pkg-1"));
    assert!(!m("pkg<1.0alpha", "pkg-1"));
    /* package longer than the bound */
    assert!(m("pkg>=1", "pkg-1.0.0"));
    assert!(m("pkg<=1", "pkg-1.0.0"));
    assert!(m("pkg>1", "pkg-1.0.1"));
    assert!(!m("pkg<=1", "pkg-1.0.1"));
    assert!(m("pkg<1", "pkg-1.0rc1"));
    assert!(!m("pkg>=1", "pkg-1.0rc1"));
}

#[test]
fn pkgrevision_decides_only_on_tie() {
    assert!(m("pkg>1.0", "pkg-1.0nb1"));
    assert!(m("pkg>1", "pkg-1.0.0nb1"));
    assert!(m("pkg>1.0.0", "pkg-1nb1"));
    assert!(!m("pkg>1.0nb2", "pkg-1.0nb2"));
    assert!(m("pkg>=1.0nb2", "pkg-1.0nb2"));
    assert!(m("pkg<1.0nb2", "pkg-1.0nb1"));
    assert!(m("pkg<=1.0nb2", "pkg-1.0nb2"));
    assert!(!m("pkg<1.1nb0", "pkg-1.2nb0"));
    assert!(m("pkg<1.1nb0", "pkg-1.0nb9"));
}

#[test]
fn edge_inputs() {
    assert!(m("pkg>=", "pkg-"));
    assert!(!m("pkg>", "pkg-"));
    assert!(m("pkg<=", "pkg-\u{e9}\u{4e16}"));
    assert!(m("pkg>=1.0", "pkg-1.0\u{e9}"));
    assert!(m("pkg<=1.0", "pkg-1.0\u{e9}"));
    assert!(m("pkg>1A", "pkg-1b"));
    assert!(m("pkg<=1B", "pkg-1b"));
    assert!(m("pkg>=1B", "pkg-1b"));
    assert!(m("pkg>1", "pkg-999999999999999999"));
    assert!(!m("pkg>1", "other-2"));
    assert!(!m("pkg>1", "pkg"));
}

#[test]
fn best_match_uses_same_ordering() {
    let p = Pattern::new("pkg>=1").unwrap();
    assert_eq!(p.best_match("pkg-1.0", "pkg-1.0.1"), Some("pkg-1.0.1"));
    assert_eq!(p.best_match("pkg-1.0.1", "pkg-1.0"), Some("pkg-1.0.1"));
    assert_eq!(p.best_match("pkg-1.0nb1", "pkg-1.0.0"), Some("pkg-1.0nb1"));
    assert_eq!(p.best_match("pkg-1.0", "pkg-1.0.0"), Some("pkg-1.0"));
    assert_eq!(p.best_match("pkg-1.0.0", "pkg-1.0"), Some("pkg-1.0"));
    assert_eq!(p.best_match("pkg-2rc1", "pkg-2"), Some("pkg-2"));
    assert_eq!(p.best_match("pkg-0.5", "pkg-0.1"), None);
    assert_eq!(p.best_match("pkg-0.5", "pkg-3"), Some("pkg-3"));
}
