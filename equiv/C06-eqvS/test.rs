/*
 * Behaviour check for the restructured tie-break chain of
 * Pattern::best_match (`else if LT {..} else if a < b {..} else {..}`
 * rewritten with negated conditions and swapped branches).
 * Public API only; passes before and after the change.
 */
use pkgsrc::Pattern;

fn best<'a>(pattern: &str, a: &'a str, b: &'a str) -> Option<&'a str> {
    Pattern::new(pattern).unwrap().best_match(a, b)
}

#[test]
fn first_is_greater() {
    assert_eq!(best("pkg-[0-9]*", "pkg-2.0", "pkg-1.0"), Some("pkg-2.0"));
    assert_eq!(best("pkg-[0-9]*", "pkg-1.0nb2", "pkg-1.0nb1"), Some("pkg-1.0nb2"));
    assert_eq!(best("pkg-[0-9]*", "pkg-1.0.1", "pkg-1"), Some("pkg-1.0.1"));
    assert_eq!(best("pkg-[0-9]*", "pkg-1", "pkg-1.0rc3"), Some("pkg-1"));
    assert_eq!(best("pkg>=1", "pkg-10", "pkg-9"), Some("pkg-10"));
}

#[test]
fn first_is_less() {
    assert_eq!(best("pkg-[0-9]*", "pkg-1.0", "pkg-2.0"), Some("pkg-2.0"));
    assert_eq!(best("pkg-[0-9]*", "pkg-1.0nb1", "pkg-1.0nb2"), Some("pkg-1.0nb2"));
    assert_eq!(best("pkg-[0-9]*", "pkg-1", "pkg-1.0.1"), Some("pkg-1.0.1"));
    assert_eq!(best("pkg-[0-9]*", "pkg-1.0rc3", "pkg-1"), Some("pkg-1"));
    assert_eq!(best("pkg>=1", "pkg-9", "pkg-10"), Some("pkg-10"));
    /* the less-than branch wins even when the first name is byte-wise smaller */
    assert_eq!(best("{a,b}-[0-9]*", "a-1", "b-2"), Some("b-2"));
    assert_eq!(best("{a,b}-[0-9]*", "b-1", "a-2"), Some("a-2"));
}

#[test]
fn tie_first_name_smaller() {
    assert_eq!(best("pkg-[0-9]*", "pkg-1.0", "pkg-1.0.0"), Some("pkg-1.0"));
    assert_eq!(best("pkg-[0-9]*", "pkg-1.0", "pkg-1_0"), Some("pkg-1.0"));
    assert_eq!(best("pkg-[0-9]*", "pkg-1.0A", "pkg-1.0a"), Some("pkg-1.0A"));
    assert_eq!(best("pkg-[0-9]*", "pkg-1", "pkg-1\u{e9}"), Some("pkg-1"));
    assert_eq!(best("{a,b}-[0-9]*", "a-1", "b-1"), Some("a-1"));
    assert_eq!(best("*", "", "x"), Some(""));
}

#[test]
fn tie_first_name_larger_or_equal() {
    assert_eq!(best("pkg-[0-9]*", "pkg-1.0.0", "pkg-1.0"), Some("pkg-1.0"));
    assert_eq!(best("pkg-[0-9]*", "pkg-1_0", "pkg-1.0"), Some("pkg-1.0"));
    assert_eq!(best("pkg-[0-9]*", "pkg-1.0a", "pkg-1.0A"), Some("pkg-1.0A"));
    assert_eq!(best("pkg-[0-9]*", "pkg-1\u{e9}", "pkg-1"), Some("pkg-1"));
    assert_eq!(best("{a,b}-[0-9]*", "b-1", "a-1"), Some("a-1"));
    assert_eq!(best("*", "x", ""), Some(""));
    /* identical names: the second argument is returned (same text) */
    let a = String::from("pkg-1.0");
    let b = String::from("pkg-1.0");
    let r = best("pkg-[0-9]*", &a, &b).unwrap();
    assert_eq!(r, "pkg-1.0");
    assert!(std::ptr::eq(r.as_ptr(), b.as_ptr()));
    assert_eq!(best("*", "", ""), Some(""));
}

#[test]
fn non_matching_candidates_are_unaffected() {
    assert_eq!(best("pkg>=2", "pkg-1", "pkg-1"), None);
    assert_eq!(best("pkg>=2", "pkg-3", "pkg-1"), Some("pkg-3"));
    assert_eq!(best("pkg>=2", "pkg-1", "pkg-3"), Some("pkg-3"));
}
