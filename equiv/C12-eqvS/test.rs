/*
 * Equivalence test: documents that distinfo size/checksum verification
 * behaves the same before and after the refactoring.  Public API only.
 * Scratch files live under CARGO_TARGET_TMPDIR (inside the target dir).
 */
use pkgsrc::digest::Digest;
use pkgsrc::distinfo::{Checksum, Distinfo, DistinfoError, Entry, EntryType};
use std::fs;
use std::path::{Path, PathBuf};

const ALL: [Digest; 6] = [
    Digest::BLAKE2s,
    Digest::MD5,
    Digest::RMD160,
    Digest::SHA1,
    Digest::SHA256,
    Digest::SHA512,
];

fn scratch(name: &str) -> PathBuf {
    let d = PathBuf::from(env!("CARGO_TARGET_TMPDIR")).join(name);
    let _ = fs::remove_dir_all(&d);
    fs::create_dir_all(&d).unwrap();
    d
}

fn put(dir: &Path, rel: &str, content: &[u8]) -> PathBuf {
    let p = dir.join(rel);
    fs::create_dir_all(p.parent().unwrap()).unwrap();
    fs::write(&p, content).unwrap();
    p
}

fn file_hash(d: Digest, content: &[u8]) -> String {
    let mut r = content;
    d.hash_file(&mut r).unwrap()
}

fn patch_hash(d: Digest, content: &[u8]) -> String {
    let mut r = content;
    d.hash_patch(&mut r).unwrap()
}

fn distinfo_for(name: &str, content: &[u8], patch: bool) -> String {
    let mut s = String::from("$NetBSD$\n\n");
    for d in ALL.iter() {
        let h = if patch { patch_hash(*d, content) } else { file_hash(*d, content) };
        s.push_str(&format!("{} ({}) = {}\n", d, name, h));
    }
    s.push_str(&format!("Size ({}) = {} bytes\n", name, content.len()));
    s
}

#[test]
fn known_digest_vectors() {
    assert_eq!(file_hash(Digest::MD5, b""), "d41d8cd98f00b204e9800998ecf8427e");
    assert_eq!(file_hash(Digest::SHA1, b""), "da39a3ee5e6b4b0d3255bfef95601890afd80709");
    assert_eq!(
        file_hash(Digest::SHA256, b"abc"),
        "ba7816bf8f01cfea414140de5dae2223b00361a396177a9cb410ff61f20015ad"
    );
    assert_eq!(file_hash(Digest::RMD160, b"abc"), "8eb208f7e05d987a9b044a8e98c6b087f15a0bfc");
    assert_eq!(
        file_hash(Digest::BLAKE2s, b"abc"),
        "508c5e8c327c14e2e1a72ba34eeb452f37458b209ed63a294d999b4c86675982"
    );
    assert_eq!(file_hash(Digest::SHA512, b"abc").len(), 128);
    for d in ALL.iter() {
        assert_eq!(file_hash(*d, b"hello\n"), d.hash_str("hello\n").unwrap());
        /* hash_patch drops $NetBSD lines and terminates every line. */
        assert_eq!(
            patch_hash(*d, b"$NetBSD: x $\n\na\n+b $NetBSD$ c\nlast"),
            file_hash(*d, b"\na\nlast\n")
        );
        assert_eq!(patch_hash(*d, b""), file_hash(*d, b""));
        assert_eq!(patch_hash(*d, b"$NetBS\nD\n"), file_hash(*d, b"$NetBS\nD\n"));
    }
}

#[test]
fn distfile_matches_and_mismatches() {
    let dir = scratch("equiv_s_dist");
    let contents: [&[u8]; 5] = [
        b"",
        b"no trailing newline",
        b"with newline\n",
        b"\x00\xff\x80binary\r\n\x00",
        b"$NetBSD: not special in a distfile $\nx\n",
    ];
    for (i, content) in contents.iter().enumerate() {
        let name = format!("dist-{}.tgz", i);
        let file = put(&dir, &name, content);
        let di = Distinfo::from_bytes(distinfo_for(&name, content, false).as_bytes());
        assert_eq!(di.verify_size(&file).unwrap(), content.len() as u64);
        for d in ALL.iter() {
            assert_eq!(di.verify_checksum(&file, *d).unwrap(), *d);
            assert_eq!(Distinfo::calculate_checksum(&file, *d).unwrap(), file_hash(*d, content));
        }
        assert_eq!(Distinfo::calculate_size(&file).unwrap(), content.len() as u64);
        let all = di.verify_checksums(&file);
        assert_eq!(all.len(), 6);
        for (r, d) in all.iter().zip(ALL.iter()) {
            assert_eq!(r.as_ref().unwrap(), d);
        }
        /* The Entry methods agree. */
        let e = di.find_entry(&file).unwrap();
        assert_eq!(e.filetype, EntryType::Distfile);
        assert_eq!(e.verify_size(&file).unwrap(), content.len() as u64);
        assert_eq!(e.verify_checksum(&file, Digest::MD5).unwrap(), Digest::MD5);
        assert_eq!(e.verify_checksums(&file).len(), 6);

        /* Corrupt the file: append a byte (size and all hashes differ). */
        let mut longer = content.to_vec();
        longer.push(b'!');
        fs::write(&file, &longer).unwrap();
        match di.verify_size(&file) {
            Err(DistinfoError::Size(p, want, got)) => {
                assert_eq!(p, PathBuf::from(&name));
                assert_eq!(want, content.len() as u64);
                assert_eq!(got, longer.len() as u64);
            }
            other => panic!("expected Size error, got {:?}", other),
        }
        for d in ALL.iter() {
            match di.verify_checksum(&file, *d) {
                Err(DistinfoError::Checksum(p, dd, want, got)) => {
                    assert_eq!(p, PathBuf::from(&name));
                    assert_eq!(dd, *d);
                    assert_eq!(want, file_hash(*d, content));
                    assert_eq!(got, file_hash(*d, &longer));
                }
                other => panic!("expected Checksum error, got {:?}", other),
            }
        }
        assert!(di.verify_checksums(&file).iter().all(|r| matches!(r, Err(DistinfoError::Checksum(..)))));
        /* Same length, one byte flipped: size passes, hashes fail. */
        if !content.is_empty() {
            let mut flipped = content.to_vec();
            flipped[0] ^= 1;
            fs::write(&file, &flipped).unwrap();
            assert_eq!(di.verify_size(&file).unwrap(), content.len() as u64);
            assert!(matches!(
                di.verify_checksum(&file, Digest::SHA512),
                Err(DistinfoError::Checksum(..))
            ));
        }
    }
}

#[test]
fn recorded_value_corruptions_and_missing_records() {
    let dir = scratch("equiv_s_rec");
    let content = b"some content\n";
    let file = put(&dir, "foo-1.0.tar.gz", content);
    let good = file_hash(Digest::SHA1, content);
    /* Prefix, truncated, upper-cased and altered hashes must all fail. */
    let mut upper = good.to_uppercase();
    if upper == good {
        upper.push('x');
    }
    let mut altered = good.clone();
    let last = altered.pop().unwrap();
    altered.push(if last == '0' { '1' } else { '0' });
    for bad in [good[..good.len() - 1].to_string(), format!("{}0", good), upper, altered] {
        let text = format!("SHA1 (foo-1.0.tar.gz) = {}\nSize (foo-1.0.tar.gz) = {} bytes\n", bad, content.len() + 1);
        let di = Distinfo::from_bytes(text.as_bytes());
        match di.verify_checksum(&file, Digest::SHA1) {
            Err(DistinfoError::Checksum(_, Digest::SHA1, want, got)) => {
                assert_eq!(want, bad);
                assert_eq!(got, good);
            }
            other => panic!("expected Checksum error, got {:?}", other),
        }
        assert!(matches!(di.verify_size(&file), Err(DistinfoError::Size(_, w, g)) if w == content.len() as u64 + 1 && g == content.len() as u64));
        /* Unrecorded algorithm. */
        match di.verify_checksum(&file, Digest::MD5) {
            Err(DistinfoError::MissingChecksum(p, Digest::MD5)) => assert_eq!(p, file),
            other => panic!("expected MissingChecksum, got {:?}", other),
        }
    }
    /* Missing size; duplicate algorithm: the first record decides. */
    let text = format!("SHA1 (foo-1.0.tar.gz) = {}\nSHA1 (foo-1.0.tar.gz) = bad\n", good);
    let di = Distinfo::from_bytes(text.as_bytes());
    match di.verify_size(&file) {
        Err(DistinfoError::MissingSize(p)) => assert_eq!(p, file),
        other => panic!("expected MissingSize, got {:?}", other),
    }
    assert_eq!(di.verify_checksum(&file, Digest::SHA1).unwrap(), Digest::SHA1);
    let rs = di.verify_checksums(&file);
    assert_eq!(rs.len(), 2);
    assert!(rs.iter().all(|r| matches!(r, Ok(Digest::SHA1))));
    /* Not recorded at all, and recorded but absent from disk. */
    let other = put(&dir, "other.tgz", b"x");
    assert!(matches!(di.verify_size(&other), Err(DistinfoError::NotFound)));
    assert!(matches!(di.verify_checksum(&other, Digest::SHA1), Err(DistinfoError::NotFound)));
    let rs = di.verify_checksums(&other);
    assert_eq!(rs.len(), 1);
    assert!(matches!(rs[0], Err(DistinfoError::NotFound)));
    let gone = dir.join("gone").join("foo-1.0.tar.gz");
    assert!(matches!(di.verify_checksum(&gone, Digest::SHA1), Err(DistinfoError::Io(_))));
    let di2 = Distinfo::from_bytes(b"Size (foo-1.0.tar.gz) = 1 bytes\n");
    assert!(matches!(di2.verify_size(&gone), Err(DistinfoError::Io(_))));
    assert!(matches!(di2.verify_checksum(&gone, Digest::SHA1), Err(DistinfoError::MissingChecksum(..))));
    assert_eq!(di2.verify_checksums(&gone).len(), 0);
    /* A hand-built Entry behaves the same. */
    let e = Entry::new("foo-1.0.tar.gz", &file, vec![Checksum::new(Digest::SHA1, good.clone())], Some(content.len() as u64));
    assert_eq!(e.verify_size(&file).unwrap(), content.len() as u64);
    assert_eq!(e.verify_checksum(&file, Digest::SHA1).unwrap(), Digest::SHA1);
    assert!(matches!(e.verify_checksum(&file, Digest::SHA256), Err(DistinfoError::MissingChecksum(..))));
}

#[test]
fn patch_files_ignore_netbsd_lines() {
    let dir = scratch("equiv_s_patch");
    let content = b"$NetBSD: patch-aa,v 1.1 2020/01/01 00:00:00 x Exp $\n\n--- a.orig\n+++ a\n@@ -1 +1 @@\n-old\n+new\n";
    let file = put(&dir, "patches/patch-aa", content);
    let di = Distinfo::from_bytes(distinfo_for("patch-aa", content, true).as_bytes());
    assert_eq!(di.find_entry(&file).unwrap().filetype, EntryType::Patchfile);
    for d in ALL.iter() {
        assert_eq!(di.verify_checksum(&file, *d).unwrap(), *d);
        assert_eq!(Distinfo::calculate_checksum(&file, *d).unwrap(), patch_hash(*d, content));
        assert_ne!(patch_hash(*d, content), file_hash(*d, content));
    }
    assert_eq!(di.verify_size(&file).unwrap(), content.len() as u64);
    /* Changing the RCS Id line keeps the checksums valid (size differs). */
    let changed = b"$NetBSD: patch-aa,v 1.2 2021/02/02 00:00:00 y Exp $ extra\n\n--- a.orig\n+++ a\n@@ -1 +1 @@\n-old\n+new\n";
    fs::write(&file, changed).unwrap();
    assert!(di.verify_checksums(&file).iter().all(|r| r.is_ok()));
    assert!(matches!(di.verify_size(&file), Err(DistinfoError::Size(..))));
    /* Changing any other line does not. */
    let broken = b"$NetBSD: patch-aa,v 1.1 2020/01/01 00:00:00 x Exp $\n\n--- a.orig\n+++ a\n@@ -1 +1 @@\n-old\n+neW\n";
    fs::write(&file, broken).unwrap();
    match di.verify_checksum(&file, Digest::SHA1) {
        Err(DistinfoError::Checksum(p, Digest::SHA1, want, got)) => {
            assert_eq!(p, PathBuf::from("patch-aa"));
            assert_eq!(want, patch_hash(Digest::SHA1, content));
            assert_eq!(got, patch_hash(Digest::SHA1, broken));
        }
        other => panic!("expected Checksum error, got {:?}", other),
    }
    /* A distfile hash recorded for a patch file does not verify. */
    fs::write(&file, content).unwrap();
    let text = format!("SHA1 (patch-aa) = {}\n", file_hash(Digest::SHA1, content));
    let di = Distinfo::from_bytes(text.as_bytes());
    assert!(matches!(di.verify_checksum(&file, Digest::SHA1), Err(DistinfoError::Checksum(..))));
    /* A same-named distfile record is not used for the patch. */
    let di = Distinfo::from_bytes(b"SHA1 (aa) = 00\n");
    assert!(matches!(di.verify_checksum(&file, Digest::SHA1), Err(DistinfoError::NotFound)));
}

#[test]
fn lookup_uses_shortest_recorded_trailing_sub_path() {
    let dir = scratch("equiv_s_lookup");
    let a = b"content of plain foo";
    let b = b"content of sub/foo, longer";
    let c = b"deep";
    let fa = put(&dir, "foo.tgz", a);
    let fb = put(&dir, "sub/foo.tgz", b);
    let fc = put(&dir, "x/y/z/deep.tgz", c);
    /* Only the sub-directory entry recorded: found from the full path. */
    let text = distinfo_for("sub/foo.tgz", b, false) + &distinfo_for("y/z/deep.tgz", c, false);
    let di = Distinfo::from_bytes(text.as_bytes());
    assert_eq!(di.find_entry(&fb).unwrap().filename, PathBuf::from("sub/foo.tgz"));
    assert_eq!(di.verify_size(&fb).unwrap(), b.len() as u64);
    assert!(di.verify_checksums(&fb).iter().all(|r| r.is_ok()));
    assert!(matches!(di.verify_size(&fa), Err(DistinfoError::NotFound)));
    assert_eq!(di.find_entry(&fc).unwrap().filename, PathBuf::from("y/z/deep.tgz"));
    assert_eq!(di.verify_size(&fc).unwrap(), c.len() as u64);
    assert!(matches!(di.find_entry("z/deep.tgz"), Err(DistinfoError::NotFound)));
    assert_eq!(di.find_entry("y/z/deep.tgz").unwrap().filename, PathBuf::from("y/z/deep.tgz"));
    assert!(matches!(di.find_entry(""), Err(DistinfoError::NotFound)));
    /* Both recorded: the shortest trailing sub-path (plain name) wins. */
    let text = distinfo_for("sub/foo.tgz", b, false) + &distinfo_for("foo.tgz", a, false);
    let di = Distinfo::from_bytes(text.as_bytes());
    assert_eq!(di.find_entry(&fb).unwrap().filename, PathBuf::from("foo.tgz"));
    assert_eq!(di.verify_size(&fa).unwrap(), a.len() as u64);
    match di.verify_size(&fb) {
        Err(DistinfoError::Size(p, want, got)) => {
            assert_eq!(p, PathBuf::from("foo.tgz"));
            assert_eq!((want, got), (a.len() as u64, b.len() as u64));
        }
        other => panic!("expected Size error, got {:?}", other),
    }
    assert!(matches!(di.verify_checksum(&fb, Digest::MD5), Err(DistinfoError::Checksum(..))));
    assert!(di.verify_checksums(&fa).iter().all(|r| r.is_ok()));
}
