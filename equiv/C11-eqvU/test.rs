use pkgsrc::digest::Digest;
use pkgsrc::distinfo::{Distinfo, EntryType};
use std::ffi::{OsStr, OsString};
use std::os::unix::ffi::OsStrExt;
use std::path::{Path, PathBuf};

fn names(v: Vec<&pkgsrc::distinfo::Entry>) -> Vec<PathBuf> {
    v.iter().map(|e| e.filename.clone()).collect()
}

#[test]
fn well_formed_lines_with_odd_spacing() {
    let input = b"  \t $NetBSD: distinfo,v 1.1 1970/01/01 00:00:00 ken Exp $\n\
        \n\
        \t  BLAKE2s \t (a.tar.gz)  =\t aaaa\n\
        SHA512 (a.tar.gz) = bbbb\n\
        \x0b\x0c Size (a.tar.gz) = 10 bytes\r\n\
        SHA1 (patch-aa) = cccc\n\
        Size    (b.tgz)    =    321     bytes   trailing junk\n\
        RMD160 (b.tgz) = dddd extra\n\
        Size (c) = 18446744073709551615\n";
    let di = Distinfo::from_bytes(input);
    assert_eq!(
        di.rcsid(),
        Some(&OsString::from(
            "$NetBSD: distinfo,v 1.1 1970/01/01 00:00:00 ken Exp $"
        ))
    );
    assert_eq!(
        names(di.distfiles()),
        vec![PathBuf::from("a.tar.gz"), PathBuf::from("b.tgz"), PathBuf::from("c")]
    );
    assert_eq!(names(di.patchfiles()), vec![PathBuf::from("patch-aa")]);
    let a = di.get_distfile("a.tar.gz").unwrap();
    assert_eq!(a.size, Some(10));
    assert_eq!(a.checksums.len(), 2);
    assert_eq!(a.checksums[0].digest, Digest::BLAKE2s);
    assert_eq!(a.checksums[0].hash, "aaaa");
    assert_eq!(a.checksums[1].digest, Digest::SHA512);
    assert_eq!(a.checksums[1].hash, "bbbb");
    let b = di.get_distfile("b.tgz").unwrap();
    assert_eq!(b.size, Some(321));
    assert_eq!(b.checksums[0].digest, Digest::RMD160);
    assert_eq!(b.checksums[0].hash, "dddd");
    assert_eq!(di.get_distfile("c").unwrap().size, Some(u64::MAX));
    let p = di.get_patchfile("patch-aa").unwrap();
    assert_eq!(p.filetype, EntryType::Patchfile);
    assert_eq!(p.size, None);
    assert_eq!(p.checksums[0].hash, "cccc");
}

#[test]
fn ignored_lines_change_nothing() {
    let input = b"# SHA1 (commented) = 1\n\
        \n\
        \x20\x20\x20\n\
        \t#indented comment\n\
        WHIRLPOOL (x) = 1\n\
        Size (x) = twelve bytes\n\
        Size (x) = 18446744073709551616 bytes\n\
        Size (x) = -1 bytes\n\
        SHA1 (x) =\n\
        SHA1 (x)\n\
        SHA1\n\
        SHA1 x = 1\n\
        SHA1 (x = 1\n\
        SHA1 x) = 1\n\
        SHA1 ( = 1\n\
        SHA1 ) = 1\n\
        SHA1 (x) == 1\n\
        SHA1 (x) : 1\n\
        SHA1 (x)= 1\n\
        SHA1 (x) =1\n\
        SHA1(x) = 1\n\
        SHA1 (x y) = 1\n\
        SHA\xff1 (x) = 1\n\
        SHA1 (x) = \xff\xfe\n\
        \xff\xff\xff\n\
        garbage garbage garbage garbage\n\
        $NetBSD$\n\
        SHA1 (keep) = kept\n";
    let di = Distinfo::from_bytes(input);
    assert_eq!(di.rcsid(), None);
    assert_eq!(names(di.distfiles()), vec![PathBuf::from("keep")]);
    assert!(di.patchfiles().is_empty());
    let k = di.get_distfile("keep").unwrap();
    assert_eq!(k.size, None);
    assert_eq!(k.checksums.len(), 1);
    assert_eq!(k.checksums[0].hash, "kept");
}

#[test]
fn unusual_file_names() {
    let input = b"SHA1 () = empty\n\
        SHA1 (() = open\n\
        SHA1 ()) = close\n\
        SHA1 (a(1).tgz) = inner\n\
        SHA1 (\xe9\xff.tgz) = latin\n\
        SHA1 (\xe6\x97\xa5\xe6\x9c\xac.tgz) = utf8\n\
        SHA1 (dir/sub/f.tgz) = sub\n\
        SHA1 (/abs/f.tgz) = abs\n\
        SHA1 (patch-\xff) = pnon\n\
        sha256 (emul-linux-patch-x) = emul\n\
        MD5 (patch-2.7.6.tar.xz) = tar\n\
        MD5 (patch-local-foo) = local\n\
        MD5 (patch-aa.orig) = orig\n";
    let di = Distinfo::from_bytes(input);
    let expect_dist: Vec<(&[u8], &str)> = vec![
        (b"", "empty"),
        (b"(", "open"),
        (b")", "close"),
        (b"a(1).tgz", "inner"),
        (b"\xe9\xff.tgz", "latin"),
        (b"\xe6\x97\xa5\xe6\x9c\xac.tgz", "utf8"),
        (b"dir/sub/f.tgz", "sub"),
        (b"/abs/f.tgz", "abs"),
        (b"patch-2.7.6.tar.xz", "tar"),
        (b"patch-local-foo", "local"),
        (b"patch-aa.orig", "orig"),
    ];
    let got = di.distfiles();
    assert_eq!(got.len(), expect_dist.len());
    for (e, (n, h)) in got.iter().zip(expect_dist.iter()) {
        assert_eq!(e.filename.as_path(), Path::new(OsStr::from_bytes(n)));
        assert_eq!(e.checksums.len(), 1);
        assert_eq!(e.checksums[0].hash, *h);
        assert_eq!(e.filetype, EntryType::Distfile);
    }
    let gotp = di.patchfiles();
    assert_eq!(gotp.len(), 2);
    assert_eq!(
        gotp[0].filename.as_path(),
        Path::new(OsStr::from_bytes(b"patch-\xff"))
    );
    assert_eq!(gotp[0].checksums[0].hash, "pnon");
    assert_eq!(gotp[1].filename, PathBuf::from("emul-linux-patch-x"));
    assert_eq!(gotp[1].checksums[0].digest, Digest::SHA256);
}

#[test]
fn interleaving_and_edges_of_input() {
    /* no trailing newline, only whitespace, empty */
    assert!(Distinfo::from_bytes(b"").distfiles().is_empty());
    assert!(Distinfo::from_bytes(b" \t \x0b").distfiles().is_empty());
    assert!(Distinfo::from_bytes(b"\n\n\n").distfiles().is_empty());
    let di = Distinfo::from_bytes(
        b"SHA1 (a) = 1\nSize (b) = 2 bytes\nMD5 (a) = 3\nSize (a) = 4 bytes\nSHA1 (b) = 5",
    );
    assert_eq!(names(di.distfiles()), vec![PathBuf::from("a"), PathBuf::from("b")]);
    let a = di.get_distfile("a").unwrap();
    assert_eq!(a.size, Some(4));
    assert_eq!(a.checksums.len(), 2);
    assert_eq!(a.checksums[0].digest, Digest::SHA1);
    assert_eq!(a.checksums[1].digest, Digest::MD5);
    assert_eq!(a.checksums[1].hash, "3");
    let b = di.get_distfile("b").unwrap();
    assert_eq!(b.size, Some(2));
    assert_eq!(b.checksums[0].hash, "5");
    /* round trip of the parsed result */
    let again = Distinfo::from_bytes(&di.as_bytes());
    assert_eq!(again.distfiles(), di.distfiles());
}
