use pkgsrc::summary::{MissingVariable, Summary, SummaryError};
use std::str::FromStr;

const FULL: &str = "BUILD_DATE=2019-08-12 15:58:02 +0100
CATEGORIES=devel pkgtools
COMMENT=This is a test
CONFLICTS=cfl-pkg1-[0-9]*
CONFLICTS=cfl-pkg2>=2.0
DEPENDS=dep-pkg1-[0-9]*
DEPENDS=dep-pkg2>=2.0
DESCRIPTION=A test description
DESCRIPTION=
DESCRIPTION=
DESCRIPTION=This is a multi-line variable
FILE_CKSUM=SHA1 a4801e9b26eeb5b8bd1f54bac1c8e89dec67786a
FILE_NAME=testpkg-1.0.tgz
FILE_SIZE=1234
HOMEPAGE=https://docs.rs/pkgsrc/?a=b&c=d
LICENSE=apache-2.0 OR modified-bsd
MACHINE_ARCH=x86_64
OPSYS=Darwin
OS_VERSION=18.7.0
PKG_OPTIONS=http2 idn inet6 ldap libssh2
PKGNAME=testpkg-1.0
PKGPATH=pkgtools/testpkg
PKGTOOLS_VERSION=20091115
PREV_PKGPATH=obsolete/testpkg
PROVIDES=/opt/pkg/lib/libfoo.dylib
PROVIDES=/opt/pkg/lib/libbar.dylib
REQUIRES=/usr/lib/libSystem.B.dylib
REQUIRES=/usr/lib/libiconv.2.dylib
SIZE_PKG=4321
SUPERSEDES=oldpkg-[0-9]*
SUPERSEDES=badpkg>=2.0
";

const REQUIRED: [&str; 11] = [
    "BUILD_DATE=2019-08-12 15:58:02 +0100",
    "CATEGORIES=devel pkgtools",
    "COMMENT=This is a test",
    "DESCRIPTION=A test description",
    "MACHINE_ARCH=x86_64",
    "OPSYS=Darwin",
    "OS_VERSION=18.7.0",
    "PKGNAME=testpkg-1.0",
    "PKGPATH=pkgtools/testpkg",
    "PKGTOOLS_VERSION=20091115",
    "SIZE_PKG=4321",
];

fn required_plus(extra: &[&str]) -> String {
    let mut out = String::new();
    for l in REQUIRED.iter().chain(extra.iter()) {
        out.push_str(l);
        out.push('\n');
    }
    out
}

fn strs(v: &[&str]) -> Vec<String> {
    v.iter().map(|s| s.to_string()).collect()
}

#[test]
fn full_entry_roundtrip() {
    let sum = Summary::from_str(FULL).expect("full entry");
    assert!(sum.is_completed());
    assert_eq!(sum.build_date(), Some("2019-08-12 15:58:02 +0100"));
    assert_eq!(sum.categories(), Some("devel pkgtools"));
    assert_eq!(sum.comment(), Some("This is a test"));
    assert_eq!(
        sum.conflicts(),
        Some(strs(&["cfl-pkg1-[0-9]*", "cfl-pkg2>=2.0"]).as_slice())
    );
    assert_eq!(
        sum.depends(),
        Some(strs(&["dep-pkg1-[0-9]*", "dep-pkg2>=2.0"]).as_slice())
    );
    assert_eq!(
        sum.description(),
        Some(
            strs(&[
                "A test description",
                "",
                "",
                "This is a multi-line variable"
            ])
            .as_slice()
        )
    );
    assert_eq!(sum.file_size(), Some(1234));
    assert_eq!(sum.homepage(), Some("https://docs.rs/pkgsrc/?a=b&c=d"));
    assert_eq!(sum.size_pkg(), Some(4321));
    assert_eq!(
        sum.supersedes(),
        Some(strs(&["oldpkg-[0-9]*", "badpkg>=2.0"]).as_slice())
    );
    assert_eq!(format!("{}", sum), FULL);
}

#[test]
fn value_is_everything_after_first_equals() {
    let text = required_plus(&[
        "COMMENT==leading and trailing=",
        "HOMEPAGE====",
        "LICENSE=",
        "PKG_OPTIONS= spaced = out ",
        "PROVIDES==",
        "PROVIDES=a=b=c",
        "FILE_NAME=na\u{ef}ve-\u{1f4e6}=\u{e9}.tgz",
        "FILE_CKSUM=tab\there",
    ]);
    let sum = Summary::from_str(&text).expect("well formed");
    assert_eq!(sum.comment(), Some("=leading and trailing="));
    assert_eq!(sum.homepage(), Some("==="));
    assert_eq!(sum.license(), Some(""));
    assert_eq!(sum.pkg_options(), Some(" spaced = out "));
    assert_eq!(sum.provides(), Some(strs(&["=", "a=b=c"]).as_slice()));
    assert_eq!(sum.file_name(), Some("na\u{ef}ve-\u{1f4e6}=\u{e9}.tgz"));
    assert_eq!(sum.file_cksum(), Some("tab\there"));
}

#[test]
fn repeated_variables() {
    let text = required_plus(&[
        "COMMENT=second",
        "SIZE_PKG=-7",
        "FILE_SIZE=1",
        "FILE_SIZE=+9223372036854775807",
        "DESCRIPTION=two",
        "DEPENDS=b",
        "DESCRIPTION=A test description",
        "DEPENDS=a",
        "DEPENDS=b",
    ]);
    let sum = Summary::from_str(&text).expect("well formed");
    assert_eq!(sum.comment(), Some("second"));
    assert_eq!(sum.size_pkg(), Some(-7));
    assert_eq!(sum.file_size(), Some(i64::MAX));
    assert_eq!(
        sum.description(),
        Some(
            strs(&["A test description", "two", "A test description"])
                .as_slice()
        )
    );
    assert_eq!(sum.depends(), Some(strs(&["b", "a", "b"]).as_slice()));
}

#[test]
fn crlf_and_missing_final_newline() {
    let text = required_plus(&[]).replace('\n', "\r\n");
    let sum = Summary::from_str(&text).expect("crlf");
    assert_eq!(sum.size_pkg(), Some(4321));
    assert_eq!(sum.opsys(), Some("Darwin"));

    let text = required_plus(&[]);
    let sum = Summary::from_str(text.trim_end()).expect("no final newline");
    assert!(sum.is_completed());
}

fn expect_parse_line(text: &str, want: &str) {
    match Summary::from_str(text) {
        Err(SummaryError::ParseLine(l)) => assert_eq!(l, want),
        other => panic!("expected ParseLine({:?}), got {:?}", want, other),
    }
}

fn expect_parse_variable(text: &str, want: &str) {
    match Summary::from_str(text) {
        Err(SummaryError::ParseVariable(v)) => assert_eq!(v, want),
        other => panic!("expected ParseVariable({:?}), got {:?}", want, other),
    }
}

#[test]
fn malformed_lines() {
    expect_parse_line("BUILD_DATE", "BUILD_DATE");
    expect_parse_line("\n", "");
    expect_parse_line(&required_plus(&[""]), "");
    expect_parse_line(&required_plus(&["no equals here"]), "no equals here");
    expect_parse_line(&required_plus(&["\u{e9}\u{1f4e6}"]), "\u{e9}\u{1f4e6}");
    expect_parse_line(&format!("  \n{}", required_plus(&[])), "  ");
    /* The first fault in input order is the one reported. */
    expect_parse_line("COMMENT=x\nOPSYS\nBOGUS=1\n", "OPSYS");
}

#[test]
fn unknown_variables() {
    expect_parse_variable("BILD_DATE=", "BILD_DATE");
    expect_parse_variable("=value", "");
    expect_parse_variable("=", "");
    expect_parse_variable("build_date=x", "build_date");
    expect_parse_variable(" COMMENT=x", " COMMENT");
    expect_parse_variable("COMMENT =x", "COMMENT ");
    expect_parse_variable("PKGN\u{c4}ME=x=y", "PKGN\u{c4}ME");
    expect_parse_variable(&required_plus(&["FILESIZE=12"]), "FILESIZE");
    expect_parse_variable("BOGUS=1\nOPSYS\n", "BOGUS");
}

#[test]
fn bad_integers() {
    for bad in [
        "FILE_SIZE=NaN",
        "FILE_SIZE=",
        "SIZE_PKG= 12",
        "SIZE_PKG=12 ",
        "SIZE_PKG=1=2",
        "FILE_SIZE=9223372036854775808",
        "FILE_SIZE=0x10",
        "SIZE_PKG=\u{663}",
    ] {
        match Summary::from_str(&required_plus(&[bad])) {
            Err(SummaryError::ParseInt(_)) => {}
            other => panic!("{}: expected ParseInt, got {:?}", bad, other),
        }
    }
}

#[test]
fn missing_required() {
    match Summary::from_str("") {
        Err(SummaryError::Incomplete(MissingVariable::BuildDate)) => {}
        other => panic!("empty: {:?}", other),
    }
    for (i, line) in REQUIRED.iter().enumerate() {
        let mut text = String::new();
        for (j, l) in REQUIRED.iter().enumerate() {
            if i != j {
                text.push_str(l);
                text.push('\n');
            }
        }
        let name = line.split('=').next().unwrap();
        match Summary::from_str(&text) {
            Err(SummaryError::Incomplete(m)) => {
                assert_eq!(
                    format!("{}", m),
                    format!("missing required variable {}", name)
                );
            }
            other => panic!("without {}: {:?}", name, other),
        }
    }
}
