/*
 * Behaviour check for the renamed/reordered locals and swapped pure operands
 * in Pattern::quick_pkg_match, is_simple_char and the glob dispatch test of
 * Pattern::new.  Public API only; passes before and after the change.
 */
use pkgsrc::{Pattern, PatternError};

fn m(pattern: &str, pkg: &str) -> bool {
    Pattern::new(pattern).unwrap().matches(pkg)
}

#[test]
fn dispatch_on_each_glob_character() {
    assert!(m("foo-*", "foo-1.0"));
    assert!(m("foo-?.0", "foo-1.0"));
    assert!(m("foo-[0-9].0", "foo-1.0"));
    assert!(m("foo-[!a-z]*", "foo-1.0"));
    assert!(!m("foo-[!0-9]*", "foo-1.0"));
    /* a lone ']' still selects the glob matcher, where it is a literal */
    assert!(m("foo]", "foo]"));
    assert!(!m("foo]", "foo"));
    assert!(m("fo?]", "foo]"));
    /* malformed globs are reported at compile time */
    assert!(matches!(Pattern::new("foo-[0-9"), Err(PatternError::Glob(_))));
    assert!(matches!(Pattern::new("foo-[!"), Err(PatternError::Glob(_))));
    assert!(matches!(Pattern::new("foo-***"), Err(PatternError::Glob(_))));
}

#[test]
fn plain_patterns_match_only_the_identical_string() {
    assert!(m("foo-1.0", "foo-1.0"));
    assert!(!m("foo-1.0", "foo-1.00"));
    assert!(!m("foo-1.0", "foo-1."));
    assert!(!m("foo-1.0", "Foo-1.0"));
    assert!(!m("foo-1.0", "fOo-1.0"));
    assert!(m("", ""));
    assert!(!m("", "a"));
    assert!(!m("a", ""));
    assert!(m("a", "a"));
    assert!(!m("a", "ab"));
    assert!(!m("ab", "a"));
    assert!(m("-", "-"));
    assert!(m("--", "--"));
    assert!(!m("--", "-a"));
    assert!(m("\u{e9}x", "\u{e9}x"));
    assert!(!m("\u{e9}x", "ex"));
    assert!(m("a\u{e9}", "a\u{e9}"));
    assert!(!m("a\u{e9}", "ae"));
}

#[test]
fn fast_reject_is_inert_for_globs() {
    /* metacharacter in first or second position: no early rejection */
    assert!(m("*", ""));
    assert!(m("*", "x"));
    assert!(m("?", "x"));
    assert!(!m("?", ""));
    assert!(!m("?", "xy"));
    assert!(m("?oo-1", "foo-1"));
    assert!(m("f?o-1", "foo-1"));
    assert!(m("[f]oo-*", "foo-1"));
    assert!(m("f[aeiou]o-*", "foo-1"));
    assert!(m("*oo-1", "foo-1"));
    assert!(m("f*", "f"));
    /* names that differ only where the shortcut looks */
    assert!(!m("foo-*", "goo-1"));
    assert!(!m("foo-*", "fxo-1"));
    assert!(!m("foo-*", "Foo-1"));
    assert!(!m("foo-*", "f"));
    assert!(!m("foo-*", ""));
    assert!(!m("-oo*", "+oo1"));
    assert!(m("-oo*", "-oo1"));
    assert!(m("f-o*", "f-o1"));
    assert!(!m("f-o*", "f_o1"));
    /* whole-name match, case-sensitive */
    assert!(!m("foo-[0-9]", "foo-12"));
    assert!(!m("foo-?", "xfoo-1"));
    assert!(!m("FOO-*", "foo-1"));
    assert!(m("\u{e9}*", "\u{e9}clair-1"));
    assert!(m("f\u{e9}*", "f\u{e9}e-1"));
    assert!(!m("f\u{e9}*", "fee-1"));
}

#[test]
fn fast_reject_is_inert_for_other_kinds() {
    assert!(m("a>0", "a-1"));
    assert!(!m("a>0", "b-1"));
    assert!(m("ab>0", "ab-1"));
    assert!(!m("ab>0", "ac-1"));
    assert!(m(">0", "-1"));
    assert!(m("{foo,bar}-1", "bar-1"));
    assert!(m("b{ar,az}-1", "baz-1"));
    assert!(!m("b{ar,az}-1", "car-1"));
    assert!(m("ba{r,z}-1", "baz-1"));
    assert!(!m("ba{r,z}-1", "bbz-1"));
}
