/*
 * Behaviour check for the brace balance check in Pattern::new and for the
 * per-alternative loop of alternate_match (invalid expansions skipped, any
 * matching alternative suffices, in any position), via the public API.
 * Passes before and after the refactoring.
 */
use pkgsrc::{Pattern, PatternError};

fn m(pattern: &str, pkg: &str) -> bool {
    Pattern::new(pattern).unwrap().matches(pkg)
}

/* Reference: braces are properly nested. */
fn balanced(s: &str) -> bool {
    let mut depth = 0usize;
    for c in s.chars() {
        if c == '{' {
            depth += 1;
        } else if c == '}' {
            if depth == 0 {
                return false;
            }
            depth -= 1;
        }
    }
    depth == 0
}

#[test]
fn brace_balance_exhaustive_small() {
    /* every string of length <= 6 over { } a , */
    let alphabet = ['{', '}', 'a', ','];
    let mut all = vec![String::new()];
    let mut frontier = vec![String::new()];
    for _ in 0..6 {
        let mut next = vec![];
        for s in &frontier {
            for c in alphabet {
                let mut t = s.clone();
                t.push(c);
                next.push(t);
            }
        }
        all.extend(next.iter().cloned());
        frontier = next;
    }
    for s in all.iter().filter(|s| s.contains('{') || s.contains('}')) {
        match Pattern::new(s) {
            Ok(p) => {
                assert!(balanced(s), "{s} accepted");
                assert_eq!(p.pattern(), s);
            }
            Err(e) => {
                assert!(!balanced(s), "{s} rejected");
                assert!(matches!(e, PatternError::Alternate), "{s}");
            }
        }
    }
}

#[test]
fn brace_errors_take_priority() {
    /* unbalanced braces are reported as Alternate even with other syntax */
    for bad in ["foo}>=1", "{foo,bar}}>=1", "{{foo,bar}>=1", "}foo,bar}>=1", "foo-[{", "x>1>2}"] {
        assert!(matches!(Pattern::new(bad), Err(PatternError::Alternate)), "{bad}");
    }
    /* balanced braces always compile, whatever the expansions look like */
    for ok in ["foo{>1>2}", "{foo-[}", "{<,>}", "{\u{e9}}"] {
        assert!(Pattern::new(ok).is_ok(), "{ok}");
    }
}

#[test]
fn alternative_position_is_irrelevant() {
    for pat in ["{x,y,z}-1", "{z,x,y}-1", "{y,z,x}-1"] {
        assert!(m(pat, "x-1"), "{pat}");
        assert!(m(pat, "y-1"), "{pat}");
        assert!(m(pat, "z-1"), "{pat}");
        assert!(!m(pat, "w-1"), "{pat}");
        assert!(!m(pat, "xy-1"), "{pat}");
        assert!(!m(pat, "-1"), "{pat}");
    }
}

#[test]
fn invalid_expansions_are_skipped_not_fatal() {
    /* invalid alternative first, in the middle, last */
    assert!(m("foo{>1>2,>=1,>=5}", "foo-1"));
    assert!(m("foo{>=5,>1>2,>=1}", "foo-1"));
    assert!(m("foo{>=1,>=5,>1>2}", "foo-1"));
    assert!(!m("foo{>1>2,>=5,<1>0}", "foo-1"));
    /* all alternatives invalid */
    assert!(!m("foo{>1>2,<1>0}", "foo-1"));
    assert!(!m("{foo-[}", "foo-["));
    /* invalid glob next to a valid plain name */
    assert!(m("{foo-[,foo-1}", "foo-1"));
    assert!(m("{foo-1,foo-[}", "foo-1"));
    /* nested group whose inner expansion is invalid only in one branch */
    assert!(m("foo{>{1>2,=1}}", "foo-1"));
    assert!(!m("foo{>{1>2,=2}}", "foo-1"));
}

#[test]
fn nested_and_empty() {
    assert!(m("{a{b,c},d}-1.0", "ab-1.0"));
    assert!(m("{a{b,c},d}-1.0", "ac-1.0"));
    assert!(m("{a{b,c},d}-1.0", "d-1.0"));
    assert!(!m("{a{b,c},d}-1.0", "ad-1.0"));
    assert!(!m("{a{b,c},d}-1.0", "a-1.0"));
    assert!(!m("{a{b,c},d}-1.0", "abd-1.0"));
    assert!(m("{}{}", ""));
    assert!(!m("{}{}", "a"));
    assert!(m("a{,b}{,c}", "a"));
    assert!(m("a{,b}{,c}", "ab"));
    assert!(m("a{,b}{,c}", "ac"));
    assert!(m("a{,b}{,c}", "abc"));
    assert!(!m("a{,b}{,c}", "acb"));
}
