/*
 * Behaviour documentation for the C15 refactoring S: install_cmds(),
 * uninstall_cmds() and is_preserve().
 */
use pkgsrc::plist::{Plist, PlistEntry, PlistOption};
use std::ffi::OsString;

fn file(s: &str) -> PlistEntry {
    PlistEntry::File(OsString::from(s))
}
fn cwd(s: &str) -> PlistEntry {
    PlistEntry::Cwd(OsString::from(s))
}

#[test]
fn install_and_uninstall_lists() {
    let p = Plist::from_bytes(
        b"@name p-1.0\n@comment hi\n@cwd /opt\nf0\n@ignore\n+META\n@exec e %F\n@unexec u %F\n@mode 0644\n@owner root\n@group wheel\n@pkgdir d\n@dirrm r\n@pkgdep a>=1\n@blddep a-1\n@pkgcfl b-*\n@display MSG\n@option preserve\nf1\n",
    )
    .unwrap();
    let inst = p.install_cmds();
    let want_inst = vec![
        cwd("/opt"),
        file("f0"),
        PlistEntry::Exec(OsString::from("e %F")),
        PlistEntry::Mode(Some("0644".to_string())),
        PlistEntry::Owner(Some("root".to_string())),
        PlistEntry::Group(Some("wheel".to_string())),
        PlistEntry::PkgDir(OsString::from("d")),
        file("f1"),
    ];
    assert_eq!(inst, want_inst.iter().collect::<Vec<_>>());
    let uninst = p.uninstall_cmds();
    let want_un = vec![
        cwd("/opt"),
        file("f0"),
        PlistEntry::UnExec(OsString::from("u %F")),
        PlistEntry::Mode(Some("0644".to_string())),
        PlistEntry::Owner(Some("root".to_string())),
        PlistEntry::Group(Some("wheel".to_string())),
        PlistEntry::PkgDir(OsString::from("d")),
        PlistEntry::DirRm(OsString::from("r")),
        file("f1"),
    ];
    assert_eq!(uninst, want_un.iter().collect::<Vec<_>>());
    assert!(p.is_preserve());
}

#[test]
fn consecutive_trailing_and_separated_ignore() {
    let p = Plist::from_bytes(b"@ignore\n@ignore\nf1\nf2\n").unwrap();
    let want = vec![file("f2")];
    assert_eq!(p.install_cmds(), want.iter().collect::<Vec<_>>());
    assert_eq!(p.uninstall_cmds(), want.iter().collect::<Vec<_>>());

    let p = Plist::from_bytes(b"f1\n@ignore").unwrap();
    let want = vec![file("f1")];
    assert_eq!(p.install_cmds(), want.iter().collect::<Vec<_>>());
    assert_eq!(p.uninstall_cmds(), want.iter().collect::<Vec<_>>());

    let p = Plist::from_bytes(
        b"@ignore\n@mode\n@cwd /b/\n@exec x\n@unexec y\nf1\nf2\n@ignore\n",
    )
    .unwrap();
    let want_i = vec![
        PlistEntry::Mode(None),
        cwd("/b/"),
        PlistEntry::Exec(OsString::from("x")),
        file("f2"),
    ];
    let want_u = vec![
        PlistEntry::Mode(None),
        cwd("/b/"),
        PlistEntry::UnExec(OsString::from("y")),
        file("f2"),
    ];
    assert_eq!(p.install_cmds(), want_i.iter().collect::<Vec<_>>());
    assert_eq!(p.uninstall_cmds(), want_u.iter().collect::<Vec<_>>());
    assert!(!p.is_preserve());
}

#[test]
fn empty_and_only_ignored() {
    let p = Plist::from_bytes(b"").unwrap();
    assert!(p.install_cmds().is_empty());
    assert!(p.uninstall_cmds().is_empty());
    assert!(!p.is_preserve());
    let p = Plist::from_bytes(b"@ignore\nonly\n@ignore\n").unwrap();
    assert!(p.install_cmds().is_empty());
    assert!(p.uninstall_cmds().is_empty());
    assert!(!p.is_preserve());
}

#[test]
fn preserve_counts() {
    let p = Plist::from_bytes(b"@option preserve\n@option preserve\n")
        .unwrap();
    assert!(p.is_preserve());
    assert_eq!(
        p,
        {
            let mut q = Plist::from_bytes(b"@option preserve").unwrap();
            assert!(q.is_preserve());
            q = Plist::from_bytes(b"@option preserve\n@option preserve")
                .unwrap();
            q
        }
    );
    let _ = PlistOption::Preserve;
    let p = Plist::from_bytes(b"@comment preserve\nbin/preserve\n").unwrap();
    assert!(!p.is_preserve());
}

#[test]
fn file_views_agree() {
    let p = Plist::from_bytes(
        b"a\n@ignore\n@cwd /x\nb\nc\n@ignore\n@ignore\n@dirrm q\nd\ne\n@ignore\n",
    )
    .unwrap();
    let files = p.files();
    let pick = |v: Vec<&PlistEntry>| -> Vec<OsString> {
        v.into_iter()
            .filter_map(|e| match e {
                PlistEntry::File(f) => Some(f.clone()),
                _ => None,
            })
            .collect()
    };
    let fi = pick(p.install_cmds());
    let fu = pick(p.uninstall_cmds());
    assert_eq!(fi, vec!["a", "c", "e"]);
    assert_eq!(fi, fu);
    assert_eq!(fi.len(), files.len());
    for (a, b) in fi.iter().zip(files.iter()) {
        assert_eq!(a.as_os_str(), *b);
    }
}
