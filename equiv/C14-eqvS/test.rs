/*
 * Equivalence test: documents that PLIST parsing behaves the same before
 * and after the refactoring.  Public API only.
 */
use pkgsrc::plist::{Plist, PlistEntry, PlistError, PlistOption};
use std::ffi::{OsStr, OsString};
use std::os::unix::ffi::OsStrExt;

fn os(b: &[u8]) -> OsString {
    OsString::from(OsStr::from_bytes(b))
}

fn is_blank(line: &[u8]) -> bool {
    line.iter()
        .all(|c| matches!(*c, b' ' | b'\t' | b'\r' | 0x0b | 0x0c))
}

/* Reference: one entry per non-blank line, each parsed on its own. */
fn model(bytes: &[u8]) -> String {
    let mut entries = Vec::new();
    for line in bytes.split(|c| *c == b'\n') {
        if is_blank(line) {
            continue;
        }
        match PlistEntry::from_bytes(line) {
            Ok(e) => entries.push(e),
            Err(e) => return format!("Err({:?})", e),
        }
    }
    format!("Ok(Plist {{ entries: {:?} }})", entries)
}

fn actual(bytes: &[u8]) -> String {
    match Plist::from_bytes(bytes) {
        Ok(p) => format!("Ok({:?})", p),
        Err(e) => format!("Err({:?})", e),
    }
}

#[test]
fn single_lines() {
    let e = |b: &[u8]| PlistEntry::from_bytes(b);
    /* Files: anything not starting with '@', bytes kept exactly. */
    for f in [&b"a"[..], b"bin/foo", b" @comment ", b"  lead", b"trail  ", b"two words", b"caf\xc3\xa9", b"\xff\xfe", b"a\tb", b"x@y", b" ", b"="] {
        assert_eq!(e(f).unwrap(), PlistEntry::File(os(f)), "{:?}", f);
    }
    assert_eq!(e(b"").unwrap(), PlistEntry::File(os(b"")));
    /* Required raw-byte arguments. */
    assert_eq!(e(b"@cwd /opt/pkg").unwrap(), PlistEntry::Cwd(os(b"/opt/pkg")));
    assert_eq!(e(b"@src /opt/pkg").unwrap(), PlistEntry::Cwd(os(b"/opt/pkg")));
    assert_eq!(e(b"@cd  \t /o\xe9 x ").unwrap(), PlistEntry::Cwd(os(b"/o\xe9 x ")));
    assert_eq!(e(b"@exec echo hi  there").unwrap(), PlistEntry::Exec(os(b"echo hi  there")));
    assert_eq!(e(b"@unexec rm \xff").unwrap(), PlistEntry::UnExec(os(b"rm \xff")));
    assert_eq!(e(b"@pkgdir d\xa0").unwrap(), PlistEntry::PkgDir(os(b"d\xa0")));
    assert_eq!(e(b"@dirrm d").unwrap(), PlistEntry::DirRm(os(b"d")));
    assert_eq!(e(b"@display MSG").unwrap(), PlistEntry::Display(os(b"MSG")));
    for c in ["@cwd", "@src", "@cd", "@exec", "@unexec", "@pkgdir", "@dirrm", "@display", "@name", "@pkgdep", "@blddep", "@pkgcfl"] {
        for tail in ["", " ", "  \t "] {
            let l = format!("{}{}", c, tail);
            match e(l.as_bytes()) {
                Err(PlistError::IncorrectArguments(s)) => assert_eq!(s, OsString::from(&l)),
                other => panic!("{:?}: {:?}", l, other),
            }
        }
        /* A one-byte argument is an argument. */
        assert!(e(format!("{} x", c).as_bytes()).is_ok(), "{}", c);
    }
    /* UTF-8 arguments. */
    assert_eq!(e(b"@name pkg-1.0").unwrap(), PlistEntry::Name("pkg-1.0".into()));
    assert_eq!(e("@name  p\u{e9}-1".as_bytes()).unwrap(), PlistEntry::Name("p\u{e9}-1".into()));
    assert_eq!(e(b"@pkgdep dep>=1").unwrap(), PlistEntry::PkgDep("dep>=1".into()));
    assert_eq!(e(b"@blddep b-[0-9]*").unwrap(), PlistEntry::BldDep("b-[0-9]*".into()));
    assert_eq!(e(b"@pkgcfl c<2 ").unwrap(), PlistEntry::PkgCfl("c<2 ".into()));
    for c in ["@name", "@pkgdep", "@blddep", "@pkgcfl", "@mode", "@owner", "@group"] {
        let mut l = format!("{} a", c).into_bytes();
        l.push(0xe9);
        assert!(matches!(e(&l), Err(PlistError::Utf8(_))), "{}", c);
    }
    /* Optional arguments. */
    assert_eq!(e(b"@mode").unwrap(), PlistEntry::Mode(None));
    assert_eq!(e(b"@mode  ").unwrap(), PlistEntry::Mode(None));
    assert_eq!(e(b"@mode 0644").unwrap(), PlistEntry::Mode(Some("0644".into())));
    assert_eq!(e(b"@owner \t ").unwrap(), PlistEntry::Owner(None));
    assert_eq!(e(b"@owner root").unwrap(), PlistEntry::Owner(Some("root".into())));
    assert_eq!(e(b"@group").unwrap(), PlistEntry::Group(None));
    assert_eq!(e("@group wh\u{e9}\u{e9}l".as_bytes()).unwrap(), PlistEntry::Group(Some("wh\u{e9}\u{e9}l".into())));
    assert_eq!(e(b"@comment").unwrap(), PlistEntry::Comment(None));
    assert_eq!(e(b"@comment ").unwrap(), PlistEntry::Comment(None));
    assert_eq!(e(b"@comment  hi ").unwrap(), PlistEntry::Comment(Some(os(b"hi "))));
    assert_eq!(e(b"@comment \xff").unwrap(), PlistEntry::Comment(Some(os(b"\xff"))));
    assert_eq!(e(b"@comment \x0b\x0c\r x").unwrap(), PlistEntry::Comment(Some(os(b"x"))));
    assert_eq!(e(b"@comment \xa0x").unwrap(), PlistEntry::Comment(Some(os(b"\xa0x"))));
    /* Forbidden arguments, options, unknown commands. */
    assert_eq!(e(b"@ignore").unwrap(), PlistEntry::Ignore);
    assert_eq!(e(b"@ignore  ").unwrap(), PlistEntry::Ignore);
    assert!(matches!(e(b"@ignore x"), Err(PlistError::IncorrectArguments(s)) if s == "@ignore x"));
    assert_eq!(e(b"@option preserve").unwrap(), PlistEntry::PkgOpt(PlistOption::Preserve));
    assert_eq!(e(b"@option   preserve").unwrap(), PlistEntry::PkgOpt(PlistOption::Preserve));
    assert!(matches!(e(b"@option preserve "), Err(PlistError::UnsupportedCommand(s)) if s == "@option"));
    assert!(matches!(e(b"@option other"), Err(PlistError::UnsupportedCommand(s)) if s == "@option"));
    assert!(matches!(e(b"@option"), Err(PlistError::IncorrectArguments(s)) if s == "@option"));
    assert!(matches!(e(b"@option \xff"), Err(PlistError::IncorrectArguments(_))));
    for u in [&b"@"[..], b"@ x", b"@bogus", b"@bogus arg", b"@CWD /", b"@cwd\t/x", b"@namex y", b"@@name x", b"@\xff x"] {
        assert!(matches!(e(u), Err(PlistError::UnsupportedCommand(_))), "{:?}", u);
    }
    /* Error text is stable. */
    assert_eq!(e(b"@bogus arg").unwrap_err().to_string(), "unsupported plist command: @bogus");
    assert_eq!(e(b"@cwd").unwrap_err().to_string(), "incorrect command arguments: @cwd");
}

#[test]
fn one_entry_per_non_blank_line() {
    let inputs: Vec<Vec<u8>> = vec![
        b"".to_vec(),
        b"\n".to_vec(),
        b"\n\n\n".to_vec(),
        b"a".to_vec(),
        b"a\n".to_vec(),
        b"a\nb".to_vec(),
        b"a\nb\n".to_vec(),
        b"\na\n\nb\n\n".to_vec(),
        b"@".to_vec(),
        b"@\n".to_vec(),
        b"a\n@\nb\n".to_vec(),
        b"  \n\t\n \t \r\n\x0b\x0c\nx\n   ".to_vec(),
        b"   ".to_vec(),
        b" a\n  b \n\tc".to_vec(),
        b"@name pkg-1.0\n@comment\n@comment hi\nbin/a\n@ignore\n+CONTENTS\n@cwd /opt\n@mode\n@mode 0755\nbin/b\n@option preserve\n".to_vec(),
        b"@name pkg-1.0\n@cwd\nbin/a\n".to_vec(),
        b"bin/a\n@bogus\n@cwd\n".to_vec(),
        b"bin/a\n@name \xff\n".to_vec(),
        b"bin/a\n@name \xff".to_vec(),
        b"caf\xc3\xa9\n\xff\xfe\n@comment \xe9\n@pkgdir d\xe9\n\xa0\n\x85".to_vec(),
        b"a\r\nb\r\n".to_vec(),
        b"@ignore\n@ignore \n@ignore x\n".to_vec(),
        b"\n \n@exec  true\n@unexec  false".to_vec(),
    ];
    for i in inputs.iter() {
        assert_eq!(actual(i), model(i), "{:?}", String::from_utf8_lossy(i));
    }
    /* Every line length, with and without the final newline. */
    for n in 1..40usize {
        let name = vec![b'f'; n];
        let mut t = Vec::new();
        for _ in 0..3 {
            t.extend_from_slice(&name);
            t.push(b'\n');
        }
        assert_eq!(actual(&t), model(&t));
        let p = Plist::from_bytes(&t).unwrap();
        assert_eq!(p.files().len(), 3);
        assert_eq!(p.files()[2], OsStr::from_bytes(&name));
        t.pop();
        assert_eq!(actual(&t), model(&t));
        assert_eq!(Plist::from_bytes(&t).unwrap().files().len(), 3);
    }
    /* A very long line and a very long list. */
    let long = vec![b'x'; 200_000];
    let p = Plist::from_bytes(&long).unwrap();
    assert_eq!(p.files(), [OsStr::from_bytes(&long)]);
    let many = b"f\n".repeat(10_000);
    assert_eq!(Plist::from_bytes(&many).unwrap().files().len(), 10_000);
}

#[test]
fn accessors_see_the_parsed_entries() {
    let text = b"@comment $NetBSD$\n@name pkg-1.0\n@pkgdep a>=1\n@blddep b-[0-9]*\n@pkgcfl c<2\n@display MESSAGE\n@cwd /opt/pkg\n@ignore\n+CONTENTS\nbin/a\n@pkgdir share/x\n@dirrm share/y\n@exec true\n@unexec false\n@option preserve\nb";
    let p = Plist::from_bytes(text).unwrap();
    assert_eq!(actual(text), model(text));
    assert_eq!(p.pkgname(), Some("pkg-1.0"));
    assert_eq!(p.display(), Some(OsStr::new("MESSAGE")));
    assert_eq!(p.depends(), ["a>=1"]);
    assert_eq!(p.build_depends(), ["b-[0-9]*"]);
    assert_eq!(p.conflicts(), ["c<2"]);
    assert_eq!(p.pkgdirs(), [OsStr::new("share/x")]);
    assert_eq!(p.pkgrmdirs(), [OsStr::new("share/y")]);
    assert_eq!(p.files(), [OsStr::new("bin/a"), OsStr::new("b")]);
    assert_eq!(p.files_prefixed(), [OsString::from("/opt/pkg/bin/a"), OsString::from("/opt/pkg/b")]);
    assert!(p.is_preserve());
    assert_eq!(Plist::from_bytes(b"").unwrap(), Plist::new());
    assert!(!Plist::new().is_preserve());
}
