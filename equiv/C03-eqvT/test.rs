/*
 * Exercises Dewey::matches / Pattern::matches (package name splitting, the
 * loop over the bounds) and the version comparison (common prefix, both
 * padding branches, PKGREVISION) against fixed verdicts, against the order
 * laws, and against a small independent model of the documented behaviour.
 */
use pkgsrc::{Dewey, Pattern};
use std::cmp::Ordering;

const OPS: [&str; 4] = ["<", "<=", ">", ">="];

fn holds(a: &str, op: &str, b: &str) -> bool {
    let pat = format!("pk{op}{b}");
    let pkg = format!("pk-{a}");
    let r = Pattern::new(&pat).unwrap().matches(&pkg);
    assert_eq!(r, Dewey::new(&pat).unwrap().matches(&pkg), "{pat} on {pkg}");
    r
}

/* ---- independent model ------------------------------------------------ */

fn model_parse(s: &str) -> (Vec<i64>, i64) {
    let b: Vec<u8> = s.bytes().map(|c| c.to_ascii_lowercase()).collect();
    let mut v = vec![];
    let mut rev = 0i64;
    let mut i = 0;
    let digits = |from: usize| {
        let mut j = from;
        while j < b.len() && b[j].is_ascii_digit() {
            j += 1;
        }
        j
    };
    while i < b.len() {
        let rest = &b[i..];
        if rest[0].is_ascii_digit() {
            let j = digits(i);
            let t = std::str::from_utf8(&b[i..j]).unwrap();
            v.push(t.parse::<i64>().unwrap_or(i64::MAX));
            i = j;
        } else if rest[0] == b'.' || rest[0] == b'_' {
            v.push(0);
            i += 1;
        } else if rest.starts_with(b"nb") {
            let j = digits(i + 2);
            let t = std::str::from_utf8(&b[i + 2..j]).unwrap();
            rev = t.parse::<i64>().unwrap_or(0);
            i = j;
        } else if rest.starts_with(b"alpha") {
            v.push(-3);
            i += 5;
        } else if rest.starts_with(b"beta") {
            v.push(-2);
            i += 4;
        } else if rest.starts_with(b"rc") {
            v.push(-1);
            i += 2;
        } else if rest.starts_with(b"pre") {
            v.push(-1);
            i += 3;
        } else if rest.starts_with(b"pl") {
            v.push(0);
            i += 2;
        } else if rest[0].is_ascii_alphabetic() {
            v.push(0);
            v.push(rest[0] as i64);
            i += 1;
        } else {
            i += 1;
        }
    }
    (v, rev)
}

fn model_cmp(a: &str, b: &str) -> Ordering {
    let (va, ra) = model_parse(a);
    let (vb, rb) = model_parse(b);
    let n = va.len().max(vb.len());
    for i in 0..n {
        let x = va.get(i).copied().unwrap_or(0);
        let y = vb.get(i).copied().unwrap_or(0);
        if x != y {
            return x.cmp(&y);
        }
    }
    ra.cmp(&rb)
}

fn model_holds(a: &str, op: &str, b: &str) -> bool {
    let o = model_cmp(a, b);
    match op {
        "<" => o == Ordering::Less,
        "<=" => o != Ordering::Greater,
        ">" => o == Ordering::Greater,
        ">=" => o != Ordering::Less,
        _ => unreachable!(),
    }
}

const VERSIONS: [&str; 40] = [
    "", "0", "1", "1.0", "1.0.0", "1.0.0.", "1_0", "1pl0", "1.0rc1", "1.0rc",
    "1.0beta2", "1.0alpha", "1.1alpha", "1.1rc", "1.0.0alpha3", "1.0alpha.1",
    "1.2", "1.10", "1nb1", "1.0nb2", "1.0rc1nb3", "1.0nb", "2", "2.0pre1",
    "2.0.1beta", "0.0.1rc", "1.0a", "1.0A", "1.0b2", "1.22b2", "1.1blah2",
    "20240101", "99999999999999999999", "1.99999999999999999999nb7",
    "1nb99999999999999999999", "\u{e9}1.\u{4e16}2", "1~2+3", "ALPHA", "rc",
    "1.0.0.0alphanb1",
];

/* ---- tests ------------------------------------------------------------ */

#[test]
fn fixed_verdicts() {
    /* Common prefix decides. */
    assert!(holds("1.2", "<", "1.10"));
    assert!(holds("2.0", ">", "1.99"));
    /* Left-hand side shorter. */
    assert!(holds("1", ">", "1.0rc1"));
    assert!(holds("1", "<", "1.0.1"));
    assert!(holds("1", "<", "1.1alpha"));
    assert!(holds("1", ">=", "1.0.0"));
    assert!(holds("1", "<=", "1.0.0"));
    assert!(holds("1", "<", "1.0.0nb1"));
    assert!(!holds("1nb2", "<=", "1.0.0nb1"));
    /* Left-hand side longer. */
    assert!(holds("1.0rc1", "<", "1"));
    assert!(holds("1.0.1", ">", "1"));
    assert!(holds("1.1alpha", ">", "1"));
    assert!(holds("1.0.0", ">=", "1"));
    assert!(holds("1.0.0", "<=", "1"));
    assert!(holds("1.0.0nb1", ">", "1"));
    assert!(!holds("1.0.0nb1", ">=", "1nb2"));
    /* Equal length, PKGREVISION decides. */
    assert!(holds("1.0nb3", ">", "1.0nb2"));
    assert!(holds("1.0", "<", "1.0nb1"));
    assert!(holds("1.0nb1", ">=", "1.0nb1"));
    assert!(!holds("1.0nb1", ">", "1.0nb1"));
    /* Case is ignored. */
    assert!(holds("1.0RC1", "<=", "1.0rc1"));
    assert!(holds("1.0RC1", ">=", "1.0rc1"));
}

#[test]
fn package_name_splitting() {
    let m = Dewey::new("foo-bar>=1.0<2").unwrap();
    assert!(m.matches("foo-bar-1.0"));
    assert!(m.matches("foo-bar-1.5nb2"));
    assert!(!m.matches("foo-bar-2.0"));
    assert!(!m.matches("foo-bar"));
    assert!(!m.matches("foo-1.0"));
    assert!(!m.matches("foo-bar-baz-1.0"));
    assert!(!m.matches("bar-1.0"));
    assert!(!m.matches("1.0"));
    assert!(!m.matches(""));
    assert!(!m.matches("-"));
    assert!(!m.matches("-1.0"));
    assert!(!m.matches("foo-bar-1.0-1"));

    let m = Dewey::new("pkg>=0").unwrap();
    assert!(m.matches("pkg-"));
    assert!(m.matches("pkg-0"));
    assert!(!m.matches("pkg"));
    assert!(!m.matches("pkg1-1"));
    assert!(!m.matches("pkg--1"));

    /* An empty package name in the pattern. */
    let m = Dewey::new(">=1").unwrap();
    assert!(m.matches("-1"));
    assert!(m.matches("-2"));
    assert!(!m.matches("-0.5"));
    assert!(!m.matches("1"));
    assert!(!m.matches("a-1"));

    let p = Pattern::new("foo-bar>1<3").unwrap();
    assert!(p.matches("foo-bar-2"));
    assert!(!p.matches("foo-bar-3"));
    assert!(!p.matches("foo-bar"));
    assert!(!p.matches("foo-baz-2"));
}

#[test]
fn agrees_with_model_on_all_pairs() {
    for a in VERSIONS {
        for b in VERSIONS {
            for op in OPS {
                assert_eq!(
                    holds(a, op, b),
                    model_holds(a, op, b),
                    "{a:?} {op} {b:?}"
                );
            }
        }
    }
}

#[test]
fn order_laws_on_all_pairs() {
    for a in VERSIONS {
        assert!(holds(a, "<=", a) && holds(a, ">=", a));
        assert!(!holds(a, "<", a) && !holds(a, ">", a));
        for b in VERSIONS {
            let lt = holds(a, "<", b);
            let gt = holds(a, ">", b);
            let le = holds(a, "<=", b);
            let ge = holds(a, ">=", b);
            assert_eq!(le, !gt, "{a:?} {b:?}");
            assert_eq!(ge, !lt, "{a:?} {b:?}");
            assert_eq!(
                [lt, gt, le && ge].iter().filter(|&&v| v).count(),
                1,
                "{a:?} {b:?}"
            );
            assert_eq!(lt, holds(b, ">", a), "{a:?} {b:?}");
            assert_eq!(le, holds(b, ">=", a), "{a:?} {b:?}");
        }
    }
}

#[test]
fn transitivity_on_triples() {
    let n = VERSIONS.len();
    let mut le = vec![vec![false; n]; n];
    for i in 0..n {
        for j in 0..n {
            le[i][j] = holds(VERSIONS[i], "<=", VERSIONS[j]);
        }
    }
    for i in 0..n {
        for j in 0..n {
            for k in 0..n {
                if le[i][j] && le[j][k] {
                    assert!(
                        le[i][k],
                        "{:?} <= {:?} <= {:?}",
                        VERSIONS[i], VERSIONS[j], VERSIONS[k]
                    );
                }
            }
        }
    }
}

#[test]
fn two_bounds_are_the_conjunction_of_the_halves() {
    let vs = [
        "0", "1", "1.0", "1.0rc1", "1.0nb1", "1.2", "2", "2.0beta", "2.0.0",
        "3alpha", "",
    ];
    for lo_op in [">", ">="] {
        for hi_op in ["<", "<="] {
            for lo in vs {
                for hi in vs {
                    let pat = format!("pk{lo_op}{lo}{hi_op}{hi}");
                    let d = Dewey::new(&pat).unwrap();
                    let p = Pattern::new(&pat).unwrap();
                    for v in vs {
                        let want = holds(v, lo_op, lo) && holds(v, hi_op, hi);
                        let pkg = format!("pk-{v}");
                        assert_eq!(d.matches(&pkg), want, "{pat} on {pkg}");
                        assert_eq!(p.matches(&pkg), want, "{pat} on {pkg}");
                    }
                }
            }
        }
    }
}

#[test]
fn agrees_with_model_on_generated_versions() {
    /* Deterministic pseudo-random version strings from version-ish pieces. */
    let pieces = [
        "0", "1", "2", "9", "10", "007", ".", "_", "nb", "nb1", "nb12",
        "alpha", "beta", "rc", "pre", "pl", "a", "B", "z", "n", "+", "~",
        "\u{e9}", " ", "18446744073709551616",
    ];
    let mut state: u64 = 0x9e37_79b9_7f4a_7c15;
    let mut next = move |m: usize| {
        state = state
            .wrapping_mul(6364136223846793005)
            .wrapping_add(1442695040888963407);
        ((state >> 33) as usize) % m
    };
    let gen = |next: &mut dyn FnMut(usize) -> usize| {
        let n = next(7);
        let mut s = String::new();
        for _ in 0..n {
            s.push_str(pieces[next(pieces.len())]);
        }
        s
    };
    for _ in 0..3000 {
        let a = gen(&mut next);
        let b = gen(&mut next);
        for op in OPS {
            assert_eq!(
                holds(&a, op, &b),
                model_holds(&a, op, &b),
                "{a:?} {op} {b:?}"
            );
        }
        /* Same name check and same verdicts under a hyphenated name. */
        let pat = format!("x-y>={b}");
        assert_eq!(
            Dewey::new(&pat).unwrap().matches(&format!("x-y-{a}")),
            model_holds(&a, ">=", &b)
        );
        assert!(!Dewey::new(&pat).unwrap().matches(&format!("x-{a}")));
    }
}
