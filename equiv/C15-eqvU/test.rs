use pkgsrc::plist::Plist;
use std::ffi::{OsStr, OsString};
use std::os::unix::ffi::{OsStrExt, OsStringExt};

fn os(b: &[u8]) -> OsString {
    OsString::from_vec(b.to_vec())
}

fn check(input: &[u8], files: &[&[u8]], prefixed: &[&[u8]]) {
    let plist = Plist::from_bytes(input).expect("valid plist");
    let want_files: Vec<&OsStr> =
        files.iter().map(|b| OsStr::from_bytes(b)).collect();
    let want_prefixed: Vec<OsString> = prefixed.iter().map(|b| os(b)).collect();
    assert_eq!(plist.files(), want_files, "files() for {:?}", input);
    assert_eq!(
        plist.files_prefixed(),
        want_prefixed,
        "files_prefixed() for {:?}",
        input
    );
}

#[test]
fn empty_and_no_files() {
    check(b"", &[], &[]);
    check(b"\n\n  \n", &[], &[]);
    check(b"@name pkg-1.0\n@cwd /opt\n@ignore\n", &[], &[]);
    check(b"@ignore\n@ignore\n", &[], &[]);
}

#[test]
fn no_cwd() {
    check(b"a\nb/c\n", &[b"a", b"b/c"], &[b"/a", b"/b/c"]);
    check(b"/abs\n", &[b"/abs"], &[b"//abs"]);
}

#[test]
fn cwd_variants() {
    check(
        b"@cwd /opt/pkg\nbin/a\n@cwd /\nbin/b\n@cwd /usr/\nbin/c\n@cwd rel\nd\n@cwd //\ne\n",
        &[b"bin/a", b"bin/b", b"bin/c", b"d", b"e"],
        &[b"/opt/pkg/bin/a", b"/bin/b", b"/usr/bin/c", b"rel/d", b"//e"],
    );
    /* @src and @cd are aliases, and the most recent one wins. */
    check(
        b"@src /s\n@cd /c\nf\n@cwd /w\n@cwd /x/\ng\n",
        &[b"f", b"g"],
        &[b"/c/f", b"/x/g"],
    );
    /* Cwd set before files that come much later, other commands between. */
    check(
        b"@cwd /p\n@mode 0644\n@owner root\n@exec true\n@pkgdir /d\nf\n@unexec x\n@dirrm /r\ng\n",
        &[b"f", b"g"],
        &[b"/p/f", b"/p/g"],
    );
}

#[test]
fn ignore_variants() {
    /* Adjacent. */
    check(b"a\n@ignore\nb\nc\n", &[b"a", b"c"], &[b"/a", b"/c"]);
    /* Leading, trailing. */
    check(b"@ignore\na\nb\n@ignore\n", &[b"b"], &[b"/b"]);
    /* Consecutive ignores only drop one file. */
    check(b"@ignore\n@ignore\na\nb\n", &[b"b"], &[b"/b"]);
    /* Separated from the file by other commands, including @cwd. */
    check(
        b"@cwd /opt/pkg\nbin/good\n@cwd /\nbin/evil\n@ignore\n@cwd /tmp\n@comment x\n+IGNORE_ME\n@cwd /opt/pkg\nbin/ok\n",
        &[b"bin/good", b"bin/evil", b"bin/ok"],
        &[b"/opt/pkg/bin/good", b"/bin/evil", b"/opt/pkg/bin/ok"],
    );
    /* Cwd seen while ignoring is still in effect afterwards. */
    check(
        b"@ignore\n@cwd /late\nx\ny\n",
        &[b"y"],
        &[b"/late/y"],
    );
    /* Every file ignored. */
    check(b"@ignore\na\n@ignore\nb\n", &[], &[]);
    /* Alternating. */
    check(
        b"a\n@ignore\nb\nc\n@ignore\nd\ne\n",
        &[b"a", b"c", b"e"],
        &[b"/a", b"/c", b"/e"],
    );
}

#[test]
fn non_utf8_and_non_ascii() {
    /* ISO-8859 byte at the end of the directory: needs a separator. */
    check(
        b"@cwd /opt/\xf8\nf\xf8\n",
        &[b"f\xf8"],
        &[b"/opt/\xf8/f\xf8"],
    );
    /* ISO-8859 byte followed by a slash: no additional separator. */
    check(b"@cwd /opt/\xf8/\nf\n", &[b"f"], &[b"/opt/\xf8/f"]);
    /* Truncated multi-byte sequence right before the slash. */
    check(b"@cwd /opt/\xf0\x9f/\nf\n", &[b"f"], &[b"/opt/\xf0\x9f/f"]);
    check(b"@cwd /opt/\xf0\x9f\nf\n", &[b"f"], &[b"/opt/\xf0\x9f/f"]);
    /* Valid UTF-8 multi-byte directory names. */
    check(
        "@cwd /opt/\u{1F496}\nf\n@cwd /\u{00f8}/\ng\n".as_bytes(),
        &[b"f", b"g"],
        &["/opt/\u{1F496}/f".as_bytes(), "/\u{00f8}/g".as_bytes()],
    );
    /* U+FF0F FULLWIDTH SOLIDUS and U+2215 are not separators. */
    check(
        "@cwd /a\u{FF0F}\nf\n@cwd /b\u{2215}\ng\n".as_bytes(),
        &[b"f", b"g"],
        &["/a\u{FF0F}/f".as_bytes(), "/b\u{2215}/g".as_bytes()],
    );
    /* Directory whose last byte is 0xaf or 0x2f-lookalike continuation. */
    check(b"@cwd /x\xc0\xaf\nf\n", &[b"f"], &[b"/x\xc0\xaf/f"]);
}

#[test]
fn odd_file_names() {
    /* Leading whitespace makes a line a file, even if it looks like a command. */
    check(
        b"@cwd /p\n @ignore\nf\n",
        &[b" @ignore", b"f"],
        &[b"/p/ @ignore", b"/p/f"],
    );
    /* File names with spaces and trailing slash. */
    check(
        b"@cwd /p/\ndir with space/\n",
        &[b"dir with space/"],
        &[b"/p/dir with space/"],
    );
    /* No trailing newline. */
    check(b"@cwd /p\nlast", &[b"last"], &[b"/p/last"]);
}

#[test]
fn long_sequence() {
    let mut input = Vec::new();
    let mut want_files: Vec<Vec<u8>> = Vec::new();
    let mut want_prefixed: Vec<Vec<u8>> = Vec::new();
    let mut cwd: Vec<u8> = Vec::new();
    let mut ignore = false;
    for i in 0..500u32 {
        match i % 7 {
            0 => {
                cwd = format!("/d{}{}", i, if i % 2 == 0 { "/" } else { "" })
                    .into_bytes();
                input.extend_from_slice(b"@cwd ");
                input.extend_from_slice(&cwd);
                input.push(b'\n');
            }
            3 if i % 5 == 0 => {
                input.extend_from_slice(b"@ignore\n");
                ignore = true;
            }
            4 => input.extend_from_slice(b"@comment hello\n"),
            _ => {
                let f = format!("file{}", i).into_bytes();
                input.extend_from_slice(&f);
                input.push(b'\n');
                if ignore {
                    ignore = false;
                } else {
                    let mut p = cwd.clone();
                    if p.last() != Some(&b'/') {
                        p.push(b'/');
                    }
                    p.extend_from_slice(&f);
                    want_files.push(f);
                    want_prefixed.push(p);
                }
            }
        }
    }
    let f: Vec<&[u8]> = want_files.iter().map(|v| v.as_slice()).collect();
    let p: Vec<&[u8]> = want_prefixed.iter().map(|v| v.as_slice()).collect();
    check(&input, &f, &p);
}
