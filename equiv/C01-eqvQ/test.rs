/*
 * Behaviour check for version tokenisation (DeweyVersion::new), observed
 * through the public Dewey / Pattern API.  Passes before and after the
 * refactoring.
 */
use pkgsrc::{Dewey, Pattern};

/* -1, 0, 1 for ver <, ==, > bound, checking all four operators agree. */
fn cmp(ver: &str, bound: &str) -> i32 {
    let pkg = format!("pkg-{ver}");
    let r: Vec<bool> = [">", ">=", "<", "<="]
        .iter()
        .map(|op| {
            let pat = format!("pkg{op}{bound}");
            let d = Dewey::new(&pat).unwrap().matches(&pkg);
            assert_eq!(d, Pattern::new(&pat).unwrap().matches(&pkg));
            d
        })
        .collect();
    match (r[0], r[1], r[2], r[3]) {
        (true, true, false, false) => 1,
        (false, true, false, true) => 0,
        (false, false, true, true) => -1,
        other => panic!("inconsistent operators {other:?} for {ver} vs {bound}"),
    }
}

#[test]
fn empty_and_ignored() {
    assert_eq!(cmp("", ""), 0);
    assert_eq!(cmp("", "0"), 0);
    assert_eq!(cmp("\u{e9}", ""), 0);
    assert_eq!(cmp("\u{e9}\u{4e16}\u{1f600}", ""), 0);
    assert_eq!(cmp("1\u{e9}", "1"), 0);
    assert_eq!(cmp("\u{e9}1", "1"), 0);
    assert_eq!(cmp("1+~!@#$%^&*()2", "1.2"), 1);
    assert_eq!(cmp("1 2", "1.0.2"), 1);
    /* trailing multibyte char must terminate cleanly */
    assert_eq!(cmp("1.0\u{1f600}", "1.0"), 0);
}

#[test]
fn modifiers() {
    assert_eq!(cmp("1alpha", "1beta"), -1);
    assert_eq!(cmp("1beta", "1rc"), -1);
    assert_eq!(cmp("1rc", "1pre"), 0);
    assert_eq!(cmp("1pre", "1"), -1);
    assert_eq!(cmp("1pl", "1"), 0);
    assert_eq!(cmp("1pl", "1."), 0);
    assert_eq!(cmp("1_", "1."), 0);
    assert_eq!(cmp("1pl1", "1.1"), 0);
    assert_eq!(cmp("1ALPHA", "1alpha"), 0);
    assert_eq!(cmp("1Beta2", "1beta2"), 0);
    assert_eq!(cmp("1PRE", "1rc"), 0);
    assert_eq!(cmp("1Pl", "1_"), 0);
    /* prefixes of modifiers are plain letters */
    assert_eq!(cmp("1alph", "1alpha"), 1);
    assert_eq!(cmp("1bet", "1beta"), 1);
    assert_eq!(cmp("1r", "1rc"), 1);
    assert_eq!(cmp("1pr", "1pre"), 1);
    assert_eq!(cmp("1p", "1pl"), 1);
    /* "pre" is tried before "pl"; "prc" = p, rc */
    assert_eq!(cmp("1prc", "1p"), -1);
}

#[test]
fn letters() {
    assert_eq!(cmp("1a", "1a"), 0);
    assert_eq!(cmp("1A", "1a"), 0);
    assert_eq!(cmp("1a", "1b"), -1);
    assert_eq!(cmp("1z", "1y"), 1);
    assert_eq!(cmp("1a", "1.1"), 1);
    assert_eq!(cmp("1a", "1"), 1);
    assert_eq!(cmp("1ab", "1a"), 1);
    assert_eq!(cmp("1a\u{e9}b", "1ab"), 0);
}

#[test]
fn revision() {
    assert_eq!(cmp("1nb1", "1"), 1);
    assert_eq!(cmp("1nb", "1"), 0);
    assert_eq!(cmp("1NB2", "1nb2"), 0);
    assert_eq!(cmp("1nb2nb1", "1nb1"), 0);
    assert_eq!(cmp("1nb2.1", "1.1nb2"), 0);
    assert_eq!(cmp("1n", "1nb"), 1);
    assert_eq!(cmp("1nb99999999999999999999", "1"), 0);
    assert_eq!(cmp("nb3", "nb2"), 1);
}

#[test]
fn digits() {
    assert_eq!(cmp("007", "7"), 0);
    assert_eq!(cmp("10", "9"), 1);
    assert_eq!(cmp("1.10", "1.9"), 1);
    assert_eq!(cmp("99999999999999999999", "9223372036854775807"), 0);
    assert_eq!(cmp("999999999999999999", "999999999999999998"), 1);
    /* non-ASCII digits are ignored */
    assert_eq!(cmp("1\u{0663}", "1"), 0);
    let long = "1.".repeat(2000);
    assert_eq!(cmp(&long, &long), 0);
    assert_eq!(cmp(&format!("{long}1"), &long), 1);
}
