/*
 * Exercise Pattern::new dispatch, the first-two-characters shortcut and the
 * glob / plain delegation in Pattern::matches against an independent
 * reference matcher, exhaustively over small patterns and names.
 */
use pkgsrc::{Pattern, PatternError};

/* Pattern atoms: every atom is a complete glob token. */
const ATOMS: &[&str] = &[
    "a", "b", "A", "-", "1", ".", "*", "?", "[ab]", "[!a]", "[a-b]", "[0-9]",
    "[!0-9A]",
];
const NAME_CHARS: &[char] = &['a', 'b', 'A', '-', '1', '.', 'c'];

#[derive(Clone, Debug)]
enum Tok {
    Lit(char),
    Any,
    Star,
    Set(bool, Vec<(char, char)>),
}

fn parse(p: &str) -> Vec<Tok> {
    let cs: Vec<char> = p.chars().collect();
    let mut i = 0;
    let mut out = vec![];
    while i < cs.len() {
        match cs[i] {
            '*' => out.push(Tok::Star),
            '?' => out.push(Tok::Any),
            '[' => {
                let end = i + cs[i..].iter().position(|&c| c == ']').unwrap();
                let mut body = &cs[i + 1..end];
                let neg = body[0] == '!';
                if neg {
                    body = &body[1..];
                }
                let mut set = vec![];
                let mut j = 0;
                while j < body.len() {
                    if j + 2 < body.len() && body[j + 1] == '-' {
                        set.push((body[j], body[j + 2]));
                        j += 3;
                    } else {
                        set.push((body[j], body[j]));
                        j += 1;
                    }
                }
                out.push(Tok::Set(neg, set));
                i = end;
            }
            c => out.push(Tok::Lit(c)),
        }
        i += 1;
    }
    out
}

fn ref_match(toks: &[Tok], name: &[char]) -> bool {
    match toks.first() {
        None => name.is_empty(),
        Some(Tok::Star) => {
            (0..=name.len()).any(|k| ref_match(&toks[1..], &name[k..]))
        }
        Some(t) => {
            let Some(&c) = name.first() else {
                return false;
            };
            let ok = match t {
                Tok::Lit(l) => *l == c,
                Tok::Any => true,
                Tok::Set(neg, set) => {
                    set.iter().any(|&(lo, hi)| lo <= c && c <= hi) != *neg
                }
                Tok::Star => unreachable!(),
            };
            ok && ref_match(&toks[1..], &name[1..])
        }
    }
}

fn names(max: usize) -> Vec<String> {
    let mut all = vec![String::new()];
    let mut last = vec![String::new()];
    for _ in 0..max {
        let mut next = vec![];
        for s in &last {
            for &c in NAME_CHARS {
                let mut t = s.clone();
                t.push(c);
                next.push(t);
            }
        }
        all.extend(next.iter().cloned());
        last = next;
    }
    all
}

fn patterns(max_atoms: usize) -> Vec<String> {
    let mut all = vec![String::new()];
    let mut last = vec![String::new()];
    for _ in 0..max_atoms {
        let mut next = vec![];
        for s in &last {
            for &a in ATOMS {
                /* "**" is outside the subset pkgsrc uses. */
                if a == "*" && s.ends_with('*') {
                    continue;
                }
                next.push(format!("{}{}", s, a));
            }
        }
        all.extend(next.iter().cloned());
        last = next;
    }
    all
}

#[test]
fn exhaustive_small_patterns_agree_with_reference() {
    let names = names(3);
    let mut checked = 0usize;
    for p in patterns(3) {
        let toks = parse(&p);
        let compiled = Pattern::new(&p)
            .unwrap_or_else(|e| panic!("{:?} failed to compile: {:?}", p, e));
        assert_eq!(compiled.pattern(), p);
        for n in &names {
            let nc: Vec<char> = n.chars().collect();
            assert_eq!(
                compiled.matches(n),
                ref_match(&toks, &nc),
                "pattern {:?} name {:?}",
                p,
                n
            );
            checked += 1;
        }
    }
    assert!(checked > 500_000);
}

#[test]
fn longer_realistic_patterns() {
    let cases: &[(&str, &str, bool)] = &[
        ("foo-[0-9]*", "foo-1.0", true),
        ("foo-[0-9]*", "foo-", false),
        ("foo-[0-9]*", "fop-1.0", false),
        ("foo-[0-9]*", "goo-1.0", false),
        ("foo-[0-9]*", "fo", false),
        ("foo-[0-9]*", "f", false),
        ("foo-[0-9]*", "", false),
        ("[fg]oo-[0-9]*", "foo-1.0", true),
        ("[fg]oo-[0-9]*", "goo-1.0", true),
        ("[fg]oo-[0-9]*", "hoo-1.0", false),
        ("f[aeiou]o-*", "foo-1", true),
        ("f[aeiou]o-*", "fxo-1", false),
        ("*-1.0", "foo-1.0", true),
        ("*-1.0", "-1.0", true),
        ("*-1.0", "foo-1.1", false),
        ("?-1.0", "R-1.0", true),
        ("?-1.0", "RR-1.0", false),
        ("p5-DBI-[0-9]*", "p5-DBI-1.643", true),
        ("p5-DBI-[0-9]*", "p5-dbi-1.643", false),
        ("foo-[!0-9]*", "foo-x", true),
        ("foo-[!0-9]*", "foo-1", false),
        ("foo-1.?", "foo-1.0", true),
        ("foo-1.?", "foo-1.", false),
        ("foo-1.?", "foo-1.00", false),
        ("foo]", "foo]", true),
        ("foo]", "foo", false),
        ("]foo", "]foo", true),
        ("f]oo", "f]oo", true),
        ("f]oo", "fxoo", false),
        ("foo-1.0", "foo-1.0", true),
        ("foo-1.0", "foo-1.0 ", false),
        ("foo-1.0", "foo-1.00", false),
        ("foo-1.0", "Foo-1.0", false),
        ("foo-1.0", "fOo-1.0", false),
        ("foo-1.0", "foO-1.0", false),
        ("_foo", "_foo", true),
        ("_foo", "xfoo", false),
        ("f_oo", "f_oo", true),
        ("f_oo", "fxoo", false),
        ("é*", "école", true),
        ("é*", "ecole", false),
        ("aé*", "aéb", true),
        ("aé*", "bé", false),
        ("ab*", "aé", false),
        ("", "", true),
        ("", "a", false),
    ];
    for &(p, n, want) in cases {
        let pat = Pattern::new(p).unwrap();
        assert_eq!(pat.matches(n), want, "pattern {:?} name {:?}", p, n);
    }
}

#[test]
fn malformed_globs_are_reported() {
    for p in [
        "foo-[0-9", "[", "a[", "ab[", "foo-[!", "[abc", "*[", "?[a-", "foo-[0-9]***",
        "***",
    ] {
        assert!(
            matches!(Pattern::new(p), Err(PatternError::Glob(_))),
            "{:?}",
            p
        );
    }
    /* Dispatch order: braces, then comparison operators, then globs. */
    assert!(matches!(Pattern::new("{a[,b}"), Ok(_)));
    assert!(matches!(Pattern::new("a[}"), Err(PatternError::Alternate)));
    assert!(matches!(Pattern::new("a[<1>2"), Err(PatternError::Dewey(_))));
    assert!(Pattern::new("a[>1").is_ok());
}

#[test]
fn shortcut_with_other_pattern_kinds() {
    let cases: &[(&str, &str, bool)] = &[
        ("R>=4.0", "R-4.1", true),
        ("R>=4.0", "S-4.1", false),
        ("ab>=1", "ab-2", true),
        ("ab>=1", "ac-2", false),
        ("ab>=1", "a", false),
        ("{foo,bar}-[0-9]*", "bar-1", true),
        ("{foo,bar}-[0-9]*", "baz-1", false),
        ("a{b,c}-[0-9]*", "ac-1", true),
        ("a{b,c}-[0-9]*", "bc-1", false),
        ("a{b,c}-[0-9]*", "a", false),
        ("a{,b}", "a", true),
        ("a{,b}", "ab", true),
        ("a{,b}", "", false),
    ];
    for &(p, n, want) in cases {
        let pat = Pattern::new(p).unwrap();
        assert_eq!(pat.matches(n), want, "pattern {:?} name {:?}", p, n);
    }
}

#[test]
fn compiled_patterns_compare_equal() {
    for p in ["foo-[0-9]*", "foo]", "foo-1.0", "?", ""] {
        let a = Pattern::new(p).unwrap();
        let b = Pattern::new(p).unwrap();
        assert_eq!(a, b);
        assert_eq!(format!("{:?}", a), format!("{:?}", b));
        assert_eq!(a.clone().pattern(), p);
    }
    assert_ne!(Pattern::new("foo*").unwrap(), Pattern::new("foo").unwrap());
}
