/*
 * Behaviour check for Dewey::new (operator count / order validation, error
 * position and message) and the early-exit checks of Dewey::matches, via the
 * public API.  Passes before and after the refactoring.
 */
use pkgsrc::{Dewey, Pattern};

fn err(pattern: &str) -> (usize, &'static str) {
    let e = Dewey::new(pattern).expect_err(pattern);
    /* Pattern must reject the same brace-free comparison patterns. */
    if pattern.contains('<') || pattern.contains('>') {
        assert!(Pattern::new(pattern).is_err(), "{pattern}");
    }
    (e.pos, e.msg)
}

const NONE: &str = "No dewey operators found";
const ORDER: &str = "Unsupported operator order";
const MANY: &str = "Too many dewey operators found";

#[test]
fn operator_count() {
    assert_eq!(err(""), (0, NONE));
    assert_eq!(err("foo"), (0, NONE));
    assert_eq!(err("foo-1.0"), (0, NONE));
    assert_eq!(err("foo=1"), (0, NONE));
    assert_eq!(err("foo>1<2<3"), (7, MANY));
    assert_eq!(err("foo>=1<=2<=3"), (9, MANY));
    assert_eq!(err("<<<"), (2, MANY));
    assert_eq!(err("<><>"), (2, MANY));
    assert_eq!(err("foo<1>2>3"), (7, MANY));
    assert_eq!(err("p\u{e9}>1<2>3"), (7, MANY));
}

#[test]
fn operator_order() {
    /* All 16 ordered pairs: only (> or >=) followed by (< or <=) is valid. */
    let ops = [">", ">=", "<", "<="];
    for a in ops {
        for b in ops {
            let pat = format!("foo{a}1{b}2");
            let ok = a.starts_with('>') && b.starts_with('<');
            match Dewey::new(&pat) {
                Ok(_) => {
                    assert!(ok, "{pat}");
                    assert!(Pattern::new(&pat).is_ok());
                }
                Err(e) => {
                    assert!(!ok, "{pat}");
                    assert_eq!((e.pos, e.msg), (3, ORDER), "{pat}");
                    assert!(Pattern::new(&pat).is_err());
                }
            }
        }
    }
    assert_eq!(err("<>"), (0, ORDER));
    assert_eq!(err("<1>2"), (0, ORDER));
    assert_eq!(err("foo>>"), (3, ORDER));
    assert_eq!(err("foo<<"), (3, ORDER));
    assert_eq!(err("foo-bar<=1>=0"), (7, ORDER));
    assert_eq!(err("p\u{e9}<1>2"), (3, ORDER));
    /* adjacent operators in the valid order compile */
    assert!(Dewey::new("foo><").is_ok());
    assert!(Dewey::new("foo>=<=").is_ok());
    assert!(Dewey::new("><").is_ok());
}

#[test]
fn valid_patterns_match_as_before() {
    let d = Dewey::new("foo>=1<2").unwrap();
    assert!(d.matches("foo-1"));
    assert!(d.matches("foo-1.9nb3"));
    assert!(!d.matches("foo-2"));
    assert!(!d.matches("foo-0.9"));
    /* adjacent operators: both bounds empty, > 0 and < 0 is unsatisfiable */
    let d = Dewey::new("foo><").unwrap();
    assert!(!d.matches("foo-0"));
    assert!(!d.matches("foo-1"));
    assert!(!d.matches("foo-alpha"));
    let d = Dewey::new("foo>=<=").unwrap();
    assert!(d.matches("foo-0"));
    assert!(d.matches("foo-"));
    assert!(!d.matches("foo-1"));
    /* '=' after a non-ASCII-adjacent operator */
    let d = Dewey::new("foo>\u{e9}=1").unwrap();
    assert!(d.matches("foo-2"));
    assert!(!d.matches("foo-1"));
}

#[test]
fn names_without_dash_or_with_wrong_base() {
    let d = Dewey::new("foo>=0").unwrap();
    assert!(!d.matches(""));
    assert!(!d.matches("foo"));
    assert!(!d.matches("foo1"));
    assert!(!d.matches("-"));
    assert!(!d.matches("-1"));
    assert!(!d.matches("bar-1"));
    assert!(!d.matches("foo-bar-1"));
    assert!(d.matches("foo-"));
    assert!(d.matches("foo-1"));
    let d = Dewey::new(">=0").unwrap();
    assert!(d.matches("-"));
    assert!(d.matches("-1"));
    assert!(!d.matches(""));
    assert!(!d.matches("1"));
    assert!(!d.matches("--1"));
}
