/*
 * Behavioural checks of ScanIndex::from_reader and of the public
 * `impl Deserialize for ScanIndex`, through the public API only.
 */
use pkgsrc::{Depend, PkgName, PkgPath, ScanIndex};
use serde::de::value::{Error as ValueError, StrDeserializer};
use serde::Deserialize;
use std::io::{self, BufReader, Read};
use std::path::PathBuf;

fn read(input: &str) -> io::Result<Vec<ScanIndex>> {
    ScanIndex::from_reader(input.as_bytes())
}

fn err_of(input: &str) -> (io::ErrorKind, String) {
    let e = read(input).expect_err("expected the whole read to fail");
    (e.kind(), e.to_string())
}

fn dep(s: &str) -> Depend {
    Depend::new(s).unwrap()
}

fn some(s: &str) -> Option<String> {
    Some(s.to_string())
}

/* A record holding nothing but its name. */
fn bare(name: &str) -> ScanIndex {
    ScanIndex {
        pkgname: PkgName::new(name),
        pkg_location: None,
        all_depends: vec![],
        pkg_skip_reason: None,
        pkg_fail_reason: None,
        no_bin_on_ftp: None,
        restricted: None,
        categories: None,
        maintainer: None,
        use_destdir: None,
        bootstrap_pkg: None,
        usergroup_phase: None,
        scan_depends: vec![],
        pbulk_weight: None,
        multi_version: vec![],
        depends: vec![],
    }
}

const MSG_NAME: &str = "Failed to parse: missing field `PKGNAME`";
const MSG_DEP: &str = "Failed to parse: Invalid DEPENDS string";
const MSG_LOC: &str = "Failed to parse: Invalid path specified";

/* Every one of the 15 keys, each with a value found nowhere else. */
const FULL: &str = "\
PKGNAME=full-1.0nb2
ALL_DEPENDS=mktools-[0-9]*:../../pkgtools/mktools cwrappers>=20150314:../../pkgtools/cwrappers {a,b}-[0-9]*:devel/ab
PKG_SKIP_REASON=skip reason text
PKG_FAIL_REASON=fail reason text
NO_BIN_ON_FTP=no bin text
RESTRICTED=restricted text
CATEGORIES=databases python
MAINTAINER=pkgsrc-users@NetBSD.org
USE_DESTDIR=user-destdir
BOOTSTRAP_PKG=yes
USERGROUP_PHASE=pre-install
SCAN_DEPENDS=/usr/pkgsrc/a/b/Makefile ../../mk/bsd.pkg.mk relative.mk
PBULK_WEIGHT=250
MULTI_VERSION=PYTHON_VERSION_REQD=312 PHP_VERSION_REQD=83 X=
PKG_LOCATION=databases/full
";

fn full_expected() -> ScanIndex {
    ScanIndex {
        pkgname: PkgName::new("full-1.0nb2"),
        pkg_location: Some(PkgPath::new("databases/full").unwrap()),
        all_depends: vec![
            dep("mktools-[0-9]*:../../pkgtools/mktools"),
            dep("cwrappers>=20150314:../../pkgtools/cwrappers"),
            dep("{a,b}-[0-9]*:devel/ab"),
        ],
        pkg_skip_reason: some("skip reason text"),
        pkg_fail_reason: some("fail reason text"),
        no_bin_on_ftp: some("no bin text"),
        restricted: some("restricted text"),
        categories: some("databases python"),
        maintainer: some("pkgsrc-users@NetBSD.org"),
        use_destdir: some("user-destdir"),
        bootstrap_pkg: some("yes"),
        usergroup_phase: some("pre-install"),
        scan_depends: vec![
            PathBuf::from("/usr/pkgsrc/a/b/Makefile"),
            PathBuf::from("../../mk/bsd.pkg.mk"),
            PathBuf::from("relative.mk"),
        ],
        pbulk_weight: some("250"),
        multi_version: vec![
            "PYTHON_VERSION_REQD=312".to_string(),
            "PHP_VERSION_REQD=83".to_string(),
            "X=".to_string(),
        ],
        depends: vec![],
    }
}

#[test]
fn all_fifteen_keys() {
    let v = read(FULL).unwrap();
    assert_eq!(v, vec![full_expected()]);
    let r = &v[0];
    assert_eq!(r.pkgname.pkgname(), "full-1.0nb2");
    assert_eq!(r.pkgname.pkgbase(), "full");
    assert_eq!(r.pkgname.pkgversion(), "1.0nb2");
    assert_eq!(
        r.pkg_location.as_ref().unwrap().as_path(),
        PathBuf::from("databases/full").as_path()
    );
    assert_eq!(r.all_depends.len(), 3);
    assert_eq!(
        r.all_depends[2].pkgpath(),
        &PkgPath::new("../../devel/ab").unwrap()
    );
    assert_eq!(r.scan_depends.len(), 3);
    assert_eq!(r.multi_version.len(), 3);
    assert_eq!(r.pbulk_weight.as_deref(), Some("250"));
    assert!(r.depends.is_empty());
    assert_eq!(r.depends.capacity(), 0);
}

#[test]
fn all_fifteen_keys_in_reverse_order_within_the_block() {
    /* PKGNAME= must stay first, the other 14 lines are reversed. */
    let mut lines: Vec<&str> = FULL.lines().collect();
    lines[1..].reverse();
    let input = lines.join("\n");
    assert_eq!(read(&input).unwrap(), vec![full_expected()]);
}

#[test]
fn each_key_alone_sets_only_its_own_field() {
    type Set = fn(&mut ScanIndex);
    let cases: Vec<(&str, Set)> = vec![
        ("PKG_LOCATION=cat/pkg", |r| {
            r.pkg_location = Some(PkgPath::new("cat/pkg").unwrap())
        }),
        ("ALL_DEPENDS=x-[0-9]*:cat/x", |r| {
            r.all_depends = vec![Depend::new("x-[0-9]*:cat/x").unwrap()]
        }),
        ("PKG_SKIP_REASON=v", |r| r.pkg_skip_reason = Some("v".into())),
        ("PKG_FAIL_REASON=v", |r| r.pkg_fail_reason = Some("v".into())),
        ("NO_BIN_ON_FTP=v", |r| r.no_bin_on_ftp = Some("v".into())),
        ("RESTRICTED=v", |r| r.restricted = Some("v".into())),
        ("CATEGORIES=v", |r| r.categories = Some("v".into())),
        ("MAINTAINER=v", |r| r.maintainer = Some("v".into())),
        ("USE_DESTDIR=v", |r| r.use_destdir = Some("v".into())),
        ("BOOTSTRAP_PKG=v", |r| r.bootstrap_pkg = Some("v".into())),
        ("USERGROUP_PHASE=v", |r| r.usergroup_phase = Some("v".into())),
        ("SCAN_DEPENDS=v", |r| r.scan_depends = vec![PathBuf::from("v")]),
        ("PBULK_WEIGHT=v", |r| r.pbulk_weight = Some("v".into())),
        ("MULTI_VERSION=v", |r| r.multi_version = vec!["v".to_string()]),
    ];
    assert_eq!(cases.len(), 14);
    for (line, set) in cases {
        let mut want = bare("one-1");
        set(&mut want);
        let input = format!("PKGNAME=one-1\n{}\n", line);
        assert_eq!(read(&input).unwrap(), vec![want], "{}", line);
    }
}

#[test]
fn absent_keys_are_none_or_empty() {
    assert_eq!(read("PKGNAME=lonely-0.1\n").unwrap(), vec![bare("lonely-0.1")]);
    /* No trailing newline, empty name. */
    assert_eq!(read("PKGNAME=").unwrap(), vec![bare("")]);
    assert_eq!(read("").unwrap(), vec![]);
    assert_eq!(read("\n \n\t\n").unwrap(), vec![]);
}

#[test]
fn present_but_empty_values() {
    let input = "\
PKGNAME=e-1
ALL_DEPENDS=
PKG_SKIP_REASON=
PKG_FAIL_REASON=
NO_BIN_ON_FTP=
RESTRICTED=
CATEGORIES=
MAINTAINER=
USE_DESTDIR=
BOOTSTRAP_PKG=
USERGROUP_PHASE=
SCAN_DEPENDS=
PBULK_WEIGHT=
MULTI_VERSION=
";
    let mut want = bare("e-1");
    want.pkg_skip_reason = some("");
    want.pkg_fail_reason = some("");
    want.no_bin_on_ftp = some("");
    want.restricted = some("");
    want.categories = some("");
    want.maintainer = some("");
    want.use_destdir = some("");
    want.bootstrap_pkg = some("");
    want.usergroup_phase = some("");
    want.pbulk_weight = some("");
    assert_eq!(read(input).unwrap(), vec![want]);
    /* An empty PKG_LOCATION is an invalid path. */
    assert_eq!(
        err_of("PKGNAME=e-1\nPKG_LOCATION=\n"),
        (io::ErrorKind::InvalidData, MSG_LOC.to_string())
    );
}

#[test]
fn repeated_keys_last_line_wins() {
    let input = "\
PKGNAME=rep-1
ALL_DEPENDS=a-[0-9]*:cat/a b-[0-9]*:cat/b
PKG_SKIP_REASON=first
PKG_FAIL_REASON=first
NO_BIN_ON_FTP=first
RESTRICTED=first
CATEGORIES=first
MAINTAINER=first
USE_DESTDIR=first
BOOTSTRAP_PKG=first
USERGROUP_PHASE=first
SCAN_DEPENDS=one two
PBULK_WEIGHT=1
MULTI_VERSION=A=1 B=2
PKG_LOCATION=cat/first
ALL_DEPENDS=c-[0-9]*:cat/c
PKG_SKIP_REASON=second
PKG_FAIL_REASON=
NO_BIN_ON_FTP=second
RESTRICTED=second
CATEGORIES=second
MAINTAINER=second
USE_DESTDIR=second
BOOTSTRAP_PKG=second
USERGROUP_PHASE=second
SCAN_DEPENDS=three
PBULK_WEIGHT=2
MULTI_VERSION=
PKG_LOCATION=cat/second
";
    let want = ScanIndex {
        pkgname: PkgName::new("rep-1"),
        pkg_location: Some(PkgPath::new("cat/second").unwrap()),
        all_depends: vec![dep("c-[0-9]*:cat/c")],
        pkg_skip_reason: some("second"),
        pkg_fail_reason: some(""),
        no_bin_on_ftp: some("second"),
        restricted: some("second"),
        categories: some("second"),
        maintainer: some("second"),
        use_destdir: some("second"),
        bootstrap_pkg: some("second"),
        usergroup_phase: some("second"),
        scan_depends: vec![PathBuf::from("three")],
        pbulk_weight: some("2"),
        multi_version: vec![],
        depends: vec![],
    };
    assert_eq!(read(input).unwrap(), vec![want]);
}

#[test]
fn repeated_key_overrides_an_invalid_earlier_value() {
    /* Only the last line of a key is ever converted. */
    let input = "\
PKGNAME=late-1
ALL_DEPENDS=garbage
PKG_LOCATION=nonsense
ALL_DEPENDS=ok-[0-9]*:cat/ok
PKG_LOCATION=cat/late
";
    let mut want = bare("late-1");
    want.all_depends = vec![dep("ok-[0-9]*:cat/ok")];
    want.pkg_location = Some(PkgPath::new("cat/late").unwrap());
    assert_eq!(read(input).unwrap(), vec![want]);
    /* ... and the other way round the read fails. */
    assert_eq!(
        err_of("PKGNAME=late-1\nALL_DEPENDS=ok-[0-9]*:cat/ok\nALL_DEPENDS=garbage\n").1,
        MSG_DEP
    );
    assert_eq!(
        err_of("PKGNAME=late-1\nPKG_LOCATION=cat/late\nPKG_LOCATION=nonsense\n").1,
        MSG_LOC
    );
}

#[test]
fn list_items_split_on_any_whitespace_in_order() {
    let input = "PKGNAME=l-1\n\
        ALL_DEPENDS=  z-[0-9]*:cat/z \t a-[0-9]*:cat/a   z-[0-9]*:cat/z  \n\
        SCAN_DEPENDS=\tb   a\t\tc a \n\
        MULTI_VERSION= V=2  V=1\tV=2 \n";
    let v = read(input).unwrap();
    assert_eq!(v.len(), 1);
    assert_eq!(
        v[0].all_depends,
        vec![
            dep("z-[0-9]*:cat/z"),
            dep("a-[0-9]*:cat/a"),
            dep("z-[0-9]*:cat/z")
        ]
    );
    assert_eq!(
        v[0].scan_depends,
        vec![
            PathBuf::from("b"),
            PathBuf::from("a"),
            PathBuf::from("c"),
            PathBuf::from("a")
        ]
    );
    assert_eq!(v[0].multi_version, vec!["V=2", "V=1", "V=2"]);
}

#[test]
fn scalar_values_are_trimmed_and_may_contain_equals() {
    let input = "  PKGNAME =  sp-1.0  \n\
        \tMAINTAINER\t=\t a = b == c \t\n\
        PBULK_WEIGHT =  100  \n\
        CATEGORIES==x\n\
        RESTRICTED= inner   spaces kept \n";
    /* The first line starts with "PKGNAME " and not "PKGNAME=", which is
     * irrelevant for a single block. */
    let mut want = bare("sp-1.0");
    want.maintainer = some("a = b == c");
    want.pbulk_weight = some("100");
    want.categories = some("=x");
    want.restricted = some("inner   spaces kept");
    assert_eq!(read(input).unwrap(), vec![want]);
}

#[test]
fn unknown_keys_blank_lines_and_lines_without_equals_are_ignored() {
    let input = "\n\nPKGNAME=u-1\n\nUNKNOWN=1\nno equals here\npkgname=lower\n\
        Maintainer=x\n=novalue\nPBULK_WEIGHT=7\n   \nDEPENDS=a-1 b-2\n";
    let mut want = bare("u-1");
    want.pbulk_weight = some("7");
    assert_eq!(read(input).unwrap(), vec![want]);
}

#[test]
fn one_record_per_pkgname_line_fields_never_leak() {
    let input = "\
PKGNAME=a-1
MAINTAINER=ma
PBULK_WEIGHT=1
SCAN_DEPENDS=sa
PKGNAME=b-2
PKGNAME=c-3
PKG_LOCATION=cat/c
ALL_DEPENDS=d-[0-9]*:cat/d
MULTI_VERSION=C=3
PKGNAME=a-1
MAINTAINER=again
";
    let mut a = bare("a-1");
    a.maintainer = some("ma");
    a.pbulk_weight = some("1");
    a.scan_depends = vec![PathBuf::from("sa")];
    let b = bare("b-2");
    let mut c = bare("c-3");
    c.pkg_location = Some(PkgPath::new("cat/c").unwrap());
    c.all_depends = vec![dep("d-[0-9]*:cat/d")];
    c.multi_version = vec!["C=3".to_string()];
    let mut a2 = bare("a-1");
    a2.maintainer = some("again");
    assert_eq!(read(input).unwrap(), vec![a, b, c, a2]);
}

#[test]
fn full_record_between_neighbours() {
    let input = format!("PKGNAME=before-1\nPBULK_WEIGHT=9\n{}PKGNAME=after-1\n", FULL);
    let mut before = bare("before-1");
    before.pbulk_weight = some("9");
    assert_eq!(
        read(&input).unwrap(),
        vec![before, full_expected(), bare("after-1")]
    );
}

#[test]
fn missing_pkgname_fails_the_whole_read() {
    for input in [
        "ALL_DEPENDS=",
        "MAINTAINER=x\n",
        "PBULK_WEIGHT=1\nPKGNAME=late-1\n",
        "UNKNOWN=1\n",
        "no equals\n",
        "PKGNAME\n",
        "MAINTAINER=x\nPKGNAME=a-1\nPKGNAME=b-1\n",
    ] {
        assert_eq!(
            err_of(input),
            (io::ErrorKind::InvalidData, MSG_NAME.to_string()),
            "{:?}",
            input
        );
    }
}

#[test]
fn invalid_dependency_fails_the_whole_read() {
    for bad in [
        "hello",
        "pkg-[0-9]*::../../pkgtools/pkg",
        "ok-[0-9]*:cat/ok hello",
        "hello ok-[0-9]*:cat/ok",
        "a-[0-9]*:cat/a b c-[0-9]*:cat/c",
    ] {
        let input = format!("PKGNAME=a-1\nPKGNAME=b-1\nALL_DEPENDS={}\nPKGNAME=c-1\n", bad);
        assert_eq!(
            err_of(&input),
            (io::ErrorKind::InvalidData, MSG_DEP.to_string()),
            "{:?}",
            bad
        );
    }
    /* Errors of the parts of a dependency are passed through. */
    let pat = Depend::new("pkg>2>3:../../pkgtools/pkg").unwrap_err().to_string();
    assert_eq!(
        err_of("PKGNAME=a-1\nALL_DEPENDS=pkg>2>3:../../pkgtools/pkg\n").1,
        format!("Failed to parse: {}", pat)
    );
    assert_eq!(err_of("PKGNAME=a-1\nALL_DEPENDS=ojnk:foo\n").1, MSG_LOC);
    /* In the last block as well as in the first. */
    assert_eq!(err_of("PKGNAME=a-1\nALL_DEPENDS=x\nPKGNAME=b-1\n").1, MSG_DEP);
    assert_eq!(err_of("PKGNAME=a-1\nPKGNAME=b-1\nALL_DEPENDS=x").1, MSG_DEP);
}

#[test]
fn invalid_location_fails_the_whole_read() {
    for bad in ["foo", "../foo/bar", "a/b/c", "./foo", "../../foo", "a/b c/d"] {
        let input = format!("PKGNAME=a-1\nPKG_LOCATION={}\nPKGNAME=b-1\n", bad);
        assert_eq!(
            err_of(&input),
            (io::ErrorKind::InvalidData, MSG_LOC.to_string()),
            "{:?}",
            bad
        );
    }
    let ok = read("PKGNAME=a-1\nPKG_LOCATION=../../foo//bar/\n").unwrap();
    assert_eq!(ok[0].pkg_location, Some(PkgPath::new("foo/bar").unwrap()));
}

#[test]
fn which_error_is_reported_when_several_apply() {
    /* dependency, then name, then location */
    assert_eq!(err_of("ALL_DEPENDS=bad\nPKG_LOCATION=bad\n").1, MSG_DEP);
    assert_eq!(err_of("ALL_DEPENDS=bad\nMAINTAINER=x\n").1, MSG_DEP);
    assert_eq!(err_of("PKG_LOCATION=bad\nMAINTAINER=x\n").1, MSG_NAME);
    assert_eq!(
        err_of("PKGNAME=a-1\nPKG_LOCATION=bad\nALL_DEPENDS=bad\n").1,
        MSG_DEP
    );
    /* the first failing block decides */
    assert_eq!(
        err_of("PKGNAME=a-1\nPKG_LOCATION=bad\nPKGNAME=b-1\nALL_DEPENDS=bad\n").1,
        MSG_LOC
    );
    assert_eq!(
        err_of("MAINTAINER=x\nPKGNAME=b-1\nALL_DEPENDS=bad\n").1,
        MSG_NAME
    );
}

/* A reader failing once its data is used up. */
struct FailAfter<'a>(&'a [u8]);

impl Read for FailAfter<'_> {
    fn read(&mut self, buf: &mut [u8]) -> io::Result<usize> {
        if self.0.is_empty() {
            return Err(io::Error::new(io::ErrorKind::Other, "disk on fire"));
        }
        let n = self.0.len().min(buf.len());
        buf[..n].copy_from_slice(&self.0[..n]);
        self.0 = &self.0[n..];
        Ok(n)
    }
}

#[test]
fn io_error_is_passed_through() {
    let r = BufReader::new(FailAfter(b"PKGNAME=a-1\nMAINTAINER=x\nPKGNAME=b-1\n"));
    let e = ScanIndex::from_reader(r).unwrap_err();
    assert_eq!(e.kind(), io::ErrorKind::Other);
    assert_eq!(e.to_string(), "disk on fire");
    /* A parse error found before the I/O error is hit is reported. */
    let r = BufReader::with_capacity(
        4,
        FailAfter(b"PKGNAME=a-1\nALL_DEPENDS=x\nPKGNAME=b-1\n"),
    );
    let e = ScanIndex::from_reader(r).unwrap_err();
    assert_eq!(e.kind(), io::ErrorKind::InvalidData);
    assert_eq!(e.to_string(), MSG_DEP);
    /* Invalid UTF-8 is reported by lines(). */
    let e = ScanIndex::from_reader(&b"PKGNAME=a-1\nMAINTAINER=\xff\n"[..]).unwrap_err();
    assert_eq!(e.kind(), io::ErrorKind::InvalidData);
    assert!(!e.to_string().starts_with("Failed to parse"));
}

fn de(input: &str) -> Result<ScanIndex, ValueError> {
    ScanIndex::deserialize(StrDeserializer::<ValueError>::new(input))
}

#[test]
fn deserialize_directly() {
    assert_eq!(de(FULL).unwrap(), full_expected());
    /* No segmentation here: the last PKGNAME wins, like any scalar. */
    let mut want = bare("b-2");
    want.maintainer = some("m");
    assert_eq!(de("PKGNAME=a-1\nMAINTAINER=m\nPKGNAME= b-2 ").unwrap(), want);
    assert_eq!(de("").unwrap_err().to_string(), "missing field `PKGNAME`");
    assert_eq!(
        de("MAINTAINER=m").unwrap_err().to_string(),
        "missing field `PKGNAME`"
    );
    assert_eq!(
        de("ALL_DEPENDS=a b").unwrap_err().to_string(),
        "Invalid DEPENDS string"
    );
    assert_eq!(
        de("PKGNAME=a-1\nPKG_LOCATION=a").unwrap_err().to_string(),
        "Invalid path specified"
    );
    assert_eq!(
        de("PKG_LOCATION=a").unwrap_err().to_string(),
        "missing field `PKGNAME`"
    );
    /* A deserializer that does not hand out a string. */
    let e = ScanIndex::deserialize(
        serde::de::value::U32Deserializer::<ValueError>::new(7),
    )
    .unwrap_err();
    assert_eq!(
        e.to_string(),
        "invalid type: integer `7`, expected A stream of the format KEY=VALUE"
    );
}

#[test]
fn real_world_file() {
    let mut path = PathBuf::from(env!("CARGO_MANIFEST_DIR"));
    path.push("tests/data/scanindex/pbulk-index.txt");
    let text = std::fs::read_to_string(&path).unwrap();
    let v = read(&text).unwrap();
    let names: Vec<&str> = text
        .lines()
        .filter_map(|l| l.trim().strip_prefix("PKGNAME="))
        .collect();
    assert_eq!(v.len(), 40);
    assert_eq!(v.len(), names.len());
    for (r, n) in v.iter().zip(&names) {
        assert_eq!(r.pkgname.pkgname(), n.trim());
        assert!(r.depends.is_empty());
    }
    /* Reading through a tiny buffer gives the same result. */
    let small = BufReader::with_capacity(3, text.as_bytes());
    assert_eq!(ScanIndex::from_reader(small).unwrap(), v);
}

/* ---- aimed at the key -> field assignment ---- */

#[test]
fn every_field_is_fed_by_its_own_key() {
    /* The value of each scalar key is the key itself, in two adjacent
     * records with different suffixes. */
    let scalar = [
        "PKG_SKIP_REASON",
        "PKG_FAIL_REASON",
        "NO_BIN_ON_FTP",
        "RESTRICTED",
        "CATEGORIES",
        "MAINTAINER",
        "USE_DESTDIR",
        "BOOTSTRAP_PKG",
        "USERGROUP_PHASE",
        "PBULK_WEIGHT",
    ];
    let mut input = String::new();
    for n in 1..=2 {
        input.push_str(&format!("PKGNAME=rec-{}\n", n));
        for k in scalar.iter().rev() {
            input.push_str(&format!("{}={}.{}\n", k, k, n));
        }
        input.push_str(&format!("MULTI_VERSION=MULTI_VERSION.{} mv\n", n));
        input.push_str(&format!("SCAN_DEPENDS=SCAN_DEPENDS.{} sd\n", n));
        input.push_str(&format!("ALL_DEPENDS=ad{}-[0-9]*:all/depends{}\n", n, n));
        input.push_str(&format!("PKG_LOCATION=pkg/location{}\n", n));
    }
    let v = read(&input).unwrap();
    assert_eq!(v.len(), 2);
    for (i, r) in v.iter().enumerate() {
        let n = i + 1;
        let s = |k: &str| Some(format!("{}.{}", k, n));
        assert_eq!(r.pkgname, PkgName::new(&format!("rec-{}", n)));
        assert_eq!(r.pkg_skip_reason, s("PKG_SKIP_REASON"));
        assert_eq!(r.pkg_fail_reason, s("PKG_FAIL_REASON"));
        assert_eq!(r.no_bin_on_ftp, s("NO_BIN_ON_FTP"));
        assert_eq!(r.restricted, s("RESTRICTED"));
        assert_eq!(r.categories, s("CATEGORIES"));
        assert_eq!(r.maintainer, s("MAINTAINER"));
        assert_eq!(r.use_destdir, s("USE_DESTDIR"));
        assert_eq!(r.bootstrap_pkg, s("BOOTSTRAP_PKG"));
        assert_eq!(r.usergroup_phase, s("USERGROUP_PHASE"));
        assert_eq!(r.pbulk_weight, s("PBULK_WEIGHT"));
        assert_eq!(
            r.multi_version,
            vec![format!("MULTI_VERSION.{}", n), "mv".to_string()]
        );
        assert_eq!(
            r.scan_depends,
            vec![PathBuf::from(format!("SCAN_DEPENDS.{}", n)), PathBuf::from("sd")]
        );
        assert_eq!(
            r.all_depends,
            vec![dep(&format!("ad{}-[0-9]*:all/depends{}", n, n))]
        );
        assert_eq!(
            r.pkg_location,
            Some(PkgPath::new(&format!("pkg/location{}", n)).unwrap())
        );
        assert!(r.depends.is_empty());
    }
    /* Debug output names the fields in declaration order, whatever the
     * order they were computed in. */
    let dbg = format!("{:?}", v[0]);
    let order = [
        "pkgname:",
        "pkg_location:",
        "all_depends:",
        "pkg_skip_reason:",
        "pkg_fail_reason:",
        "no_bin_on_ftp:",
        "restricted:",
        "categories:",
        "maintainer:",
        "use_destdir:",
        "bootstrap_pkg:",
        "usergroup_phase:",
        "scan_depends:",
        "pbulk_weight:",
        "multi_version:",
        " depends:",
    ];
    let mut at = 0;
    for f in order {
        let p = dbg[at..].find(f).unwrap_or_else(|| panic!("{} out of order", f));
        at += p + f.len();
    }
}

#[test]
fn failing_conversions_keep_their_precedence_with_all_other_keys_present() {
    let good = FULL.to_string();
    /* bad dependency wins over everything */
    let a = good.replace("PKGNAME=full-1.0nb2\n", "")
        .replace("{a,b}-[0-9]*:devel/ab", "broken")
        .replace("databases/full", "nowhere");
    assert_eq!(err_of(&a).1, MSG_DEP);
    /* then the missing name */
    let b = good.replace("PKGNAME=full-1.0nb2\n", "")
        .replace("databases/full", "nowhere");
    assert_eq!(err_of(&b).1, MSG_NAME);
    /* then the location */
    let c = good.replace("databases/full", "nowhere");
    assert_eq!(err_of(&c).1, MSG_LOC);
}
