/*
 * Behaviour check for Pattern::best_match via the public API: all four
 * (match, match) combinations, every branch of the version comparison, and
 * a brute-force cross-check against a specification written in terms of
 * Dewey::matches.  Passes before and after the refactoring.
 */
use pkgsrc::{Dewey, Pattern};

/*
 * Spec in terms of public API only: version of a is > version of b iff
 * "x>VER(b)" matches "x-VER(a)".
 */
fn ver(name: &str) -> &str {
    match name.rsplit_once('-') {
        Some((_, v)) => v,
        None => "",
    }
}
fn ver_gt(a: &str, b: &str) -> bool {
    Dewey::new(&format!("x>{}", ver(b)))
        .unwrap()
        .matches(&format!("x-{}", ver(a)))
}
fn spec<'a>(p: &Pattern, a: &'a str, b: &'a str) -> Option<&'a str> {
    match (p.matches(a), p.matches(b)) {
        (false, false) => None,
        (true, false) => Some(a),
        (false, true) => Some(b),
        (true, true) => Some(if ver_gt(a, b) {
            a
        } else if ver_gt(b, a) {
            b
        } else if a < b {
            a
        } else {
            b
        }),
    }
}

const NAMES: [&str; 22] = [
    "",
    "foo",
    "foo-",
    "foo-0",
    "foo-1",
    "foo-1.0",
    "foo-1_0",
    "foo-1.0nb1",
    "foo-1nb1",
    "foo-1.0.1",
    "foo-1.0alpha",
    "foo-1.0rc1",
    "foo-1.0RC1",
    "foo-1.0pre1",
    "foo-1a",
    "foo-2",
    "foo-10",
    "bar-1",
    "bar-1.0",
    "bar-2nb3",
    "foo-bar-1",
    "f\u{e9}-1",
];

#[test]
fn all_pairs_agree_with_spec() {
    for pat in [
        "foo>=1",
        "foo>0<2",
        "foo<1.0",
        "foo-[0-9]*",
        "*",
        "*-1*",
        "{foo,bar}-[0-9]*",
        "{foo,bar}>=1",
        "{foo>=1.0.1,bar<2}",
        "foo-1.0",
        "nomatch-1.0",
    ] {
        let p = Pattern::new(pat).unwrap();
        for a in NAMES {
            for b in NAMES {
                let got = p.best_match(a, b);
                assert_eq!(got, spec(&p, a, b), "{pat}: {a:?} / {b:?}");
                assert_eq!(got, p.best_match(b, a), "{pat}: {a:?} / {b:?} swapped");
            }
        }
    }
}

#[test]
fn each_branch_once() {
    let p = Pattern::new("foo>=1").unwrap();
    /* (false, false) */
    assert_eq!(p.best_match("foo-0", "bar-1"), None);
    /* (true, false) and (false, true) */
    assert_eq!(p.best_match("foo-1", "foo-0"), Some("foo-1"));
    assert_eq!(p.best_match("foo-0", "foo-1"), Some("foo-1"));
    /* (true, true): first greater, second greater */
    assert_eq!(p.best_match("foo-2", "foo-1"), Some("foo-2"));
    assert_eq!(p.best_match("foo-1", "foo-2"), Some("foo-2"));
    /* (true, true): tie, first smaller / second smaller / identical */
    assert_eq!(p.best_match("foo-1", "foo-1.0"), Some("foo-1"));
    assert_eq!(p.best_match("foo-1.0", "foo-1"), Some("foo-1"));
    assert_eq!(p.best_match("foo-1", "foo-1"), Some("foo-1"));
    /* revision decides only on a tie */
    assert_eq!(p.best_match("foo-1nb1", "foo-1.0"), Some("foo-1nb1"));
    assert_eq!(p.best_match("foo-1nb5", "foo-1.1"), Some("foo-1.1"));
}

#[test]
fn result_borrows_from_the_arguments() {
    let p = Pattern::new("foo-[0-9]*").unwrap();
    let a = String::from("foo-1.0");
    let b = String::from("foo-1.1");
    let r = p.best_match(&a, &b).unwrap();
    assert!(std::ptr::eq(r, b.as_str()));
    let r = p.best_match(&b, &a).unwrap();
    assert!(std::ptr::eq(r, b.as_str()));
}
