/*
 * Behaviour documentation for the C19 refactoring S: Depend::new().
 */
use pkgsrc::{Depend, DependError, Pattern, PkgPath};
use std::str::FromStr;

fn kind(s: &str) -> &'static str {
    let a = Depend::new(s);
    let b = Depend::from_str(s);
    let k = |r: &Result<Depend, DependError>| match r {
        Ok(_) => "ok",
        Err(DependError::Invalid) => "invalid",
        Err(DependError::Pattern(_)) => "pattern",
        Err(DependError::PkgPath(_)) => "pkgpath",
    };
    assert_eq!(k(&a), k(&b));
    k(&a)
}

#[test]
fn good() {
    for (s, pat, path) in [
        ("mktool-[0-9]*:../../pkgtools/mktool", "mktool-[0-9]*", "pkgtools/mktool"),
        ("mktool-[0-9]*:pkgtools/mktool", "mktool-[0-9]*", "pkgtools/mktool"),
        ("pkg>=1.0<2:cat//pkg/", "pkg>=1.0<2", "cat/pkg"),
        ("{a,b}-1.0:../../cat/./pkg", "{a,b}-1.0", "../../cat/pkg"),
        ("caf\u{e9}-1.0:caf\u{e9}/x", "caf\u{e9}-1.0", "../../caf\u{e9}/x"),
    ] {
        let d = Depend::new(s).unwrap();
        assert_eq!(d.pattern(), &Pattern::new(pat).unwrap());
        assert_eq!(d.pkgpath(), &PkgPath::new(path).unwrap());
        assert_eq!(Depend::from_str(s).unwrap(), d);
    }
}

#[test]
fn colon_counts() {
    assert_eq!(kind(""), "invalid");
    assert_eq!(kind("pkg"), "invalid");
    assert_eq!(kind("pkg-[0-9]*"), "invalid");
    assert_eq!(kind("cat/pkg"), "invalid");
    assert_eq!(kind("pkg-[0-9]*::../../cat/pkg"), "invalid");
    assert_eq!(kind("pkg-[0-9]*:cat/pkg:"), "invalid");
    assert_eq!(kind(":pkg-[0-9]*:cat/pkg"), "invalid");
    assert_eq!(kind("::"), "invalid");
    assert_eq!(kind(":::"), "invalid");
    /* Invalid halves are still only "Invalid" with a wrong colon count. */
    assert_eq!(kind("pkg>2>3::foo"), "invalid");
    assert_eq!(kind("pkg>2>3"), "invalid");
}

#[test]
fn invalid_halves() {
    assert_eq!(kind("pkg>2>3:../../cat/pkg"), "pattern");
    assert_eq!(kind("ojnk:foo"), "pkgpath");
    assert_eq!(kind("ojnk:"), "pkgpath");
    assert_eq!(kind("ojnk:../cat/pkg"), "pkgpath");
    assert_eq!(kind("ojnk:/cat/pkg"), "pkgpath");
    assert_eq!(kind("ojnk:a/../b"), "pkgpath");
    /* Both halves invalid: the pattern error is reported first. */
    assert_eq!(kind("pkg>2>3:foo"), "pattern");
    assert_eq!(kind("pkg<1>2:"), "pattern");
}

#[test]
fn single_colon_edge() {
    /* Whatever Pattern::new("") decides, Depend must follow it. */
    let want = match Pattern::new("") {
        Ok(_) => "ok",
        Err(_) => "pattern",
    };
    assert_eq!(kind(":cat/pkg"), want);
    let want = match Pattern::new("") {
        Ok(_) => "pkgpath",
        Err(_) => "pattern",
    };
    assert_eq!(kind(":"), want);
}
