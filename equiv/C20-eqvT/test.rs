/*
 * C20: exercises PkgDB::open, the iterator (validity filter, name split) and
 * Package::read_metadata over a range of directory layouts.
 */
use pkgsrc::pkgdb::PkgDB;
use pkgsrc::MetadataEntry;
use std::fs;
use std::path::{Path, PathBuf};
use std::sync::atomic::{AtomicUsize, Ordering};

static COUNTER: AtomicUsize = AtomicUsize::new(0);

fn fresh_dir(tag: &str) -> PathBuf {
    let n = COUNTER.fetch_add(1, Ordering::SeqCst);
    let d = std::env::temp_dir().join(format!(
        "pkgsrc-c20r7-3-{}-{}-{}",
        std::process::id(),
        tag,
        n
    ));
    let _ = fs::remove_dir_all(&d);
    fs::create_dir_all(&d).unwrap();
    d
}

fn mkpkg(db: &Path, name: &str, files: &[&str]) {
    let d = db.join(name);
    fs::create_dir_all(&d).unwrap();
    for f in files {
        fs::write(d.join(f), format!("{} of {}\n", f, name)).unwrap();
    }
}

fn split(db: &Path) -> Vec<(String, String, String)> {
    let mut v: Vec<(String, String, String)> = PkgDB::open(db)
        .unwrap()
        .map(|p| {
            let p = p.unwrap();
            (
                p.pkgname().to_string(),
                p.pkgbase().to_string(),
                p.pkgversion().to_string(),
            )
        })
        .collect();
    v.sort();
    v
}

fn t(a: &str, b: &str, c: &str) -> (String, String, String) {
    (a.to_string(), b.to_string(), c.to_string())
}

const ALL: [&str; 3] = ["+COMMENT", "+CONTENTS", "+DESC"];

const ENTRIES: [(MetadataEntry, &str); 14] = [
    (MetadataEntry::BuildInfo, "+BUILD_INFO"),
    (MetadataEntry::BuildVersion, "+BUILD_VERSION"),
    (MetadataEntry::Comment, "+COMMENT"),
    (MetadataEntry::Contents, "+CONTENTS"),
    (MetadataEntry::DeInstall, "+DEINSTALL"),
    (MetadataEntry::Desc, "+DESC"),
    (MetadataEntry::Display, "+DISPLAY"),
    (MetadataEntry::Install, "+INSTALL"),
    (MetadataEntry::InstalledInfo, "+INSTALLED_INFO"),
    (MetadataEntry::MtreeDirs, "+MTREE_DIRS"),
    (MetadataEntry::Preserve, "+PRESERVE"),
    (MetadataEntry::RequiredBy, "+REQUIRED_BY"),
    (MetadataEntry::SizeAll, "+SIZE_ALL"),
    (MetadataEntry::SizePkg, "+SIZE_PKG"),
];

#[test]
fn empty_database_yields_nothing() {
    let db = fresh_dir("empty");
    assert!(split(&db).is_empty());
    fs::remove_dir_all(&db).unwrap();
}

#[test]
fn open_rejects_missing_path_and_file_db_is_empty() {
    let db = fresh_dir("open");
    assert!(PkgDB::open(&db.join("does-not-exist")).is_err());
    let f = db.join("pkgdb.sqlite");
    fs::write(&f, "").unwrap();
    assert_eq!(PkgDB::open(&f).unwrap().count(), 0);
    fs::remove_dir_all(&db).unwrap();
}

#[test]
fn only_complete_directories_each_once() {
    let db = fresh_dir("mixed");
    mkpkg(&db, "zlib-1.3", &ALL);
    mkpkg(&db, "p5-Net-SSLeay-1.92nb4", &ALL);
    mkpkg(
        &db,
        "font-adobe-100dpi-1.0.3",
        &["+COMMENT", "+CONTENTS", "+DESC", "+BUILD_INFO", "+SIZE_PKG"],
    );
    for mask in 0..7u32 {
        let files: Vec<&str> = (0..3)
            .filter(|i| mask & (1 << i) != 0)
            .map(|i| ALL[i])
            .collect();
        mkpkg(&db, &format!("partial{}-0.1", mask), &files);
    }
    mkpkg(&db, "extras-only-1.0", &["+BUILD_INFO", "+INSTALL"]);
    fs::write(db.join("pkg-vulnerabilities"), "stray").unwrap();
    fs::write(db.join("pkgdb.byfile.db"), "stray").unwrap();
    fs::write(db.join("+COMMENT"), "stray").unwrap();
    assert_eq!(
        split(&db),
        vec![
            t("font-adobe-100dpi-1.0.3", "font-adobe-100dpi", "1.0.3"),
            t("p5-Net-SSLeay-1.92nb4", "p5-Net-SSLeay", "1.92nb4"),
            t("zlib-1.3", "zlib", "1.3"),
        ]
    );
    fs::remove_dir_all(&db).unwrap();
}

#[test]
fn read_metadata_returns_own_file_content() {
    let db = fresh_dir("meta");
    let files: Vec<&str> = ENTRIES.iter().map(|(_, f)| *f).collect();
    mkpkg(&db, "full-1.0", &files);
    mkpkg(&db, "other-full-2.0nb1", &files);
    mkpkg(&db, "minimal-3.0", &ALL);
    let mut seen = 0;
    for p in PkgDB::open(&db).unwrap() {
        let p = p.unwrap();
        seen += 1;
        for (e, f) in ENTRIES {
            let r = p.read_metadata(e);
            if p.pkgname() == "minimal-3.0" && !ALL.contains(&f) {
                assert!(r.is_err());
            } else {
                assert_eq!(r.unwrap(), format!("{} of {}\n", f, p.pkgname()));
            }
        }
    }
    assert_eq!(seen, 3);
    fs::remove_dir_all(&db).unwrap();
}

#[cfg(unix)]
#[test]
fn non_utf8_directory_name_is_an_error_item() {
    use std::ffi::OsStr;
    use std::os::unix::ffi::OsStrExt;
    let db = fresh_dir("nonutf8");
    let d = db.join(OsStr::from_bytes(b"bad\xff-1.0"));
    if fs::create_dir_all(&d).is_err() {
        /* Filesystem refuses such names; nothing to check. */
        fs::remove_dir_all(&db).unwrap();
        return;
    }
    for f in ALL {
        fs::write(d.join(f), "x").unwrap();
    }
    let items: Vec<_> = PkgDB::open(&db).unwrap().collect();
    assert_eq!(items.len(), 1);
    assert!(items[0].is_err());
    fs::remove_dir_all(&db).unwrap();
}
