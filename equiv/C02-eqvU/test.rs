/*
 * Exercise Dewey::matches (directly and through Pattern) over a spread of
 * patterns and package names: names with no '-', several '-', empty base or
 * version, non-ASCII text, empty bounds and adjacent operators.
 */
use pkgsrc::{Dewey, Pattern};

fn check(pat: &str, name: &str, want: bool) {
    let d = Dewey::new(pat).unwrap();
    let p = Pattern::new(pat).unwrap();
    assert_eq!(d.matches(name), want, "Dewey {pat:?} vs {name:?}");
    assert_eq!(p.matches(name), want, "Pattern {pat:?} vs {name:?}");
}

#[test]
fn single_operator() {
    check("pkg>1", "pkg-1.1", true);
    check("pkg>1", "pkg-1.0", false);
    check("pkg>1", "pkg-1.0nb1", true);
    check("pkg>=1", "pkg-1", true);
    check("pkg>=1", "pkg-1.0rc1", false);
    check("pkg<2", "pkg-2.0alpha", true);
    check("pkg<2", "pkg-2", false);
    check("pkg<=2", "pkg-2", true);
    check("pkg<=2", "pkg-2nb1", false);
    check("pkg<=2", "pkg-2NB1", false);
    check("pkg>1.0a", "pkg-1.0B", true);
}

#[test]
fn two_operators() {
    check("pkg>=1<2", "pkg-1", true);
    check("pkg>=1<2", "pkg-1.9.9", true);
    check("pkg>=1<2", "pkg-2", false);
    check("pkg>=1<2", "pkg-0.9", false);
    check("pkg>1<=2", "pkg-1", false);
    check("pkg>1<=2", "pkg-2", true);
    check("pkg>1<=2", "pkg-2.0.1", false);
    /* Empty range. */
    check("pkg>2<1", "pkg-1.5", false);
}

#[test]
fn names_without_or_with_many_dashes() {
    check("pkg>=0", "pkg", false);
    check("pkg>=0", "", false);
    check("pkg>=0", "pkg-", true);
    check("pkg>=0", "pkg-0", true);
    check("pkg>=0", "pkg-foo-1", false);
    check("pkg-foo>=0", "pkg-foo-1", true);
    check("pkg-foo>=0", "pkg-foo", false);
    check("pkg->=0", "pkg--1", true);
    check("pkg->=0", "pkg-1", false);
    check("pkg>=0", "pkg--1", false);
    check(">=0", "-1", true);
    check(">=0", "-", true);
    check(">=0", "", false);
    check(">=0", "a-1", false);
    check("-->=0", "---", true);
}

#[test]
fn base_is_compared_exactly() {
    check("pkg>=0", "Pkg-1", false);
    check("pkg>=0", "pkg -1", false);
    check("pkg>=0", "pk-1", false);
    check("pkg>=0", "pkgg-1", false);
    check("pkgé>=0", "pkgé-1", true);
    check("pkgé>=0", "pkge-1", false);
    check("pkg>=0", "pkgé-1", false);
    check("日本>=1", "日本-1", true);
    check("日本>=1", "日本-0", false);
    check("日本>=1", "日本", false);
}

#[test]
fn empty_bounds_and_adjacent_operators() {
    check("pkg>", "pkg-0", false);
    check("pkg>", "pkg-0nb1", true);
    check("pkg>=", "pkg-", true);
    check("pkg>=", "pkg-alpha", false);
    check("pkg<", "pkg-rc1", true);
    check("pkg<", "pkg-0", false);
    check("pkg<=", "pkg-0", true);
    check("pkg><2", "pkg-0", false);
    check("pkg><2", "pkg-1", true);
    check("pkg><2", "pkg-2", false);
    check("pkg>=<=", "pkg-0", true);
    check("pkg>=<=", "pkg-1", false);
    check("pkg>=<=", "pkg-beta", false);
    check("pkg>1<", "pkg-2", false);
    check("pkg>é<2é", "pkg-1é", true);
    check("pkg>é<2é", "pkg-é", false);
}

#[test]
fn malformed_patterns_still_rejected() {
    for pat in ["pkg<1>2", "pkg>1>=2", "pkg>1<2<3", "pkg<1<2", "<>", ">>", "pkg>=1<2>3"] {
        assert!(Dewey::new(pat).is_err(), "{pat}");
        assert!(Pattern::new(pat).is_err(), "{pat}");
    }
    assert!(Dewey::new("pkg-1.0").is_err());
    assert!(Dewey::new("").is_err());
}
