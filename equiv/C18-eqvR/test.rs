/*
 * Behaviour documentation for the C18 refactoring R: PkgName::new().
 */
use pkgsrc::PkgName;

fn check(name: &str, base: &str, version: &str, rev: Option<i64>) {
    let p = PkgName::new(name);
    assert_eq!(p.pkgname(), name, "pkgname of {:?}", name);
    assert_eq!(p.pkgbase(), base, "pkgbase of {:?}", name);
    assert_eq!(p.pkgversion(), version, "pkgversion of {:?}", name);
    assert_eq!(p.pkgrevision(), rev, "pkgrevision of {:?}", name);
    if name.contains('-') {
        assert_eq!(format!("{}-{}", p.pkgbase(), p.pkgversion()), name);
    } else {
        assert_eq!(p.pkgbase(), name);
        assert_eq!(p.pkgversion(), "");
    }
}

#[test]
fn well_formed() {
    check("mktool-1.3.2nb2", "mktool", "1.3.2nb2", Some(2));
    check("mktool-1.3.2", "mktool", "1.3.2", None);
    check("p5-Foo-Bar-0.01nb12", "p5-Foo-Bar", "0.01nb12", Some(12));
    check(
        "pkg-1.0nb999999999999999999",
        "pkg",
        "1.0nb999999999999999999",
        Some(999_999_999_999_999_999),
    );
}

#[test]
fn edge_cases() {
    check("", "", "", None);
    check("-", "", "", None);
    check("--", "-", "", None);
    check("mktool", "mktool", "", None);
    check("mktool-", "mktool", "", None);
    check("-1.0", "", "1.0", None);
    check("1.0nb2", "1.0nb2", "", None);
    check("mktool-1.3-2", "mktool-1.3", "2", None);
    check("nbd-1.0", "nbd", "1.0", None);
    check("nbd-nb3-1.0", "nbd-nb3", "1.0", None);
}

#[test]
fn odd_revisions() {
    /* Nothing after "nb" gives Some(0), as does unparseable text. */
    check("mktool-1.3.2nb", "mktool", "1.3.2nb", Some(0));
    check("mktool-1nb3alpha2nb", "mktool", "1nb3alpha2nb", Some(0));
    check("mktool-1nb3alpha2nb7", "mktool", "1nb3alpha2nb7", Some(7));
    check("mktool-1nb3alpha", "mktool", "1nb3alpha", Some(0));
    check("mktool-1nbnb4", "mktool", "1nbnb4", Some(4));
    check("mktool-1.0nb+5", "mktool", "1.0nb+5", Some(5));
    check("mktool-1.0nb-5", "mktool-1.0nb", "5", None);
    /* Overflowing i64 falls back to Some(0). */
    check(
        "pkg-1nb99999999999999999999",
        "pkg",
        "1nb99999999999999999999",
        Some(0),
    );
}

#[test]
fn non_ascii() {
    check("caf\u{e9}-1.0nb1", "caf\u{e9}", "1.0nb1", Some(1));
    check("pkg-\u{3b1}\u{3b2}nb\u{663}", "pkg", "\u{3b1}\u{3b2}nb\u{663}", Some(0));
    check("\u{1f600}", "\u{1f600}", "", None);
}

#[test]
fn eq_and_ord_unchanged() {
    assert_eq!(PkgName::new("a-1nb2"), PkgName::new("a-1nb2"));
    assert_ne!(PkgName::new("a-1nb2"), PkgName::new("a-1nb3"));
    assert!(PkgName::new("a-1") < PkgName::new("b-0"));
    assert!(PkgName::new("a-1") < PkgName::new("a-1nb1"));
}

#[test]
fn dewey_split_agrees() {
    use pkgsrc::Dewey;
    let m = Dewey::new("p5-Foo>=1.0nb2").unwrap();
    assert!(m.matches("p5-Foo-1.0nb2"));
    assert!(m.matches("p5-Foo-1.0nb3"));
    assert!(!m.matches("p5-Foo-1.0nb1"));
    assert!(!m.matches("p5-Foo-1.0"));
    assert!(!m.matches("p5-Foo"));
    assert!(!m.matches("p5-1.0nb2"));
    assert!(!m.matches(""));
    assert!(!m.matches("p5-Foo-1.0nb2-0"));
    let m = Dewey::new(">=0").unwrap();
    assert!(m.matches("-1"));
    assert!(!m.matches("1"));
    /* The revision used by the comparison is PkgName's revision. */
    for name in ["pkg-1.0nb7", "pkg-1.0nb07", "pkg-1.0nb123456789012345678"] {
        let rev = PkgName::new(name).pkgrevision().unwrap();
        let ge = Dewey::new(&format!("pkg>=1.0nb{}", rev)).unwrap();
        let gt = Dewey::new(&format!("pkg>1.0nb{}", rev)).unwrap();
        assert!(ge.matches(name));
        assert!(!gt.matches(name));
    }
}
