/*
 * Behaviour check for the Plist query functions (public API only): files(),
 * files_prefixed(), install_cmds(), uninstall_cmds() and the simple getters
 * are compared with a straightforward model computed from the entry sequence.
 * Passes before and after the control-flow refactoring of the "ignore next
 * file" handling in files()/install_cmds()/uninstall_cmds() and is_preserve().
 */
use pkgsrc::plist::{Plist, PlistEntry};
use std::ffi::{OsStr, OsString};
use std::os::unix::ffi::{OsStrExt, OsStringExt};

fn entries(lines: &[&[u8]]) -> Vec<PlistEntry> {
    lines.iter().map(|l| PlistEntry::from_bytes(l).unwrap()).collect()
}

fn check(lines: &[&[u8]]) {
    let text = lines.join(&b'\n');
    let plist = Plist::from_bytes(&text).unwrap();
    let ents = entries(lines);

    /* Model. */
    let mut ignore = false;
    let mut cwd: Vec<u8> = vec![];
    let mut files: Vec<&OsStr> = vec![];
    let mut prefixed: Vec<OsString> = vec![];
    let mut install: Vec<&PlistEntry> = vec![];
    let mut uninstall: Vec<&PlistEntry> = vec![];
    for e in &ents {
        match e {
            PlistEntry::Ignore => ignore = true,
            PlistEntry::File(f) => {
                if ignore {
                    ignore = false;
                    continue;
                }
                files.push(f.as_os_str());
                let mut p = cwd.clone();
                if p.last() != Some(&b'/') {
                    p.push(b'/');
                }
                p.extend_from_slice(f.as_bytes());
                prefixed.push(OsString::from_vec(p));
                install.push(e);
                uninstall.push(e);
            }
            PlistEntry::Cwd(d) => {
                cwd = d.as_bytes().to_vec();
                install.push(e);
                uninstall.push(e);
            }
            PlistEntry::Mode(_)
            | PlistEntry::Owner(_)
            | PlistEntry::Group(_)
            | PlistEntry::PkgDir(_) => {
                install.push(e);
                uninstall.push(e);
            }
            PlistEntry::Exec(_) => install.push(e),
            PlistEntry::UnExec(_) | PlistEntry::DirRm(_) => uninstall.push(e),
            _ => {}
        }
    }
    assert_eq!(plist.files(), files, "{:?}", lines);
    assert_eq!(plist.files_prefixed(), prefixed, "{:?}", lines);
    assert_eq!(plist.install_cmds(), install, "{:?}", lines);
    assert_eq!(plist.uninstall_cmds(), uninstall, "{:?}", lines);

    let strs = |pick: fn(&PlistEntry) -> Option<&str>| -> Vec<&str> {
        ents.iter().filter_map(pick).collect()
    };
    let oss = |pick: fn(&PlistEntry) -> Option<&OsStr>| -> Vec<&OsStr> {
        ents.iter().filter_map(pick).collect()
    };
    assert_eq!(
        plist.depends(),
        strs(|e| if let PlistEntry::PkgDep(s) = e { Some(s.as_str()) } else { None })
    );
    assert_eq!(
        plist.build_depends(),
        strs(|e| if let PlistEntry::BldDep(s) = e { Some(s.as_str()) } else { None })
    );
    assert_eq!(
        plist.conflicts(),
        strs(|e| if let PlistEntry::PkgCfl(s) = e { Some(s.as_str()) } else { None })
    );
    assert_eq!(
        plist.pkgdirs(),
        oss(|e| if let PlistEntry::PkgDir(s) = e { Some(s.as_os_str()) } else { None })
    );
    assert_eq!(
        plist.pkgrmdirs(),
        oss(|e| if let PlistEntry::DirRm(s) = e { Some(s.as_os_str()) } else { None })
    );
    assert_eq!(
        plist.pkgname(),
        strs(|e| if let PlistEntry::Name(s) = e { Some(s.as_str()) } else { None })
            .first()
            .copied()
    );
    assert_eq!(
        plist.display(),
        oss(|e| if let PlistEntry::Display(s) = e { Some(s.as_os_str()) } else { None })
            .first()
            .copied()
    );
    assert_eq!(
        plist.is_preserve(),
        ents.iter().any(|e| matches!(e, PlistEntry::PkgOpt(_)))
    );
}

const POOL: &[&[u8]] = &[
    b"bin/a",
    b"b",
    b"lib/\xff\xfe",
    b"@ignore",
    b"@cwd /opt/pkg",
    b"@cwd /opt/pkg/",
    b"@cwd rel",
    b"@cwd /\xe9",
    b"@cwd /",
    b"@src /usr/caf\xc3\xa9",
    b"@exec echo hi",
    b"@unexec echo bye",
    b"@mode 0644",
    b"@mode",
    b"@owner root",
    b"@group wheel",
    b"@pkgdir share/d",
    b"@dirrm share/e",
    b"@comment c",
    b"@name pkg-1.0",
    b"@name other-2.0",
    b"@pkgdep dep>=1",
    b"@blddep bld>=2",
    b"@pkgcfl cfl<3",
    b"@display MESSAGE",
    b"@display MESSAGE2",
    b"@option preserve",
];

#[test]
fn fixed_scenarios() {
    check(&[]);
    check(&[b"a"]);
    check(&[b"@ignore"]);
    check(&[b"@ignore", b"@ignore", b"a", b"b"]);
    check(&[b"a", b"@ignore"]);
    check(&[b"@ignore", b"@cwd /x", b"@comment y", b"@mode 1", b"a", b"b", b"@ignore"]);
    check(&[b"a", b"@cwd /x", b"b", b"@cwd /y/", b"c", b"@cwd \xff", b"d", b"@cwd /", b"e"]);
    check(&[b"@cwd /x", b"@ignore", b"+CONTENTS", b"@cwd /z", b"bin/f"]);
    check(&[b"@option preserve", b"@name n-1", b"@name m-2", b"@display D", b"@display E"]);
    check(POOL);
    let rev: Vec<&[u8]> = POOL.iter().rev().copied().collect();
    check(&rev);
}

#[test]
fn all_pairs_and_triples() {
    for &a in POOL {
        for &b in POOL {
            check(&[a, b]);
            check(&[b"@ignore", a, b]);
            check(&[a, b"@ignore", b, b"z/last"]);
        }
    }
    let small: &[&[u8]] =
        &[b"f1", b"@ignore", b"@cwd /p", b"@cwd q/", b"@exec x", b"@dirrm d", b"@comment"];
    for &a in small {
        for &b in small {
            for &c in small {
                for &d in small {
                    check(&[a, b, c, d, b"f2"]);
                }
            }
        }
    }
}

#[test]
fn pseudo_random_sequences() {
    let mut state: u64 = 0x1234_5678_9abc_def1;
    for _ in 0..300 {
        let mut seq: Vec<&[u8]> = vec![];
        state ^= state << 13;
        state ^= state >> 7;
        state ^= state << 17;
        let len = (state % 40) as usize;
        for _ in 0..len {
            state ^= state << 13;
            state ^= state >> 7;
            state ^= state << 17;
            /* bias towards files, @ignore and @cwd */
            let pick = (state % 64) as usize;
            let idx = if pick < POOL.len() { pick } else { pick % 9 };
            seq.push(POOL[idx]);
        }
        check(&seq);
    }
}

#[test]
fn preserve_and_repeatable_queries() {
    let none = Plist::from_bytes(b"bin/a\n@comment @option preserve\n").unwrap();
    assert!(!none.is_preserve());
    assert!(!Plist::new().is_preserve());
    let one = Plist::from_bytes(b"@option preserve").unwrap();
    assert!(one.is_preserve());
    let many = Plist::from_bytes(b"a\n@option preserve\nb\n@option preserve\n").unwrap();
    assert!(many.is_preserve());

    /* Queries keep no state between calls. */
    let p = Plist::from_bytes(b"@ignore\n+CONTENTS\nbin/a\n@ignore\n").unwrap();
    for _ in 0..3 {
        assert_eq!(p.files(), vec![OsStr::new("bin/a")]);
        assert_eq!(p.files_prefixed(), vec![OsString::from("/bin/a")]);
        assert_eq!(p.install_cmds(), vec![&PlistEntry::File(OsString::from("bin/a"))]);
        assert_eq!(p.uninstall_cmds(), vec![&PlistEntry::File(OsString::from("bin/a"))]);
    }
}
