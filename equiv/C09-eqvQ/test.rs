/*
 * Behaviour check for SummaryStream::write (public API only).  Passes on the
 * code before and after restructuring the error handling of write() (nested
 * match on the UTF-8 error flattened to an early return, `match .. return
 * Err` replaced by `map_err(..)?`).
 */
use pkgsrc::summary::SummaryStream;
use std::io::{ErrorKind, Write};

fn entry(name: &str, comment: &str) -> String {
    format!(
        "BUILD_DATE=2019-08-12 15:58:02 +0100\n\
         CATEGORIES=devel pkgtools\n\
         COMMENT={}\n\
         DESCRIPTION=A test description\n\
         DESCRIPTION=\n\
         DESCRIPTION=caf\u{e9} \u{2713} \u{1F600} end\n\
         MACHINE_ARCH=x86_64\n\
         OPSYS=Darwin\n\
         OS_VERSION=18.7.0\n\
         PKGNAME={}\n\
         PKGPATH=pkgtools/testpkg\n\
         PKGTOOLS_VERSION=20091115\n\
         SIZE_PKG=4321\n",
        comment, name
    )
}

fn stream(entries: &[String]) -> String {
    let mut s = String::new();
    for e in entries {
        s.push_str(e);
        s.push('\n');
    }
    s
}

/* Write `bytes` cut at the given (sorted) offsets, every write must be Ok(len). */
fn feed(bytes: &[u8], cuts: &[usize]) -> SummaryStream {
    let mut st = SummaryStream::new();
    let mut prev = 0;
    for &c in cuts.iter().chain(std::iter::once(&bytes.len())) {
        let chunk = &bytes[prev..c];
        assert_eq!(st.write(chunk).unwrap(), chunk.len());
        prev = c;
    }
    st
}

fn names(st: &SummaryStream) -> Vec<String> {
    st.entries()
        .iter()
        .map(|e| e.pkgname().unwrap().to_string())
        .collect()
}

#[test]
fn single_write_roundtrip() {
    let es = vec![
        entry("a-1.0", "plain ascii"),
        entry("b\u{e9}-2.0", "\u{65e5}\u{672c}\u{8a9e} comment"),
        entry("c-3.0", "\u{1F600}"),
    ];
    let input = stream(&es);
    let st = feed(input.as_bytes(), &[]);
    assert_eq!(names(&st), vec!["a-1.0", "b\u{e9}-2.0", "c-3.0"]);
    assert_eq!(format!("{}", st), input);
    for (e, want) in st.entries().iter().zip(es.iter()) {
        assert_eq!(&format!("{}", e), want);
    }
}

#[test]
fn every_single_cut_and_byte_at_a_time() {
    let es = vec![
        entry("a-1.0", "caf\u{e9}"),
        entry("b-2.0", "\u{2713}\u{1F600}"),
    ];
    let input = stream(&es);
    let bytes = input.as_bytes();
    for cut in 0..=bytes.len() {
        let st = feed(bytes, &[cut]);
        assert_eq!(names(&st), vec!["a-1.0", "b-2.0"], "cut {}", cut);
        assert_eq!(format!("{}", st), input, "cut {}", cut);
    }
    let all: Vec<usize> = (1..bytes.len()).collect();
    let st = feed(bytes, &all);
    assert_eq!(format!("{}", st), input);
    for size in 1..40 {
        let cuts: Vec<usize> = (1..bytes.len()).filter(|i| i % size == 0).collect();
        let st = feed(bytes, &cuts);
        assert_eq!(format!("{}", st), input, "chunk size {}", size);
    }
}

#[test]
fn incomplete_and_empty_input() {
    let mut st = SummaryStream::new();
    assert_eq!(st.write(b"").unwrap(), 0);
    assert_eq!(st.entries().len(), 0);
    let e = entry("a-1.0", "x");
    /* No terminating blank line yet: nothing collected, all bytes consumed. */
    assert_eq!(st.write(e.as_bytes()).unwrap(), e.len());
    assert_eq!(st.entries().len(), 0);
    assert_eq!(st.write(b"").unwrap(), 0);
    assert_eq!(st.entries().len(), 0);
    assert_eq!(st.write(b"\n").unwrap(), 1);
    assert_eq!(names(&st), vec!["a-1.0"]);
    /* Partial trailing record stays buffered and completes later. */
    let e2 = entry("b-2.0", "y");
    let (h, t) = e2.as_bytes().split_at(17);
    assert_eq!(st.write(h).unwrap(), h.len());
    assert_eq!(st.entries().len(), 1);
    let mut rest = t.to_vec();
    rest.push(b'\n');
    assert_eq!(st.write(&rest).unwrap(), rest.len());
    assert_eq!(names(&st), vec!["a-1.0", "b-2.0"]);
    st.flush().unwrap();
    assert_eq!(st.entries_mut().len(), 2);
}

#[test]
fn malformed_entry_reports_invalid_data() {
    let good1 = entry("a-1.0", "x");
    let good2 = entry("b-2.0", "y");
    let bads = [
        "BUILD_DATE\n".to_string(),
        "BILD_DATE=1\n".to_string(),
        "FILE_SIZE=NaN\n".to_string(),
        "FILE_SIZE=1234\n".to_string(),
    ];
    for bad in bads.iter() {
        for pos in 0..3 {
            let mut es = vec![good1.clone(), good2.clone()];
            es.insert(pos, bad.clone());
            let input = stream(&es);
            let bytes = input.as_bytes();
            /* one call */
            let mut st = SummaryStream::new();
            let err = st.write(bytes).unwrap_err();
            assert_eq!(err.kind(), ErrorKind::InvalidData);
            assert_eq!(st.entries().len(), pos);
            /* byte at a time */
            let mut st = SummaryStream::new();
            let mut failed = false;
            for b in bytes {
                match st.write(&[*b]) {
                    Ok(n) => assert_eq!(n, 1),
                    Err(e) => {
                        assert_eq!(e.kind(), ErrorKind::InvalidData);
                        failed = true;
                        break;
                    }
                }
            }
            assert!(failed);
            assert_eq!(st.entries().len(), pos);
            assert_eq!(names(&st), vec!["a-1.0", "b-2.0"][..pos].to_vec());
        }
    }
}

#[test]
fn invalid_utf8_is_invalid_data() {
    let mut st = SummaryStream::new();
    let err = st.write(b"COMMENT=\xff\xfe\n\n").unwrap_err();
    assert_eq!(err.kind(), ErrorKind::InvalidData);
    assert_eq!(st.entries().len(), 0);
    /* A lone continuation byte is invalid, not an incomplete sequence. */
    let mut st = SummaryStream::new();
    let err = st.write(b"A=\x80").unwrap_err();
    assert_eq!(err.kind(), ErrorKind::InvalidData);
    /* A truncated sequence at the very end is tolerated. */
    let mut st = SummaryStream::new();
    assert_eq!(st.write(b"COMMENT=\xe2\x9c").unwrap(), 10);
    assert_eq!(st.entries().len(), 0);
}

#[test]
fn utf8_error_paths_with_complete_records() {
    let good = entry("a-1.0", "x");
    /* Invalid byte after a complete record in the same write: whole write fails. */
    let mut input = stream(&[good.clone()]).into_bytes();
    input.extend_from_slice(b"COMMENT=\xff");
    let mut st = SummaryStream::new();
    let err = st.write(&input).unwrap_err();
    assert_eq!(err.kind(), ErrorKind::InvalidData);
    assert!(err.get_ref().is_some());
    assert_eq!(st.entries().len(), 0);
    /* and it keeps failing, the bad bytes stay buffered */
    let err = st.write(b"\n\n").unwrap_err();
    assert_eq!(err.kind(), ErrorKind::InvalidData);
    assert_eq!(st.entries().len(), 0);

    /* Truncated multi-byte sequence after a complete record: record is collected. */
    for tail in [&b"\xc3"[..], &b"\xe2\x9c"[..], &b"\xf0\x9f\x98"[..]] {
        let mut input = stream(&[good.clone()]).into_bytes();
        input.extend_from_slice(b"BUILD_DATE=");
        input.extend_from_slice(tail);
        let mut st = SummaryStream::new();
        assert_eq!(st.write(&input).unwrap(), input.len());
        assert_eq!(names(&st), vec!["a-1.0"]);
    }

    /* Error payload of a malformed record is the SummaryError text. */
    let mut st = SummaryStream::new();
    let err = st.write(b"BUILD_DATE\n\n").unwrap_err();
    assert_eq!(err.kind(), ErrorKind::InvalidData);
    let msg1 = format!("{}", err);
    let mut st2 = SummaryStream::new();
    st2.write(b"BUILD_").unwrap();
    let err2 = st2.write(b"DATE\n\n").unwrap_err();
    assert_eq!(format!("{}", err2), msg1);
    assert!(!msg1.is_empty());
}
