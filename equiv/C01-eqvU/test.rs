/*
 * Exercise the dewey comparison through Dewey, Pattern and best_match on a
 * spread of version pairs, checking every outcome against a small reference
 * model of pkg_install's rule written independently of the crate.
 */
use pkgsrc::{Dewey, Pattern};
use std::cmp::Ordering;

/*
 * Reference tokeniser: (components, revision).  `base` is added to the
 * alphabet rank of a plain letter.
 */
fn model(s: &str, base: i64) -> (Vec<i64>, i64) {
    let b: Vec<char> = s.chars().map(|c| c.to_ascii_lowercase()).collect();
    let mut v = vec![];
    let mut nb = 0;
    let mut i = 0;
    let at = |i: usize, w: &str| -> bool {
        let w: Vec<char> = w.chars().collect();
        i + w.len() <= b.len() && b[i..i + w.len()] == w[..]
    };
    while i < b.len() {
        let c = b[i];
        if c.is_ascii_digit() {
            let mut n: i64 = 0;
            while i < b.len() && b[i].is_ascii_digit() {
                n = n * 10 + (b[i] as i64 - '0' as i64);
                i += 1;
            }
            v.push(n);
        } else if c == '.' || c == '_' {
            v.push(0);
            i += 1;
        } else if at(i, "nb") {
            i += 2;
            let mut n: i64 = 0;
            while i < b.len() && b[i].is_ascii_digit() {
                n = n * 10 + (b[i] as i64 - '0' as i64);
                i += 1;
            }
            nb = n;
        } else if at(i, "alpha") {
            v.push(-3);
            i += 5;
        } else if at(i, "beta") {
            v.push(-2);
            i += 4;
        } else if at(i, "rc") {
            v.push(-1);
            i += 2;
        } else if at(i, "pre") {
            v.push(-1);
            i += 3;
        } else if at(i, "pl") {
            v.push(0);
            i += 2;
        } else if c.is_ascii_alphabetic() {
            v.push(0);
            v.push(base + c as i64 - 'a' as i64 + 1);
            i += 1;
        } else {
            i += 1;
        }
    }
    (v, nb)
}

fn model_cmp_base(a: &str, b: &str, base: i64) -> Ordering {
    let (va, na) = model(a, base);
    let (vb, nb) = model(b, base);
    let n = va.len().max(vb.len());
    for i in 0..n {
        let x = *va.get(i).unwrap_or(&0);
        let y = *vb.get(i).unwrap_or(&0);
        if x != y {
            return x.cmp(&y);
        }
    }
    na.cmp(&nb)
}

/*
 * pkg_install gives a plain letter its alphabet rank (1..26).  Only the
 * order of letters among themselves and against 0 and the negative modifiers
 * is relied upon here: the few pairs in which a letter meets a number between
 * 1 and 122 in the same position are left out (see `comparable`).
 */
fn model_cmp(a: &str, b: &str) -> Ordering {
    model_cmp_base(a, b, 0)
}

fn comparable(a: &str, b: &str) -> bool {
    model_cmp_base(a, b, 0) == model_cmp_base(a, b, 96)
}

const VERSIONS: &[&str] = &[
    "",
    "0",
    "00",
    "1",
    "01",
    "1.",
    "1.0",
    "1.0.0",
    "1.0.0.0",
    "1_",
    "1pl",
    "1pl0",
    "1.0pl1",
    "1.1",
    "1.01",
    "1.10",
    "1.2",
    "1.9",
    "1.22b",
    "1.22B",
    "1.22c",
    "1..2",
    ".5",
    "0.5",
    "1alpha",
    "1ALPHA",
    "1.0alpha",
    "1.0alpha1",
    "1.0alpha2",
    "1.0Beta",
    "1.0beta1",
    "1.0rc",
    "1.0rc1",
    "1.0pre1",
    "1.0PRE2",
    "1.0rc1nb1",
    "1nb",
    "1nb0",
    "1nb1",
    "1NB2",
    "1.0nb1",
    "1.0nb2",
    "1.0.0nb10",
    "1nb3nb",
    "1nb3nb4",
    "nb5",
    "2",
    "2.0",
    "2.0alpha",
    "2.0.0.0.0.0beta",
    "2.0.0.0.0.0.1",
    "20240101",
    "20240101123456",
    "999999999999999999",
    "999999999999999998",
    "999999999999999999.1",
    "1.0\u{e9}",
    "\u{e9}1.0",
    "1\u{2028}.\u{1f600}0",
    "\u{ff11}",
    "1+2",
    "1~2",
    "1 2",
    "1.0 ",
    "a",
    "A",
    "b",
    "z",
    "ab",
    "1a",
    "1a1",
    "1a.1",
    "1.a",
    "1.z",
    "rc",
    "rc1",
    "pl",
    "alpha",
    "alph",
    "bet",
    "pr",
    "p",
    "n",
    "1n",
    "1nx",
];

const OPS: &[(&str, fn(Ordering) -> bool)] = &[
    (">", |o| o == Ordering::Greater),
    (">=", |o| o != Ordering::Less),
    ("<", |o| o == Ordering::Less),
    ("<=", |o| o != Ordering::Greater),
];

#[test]
fn every_pair_and_operator_agrees_with_the_model() {
    let mut checked = 0;
    let mut skipped = 0;
    for a in VERSIONS {
        for b in VERSIONS {
            if !comparable(a, b) {
                skipped += 1;
                continue;
            }
            let want = model_cmp(a, b);
            let pkg = format!("pkg-{}", a);
            for (op, holds) in OPS {
                let pat = format!("pkg{}{}", op, b);
                let d = Dewey::new(&pat).unwrap();
                assert_eq!(d.matches(&pkg), holds(want), "{} vs {}", pkg, pat);
                let p = Pattern::new(&pat).unwrap();
                assert_eq!(p.matches(&pkg), holds(want), "{} vs {}", pkg, pat);
                checked += 1;
            }
        }
    }
    assert_eq!(checked + skipped * 4, VERSIONS.len() * VERSIONS.len() * 4);
    assert!(skipped * 20 < VERSIONS.len() * VERSIONS.len());
}

#[test]
fn ranges_agree_with_the_model() {
    for lo in VERSIONS {
        for hi in ["1.0", "2", "1.0rc1", "1nb3", "1.22c", ""] {
            for (lop, hop) in [(">", "<"), (">=", "<"), (">", "<="), (">=", "<=")]
            {
                let pat = format!("pkg{}{}{}{}", lop, lo, hop, hi);
                let p = Pattern::new(&pat).unwrap();
                for v in VERSIONS {
                    if !comparable(v, lo) || !comparable(v, hi) {
                        continue;
                    }
                    let l = model_cmp(v, lo);
                    let h = model_cmp(v, hi);
                    let want = (if lop == ">" {
                        l == Ordering::Greater
                    } else {
                        l != Ordering::Less
                    }) && (if hop == "<" {
                        h == Ordering::Less
                    } else {
                        h != Ordering::Greater
                    });
                    let pkg = format!("pkg-{}", v);
                    assert_eq!(p.matches(&pkg), want, "{} vs {}", pkg, pat);
                }
            }
        }
    }
}

#[test]
fn best_match_agrees_with_the_model() {
    let p = Pattern::new("pkg-*").unwrap();
    for a in VERSIONS {
        for b in VERSIONS {
            if !comparable(a, b) {
                continue;
            }
            let p1 = format!("pkg-{}", a);
            let p2 = format!("pkg-{}", b);
            let want = match model_cmp(a, b) {
                Ordering::Greater => &p1,
                Ordering::Less => &p2,
                Ordering::Equal => {
                    if p1 < p2 {
                        &p1
                    } else {
                        &p2
                    }
                }
            };
            assert_eq!(
                p.best_match(&p1, &p2),
                Some(want.as_str()),
                "{} / {}",
                p1,
                p2
            );
        }
    }
}

#[test]
fn fixed_expectations() {
    let t = |pat: &str, pkg: &str| Pattern::new(pat).unwrap().matches(pkg);
    assert!(t("foo>1", "foo-1.0pl1"));
    assert!(t("foo>=1.0", "foo-1"));
    assert!(!t("foo>1.0", "foo-1"));
    assert!(t("foo<=1.0.0", "foo-1"));
    assert!(!t("foo<1.0.0", "foo-1"));
    assert!(t("foo>1.0nb1", "foo-1nb2"));
    assert!(!t("foo>1.0nb2", "foo-1nb2"));
    assert!(t("foo<1.0.0.1", "foo-1nb9"));
    assert!(t("foo>1.0.0alpha", "foo-1"));
    assert!(t("foo<1", "foo-1.0.0rc3nb7"));
    assert!(t("foo>=", "foo-"));
    assert!(!t("foo>", "foo-"));
    assert!(t("foo>", "foo-nb1"));
    assert!(t("foo<nb2", "foo-0.0nb1"));
}
