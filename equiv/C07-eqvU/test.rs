use pkgsrc::summary::{Summary, SummaryError};
use std::str::FromStr;

fn required() -> Summary {
    let mut sum = Summary::new();
    sum.set_build_date("2019-08-12 15:58:02 +0100");
    sum.set_categories("devel pkgtools");
    sum.set_comment("This is a test");
    sum.set_description(&["A test description".to_string()]);
    sum.set_machine_arch("x86_64");
    sum.set_opsys("Darwin");
    sum.set_os_version("18.7.0");
    sum.set_pkgname("testpkg-1.0");
    sum.set_pkgpath("pkgtools/testpkg");
    sum.set_pkgtools_version("20091115");
    sum.set_size_pkg(4321);
    sum
}

const FULL: &str = "BUILD_DATE=2019-08-12 15:58:02 +0100\n\
CATEGORIES=devel pkgtools\n\
COMMENT=This is a test\n\
CONFLICTS=cfl-pkg1-[0-9]*\n\
CONFLICTS=cfl-pkg2>=2.0\n\
DEPENDS=dep-pkg1-[0-9]*\n\
DEPENDS=dep-pkg2>=2.0\n\
DESCRIPTION=A test description\n\
DESCRIPTION=\n\
DESCRIPTION=\n\
DESCRIPTION=This is a multi-line variable\n\
FILE_CKSUM=SHA1 a4801e9b26eeb5b8bd1f54bac1c8e89dec67786a\n\
FILE_NAME=testpkg-1.0.tgz\n\
FILE_SIZE=1234\n\
HOMEPAGE=https://docs.rs/pkgsrc/?a=b&c=d\n\
LICENSE=apache-2.0 OR modified-bsd\n\
MACHINE_ARCH=x86_64\n\
OPSYS=Darwin\n\
OS_VERSION=18.7.0\n\
PKG_OPTIONS=http2 idn inet6 ldap libssh2\n\
PKGNAME=testpkg-1.0\n\
PKGPATH=pkgtools/testpkg\n\
PKGTOOLS_VERSION=20091115\n\
PREV_PKGPATH=obsolete/testpkg\n\
PROVIDES=/opt/pkg/lib/libfoo.dylib\n\
PROVIDES=/opt/pkg/lib/libbar.dylib\n\
REQUIRES=/usr/lib/libSystem.B.dylib\n\
REQUIRES=/usr/lib/libiconv.2.dylib\n\
SIZE_PKG=4321\n\
SUPERSEDES=oldpkg-[0-9]*\n\
SUPERSEDES=badpkg>=2.0\n";

#[test]
fn canonical_full_entry_roundtrips() {
    let sum = Summary::from_str(FULL).unwrap();
    assert_eq!(sum.to_string(), FULL);
    assert_eq!(sum.homepage(), Some("https://docs.rs/pkgsrc/?a=b&c=d"));
    assert_eq!(sum.conflicts().unwrap()[1], "cfl-pkg2>=2.0");
    assert_eq!(sum.description().unwrap().len(), 4);
    assert_eq!(sum.file_size(), Some(1234));
}

#[test]
fn shuffled_input_prints_in_fixed_order() {
    let mut lines: Vec<&str> = FULL.lines().collect();
    lines.reverse();
    /* reversing also reverses multi-line values, so compare sorted sets */
    let text = lines.join("\n");
    let sum = Summary::from_str(&text).unwrap();
    let out = sum.to_string();
    let keys: Vec<&str> = out
        .lines()
        .map(|l| l.split('=').next().unwrap())
        .collect();
    let want: Vec<&str> =
        FULL.lines().map(|l| l.split('=').next().unwrap()).collect();
    assert_eq!(keys, want);
    assert_eq!(
        sum.description().unwrap(),
        &[
            "This is a multi-line variable".to_string(),
            "".to_string(),
            "".to_string(),
            "A test description".to_string()
        ]
    );
}

#[test]
fn odd_values_roundtrip() {
    let vals = [
        "",
        "=",
        "==",
        "a=b=c",
        " leading and trailing ",
        "\t",
        "na\u{ef}ve caf\u{e9} \u{65e5}\u{672c}\u{8a9e} \u{1f600}",
        "\u{a0}",
        "=\u{e9}=",
    ];
    for v in vals {
        let mut sum = required();
        sum.set_comment(v);
        sum.set_license(v);
        sum.set_homepage(v);
        sum.set_description(&[v.to_string(), v.to_string(), "x".to_string()]);
        sum.push_supersedes(v);
        sum.push_supersedes(v);
        for n in [0i64, 1, -1, i64::MAX, i64::MIN] {
            sum.set_size_pkg(n);
            sum.set_file_size(n);
            let text = sum.to_string();
            assert!(text.contains(&format!("COMMENT={}\n", v)));
            assert!(text.contains(&format!("SIZE_PKG={}\n", n)));
            let back = Summary::from_str(&text).unwrap();
            assert_eq!(back.comment(), Some(v));
            assert_eq!(back.license(), Some(v));
            assert_eq!(back.homepage(), Some(v));
            assert_eq!(back.description(), sum.description());
            assert_eq!(back.supersedes(), sum.supersedes());
            assert_eq!(back.size_pkg(), Some(n));
            assert_eq!(back.file_size(), Some(n));
            assert_eq!(back.to_string(), text);
        }
    }
}

#[test]
fn empty_summary_prints_nothing() {
    assert_eq!(Summary::new().to_string(), "");
    let mut s = Summary::new();
    s.set_description(&[]);
    assert_eq!(s.to_string(), "");
    s.set_file_size(7);
    assert_eq!(s.to_string(), "FILE_SIZE=7\n");
}

#[test]
fn malformed_input_errors() {
    assert!(matches!(
        Summary::from_str(""),
        Err(SummaryError::Incomplete(_))
    ));
    match Summary::from_str("BUILD_DATE") {
        Err(SummaryError::ParseLine(l)) => assert_eq!(l, "BUILD_DATE"),
        other => panic!("unexpected {:?}", other.map(|s| s.to_string())),
    }
    match Summary::from_str("COMMENT=ok\n\u{e9}\u{e9}") {
        Err(SummaryError::ParseLine(l)) => assert_eq!(l, "\u{e9}\u{e9}"),
        other => panic!("unexpected {:?}", other.map(|s| s.to_string())),
    }
    /* an empty line inside an entry has no '=' */
    match Summary::from_str("COMMENT=ok\n\nPKGNAME=x") {
        Err(SummaryError::ParseLine(l)) => assert_eq!(l, ""),
        other => panic!("unexpected {:?}", other.map(|s| s.to_string())),
    }
    match Summary::from_str("=value") {
        Err(SummaryError::ParseVariable(v)) => assert_eq!(v, ""),
        other => panic!("unexpected {:?}", other.map(|s| s.to_string())),
    }
    match Summary::from_str("comment=value") {
        Err(SummaryError::ParseVariable(v)) => assert_eq!(v, "comment"),
        other => panic!("unexpected {:?}", other.map(|s| s.to_string())),
    }
    match Summary::from_str("COMMENT =value") {
        Err(SummaryError::ParseVariable(v)) => assert_eq!(v, "COMMENT "),
        other => panic!("unexpected {:?}", other.map(|s| s.to_string())),
    }
    assert!(matches!(
        Summary::from_str("SIZE_PKG="),
        Err(SummaryError::ParseInt(_))
    ));
    assert!(matches!(
        Summary::from_str("FILE_SIZE=12=3"),
        Err(SummaryError::ParseInt(_))
    ));
    assert!(matches!(
        Summary::from_str("SIZE_PKG=9223372036854775808"),
        Err(SummaryError::ParseInt(_))
    ));
    /* CRLF input: lines() strips the CR as well */
    let crlf = FULL.replace('\n', "\r\n");
    assert_eq!(Summary::from_str(&crlf).unwrap().to_string(), FULL);
}
