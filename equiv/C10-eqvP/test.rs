/*
 * Behaviour documentation for the distinfo writer (Distinfo::as_bytes and
 * Entry::as_bytes): byte-exact output for ASCII, UTF-8 and non-UTF-8 names.
 */
use pkgsrc::digest::Digest;
use pkgsrc::distinfo::{Checksum, Distinfo, Entry};
use std::ffi::{OsStr, OsString};
use std::os::unix::ffi::{OsStrExt, OsStringExt};
use std::path::PathBuf;

fn canonical() -> Vec<u8> {
    let mut v: Vec<u8> = Vec::new();
    v.extend_from_slice(b"$NetBSD: distinfo,v 1.2 2024/01/01 00:00:00 j\xf6rg Exp $\n\n");
    v.extend_from_slice(b"BLAKE2s (sub/dir/foo-1.0.tar.gz) = aa\n");
    v.extend_from_slice(b"SHA512 (sub/dir/foo-1.0.tar.gz) = bb\n");
    v.extend_from_slice(b"Size (sub/dir/foo-1.0.tar.gz) = 18446744073709551615 bytes\n");
    v.extend_from_slice(b"MD5 (caf\xe9.tgz) = cc\n");
    v.extend_from_slice(b"Size (caf\xe9.tgz) = 0 bytes\n");
    v.extend_from_slice(b"RMD160 (na\xc3\xafve.zip) = dd\n");
    v.extend_from_slice(b"SHA1 (patch-aa) = ee\n");
    v.extend_from_slice(b"SHA256 (patch-src_m\xe9.c) = ff\n");
    v
}

#[test]
fn roundtrip_bytes() {
    let input = canonical();
    let di = Distinfo::from_bytes(&input);
    assert_eq!(di.distfiles().len(), 3);
    assert_eq!(di.patchfiles().len(), 2);
    assert_eq!(di.as_bytes(), input);
}

#[test]
fn empty_and_default_rcsid() {
    let di = Distinfo::new();
    assert_eq!(di.as_bytes(), b"$NetBSD$\n\n".to_vec());
    let di = Distinfo::from_bytes(b"");
    assert_eq!(di.as_bytes(), b"$NetBSD$\n\n".to_vec());
    let mut di = Distinfo::new();
    di.set_rcsid(&OsString::from_vec(b"\xff\xfe".to_vec()));
    assert_eq!(di.as_bytes(), b"\xff\xfe\n\n".to_vec());
}

#[test]
fn api_built_then_written() {
    let mut di = Distinfo::new();
    di.set_rcsid(&OsString::from("$NetBSD: x $"));
    let name = PathBuf::from(OsStr::from_bytes(b"d/\xe9.tar"));
    let e = Entry::new(
        &name,
        "/nonexistent",
        vec![
            Checksum::new(Digest::SHA512, "1".to_string()),
            Checksum::new(Digest::BLAKE2s, String::new()),
        ],
        Some(7),
    );
    assert_eq!(
        e.as_bytes(),
        b"SHA512 (d/\xe9.tar) = 1\nBLAKE2s (d/\xe9.tar) = \nSize (d/\xe9.tar) = 7 bytes\n"
            .to_vec()
    );
    assert!(di.insert(e));
    /* A patch with a size: the size line is not written by Distinfo. */
    let p = Entry::new(
        "patch-ab",
        "patches/patch-ab",
        vec![Checksum::new(Digest::SHA1, "2".to_string())],
        Some(9),
    );
    assert_eq!(
        p.as_bytes(),
        b"SHA1 (patch-ab) = 2\nSize (patch-ab) = 9 bytes\n".to_vec()
    );
    assert!(di.insert(p));
    /* An entry with neither checksums nor size writes nothing. */
    assert!(di.insert(Entry::new("empty.tgz", "", vec![], None)));
    let expect: Vec<u8> = [
        &b"$NetBSD: x $\n\n"[..],
        &b"SHA512 (d/\xe9.tar) = 1\nBLAKE2s (d/\xe9.tar) = \nSize (d/\xe9.tar) = 7 bytes\n"[..],
        &b"SHA1 (patch-ab) = 2\n"[..],
    ]
    .concat();
    assert_eq!(di.as_bytes(), expect);
}
