/*
 * Exercise the grouping of distinfo lines into per-file entries
 * (Distinfo::from_bytes -> update_size / update_checksum) and the
 * round trip through Distinfo::as_bytes.
 */
use pkgsrc::digest::Digest;
use pkgsrc::distinfo::{Checksum, Distinfo, Entry, EntryType};
use std::ffi::OsStr;
use std::os::unix::ffi::OsStrExt;
use std::path::PathBuf;

const RCSID: &[u8] = b"$NetBSD: distinfo,v 1.9 2024/03/04 05:06:07 j\xf6rg Exp $";

fn ck(d: Digest, h: &str) -> Checksum {
    Checksum::new(d, h.to_string())
}

#[test]
fn canonical_file_grouping_and_roundtrip() {
    let mut input = RCSID.to_vec();
    input.extend_from_slice(
        b"\n\n\
BLAKE2s (foo-1.0.tar.gz) = b2foo\n\
SHA512 (foo-1.0.tar.gz) = s5foo\n\
Size (foo-1.0.tar.gz) = 100 bytes\n\
RMD160 (sub/bar-2.0.zip) = rmbar\n\
Size (sub/bar-2.0.zip) = 0 bytes\n\
Size (only-size.tgz) = 18446744073709551615 bytes\n\
MD5 (only-sum.tgz) = m5only\n\
SHA1 (patch-aa) = s1aa\n\
SHA1 (patch-ab) = s1ab\n\
SHA256 (patch-ab) = s2ab\n",
    );
    let di = Distinfo::from_bytes(&input);
    assert_eq!(di.rcsid().map(|s| s.as_bytes()), Some(RCSID));

    let d = di.distfiles();
    assert_eq!(d.len(), 4);
    assert_eq!(d[0].filename, PathBuf::from("foo-1.0.tar.gz"));
    assert_eq!(
        d[0].checksums,
        vec![ck(Digest::BLAKE2s, "b2foo"), ck(Digest::SHA512, "s5foo")]
    );
    assert_eq!(d[0].size, Some(100));
    assert_eq!(d[1].filename, PathBuf::from("sub/bar-2.0.zip"));
    assert_eq!(d[1].checksums, vec![ck(Digest::RMD160, "rmbar")]);
    assert_eq!(d[1].size, Some(0));
    assert_eq!(d[2].filename, PathBuf::from("only-size.tgz"));
    assert!(d[2].checksums.is_empty());
    assert_eq!(d[2].size, Some(u64::MAX));
    assert_eq!(d[3].filename, PathBuf::from("only-sum.tgz"));
    assert_eq!(d[3].checksums, vec![ck(Digest::MD5, "m5only")]);
    assert_eq!(d[3].size, None);
    for e in &d {
        assert_eq!(e.filetype, EntryType::Distfile);
        assert_eq!(e.filepath, PathBuf::new());
    }

    let p = di.patchfiles();
    assert_eq!(p.len(), 2);
    assert_eq!(p[0].filename, PathBuf::from("patch-aa"));
    assert_eq!(p[0].checksums, vec![ck(Digest::SHA1, "s1aa")]);
    assert_eq!(p[1].filename, PathBuf::from("patch-ab"));
    assert_eq!(
        p[1].checksums,
        vec![ck(Digest::SHA1, "s1ab"), ck(Digest::SHA256, "s2ab")]
    );
    for e in &p {
        assert_eq!(e.filetype, EntryType::Patchfile);
        assert_eq!(e.filepath, PathBuf::new());
        assert_eq!(e.size, None);
    }

    assert_eq!(di.as_bytes(), input);
    assert_eq!(
        di.get_distfile("only-size.tgz").unwrap().as_bytes(),
        b"Size (only-size.tgz) = 18446744073709551615 bytes\n".to_vec()
    );
}

#[test]
fn non_canonical_order_and_repeats() {
    /*
     * Size before the checksums, lines of different files interleaved,
     * repeated Size lines (last wins), repeated digests (all kept), a
     * Size line for a patch.
     */
    let input = b"\
Size (b.tar.gz) = 1 bytes\n\
SHA1 (patch-zz) = p1\n\
SHA512 (a.tar.gz) = a1\n\
SHA512 (b.tar.gz) = b1\n\
Size (a.tar.gz) = 2 bytes\n\
Size (patch-zz) = 9 bytes\n\
SHA512 (a.tar.gz) = a2\n\
BLAKE2s (b.tar.gz) = b2\n\
Size (b.tar.gz) = 3 bytes\n\
Size (patch-yy) = 4 bytes\n\
SHA1 (patch-yy) = p2\n";
    let di = Distinfo::from_bytes(input);
    assert_eq!(di.rcsid(), None);

    let d = di.distfiles();
    assert_eq!(d.len(), 2);
    assert_eq!(d[0].filename, PathBuf::from("b.tar.gz"));
    assert_eq!(d[0].size, Some(3));
    assert_eq!(
        d[0].checksums,
        vec![ck(Digest::SHA512, "b1"), ck(Digest::BLAKE2s, "b2")]
    );
    assert_eq!(d[1].filename, PathBuf::from("a.tar.gz"));
    assert_eq!(d[1].size, Some(2));
    assert_eq!(
        d[1].checksums,
        vec![ck(Digest::SHA512, "a1"), ck(Digest::SHA512, "a2")]
    );

    let p = di.patchfiles();
    assert_eq!(p.len(), 2);
    assert_eq!(p[0].filename, PathBuf::from("patch-zz"));
    assert_eq!(p[0].size, Some(9));
    assert_eq!(p[0].checksums, vec![ck(Digest::SHA1, "p1")]);
    assert_eq!(p[0].filetype, EntryType::Patchfile);
    assert_eq!(p[1].filename, PathBuf::from("patch-yy"));
    assert_eq!(p[1].size, Some(4));
    assert_eq!(p[1].checksums, vec![ck(Digest::SHA1, "p2")]);
    assert_eq!(p[1].filetype, EntryType::Patchfile);

    let expected = b"$NetBSD$\n\n\
SHA512 (b.tar.gz) = b1\n\
BLAKE2s (b.tar.gz) = b2\n\
Size (b.tar.gz) = 3 bytes\n\
SHA512 (a.tar.gz) = a1\n\
SHA512 (a.tar.gz) = a2\n\
Size (a.tar.gz) = 2 bytes\n\
SHA1 (patch-zz) = p1\n\
SHA1 (patch-yy) = p2\n";
    assert_eq!(di.as_bytes(), expected.to_vec());
}

#[test]
fn equal_paths_with_different_spelling_share_an_entry() {
    /* PathBuf equality ignores a doubled separator: first spelling is kept */
    let input = b"\
SHA1 (sub//x.tgz) = h1\n\
SHA256 (sub/x.tgz) = h2\n\
Size (sub/x.tgz) = 5 bytes\n\
Size (dir/y.tgz) = 6 bytes\n\
MD5 (dir//y.tgz) = h3\n";
    let di = Distinfo::from_bytes(input);
    let d = di.distfiles();
    assert_eq!(d.len(), 2);
    assert_eq!(d[0].filename.as_os_str().as_bytes(), b"sub//x.tgz");
    assert_eq!(
        d[0].checksums,
        vec![ck(Digest::SHA1, "h1"), ck(Digest::SHA256, "h2")]
    );
    assert_eq!(d[0].size, Some(5));
    assert_eq!(d[1].filename.as_os_str().as_bytes(), b"dir/y.tgz");
    assert_eq!(d[1].checksums, vec![ck(Digest::MD5, "h3")]);
    assert_eq!(d[1].size, Some(6));
    let expected = b"$NetBSD$\n\n\
SHA1 (sub//x.tgz) = h1\n\
SHA256 (sub//x.tgz) = h2\n\
Size (sub//x.tgz) = 5 bytes\n\
MD5 (dir/y.tgz) = h3\n\
Size (dir/y.tgz) = 6 bytes\n";
    assert_eq!(di.as_bytes(), expected.to_vec());
}

/* Small deterministic generator for canonical files. */
struct Rng(u64);
impl Rng {
    fn next(&mut self) -> u64 {
        self.0 ^= self.0 << 13;
        self.0 ^= self.0 >> 7;
        self.0 ^= self.0 << 17;
        self.0
    }
    fn below(&mut self, n: u64) -> u64 {
        self.next() % n
    }
}

const DIGESTS: [Digest; 6] = [
    Digest::BLAKE2s,
    Digest::MD5,
    Digest::RMD160,
    Digest::SHA1,
    Digest::SHA256,
    Digest::SHA512,
];

fn gen_name(r: &mut Rng, idx: usize, patch: bool) -> Vec<u8> {
    const ODD: [&[u8]; 6] =
        [b"\xc3\xa0", b"\xc3\x85", b"\xe9", b"(", b")", b"="];
    let mut n = Vec::new();
    if patch {
        n.extend_from_slice(b"patch-");
    } else if r.below(3) == 0 {
        n.extend_from_slice(b"subdir");
        n.extend_from_slice(ODD[r.below(3) as usize]);
        n.push(b'/');
    }
    n.extend_from_slice(format!("f{idx}").as_bytes());
    for _ in 0..r.below(4) {
        n.extend_from_slice(ODD[r.below(ODD.len() as u64) as usize]);
        n.push(b'a' + r.below(26) as u8);
    }
    if !patch {
        n.extend_from_slice(b".tgz");
    }
    n
}

/* A subset of the six digests (possibly empty), in a shuffled order. */
fn gen_digests(r: &mut Rng, allow_empty: bool) -> Vec<Digest> {
    let mut all: Vec<Digest> = DIGESTS.to_vec();
    for i in (1..all.len()).rev() {
        all.swap(i, r.below(i as u64 + 1) as usize);
    }
    let lo: u64 = if allow_empty { 0 } else { 1 };
    let k = lo + r.below(7 - lo);
    all.truncate(k as usize);
    all
}

#[test]
fn generated_canonical_files_roundtrip_both_ways() {
    let mut r = Rng(0x9e3779b97f4a7c15);
    for _ in 0..300 {
        let mut text = RCSID.to_vec();
        text.extend_from_slice(b"\n\n");
        let mut built = Distinfo::new();
        built.set_rcsid(&OsStr::from_bytes(RCSID).to_os_string());
        let mut names: Vec<(Vec<u8>, Vec<Checksum>, Option<u64>)> = vec![];

        let ndist = r.below(4) as usize;
        let npatch = r.below(4) as usize;
        for i in 0..ndist + npatch {
            let patch = i >= ndist;
            let name = gen_name(&mut r, i, patch);
            let digests = gen_digests(&mut r, !patch);
            let mut sums = vec![];
            for d in digests {
                let h = format!("{:016x}", r.next());
                text.extend_from_slice(format!("{d} (").as_bytes());
                text.extend_from_slice(&name);
                text.extend_from_slice(format!(") = {h}\n").as_bytes());
                sums.push(Checksum::new(d, h));
            }
            /* a distfile without checksums must at least have a size */
            let size = if patch {
                None
            } else if sums.is_empty() || r.below(4) != 0 {
                Some(match r.below(3) {
                    0 => 0,
                    1 => u64::MAX,
                    _ => r.next(),
                })
            } else {
                None
            };
            if let Some(sz) = size {
                text.extend_from_slice(b"Size (");
                text.extend_from_slice(&name);
                text.extend_from_slice(format!(") = {sz} bytes\n").as_bytes());
            }
            let path = PathBuf::from(OsStr::from_bytes(&name));
            assert!(built.insert(Entry::new(
                &path,
                PathBuf::new(),
                sums.clone(),
                size
            )));
            names.push((name, sums, size));
        }

        /* parse -> write */
        let parsed = Distinfo::from_bytes(&text);
        assert_eq!(parsed.as_bytes(), text);
        /* API -> write gives the same bytes, and parses to the same data */
        assert_eq!(built.as_bytes(), text);
        let all: Vec<&Entry> = parsed
            .distfiles()
            .into_iter()
            .chain(parsed.patchfiles())
            .collect();
        assert_eq!(all.len(), names.len());
        for (e, (name, sums, size)) in all.iter().zip(names.iter()) {
            assert_eq!(e.filename.as_os_str().as_bytes(), &name[..]);
            assert_eq!(&e.checksums, sums);
            assert_eq!(&e.size, size);
        }
        assert_eq!(parsed.distfiles().len(), ndist);
        assert_eq!(parsed.patchfiles().len(), npatch);
        for (a, b) in parsed.distfiles().iter().zip(built.distfiles()) {
            assert_eq!(*a, b);
        }
        for (a, b) in parsed.patchfiles().iter().zip(built.patchfiles()) {
            assert_eq!(*a, b);
        }
    }
}
