use pkgsrc::PkgName;

fn check(name: &str, base: &str, version: &str, rev: Option<i64>) {
    let pkg = PkgName::new(name);
    assert_eq!(pkg.pkgname(), name, "pkgname of {name:?}");
    assert_eq!(pkg.pkgbase(), base, "pkgbase of {name:?}");
    assert_eq!(pkg.pkgversion(), version, "pkgversion of {name:?}");
    assert_eq!(pkg.pkgrevision(), rev, "pkgrevision of {name:?}");
    if name.contains('-') {
        assert_eq!(format!("{}-{}", pkg.pkgbase(), pkg.pkgversion()), name);
    } else {
        assert_eq!(pkg.pkgbase(), name);
        assert_eq!(pkg.pkgversion(), "");
    }
}

#[test]
fn pkgname_table() {
    check("", "", "", None);
    check("-", "", "", None);
    check("--", "-", "", None);
    check("---1", "--", "1", None);
    check("mktool", "mktool", "", None);
    check("mktool-", "mktool", "", None);
    check("-1.0", "", "1.0", None);
    check("-nb3", "", "nb3", Some(3));
    check("mktool-1.3.2", "mktool", "1.3.2", None);
    check("mktool-1.3.2nb2", "mktool", "1.3.2nb2", Some(2));
    check("mktool-1.3.2nb", "mktool", "1.3.2nb", Some(0));
    check("mktool-1.3-2", "mktool-1.3", "2", None);
    check("mktool-1nb3alpha2nb", "mktool", "1nb3alpha2nb", Some(0));
    check("mktool-1nb3alpha2nb9", "mktool", "1nb3alpha2nb9", Some(9));
    check("mktool-1nb3alpha2", "mktool", "1nb3alpha2", Some(0));
    check("1.0nb2", "1.0nb2", "", None);
    check("nbd-1.0", "nbd", "1.0", None);
    check("libnbcompat-20230904nb1", "libnbcompat", "20230904nb1", Some(1));
    check("foo-nb7-1.0", "foo-nb7", "1.0", None);
    check("foo-nb", "foo", "nb", Some(0));
    check("foo-nbnb", "foo", "nbnb", Some(0));
    check("foo-nnb5", "foo", "nnb5", Some(5));
    check("foo-nbnb5", "foo", "nbnb5", Some(5));
    check("foo-1.0nb007", "foo", "1.0nb007", Some(7));
    check("foo-1.0nb+5", "foo", "1.0nb+5", Some(5));
    check("foo-1.0nb 5", "foo", "1.0nb 5", Some(0));
    check("foo-1.0NB5", "foo", "1.0NB5", None);
    check("foo-1.0nb5a", "foo", "1.0nb5a", Some(0));
    check(
        "foo-1.0nb999999999999999999",
        "foo",
        "1.0nb999999999999999999",
        Some(999_999_999_999_999_999),
    );
    check(
        "foo-1.0nb9223372036854775807",
        "foo",
        "1.0nb9223372036854775807",
        Some(i64::MAX),
    );
    check(
        "foo-1.0nb9223372036854775808",
        "foo",
        "1.0nb9223372036854775808",
        Some(0),
    );
    check("caf\u{e9}-1.0nb2", "caf\u{e9}", "1.0nb2", Some(2));
    check("pkg-1.0\u{e9}nb4", "pkg", "1.0\u{e9}nb4", Some(4));
    check("pkg-1.0nb\u{e9}", "pkg", "1.0nb\u{e9}", Some(0));
    check("pkg-1.0nb\u{664}", "pkg", "1.0nb\u{664}", Some(0));
    check("\u{65e5}\u{672c}-\u{8a9e}", "\u{65e5}\u{672c}", "\u{8a9e}", None);
    check("a\u{2010}b", "a\u{2010}b", "", None);
    check("a b-c d", "a b", "c d", None);
    check("pkg-1.0\n", "pkg", "1.0\n", None);
}

/*
 * Compare against an independent formulation over a generated spread of
 * strings built from the interesting pieces.
 */
#[test]
fn pkgname_generated() {
    let pieces = ["", "-", "nb", "n", "b", "1", "0", "x", ".", "\u{e9}", "+"];
    let mut names: Vec<String> = vec![String::new()];
    for _ in 0..4 {
        let mut next = Vec::new();
        for n in &names {
            for p in pieces {
                next.push(format!("{n}{p}"));
            }
        }
        next.sort();
        next.dedup();
        names = next;
    }
    for name in &names {
        let (base, version) = match name.char_indices().rev().find(|(_, c)| *c == '-') {
            Some((i, _)) => (&name[..i], &name[i + 1..]),
            None => (name.as_str(), ""),
        };
        let rev = version.rmatch_indices("nb").next().map(|(i, _)| {
            let tail = &version[i + 2..];
            tail.parse::<i64>().unwrap_or(0)
        });
        check(name, base, version, rev);
    }
}
