/*
 * Behaviour-documenting tests for Summary::pkgbase()/pkgversion() and
 * PkgName::pkgrevision().  Uses only the public API; passes on the unmodified
 * and refactored code.
 */
use pkgsrc::summary::Summary;
use pkgsrc::PkgName;

fn split(name: &str) -> (Option<String>, Option<String>) {
    let mut sum = Summary::new();
    sum.set_pkgname(name);
    assert_eq!(sum.pkgname(), Some(name));
    (
        sum.pkgbase().map(String::from),
        sum.pkgversion().map(String::from),
    )
}

fn some(s: &str) -> Option<String> {
    Some(s.to_string())
}

#[test]
fn summary_unset() {
    let sum = Summary::new();
    assert_eq!(sum.pkgname(), None);
    assert_eq!(sum.pkgbase(), None);
    assert_eq!(sum.pkgversion(), None);
}

#[test]
fn summary_split() {
    assert_eq!(split(""), (None, None));
    assert_eq!(split("nodash"), (None, None));
    assert_eq!(split("-"), (None, None));
    assert_eq!(split("--"), (some("-"), None));
    assert_eq!(split("-1.0"), (None, some("1.0")));
    assert_eq!(split("test-pkg-"), (some("test-pkg"), None));
    assert_eq!(split("test-pkg-1.0"), (some("test-pkg"), some("1.0")));
    assert_eq!(split("a-b-c-1.0nb2"), (some("a-b-c"), some("1.0nb2")));
    assert_eq!(
        split("caf\u{e9}-\u{3b1}1nb3"),
        (some("caf\u{e9}"), some("\u{3b1}1nb3"))
    );
    assert_eq!(split("\u{1f600}-\u{1f600}"), (some("\u{1f600}"), some("\u{1f600}")));
    let long = format!("{}-{}", "b".repeat(100_000), "1".repeat(100_000));
    let (b, v) = split(&long);
    assert_eq!(b.unwrap().len(), 100_000);
    assert_eq!(v.unwrap().len(), 100_000);
}

#[test]
fn summary_agrees_with_pkgname() {
    /* For non-empty base and version both splitters agree. */
    for name in [
        "mktool-1.3.2nb2",
        "a-b-c-1.0",
        "nbtool-1nb3nb4",
        "caf\u{e9}-\u{3b1}1nb3",
        "x-y",
    ] {
        let p = PkgName::new(name);
        let (b, v) = split(name);
        assert_eq!(b.as_deref(), Some(p.pkgbase()), "{name:?}");
        assert_eq!(v.as_deref(), Some(p.pkgversion()), "{name:?}");
    }
}

#[test]
fn pkgname_revision() {
    let rev = |s: &str| PkgName::new(s).pkgrevision();
    assert_eq!(rev(""), None);
    assert_eq!(rev("pkg"), None);
    assert_eq!(rev("pkg-1.0"), None);
    assert_eq!(rev("1.0nb2"), None);
    assert_eq!(rev("nbtool-1.0"), None);
    assert_eq!(rev("pkg-1.0nb2"), Some(2));
    assert_eq!(rev("pkg-1.0nb"), Some(0));
    assert_eq!(rev("pkg-1.0nbx"), Some(0));
    assert_eq!(rev("pkg-1nb3alpha2nb"), Some(0));
    assert_eq!(rev("pkg-1nb3nb4"), Some(4));
    assert_eq!(rev("pkg-nb"), Some(0));
    assert_eq!(rev("pkg-1NB2"), None);
    assert_eq!(rev("pkg-1nb\u{e9}"), Some(0));
    assert_eq!(rev("pkg-1nb999999999999999999"), Some(999_999_999_999_999_999));
    assert_eq!(rev("pkg-1nb9223372036854775807"), Some(i64::MAX));
    assert_eq!(rev("pkg-1nb9223372036854775808"), Some(0));
    assert_eq!(rev("pkg-1nb+7"), Some(7));
}
