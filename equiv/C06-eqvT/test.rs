/*
 * Pattern::best_match: fixed expectations, a sweep over patterns and
 * candidate names checked against an oracle built from the public API
 * (Pattern::matches, PkgName, Dewey), and pairwise reductions of lists.
 */
use pkgsrc::{Dewey, Pattern, PkgName};

const PATTERNS: &[&str] = &[
    "pkg>1<3",
    "pkg>=1",
    "pkg<2.0nb1",
    "pkg-[0-9]*",
    "p*",
    "*",
    "{foo,bar}-[0-9]*",
    "{foo,pkg}>=1.0",
    "{pkg,pkg-[0-9]*}",
    "pkg-1.0",
    "foo-1.0",
];

const NAMES: &[&str] = &[
    "pkg-1",
    "pkg-1.0",
    "pkg-1.0.0",
    "pkg-1_0",
    "pkg-1.0nb0",
    "pkg-1.0nb1",
    "pkg-1.0nb10",
    "pkg-1.0nb2",
    "pkg-1.0alpha1",
    "pkg-1.0beta",
    "pkg-1.0rc1",
    "pkg-1.0RC1",
    "pkg-1.0pre1",
    "pkg-1.0pl1",
    "pkg-1.0a",
    "pkg-1.1",
    "pkg-1.10",
    "pkg-1.9",
    "pkg-2.0",
    "pkg-2.0nb1",
    "pkg-2.0nb2",
    "pkg-3.0",
    "pkg-20240101",
    "pkg-",
    "foo-1.0",
    "foo-1.1",
    "foo-0.9",
    "bar-1.0",
    "bar-1.0.0",
    "bar-1.1",
    "py-pkg-1.0",
    "pkg-extra-2.0",
    "baz-9.9",
];

/* Is the version of x strictly higher than the version of y? */
fn version_gt(x: &str, y: &str) -> bool {
    let nx = PkgName::new(x);
    let ny = PkgName::new(y);
    let pat = format!("{}>{}", nx.pkgbase(), ny.pkgversion());
    Dewey::new(&pat).unwrap().matches(x)
}

fn same_slice(a: &str, b: &str) -> bool {
    std::ptr::eq(a.as_ptr(), b.as_ptr()) && a.len() == b.len()
}

fn check_pair(m: &Pattern, a: &str, b: &str) {
    let ctx = format!("pattern {:?}, ({:?}, {:?})", m.pattern(), a, b);
    let r = m.best_match(a, b);
    let (ma, mb) = (m.matches(a), m.matches(b));
    match r {
        None => assert!(!ma && !mb, "{}", ctx),
        Some(w) => {
            assert!(ma || mb, "{}", ctx);
            assert!(same_slice(w, a) || same_slice(w, b), "{}", ctx);
            assert!(m.matches(w), "{}", ctx);
            if ma && mb {
                let l = if same_slice(w, a) { b } else { a };
                assert!(!version_gt(l, w), "{}", ctx);
                if !version_gt(w, l) {
                    assert!(w <= l, "{}", ctx);
                }
            } else if ma {
                assert!(same_slice(w, a), "{}", ctx);
            } else {
                assert!(same_slice(w, b), "{}", ctx);
            }
        }
    }
    /* Argument order does not matter. */
    assert_eq!(r, m.best_match(b, a), "{}", ctx);
}

#[test]
fn sweep_pairs_against_oracle() {
    for p in PATTERNS {
        let m = Pattern::new(p).unwrap();
        for a in NAMES {
            for b in NAMES {
                /* Separate allocations so the returned slice is identified. */
                let a = a.to_string();
                let b = b.to_string();
                check_pair(&m, &a, &b);
            }
        }
    }
}

#[test]
fn fixed_expectations() {
    let m = Pattern::new("pkg>1<3").unwrap();
    assert_eq!(m.best_match("pkg-1.1", "pkg-3.0"), Some("pkg-1.1"));
    assert_eq!(m.best_match("pkg-3.0", "pkg-1.1"), Some("pkg-1.1"));
    assert_eq!(m.best_match("pkg-1.1", "pkg-2.0"), Some("pkg-2.0"));
    assert_eq!(m.best_match("pkg-2.0", "pkg-1.1"), Some("pkg-2.0"));
    assert_eq!(m.best_match("pkg", "pkg-2.0"), Some("pkg-2.0"));
    assert_eq!(m.best_match("pkg-2.0", "pkg"), Some("pkg-2.0"));
    assert_eq!(m.best_match("pkg-1", "pkg-3.0"), None);
    assert_eq!(m.best_match("pkg-3.0", "pkg-1"), None);
    assert_eq!(m.best_match("pkg", "pkg"), None);
    assert_eq!(m.best_match("", ""), None);
    assert_eq!(m.best_match("pkg-2.0nb1", "pkg-2.0nb2"), Some("pkg-2.0nb2"));
    assert_eq!(m.best_match("pkg-2.0nb10", "pkg-2.0nb9"), Some("pkg-2.0nb10"));
    assert_eq!(m.best_match("pkg-2.0rc1", "pkg-2.0"), Some("pkg-2.0"));
    assert_eq!(m.best_match("pkg-2.0", "pkg-2.0pl1"), Some("pkg-2.0pl1"));
    assert_eq!(m.best_match("pkg-2.0alpha2", "pkg-2.0beta1"), Some("pkg-2.0beta1"));
    /* Ties: the byte-wise smaller name. */
    assert_eq!(m.best_match("pkg-2.0", "pkg-2"), Some("pkg-2"));
    assert_eq!(m.best_match("pkg-2", "pkg-2.0"), Some("pkg-2"));
    assert_eq!(m.best_match("pkg-2.0", "pkg-2.0nb0"), Some("pkg-2.0"));
    assert_eq!(m.best_match("pkg-2.0nb0", "pkg-2.0"), Some("pkg-2.0"));
    assert_eq!(m.best_match("pkg-2.0RC1", "pkg-2.0rc1"), Some("pkg-2.0RC1"));
    assert_eq!(m.best_match("pkg-2.0rc1", "pkg-2.0RC1"), Some("pkg-2.0RC1"));
    assert_eq!(m.best_match("pkg-2.0pre1", "pkg-2.0rc1"), Some("pkg-2.0pre1"));
    assert_eq!(m.best_match("pkg-2_0", "pkg-2.0"), Some("pkg-2.0"));

    let m = Pattern::new("{foo,bar}-[0-9]*").unwrap();
    assert_eq!(m.best_match("foo-1.1", "bar-1.0"), Some("foo-1.1"));
    assert_eq!(m.best_match("bar-1.0", "foo-1.1"), Some("foo-1.1"));
    assert_eq!(m.best_match("foo-1.0", "bar-1.1"), Some("bar-1.1"));
    assert_eq!(m.best_match("foo-1.0", "bar-1.0"), Some("bar-1.0"));
    assert_eq!(m.best_match("bar-1.0", "foo-1.0"), Some("bar-1.0"));
    assert_eq!(m.best_match("foo-1.0", "bar-1.0.0"), Some("bar-1.0.0"));
    assert_eq!(m.best_match("foo-1.0", "baz-2.0"), Some("foo-1.0"));
    assert_eq!(m.best_match("baz-2.0", "foo-1.0"), Some("foo-1.0"));
    assert_eq!(m.best_match("baz-2.0", "qux-1.0"), None);

    /* Names without a version part have the empty version. */
    let m = Pattern::new("zlib*").unwrap();
    assert_eq!(m.best_match("zlib", "zlib-0.9"), Some("zlib-0.9"));
    assert_eq!(m.best_match("zlib-0.9", "zlib"), Some("zlib-0.9"));
    assert_eq!(m.best_match("zlib2", "zlib1"), Some("zlib1"));
    assert_eq!(m.best_match("zlib1", "zlib2"), Some("zlib1"));
    assert_eq!(m.best_match("zlib", "zlib-0"), Some("zlib"));
    assert_eq!(m.best_match("zlib-0", "zlib"), Some("zlib"));

    /* Simple patterns. */
    let m = Pattern::new("foo-1.0").unwrap();
    assert_eq!(m.best_match("foo-1.0", "foo-1.0"), Some("foo-1.0"));
    assert_eq!(m.best_match("foo-1.0", "foo-1.1"), Some("foo-1.0"));
    assert_eq!(m.best_match("foo-1.1", "foo-1.0"), Some("foo-1.0"));
    assert_eq!(m.best_match("foo-1.1", "foo-1.2"), None);
}

#[test]
fn identical_strings_return_second_argument() {
    let m = Pattern::new("pkg>1<3").unwrap();
    let a = String::from("pkg-1.1");
    let b = String::from("pkg-1.1");
    let r = m.best_match(&a, &b).unwrap();
    assert_eq!(r, "pkg-1.1");
    assert!(same_slice(r, &b));
    let r = m.best_match(&b, &a).unwrap();
    assert!(same_slice(r, &a));
}

fn fold_left<'a>(m: &Pattern, list: &[&'a str]) -> Option<&'a str> {
    let mut acc: Option<&'a str> = None;
    for &c in list {
        acc = match acc {
            None => m.best_match(c, c),
            Some(a) => m.best_match(a, c),
        };
    }
    acc
}

fn fold_tree<'a>(m: &Pattern, list: &[&'a str]) -> Option<&'a str> {
    match list.len() {
        0 => None,
        1 => m.best_match(list[0], list[0]),
        n => {
            let (l, r) = list.split_at(n / 2);
            match (fold_tree(m, l), fold_tree(m, r)) {
                (Some(a), Some(b)) => m.best_match(a, b),
                (Some(a), None) => Some(a),
                (None, b) => b,
            }
        }
    }
}

#[test]
fn reductions_agree() {
    for p in PATTERNS {
        let m = Pattern::new(p).unwrap();
        let mut list: Vec<&str> = NAMES.to_vec();
        let expected = fold_left(&m, &list);
        for rot in 0..list.len() {
            list.rotate_left(1);
            assert_eq!(fold_left(&m, &list), expected, "{} rot {}", p, rot);
            assert_eq!(fold_tree(&m, &list), expected, "{} rot {}", p, rot);
            let mut rev = list.clone();
            rev.reverse();
            assert_eq!(fold_left(&m, &rev), expected, "{} rev {}", p, rot);
            assert_eq!(fold_tree(&m, &rev), expected, "{} rev {}", p, rot);
        }
    }
    let m = Pattern::new("pkg>=1<3").unwrap();
    assert_eq!(fold_left(&m, NAMES), Some("pkg-2.0nb2"));
    let m = Pattern::new("{foo,bar}-[0-9]*").unwrap();
    assert_eq!(fold_tree(&m, NAMES), Some("bar-1.1"));
}
