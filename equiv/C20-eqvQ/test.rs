/*
 * Behaviour-documenting tests for Metadata::is_valid, the MetadataEntry <->
 * file name mapping and PkgDB's package-directory filter.  Uses only the
 * public API; passes on the unmodified and refactored code.  All scratch
 * directories live under Cargo's per-target tmp directory.
 */
use pkgsrc::pkgdb::PkgDB;
use pkgsrc::{Metadata, MetadataEntry};
use std::fs;
use std::path::{Path, PathBuf};

const REQD: [&str; 3] = ["+COMMENT", "+CONTENTS", "+DESC"];

const ALL: [&str; 14] = [
    "+BUILD_INFO", "+BUILD_VERSION", "+COMMENT", "+CONTENTS", "+DEINSTALL",
    "+DESC", "+DISPLAY", "+INSTALL", "+INSTALLED_INFO", "+MTREE_DIRS",
    "+PRESERVE", "+REQUIRED_BY", "+SIZE_ALL", "+SIZE_PKG",
];

#[test]
fn is_valid_reports_first_missing_entry() {
    /* All eight combinations of the three mandatory entries. */
    for mask in 0..8u32 {
        let mut m = Metadata::new();
        if mask & 1 != 0 {
            m.read_metadata(MetadataEntry::Comment, "a comment\n").unwrap();
        }
        if mask & 2 != 0 {
            m.read_metadata(MetadataEntry::Contents, "@name x-1\n").unwrap();
        }
        if mask & 4 != 0 {
            m.read_metadata(MetadataEntry::Desc, "caf\u{e9}\n").unwrap();
        }
        let expect = if mask & 1 == 0 {
            Err("Missing or empty +COMMENT")
        } else if mask & 2 == 0 {
            Err("Missing or empty +CONTENTS")
        } else if mask & 4 == 0 {
            Err("Missing or empty +DESC")
        } else {
            Ok(())
        };
        assert_eq!(m.is_valid(), expect, "mask {mask}");
    }
}

#[test]
fn is_valid_empty_and_whitespace_values() {
    let mut m = Metadata::new();
    assert_eq!(m.is_valid(), Err("Missing or empty +COMMENT"));
    /* Whitespace-only values are trimmed to empty strings. */
    m.read_metadata(MetadataEntry::Comment, " \n\t").unwrap();
    assert_eq!(m.is_valid(), Err("Missing or empty +COMMENT"));
    m.read_metadata(MetadataEntry::Comment, "c").unwrap();
    m.read_metadata(MetadataEntry::Contents, "").unwrap();
    assert_eq!(m.is_valid(), Err("Missing or empty +CONTENTS"));
    m.read_metadata(MetadataEntry::Contents, "x").unwrap();
    m.read_metadata(MetadataEntry::Desc, "\n").unwrap();
    assert_eq!(m.is_valid(), Err("Missing or empty +DESC"));
    m.read_metadata(MetadataEntry::Desc, "d").unwrap();
    assert_eq!(m.is_valid(), Ok(()));
    /* Optional entries do not matter. */
    m.read_metadata(MetadataEntry::SizePkg, "12").unwrap();
    assert!(m.read_metadata(MetadataEntry::SizeAll, "x").is_err());
    assert_eq!(m.is_valid(), Ok(()));
}

#[test]
fn entry_filename_bijection() {
    for f in ALL {
        let e = MetadataEntry::from_filename(f).unwrap();
        assert_eq!(e.to_filename(), f);
    }
    for (i, a) in ALL.iter().enumerate() {
        for (j, b) in ALL.iter().enumerate() {
            let (ea, eb) = (
                MetadataEntry::from_filename(a).unwrap(),
                MetadataEntry::from_filename(b).unwrap(),
            );
            assert_eq!(ea == eb, i == j);
        }
    }
    for bad in ["", "+", "COMMENT", "+comment", "+COMMENT ", "+BADFILE",
                "+COMMENT\n", "+D\u{c9}SC"] {
        assert_eq!(MetadataEntry::from_filename(bad), None, "{bad:?}");
    }
}

fn scratch(name: &str) -> PathBuf {
    let dir = Path::new(env!("CARGO_TARGET_TMPDIR"))
        .join(format!("equiv_Q_{}_{}", std::process::id(), name));
    let _ = fs::remove_dir_all(&dir);
    fs::create_dir_all(&dir).unwrap();
    dir
}

fn names(db: &Path) -> Vec<String> {
    let mut v: Vec<String> = PkgDB::open(db)
        .unwrap()
        .map(|p| p.unwrap().pkgname().clone())
        .collect();
    v.sort();
    v
}

#[test]
fn pkgdir_filter() {
    let db = scratch("filter");
    /* Every subset of the mandatory files; only the full set is listed.
     * Mandatory "files" that are themselves directories
     * count as existing. */
    for mask in 0..8u32 {
        let dir = db.join(format!("sub{mask}-1.0nb{mask}"));
        fs::create_dir_all(&dir).unwrap();
        for i in 0..3 {
            if mask & (1 << i) != 0 {
                fs::write(dir.join(REQD[i]), "x").unwrap();
            }
        }
        fs::write(dir.join("+BUILD_INFO"), "x").unwrap();
    }
    let dir = db.join("dirs-as-files-2");
    for f in REQD {
        fs::create_dir_all(dir.join(f)).unwrap();
    }
    fs::create_dir_all(db.join("emptydir-1.0")).unwrap();
    fs::write(db.join("pkg-vulnerabilities"), "x").unwrap();
    fs::write(db.join("file-1.0"), "x").unwrap();
    assert_eq!(names(&db), vec!["dirs-as-files-2", "sub7-1.0nb7"]);

    #[cfg(unix)]
    {
        /* A dangling symlink for a mandatory file does not "exist". */
        let dir = db.join("dangling-1.0");
        fs::create_dir_all(&dir).unwrap();
        fs::write(dir.join("+COMMENT"), "x").unwrap();
        fs::write(dir.join("+CONTENTS"), "x").unwrap();
        std::os::unix::fs::symlink("nowhere", dir.join("+DESC")).unwrap();
        /* A symlink to a complete package directory is listed too. */
        std::os::unix::fs::symlink("sub7-1.0nb7", db.join("link-3.0")).unwrap();
        assert_eq!(
            names(&db),
            vec!["dirs-as-files-2", "link-3.0", "sub7-1.0nb7"]
        );
    }
    fs::remove_dir_all(&db).unwrap();
}

#[test]
fn iteration_ends_and_stays_ended() {
    let db = scratch("end");
    let dir = db.join("only-1.0");
    fs::create_dir_all(&dir).unwrap();
    for f in REQD {
        fs::write(dir.join(f), "x").unwrap();
    }
    let mut it = PkgDB::open(&db).unwrap();
    let first = it.next().unwrap().unwrap();
    assert_eq!(first.pkgname(), "only-1.0");
    assert_eq!(first.pkgbase(), "only");
    assert_eq!(first.pkgversion(), "1.0");
    assert!(it.next().is_none());
    assert!(it.next().is_none());
    fs::remove_dir_all(&db).unwrap();
}
