/*
 * Behaviour-documenting tests for file-backed PkgDB iteration.  Uses only the
 * public API; passes on the unmodified and refactored code.  All scratch
 * directories live under Cargo's per-target tmp directory.
 */
use pkgsrc::pkgdb::PkgDB;
use pkgsrc::MetadataEntry;
use std::fs;
use std::io;
use std::path::{Path, PathBuf};

const REQD: [&str; 3] = ["+COMMENT", "+CONTENTS", "+DESC"];

fn scratch(name: &str) -> PathBuf {
    let dir = Path::new(env!("CARGO_TARGET_TMPDIR"))
        .join(format!("equiv_P_{}_{}", std::process::id(), name));
    let _ = fs::remove_dir_all(&dir);
    fs::create_dir_all(&dir).unwrap();
    dir
}

/* Create package directory `name` containing `files`, each holding text
 * derived from the package and file name. */
fn mkpkg(db: &Path, name: &str, files: &[&str]) {
    let dir = db.join(name);
    fs::create_dir_all(&dir).unwrap();
    for f in files {
        fs::write(dir.join(f), format!("{name}:{f}\n")).unwrap();
    }
}

/* Sorted (pkgname, pkgbase, pkgversion) of everything the iterator yields. */
fn list(db: &Path) -> Vec<(String, String, String)> {
    let mut out = vec![];
    for pkg in PkgDB::open(db).unwrap() {
        let pkg = pkg.unwrap();
        out.push((
            pkg.pkgname().clone(),
            pkg.pkgbase().clone(),
            pkg.pkgversion().clone(),
        ));
    }
    out.sort();
    out
}

fn t(a: &str, b: &str, c: &str) -> (String, String, String) {
    (a.to_string(), b.to_string(), c.to_string())
}

#[test]
fn empty_database() {
    let db = scratch("empty");
    assert_eq!(list(&db), vec![]);
    fs::remove_dir_all(&db).unwrap();
}

#[test]
fn open_errors() {
    let db = scratch("open");
    let e = PkgDB::open(&db.join("does-not-exist")).unwrap_err();
    assert_eq!(e.kind(), io::ErrorKind::NotFound);
    /* A plain file is accepted as an (unimplemented) database: no items. */
    fs::write(db.join("pkgdb.sqlite"), "x").unwrap();
    assert_eq!(PkgDB::open(&db.join("pkgdb.sqlite")).unwrap().count(), 0);
    fs::remove_dir_all(&db).unwrap();
}

#[test]
fn complete_packages_listed_once_and_split() {
    let db = scratch("split");
    mkpkg(&db, "mktool-1.3.2nb2", &REQD);
    mkpkg(&db, "py312-foo-bar-2.0", &REQD);
    mkpkg(&db, "nodash", &REQD);
    mkpkg(&db, "trailing-", &REQD);
    mkpkg(&db, "-1.0", &REQD);
    mkpkg(&db, "caf\u{e9}-\u{3b1}1nb3", &REQD);
    mkpkg(
        &db,
        "full-1.0",
        &[
            "+BUILD_INFO", "+BUILD_VERSION", "+COMMENT", "+CONTENTS",
            "+DEINSTALL", "+DESC", "+DISPLAY", "+INSTALL", "+INSTALLED_INFO",
            "+MTREE_DIRS", "+PRESERVE", "+REQUIRED_BY", "+SIZE_ALL",
            "+SIZE_PKG",
        ],
    );
    assert_eq!(
        list(&db),
        vec![
            t("-1.0", "", "1.0"),
            t("caf\u{e9}-\u{3b1}1nb3", "caf\u{e9}", "\u{3b1}1nb3"),
            t("full-1.0", "full", "1.0"),
            t("mktool-1.3.2nb2", "mktool", "1.3.2nb2"),
            t("nodash", "nodash", ""),
            t("py312-foo-bar-2.0", "py312-foo-bar", "2.0"),
            t("trailing-", "trailing", ""),
        ]
    );
    fs::remove_dir_all(&db).unwrap();
}

#[test]
fn incomplete_directories_and_stray_files_skipped() {
    let db = scratch("skip");
    mkpkg(&db, "good-1.0", &REQD);
    /* Every proper subset of the three mandatory files. */
    for mask in 0..7u32 {
        let files: Vec<&str> = (0..3)
            .filter(|i| mask & (1 << i) != 0)
            .map(|i| REQD[i])
            .collect();
        mkpkg(&db, &format!("partial{mask}-1.0"), &files);
    }
    mkpkg(&db, "other-1.0", &["+BUILD_INFO", "+SIZE_PKG"]);
    fs::write(db.join("pkg-vulnerabilities"), "x").unwrap();
    fs::write(db.join("pkgdb.byfile.db"), "x").unwrap();
    fs::write(db.join("+COMMENT"), "x").unwrap();
    assert_eq!(list(&db), vec![t("good-1.0", "good", "1.0")]);
    fs::remove_dir_all(&db).unwrap();
}

#[test]
fn read_metadata_returns_that_packages_file() {
    let db = scratch("meta");
    mkpkg(&db, "a-1.0", &REQD);
    mkpkg(&db, "a-2.0", &["+COMMENT", "+CONTENTS", "+DESC", "+SIZE_PKG"]);
    let mut seen = 0;
    for pkg in PkgDB::open(&db).unwrap() {
        let pkg = pkg.unwrap();
        let name = pkg.pkgname().clone();
        for f in REQD {
            let e = MetadataEntry::from_filename(f).unwrap();
            assert_eq!(pkg.read_metadata(e).unwrap(), format!("{name}:{f}\n"));
        }
        let r = pkg.read_metadata(MetadataEntry::SizePkg);
        if name == "a-2.0" {
            assert_eq!(r.unwrap(), "a-2.0:+SIZE_PKG\n");
        } else {
            assert_eq!(r.unwrap_err().kind(), io::ErrorKind::NotFound);
        }
        seen += 1;
    }
    assert_eq!(seen, 2);
    fs::remove_dir_all(&db).unwrap();
}

#[cfg(unix)]
#[test]
fn non_utf8_directory_name_is_an_error_item() {
    use std::ffi::OsStr;
    use std::os::unix::ffi::OsStrExt;
    let db = scratch("nonutf8");
    let dir = db.join(OsStr::from_bytes(b"bad\xff-1.0"));
    fs::create_dir_all(&dir).unwrap();
    for f in REQD {
        fs::write(dir.join(f), "x").unwrap();
    }
    /* An incomplete non-UTF-8 directory is skipped silently. */
    fs::create_dir_all(db.join(OsStr::from_bytes(b"skip\xfe-1.0"))).unwrap();
    let items: Vec<_> = PkgDB::open(&db).unwrap().collect();
    assert_eq!(items.len(), 1);
    let e = items.into_iter().next().unwrap().unwrap_err();
    assert_eq!(e.kind(), io::ErrorKind::InvalidData);
    assert_eq!(e.to_string(), "Could not parse package directory");
    fs::remove_dir_all(&db).unwrap();
}
