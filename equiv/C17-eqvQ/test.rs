/*
 * Behaviour documentation for PkgName::new and Pattern::best_match.
 */
use pkgsrc::{Pattern, PkgName};

fn parts(s: &str) -> (String, String, Option<i64>) {
    let p = PkgName::new(s);
    assert_eq!(p.pkgname(), s);
    (p.pkgbase().to_string(), p.pkgversion().to_string(), p.pkgrevision())
}

fn t(b: &str, v: &str, r: Option<i64>) -> (String, String, Option<i64>) {
    (b.to_string(), v.to_string(), r)
}

#[test]
fn pkgname_split() {
    assert_eq!(parts("mktool-1.3.2nb2"), t("mktool", "1.3.2nb2", Some(2)));
    assert_eq!(parts("mktool-1.3.2nb"), t("mktool", "1.3.2nb", Some(0)));
    assert_eq!(parts("mktool-1.3-2"), t("mktool-1.3", "2", None));
    assert_eq!(parts("mktool"), t("mktool", "", None));
    assert_eq!(parts("1.0nb2"), t("1.0nb2", "", None));
    assert_eq!(parts(""), t("", "", None));
    assert_eq!(parts("-"), t("", "", None));
    assert_eq!(parts("--"), t("-", "", None));
    assert_eq!(parts("a-"), t("a", "", None));
    assert_eq!(parts("-1nb3"), t("", "1nb3", Some(3)));
    assert_eq!(parts("nb-nb"), t("nb", "nb", Some(0)));
    assert_eq!(parts("nb5-1"), t("nb5", "1", None));
}

#[test]
fn pkgname_revision_edge_cases() {
    /* Last "nb" wins. */
    assert_eq!(parts("p-1nb3alpha2nb"), t("p", "1nb3alpha2nb", Some(0)));
    assert_eq!(parts("p-1nb3nb7"), t("p", "1nb3nb7", Some(7)));
    /* Anything i64::from_str accepts, otherwise 0. */
    assert_eq!(parts("p-1nb+4"), t("p", "1nb+4", Some(4)));
    assert_eq!(parts("p-1nb007"), t("p", "1nb007", Some(7)));
    assert_eq!(parts("p-1nb2x"), t("p", "1nb2x", Some(0)));
    assert_eq!(parts("p-1nb 2"), t("p", "1nb 2", Some(0)));
    assert_eq!(parts("p-1NB2"), t("p", "1NB2", None));
    assert_eq!(
        parts("p-1nb9223372036854775807"),
        t("p", "1nb9223372036854775807", Some(i64::MAX))
    );
    assert_eq!(
        parts("p-1nb9223372036854775808"),
        t("p", "1nb9223372036854775808", Some(0))
    );
    assert_eq!(
        parts("p-1nb99999999999999999999"),
        t("p", "1nb99999999999999999999", Some(0))
    );
    /* A '-' after "nb" moves the split, so the sign is never seen. */
    assert_eq!(parts("p-1nb-4"), t("p-1nb", "4", None));
    /* Non-ASCII. */
    assert_eq!(parts("caf\u{e9}-1.0nb1"), t("caf\u{e9}", "1.0nb1", Some(1)));
    assert_eq!(parts("p-1nb\u{663}"), t("p", "1nb\u{663}", Some(0)));
    assert_eq!(parts("p\u{2603}"), t("p\u{2603}", "", None));
    /* Long input. */
    let long = format!("{}-{}nb12", "x".repeat(10000), "1.".repeat(10000));
    let p = PkgName::new(&long);
    assert_eq!(p.pkgbase().len(), 10000);
    assert_eq!(p.pkgrevision(), Some(12));
}

#[test]
fn best_match() {
    let p = Pattern::new("pkg>=1.0").unwrap();
    assert_eq!(p.best_match("pkg-1.0", "pkg-0.9"), Some("pkg-1.0"));
    assert_eq!(p.best_match("pkg-0.9", "pkg-1.0"), Some("pkg-1.0"));
    assert_eq!(p.best_match("pkg-0.9", "pkg-0.8"), None);
    assert_eq!(p.best_match("", ""), None);
    assert_eq!(p.best_match("pkg-1.1", "pkg-1.2"), Some("pkg-1.2"));
    assert_eq!(p.best_match("pkg-1.2", "pkg-1.1"), Some("pkg-1.2"));
    assert_eq!(p.best_match("pkg-1.2nb1", "pkg-1.2"), Some("pkg-1.2nb1"));
    assert_eq!(p.best_match("pkg-1.2", "pkg-1.2"), Some("pkg-1.2"));
    /* Tie on version: the lexicographically smaller string wins. */
    assert_eq!(p.best_match("pkg-1.2.0", "pkg-1.2"), Some("pkg-1.2"));
    assert_eq!(p.best_match("pkg-1.2", "pkg-1.2.0"), Some("pkg-1.2"));
    assert_eq!(p.best_match("pkg-1.2RC1", "pkg-1.2rc1"), Some("pkg-1.2RC1"));
    /* Saturating components tie as well. */
    assert_eq!(
        p.best_match("pkg-99999999999999999999", "pkg-99999999999999999998"),
        Some("pkg-99999999999999999998")
    );

    let g = Pattern::new("pkg-[0-9]*").unwrap();
    assert_eq!(g.best_match("pkg-1.0", "pkg-1.0nb1"), Some("pkg-1.0nb1"));
    assert_eq!(g.best_match("pkg-2", "pkg-10"), Some("pkg-10"));
    assert_eq!(g.best_match("pkg-1\u{e9}", "pkg-1"), Some("pkg-1"));
    assert_eq!(g.best_match("pkg-x", "pkg-1"), Some("pkg-1"));
    /* Glob matches across '-': versions are taken after the last '-'. */
    assert_eq!(g.best_match("pkg-1-5", "pkg-2-3"), Some("pkg-1-5"));

    let a = Pattern::new("{foo,bar}-[0-9]*").unwrap();
    assert_eq!(a.best_match("foo-1.0", "bar-2.0"), Some("bar-2.0"));
    assert_eq!(a.best_match("foo-2.0", "bar-2.0"), Some("bar-2.0"));
    assert_eq!(a.best_match("baz-2.0", "bar-2.0"), Some("bar-2.0"));

    let s = Pattern::new("foo-1.0").unwrap();
    assert_eq!(s.best_match("foo-1.0", "foo-1.0"), Some("foo-1.0"));
    assert_eq!(s.best_match("foo-1.0", "foo-1.1"), Some("foo-1.0"));
    assert_eq!(s.best_match("foo-1.1", "foo-1.2"), None);
}
