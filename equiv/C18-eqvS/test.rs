/*
 * Behaviour documentation for the C18 refactoring S: Summary::pkgbase(),
 * Summary::pkgversion() and Dewey::matches().
 */
use pkgsrc::summary::Summary;
use pkgsrc::{Dewey, PkgName};

fn split(name: &str) -> (Option<String>, Option<String>) {
    let mut sum = Summary::new();
    sum.set_pkgname(name);
    assert_eq!(sum.pkgname(), Some(name));
    (
        sum.pkgbase().map(|s| s.to_string()),
        sum.pkgversion().map(|s| s.to_string()),
    )
}

fn some(s: &str) -> Option<String> {
    Some(s.to_string())
}

#[test]
fn unset() {
    let sum = Summary::new();
    assert_eq!(sum.pkgbase(), None);
    assert_eq!(sum.pkgversion(), None);
}

#[test]
fn summary_split() {
    assert_eq!(split("test-pkg-1.0"), (some("test-pkg"), some("1.0")));
    assert_eq!(split("-1.0"), (None, some("1.0")));
    assert_eq!(split("test-pkg-"), (some("test-pkg"), None));
    assert_eq!(split("-"), (None, None));
    assert_eq!(split("--"), (some("-"), None));
    assert_eq!(split(""), (None, None));
    assert_eq!(split("nodash"), (None, None));
    assert_eq!(split("a-b-c-1nb2"), (some("a-b-c"), some("1nb2")));
    assert_eq!(split("caf\u{e9}-\u{3b1}1"), (some("caf\u{e9}"), some("\u{3b1}1")));
    assert_eq!(split("\u{1f600}-"), (some("\u{1f600}"), None));
    assert_eq!(split("-\u{1f600}"), (None, some("\u{1f600}")));
}

#[test]
fn summary_agrees_with_pkgname() {
    for name in [
        "mktool-1.3.2nb2",
        "p5-Foo-Bar-0.01nb12",
        "nbd-nb3-1.0",
        "x-1nb3alpha2nb",
        "caf\u{e9}-1.0",
    ] {
        let p = PkgName::new(name);
        let (b, v) = split(name);
        assert_eq!(b.as_deref(), Some(p.pkgbase()));
        assert_eq!(v.as_deref(), Some(p.pkgversion()));
    }
}

#[test]
fn dewey_matches() {
    let m = Dewey::new("p5-Foo>=1.0nb2<2").unwrap();
    assert!(m.matches("p5-Foo-1.0nb2"));
    assert!(m.matches("p5-Foo-1.9"));
    assert!(!m.matches("p5-Foo-2.0"));
    assert!(!m.matches("p5-Foo-1.0nb1"));
    /* No '-' at all: only one part, must not panic. */
    assert!(!m.matches("p5"));
    assert!(!m.matches(""));
    /* Wrong base. */
    assert!(!m.matches("p5-1.5"));
    assert!(!m.matches("p5-Foo-Bar-1.5"));
    assert!(!m.matches("P5-Foo-1.5"));
    /* Empty base / empty version. */
    assert!(!m.matches("-1.5"));
    assert!(!m.matches("p5-Foo-"));
    let m = Dewey::new(">=0").unwrap();
    assert!(m.matches("-1"));
    assert!(m.matches("-"));
    assert!(!m.matches("1"));
    assert!(!m.matches(""));
    let m = Dewey::new("caf\u{e9}>1").unwrap();
    assert!(m.matches("caf\u{e9}-2"));
    assert!(!m.matches("cafe-2"));
    assert!(!m.matches("caf\u{e9}"));
}
