/*
 * Behaviour documentation for Digest::hash_str / Digest::hash_file (standard
 * test vectors, agreement of the two entry points under any read schedule,
 * error propagation) and for Digest name parsing / printing.
 */
use pkgsrc::digest::{Digest, DigestError};
use std::io::{self, Read};
use std::str::FromStr;

const ALL: [Digest; 6] = [
    Digest::BLAKE2s,
    Digest::MD5,
    Digest::RMD160,
    Digest::SHA1,
    Digest::SHA256,
    Digest::SHA512,
];

/* (digest, hash of "", hash of "abc") */
const VECTORS: [(Digest, &str, &str); 6] = [
    (
        Digest::BLAKE2s,
        "69217a3079908094e11121d042354a7c1f55b6482ca1a51e1b250dfd1ed0eef9",
        "508c5e8c327c14e2e1a72ba34eeb452f37458b209ed63a294d999b4c86675982",
    ),
    (
        Digest::MD5,
        "d41d8cd98f00b204e9800998ecf8427e",
        "900150983cd24fb0d6963f7d28e17f72",
    ),
    (
        Digest::RMD160,
        "9c1185a5c5e9fc54612808977ee8f548b2258d31",
        "8eb208f7e05d987a9b044a8e98c6b087f15a0bfc",
    ),
    (
        Digest::SHA1,
        "da39a3ee5e6b4b0d3255bfef95601890afd80709",
        "a9993e364706816aba3e25717850c26c9cd0d89d",
    ),
    (
        Digest::SHA256,
        "e3b0c44298fc1c149afbf4c8996fb92427ae41e4649b934ca495991b7852b855",
        "ba7816bf8f01cfea414140de5dae2223b00361a396177a9cb410ff61f20015ad",
    ),
    (
        Digest::SHA512,
        "cf83e1357eefb8bdf1542850d66d8007d620e4050b5715dc83f4a921d36ce9ce47d0d13c5d85f2b0ff8318d2877eec2f63b931bd47417a81a538327af927da3e",
        "ddaf35a193617abacc417349ae20413112e6fa4e89a97ea20a9eeee64b55d39a2192992a274fc1a836ba3c23a3feebbd454d4423643ce80e2a9ac94fa54ca49f",
    ),
];

struct Sched<'a> {
    data: &'a [u8],
    pos: usize,
    step: usize,
    eintr: bool,
    flip: bool,
    fail_at: Option<usize>,
}

impl<'a> Read for Sched<'a> {
    fn read(&mut self, buf: &mut [u8]) -> io::Result<usize> {
        if self.eintr {
            self.flip = !self.flip;
            if self.flip {
                return Err(io::Error::new(io::ErrorKind::Interrupted, "eintr"));
            }
        }
        if let Some(at) = self.fail_at {
            if self.pos >= at {
                return Err(io::Error::new(io::ErrorKind::Other, "boom"));
            }
        }
        let mut n = self.step.min(buf.len()).min(self.data.len() - self.pos);
        if let Some(at) = self.fail_at {
            n = n.min(at - self.pos);
        }
        buf[..n].copy_from_slice(&self.data[self.pos..self.pos + n]);
        self.pos += n;
        Ok(n)
    }
}

#[test]
fn standard_vectors() {
    for (d, empty, abc) in VECTORS {
        assert_eq!(d.hash_str("").unwrap(), empty);
        assert_eq!(d.hash_str("abc").unwrap(), abc);
        assert_eq!(d.hash_file(&mut &b""[..]).unwrap(), empty);
        assert_eq!(d.hash_file(&mut &b"abc"[..]).unwrap(), abc);
        /* Reusable: same answer a second time. */
        assert_eq!(d.hash_str("abc").unwrap(), abc);
    }
}

#[test]
fn str_and_reader_agree_for_any_schedule() {
    for len in [0usize, 1, 55, 56, 63, 64, 65, 119, 128, 129, 5000] {
        let text: String = (0..len)
            .map(|i| char::from(b'a' + (i % 23) as u8))
            .collect();
        for d in ALL {
            let want = d.hash_str(&text).unwrap();
            assert_eq!(want.len() % 2, 0);
            assert!(want
                .bytes()
                .all(|b| b.is_ascii_digit() || (b'a'..=b'f').contains(&b)));
            for step in [1usize, 13, 64, 100000] {
                for eintr in [false, true] {
                    let mut r = Sched {
                        data: text.as_bytes(),
                        pos: 0,
                        step,
                        eintr,
                        flip: false,
                        fail_at: None,
                    };
                    assert_eq!(d.hash_file(&mut r).unwrap(), want);
                }
            }
        }
    }
    /* Non-ASCII text is hashed as its UTF-8 bytes. */
    let s = "caf\u{e9} \u{2603}\n";
    for d in ALL {
        assert_eq!(
            d.hash_str(s).unwrap(),
            d.hash_file(&mut s.as_bytes()).unwrap()
        );
    }
}

#[test]
fn read_error_is_returned() {
    let data = vec![b'x'; 300];
    for d in ALL {
        for at in [0usize, 1, 64, 299] {
            let mut r = Sched {
                data: &data,
                pos: 0,
                step: 50,
                eintr: true,
                flip: false,
                fail_at: Some(at),
            };
            match d.hash_file(&mut r) {
                Err(DigestError::Io(e)) => {
                    assert_eq!(e.kind(), io::ErrorKind::Other)
                }
                other => panic!("expected I/O error, got {:?}", other),
            }
        }
    }
}

#[test]
fn names_parse_and_print() {
    let canon = ["BLAKE2s", "MD5", "RMD160", "SHA1", "SHA256", "SHA512"];
    for (d, name) in ALL.iter().zip(canon) {
        assert_eq!(d.to_string(), name);
        assert_eq!(Digest::from_str(name), Ok(*d));
        assert_eq!(Digest::from_str(&name.to_lowercase()), Ok(*d));
        assert_eq!(Digest::from_str(&name.to_uppercase()), Ok(*d));
    }
    assert_eq!(Digest::from_str("bLaKe2S"), Ok(Digest::BLAKE2s));
    /* U+212A KELVIN SIGN lower-cases to 'k'. */
    assert_eq!(Digest::from_str("BLA\u{212A}E2s"), Ok(Digest::BLAKE2s));
    for bad in ["", " ", "SHA1 ", " SHA1", "SHA-1", "sha384", "md5\n", "\u{130}"] {
        assert_eq!(
            Digest::from_str(bad),
            Err(DigestError::Unsupported(bad.to_string()))
        );
    }
}
