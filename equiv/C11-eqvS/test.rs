/*
 * Equivalence test: documents that distinfo parsing behaves the same
 * before and after the refactoring.  Public API only.
 */
use pkgsrc::digest::Digest;
use pkgsrc::distinfo::{Checksum, Distinfo, Entry, EntryType};
use std::ffi::{OsStr, OsString};
use std::os::unix::ffi::OsStrExt;
use std::path::{Path, PathBuf};

fn ck(d: Digest, h: &str) -> Checksum {
    Checksum::new(d, h.to_string())
}

fn names(v: Vec<&Entry>) -> Vec<PathBuf> {
    v.iter().map(|e| e.filename.clone()).collect()
}

#[test]
fn interleaved_lines_land_on_their_files() {
    let text = b"$NetBSD: distinfo,v 1.80 2024/05/27 23:27:10 riastradh Exp $\n\
\n\
BLAKE2s (b-1.0.tar.gz) = b2b\n\
SHA512 (a-1.0.tar.gz) = s5a\n\
# SHA512 (commented.tar.gz) = nope\n\
SHA1 (patch-aa) = p1\n\
   \t Size \t (a-1.0.tar.gz)  =\t 10 bytes\n\
\n\
Size (b-1.0.tar.gz) = 20 bytes\n\
CRC32 (a-1.0.tar.gz) = unknownalgo\n\
Size (a-1.0.tar.gz) = ten bytes\n\
Size (c.tar.gz) = -1 bytes\n\
Size (c.tar.gz) = 18446744073709551616 bytes\n\
garbage line here\n\
SHA512 a-1.0.tar.gz = noparens\n\
SHA512 (a-1.0.tar.gz) : colon\n\
SHA512 (a-1.0.tar.gz) =\n\
SHA512 (a-1.0.tar.gz)\n\
SHA512\n\
sha512 (b-1.0.tar.gz) = s5b\n\
BLAKE2s (a-1.0.tar.gz) = b2a trailing junk ignored\n\
RMD160 (sub/dir/d.tgz) = r\n\
MD5 (emul-linux-patch-x) = m\n\
SHA256 (patch-aa) = p2\n\
Size (patch-aa) = 5 bytes";
    let di = Distinfo::from_bytes(text);
    assert_eq!(
        di.rcsid(),
        Some(&OsString::from(
            "$NetBSD: distinfo,v 1.80 2024/05/27 23:27:10 riastradh Exp $"
        ))
    );
    assert_eq!(
        names(di.distfiles()),
        [
            PathBuf::from("b-1.0.tar.gz"),
            PathBuf::from("a-1.0.tar.gz"),
            PathBuf::from("sub/dir/d.tgz")
        ]
    );
    assert_eq!(
        names(di.patchfiles()),
        [PathBuf::from("patch-aa"), PathBuf::from("emul-linux-patch-x")]
    );
    let a = di.get_distfile("a-1.0.tar.gz").unwrap();
    assert_eq!(a.size, Some(10));
    assert_eq!(a.checksums, [ck(Digest::SHA512, "s5a"), ck(Digest::BLAKE2s, "b2a")]);
    assert_eq!(a.filetype, EntryType::Distfile);
    assert_eq!(a.filepath, PathBuf::new());
    let b = di.get_distfile("b-1.0.tar.gz").unwrap();
    assert_eq!(b.size, Some(20));
    assert_eq!(b.checksums, [ck(Digest::BLAKE2s, "b2b"), ck(Digest::SHA512, "s5b")]);
    let d = di.get_distfile("sub/dir/d.tgz").unwrap();
    assert_eq!(d.size, None);
    assert_eq!(d.checksums, [ck(Digest::RMD160, "r")]);
    assert!(di.get_distfile("c.tar.gz").is_none());
    assert!(di.get_distfile("commented.tar.gz").is_none());
    assert!(di.get_distfile("patch-aa").is_none());
    assert!(di.get_patchfile("a-1.0.tar.gz").is_none());
    let p = di.get_patchfile("patch-aa").unwrap();
    assert_eq!(p.filetype, EntryType::Patchfile);
    assert_eq!(p.size, Some(5));
    assert_eq!(p.checksums, [ck(Digest::SHA1, "p1"), ck(Digest::SHA256, "p2")]);
    let e = di.get_patchfile("emul-linux-patch-x").unwrap();
    assert_eq!(e.checksums, [ck(Digest::MD5, "m")]);
    /* find_entry goes to the right map as well. */
    assert_eq!(di.find_entry("/x/y/sub/dir/d.tgz").unwrap().filename, Path::new("sub/dir/d.tgz"));
    assert_eq!(di.find_entry("patches/patch-aa").unwrap().filename, Path::new("patch-aa"));
    assert!(di.find_entry("nothing").is_err());
    /* Re-serialising gives the canonical order. */
    let out = di.as_bytes();
    let again = Distinfo::from_bytes(&out);
    assert_eq!(again.as_bytes(), out);
    assert_eq!(names(again.distfiles()), names(di.distfiles()));
    assert_eq!(names(again.patchfiles()), names(di.patchfiles()));
}

#[test]
fn patch_classification() {
    let cases: [(&str, bool); 16] = [
        ("patch-aa", true),
        ("patch-src_main.c", true),
        ("patch-", true),
        ("emul-linux-patch-1", true),
        ("emul--patch-", true),
        ("patch-local-foo", false),
        ("patch-aa.orig", false),
        ("patch-aa.rej", false),
        ("patch-aa~", false),
        ("patch-2.7.6.tar.xz", false),
        ("emul-x-patch-y.tar.gz", false),
        ("foo.patch-1", false),
        ("emul-patch-1", false),
        ("Patch-aa", false),
        ("patch", false),
        ("xemul-a-patch-b", false),
    ];
    for (name, is_patch) in cases.iter() {
        let line = format!("SHA1 ({}) = h\nSize ({}) = 3 bytes\n", name, name);
        let di = Distinfo::from_bytes(line.as_bytes());
        let (hit, miss) = if *is_patch {
            (di.get_patchfile(name), di.get_distfile(name))
        } else {
            (di.get_distfile(name), di.get_patchfile(name))
        };
        let e = hit.unwrap_or_else(|| panic!("{} in wrong map", name));
        assert!(miss.is_none(), "{}", name);
        assert_eq!(e.checksums, [ck(Digest::SHA1, "h")]);
        assert_eq!(e.size, Some(3));
        assert_eq!(EntryType::from(name) == EntryType::Patchfile, *is_patch, "{}", name);
        assert_eq!(di.distfiles().len() + di.patchfiles().len(), 1);
    }
    /* Only the last path component decides. */
    assert_eq!(EntryType::from("patch-dir/foo.tgz"), EntryType::Distfile);
    assert_eq!(EntryType::from("dir/patch-aa"), EntryType::Patchfile);
    assert_eq!(EntryType::from(".."), EntryType::Distfile);
    assert_eq!(EntryType::from(""), EntryType::Distfile);
}

#[test]
fn arbitrary_name_bytes_are_kept() {
    let raw_names: [&[u8]; 8] = [
        b"caf\xc3\xa9.tar.gz",
        b"latin1-\xe9.tgz",
        b"nel-\x85-x.tgz",
        b"nbsp-\xa0-x.tgz",
        b"\xff\xfe",
        b"a(b)c",
        b")(",
        b"=",
    ];
    let mut text: Vec<u8> = Vec::new();
    for n in raw_names.iter() {
        text.extend_from_slice(b"SHA256 (");
        text.extend_from_slice(n);
        text.extend_from_slice(b") = abc\n");
        text.extend_from_slice(b"Size (");
        text.extend_from_slice(n);
        text.extend_from_slice(b") = 7 bytes\n");
    }
    let di = Distinfo::from_bytes(&text);
    let want: Vec<PathBuf> = raw_names
        .iter()
        .map(|n| PathBuf::from(OsStr::from_bytes(n)))
        .collect();
    assert_eq!(names(di.distfiles()), want);
    assert_eq!(di.patchfiles().len(), 0);
    for n in want.iter() {
        let e = di.get_distfile(n).unwrap();
        assert_eq!(e.size, Some(7));
        assert_eq!(e.checksums, [ck(Digest::SHA256, "abc")]);
    }
}

#[test]
fn ignored_lines_and_edge_cases() {
    for text in [
        &b""[..],
        b"\n\n\n",
        b"   \t  ",
        b"#",
        b"# Size (a) = 1 bytes",
        b"$NetBSD$",
        b"Size",
        b"Size (a)",
        b"Size (a) =",
        b"Size (a) = x",
        b"Size (a = 1",
        b"Size a) = 1",
        b"Size ( = 1",
        b"Size (a) == 1",
        b"Size(a) = 1",
        b"size (a) = 1",
        b"SHA3 (a) = 1",
        b"SHA1 (a) = \xff",
        b"SH\xc1 (a) = 1",
        b"= (a) = 1",
        b"Size (a) = +",
    ] {
        let di = Distinfo::from_bytes(text);
        assert_eq!(di.distfiles().len(), 0, "{:?}", String::from_utf8_lossy(text));
        assert_eq!(di.patchfiles().len(), 0);
        assert!(di.rcsid().is_none());
    }
    /* Accepted oddities. */
    let di = Distinfo::from_bytes(b"Size (a) = +5\rSHA1\x0b(a)\x0c=\rh\n  $NetBSD: x $  \nSize () = 0\nSize (a) = 6 bytes");
    assert_eq!(names(di.distfiles()), [PathBuf::from("a"), PathBuf::from("")]);
    assert_eq!(di.get_distfile("a").unwrap().size, Some(6));
    assert_eq!(di.get_distfile("").unwrap().size, Some(0));
    assert_eq!(di.rcsid(), Some(&OsString::from("$NetBSD: x $  ")));
    /* A long line and many repeated lines. */
    let long = "f".repeat(50_000);
    let mut text = format!("SHA512 ({}) = {}\n", long, long);
    for i in 0..200 {
        text.push_str(&format!("MD5 (f{}) = {}\n", i % 7, i));
    }
    let di = Distinfo::from_bytes(text.as_bytes());
    assert_eq!(di.distfiles().len(), 8);
    assert_eq!(di.get_distfile(&long).unwrap().checksums, [ck(Digest::SHA512, &long)]);
    let f3: Vec<String> = di.get_distfile("f3").unwrap().checksums.iter().map(|c| c.hash.clone()).collect();
    assert_eq!(f3[..3], ["3", "10", "17"]);
    assert_eq!(f3.len(), 29);
}
