/*
 * Exercise the version comparison (common prefix, zero padding of the
 * shorter version on either side, PKGREVISION as the last resort) for every
 * pair of a list of versions and every operator, against an independent
 * model of the dewey rule, through Pattern, Dewey and best_match.
 */
use pkgsrc::{Dewey, Pattern};

/* Independent tokeniser: (components, revision). */
fn model(v: &str) -> (Vec<i64>, i64) {
    let b: Vec<char> = v.chars().map(|c| c.to_ascii_lowercase()).collect();
    let mut out = vec![];
    let mut rev = 0i64;
    let mut i = 0;
    let at = |i: usize, w: &str| -> bool {
        let w: Vec<char> = w.chars().collect();
        i + w.len() <= b.len() && b[i..i + w.len()] == w[..]
    };
    while i < b.len() {
        let c = b[i];
        if c.is_ascii_digit() {
            let mut n = 0i64;
            while i < b.len() && b[i].is_ascii_digit() {
                n = n * 10 + (b[i] as i64 - '0' as i64);
                i += 1;
            }
            out.push(n);
        } else if c == '.' || c == '_' {
            out.push(0);
            i += 1;
        } else if at(i, "nb") {
            i += 2;
            let mut n = 0i64;
            while i < b.len() && b[i].is_ascii_digit() {
                n = n * 10 + (b[i] as i64 - '0' as i64);
                i += 1;
            }
            rev = n;
        } else if at(i, "alpha") {
            out.push(-3);
            i += 5;
        } else if at(i, "beta") {
            out.push(-2);
            i += 4;
        } else if at(i, "rc") {
            out.push(-1);
            i += 2;
        } else if at(i, "pre") {
            out.push(-1);
            i += 3;
        } else if at(i, "pl") {
            out.push(0);
            i += 2;
        } else if c.is_ascii_alphabetic() {
            out.push(0);
            out.push(c as i64);
            i += 1;
        } else {
            i += 1;
        }
    }
    (out, rev)
}

/* -1, 0, 1 */
fn model_cmp(a: &str, b: &str) -> i32 {
    let (va, ra) = model(a);
    let (vb, rb) = model(b);
    let n = va.len().max(vb.len());
    for i in 0..n {
        let x = va.get(i).copied().unwrap_or(0);
        let y = vb.get(i).copied().unwrap_or(0);
        if x != y {
            return if x < y { -1 } else { 1 };
        }
    }
    if ra < rb {
        -1
    } else if ra > rb {
        1
    } else {
        0
    }
}

const VERSIONS: &[&str] = &[
    "",
    "0",
    "0.0",
    "0nb1",
    "1",
    "1.",
    "1.0",
    "1.0.0",
    "1.0.0.0",
    "1_0",
    "1pl",
    "1pl0",
    "1.0pl1",
    "1nb1",
    "1nb2",
    "1.0nb1",
    "1.0.0nb2",
    "1.0.0.0nb1",
    "1alpha",
    "1.0alpha",
    "1.0.0alpha",
    "1.0alpha1",
    "1.0alpha1nb3",
    "1.0beta",
    "1.0beta2",
    "1.0rc",
    "1.0rc1",
    "1.0pre1",
    "1.0.0rc1nb1",
    "1.0.0.0.0.1",
    "1.0.0.0.0alpha",
    "1.0.1",
    "1.1",
    "1.1a",
    "1.1b2",
    "1.1.0a",
    "1a",
    "1.0a",
    "1.0.0.0.0",
    "1.0.0.0.0nb7",
    "1.0.0.0.0.0rc",
    "2",
    "2.0",
    "2.0beta4nb7",
    "2.0nb8",
    "10",
    "10.0.0",
    "1.0RC1",
    "1.0ALPHA",
    "1-0",
    "1.0.0.0.0.0.0.0.0.0.5",
    "1.0.0.0.0.0.0.0.0.0.alpha",
];

const OPS: &[&str] = &[">", ">=", "<", "<="];

fn expect(op: &str, c: i32) -> bool {
    match op {
        ">" => c > 0,
        ">=" => c >= 0,
        "<" => c < 0,
        "<=" => c <= 0,
        _ => unreachable!(),
    }
}

#[test]
fn all_pairs_all_operators() {
    for bound in VERSIONS {
        for op in OPS {
            let pat = format!("pkg{}{}", op, bound);
            let p = Pattern::new(&pat).unwrap();
            let d = Dewey::new(&pat).unwrap();
            for v in VERSIONS {
                /* a '-' is only usable in a bound ('-' splits a PKGNAME) */
                if v.contains('-') {
                    continue;
                }
                let pkg = format!("pkg-{}", v);
                let want = expect(op, model_cmp(v, bound));
                assert_eq!(p.matches(&pkg), want, "{} vs {}", pat, pkg);
                assert_eq!(d.matches(&pkg), want, "{} vs {}", pat, pkg);
            }
        }
    }
}

#[test]
fn ranges() {
    for lo in VERSIONS {
        for hi in VERSIONS {
            let pat = format!("pkg>={}<{}", lo, hi);
            let p = Pattern::new(&pat).unwrap();
            for v in VERSIONS {
                if v.contains('-') {
                    continue;
                }
                let pkg = format!("pkg-{}", v);
                let want = model_cmp(v, lo) >= 0 && model_cmp(v, hi) < 0;
                assert_eq!(p.matches(&pkg), want, "{} vs {}", pat, pkg);
            }
        }
    }
}

#[test]
fn best_match_all_pairs() {
    let p = Pattern::new("pkg>=0").unwrap();
    for a in VERSIONS {
        for b in VERSIONS {
            if a.contains('-') || b.contains('-') {
                continue;
            }
            let pa = format!("pkg-{}", a);
            let pb = format!("pkg-{}", b);
            let c = model_cmp(a, b);
            let want = if c > 0 {
                pa.as_str()
            } else if c < 0 {
                pb.as_str()
            } else if pa < pb {
                pa.as_str()
            } else {
                pb.as_str()
            };
            assert_eq!(p.best_match(&pa, &pb), Some(want), "{} {}", pa, pb);
        }
    }
}
