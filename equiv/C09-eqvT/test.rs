use pkgsrc::summary::SummaryStream;
use std::io::{ErrorKind, Write};

fn entry(name: &str, comment: &str) -> String {
    format!(
        "BUILD_DATE=2019-08-12 15:58:02 +0100\n\
         CATEGORIES=devel pkgtools\n\
         COMMENT={comment}\n\
         DESCRIPTION=A test description\n\
         DESCRIPTION=\n\
         DESCRIPTION=Second paragraph\n\
         MACHINE_ARCH=x86_64\n\
         OPSYS=Darwin\n\
         OS_VERSION=18.7.0\n\
         PKGNAME={name}\n\
         PKGPATH=pkgtools/testpkg\n\
         PKGTOOLS_VERSION=20091115\n\
         SIZE_PKG=4321\n\n"
    )
}

/* An entry lacking the mandatory SIZE_PKG. */
fn bad_entry() -> String {
    "BUILD_DATE=2019-08-12 15:58:02 +0100\n\
     CATEGORIES=devel\n\
     COMMENT=incomplete\n\
     DESCRIPTION=no size\n\
     MACHINE_ARCH=x86_64\n\
     OPSYS=Darwin\n\
     OS_VERSION=18.7.0\n\
     PKGNAME=broken-0.1\n\
     PKGPATH=devel/broken\n\
     PKGTOOLS_VERSION=20091115\n\n"
        .to_string()
}

fn good_entries() -> Vec<String> {
    vec![
        entry("alpha-1.0", "first"),
        entry("beta-2.0nb1", "zweite \u{00e4}\u{00f6}\u{00fc} \u{20ac}"),
        entry("gamma-3", "third \u{1f600} end"),
    ]
}

fn rendered(s: &SummaryStream) -> Vec<String> {
    s.entries().iter().map(|e| format!("{}\n", e)).collect()
}

/*
 * Feed the chunks, recording the outcome of every write (all of them, also
 * after a failure) and the number of entries after each write.
 */
fn trace(bytes: &[u8], cuts: &[usize]) -> (SummaryStream, Vec<(Result<usize, ErrorKind>, usize)>) {
    let mut s = SummaryStream::new();
    let mut prev = 0;
    let mut out = vec![];
    let mut bounds: Vec<usize> = cuts.to_vec();
    bounds.push(bytes.len());
    for b in bounds {
        let r = s.write(&bytes[prev..b]).map_err(|e| e.kind());
        out.push((r, s.entries().len()));
        prev = b;
    }
    s.flush().unwrap();
    (s, out)
}

fn check_good(bytes: &[u8], es: &[String], cuts: &[usize]) {
    let (s, tr) = trace(bytes, cuts);
    let mut prev = 0;
    let mut bounds: Vec<usize> = cuts.to_vec();
    bounds.push(bytes.len());
    for (i, b) in bounds.iter().enumerate() {
        assert_eq!(tr[i].0, Ok(b - prev), "cuts {:?}", cuts);
        /* after each write exactly the records completed so far are there */
        let mut done = 0;
        let mut off = 0;
        for e in es {
            off += e.len();
            if off <= *b {
                done += 1;
            }
        }
        assert_eq!(tr[i].1, done, "cuts {:?} write {}", cuts, i);
        prev = *b;
    }
    assert_eq!(rendered(&s), es.to_vec(), "cuts {:?}", cuts);
    assert_eq!(format!("{}", s).as_bytes(), bytes, "cuts {:?}", cuts);
}

#[test]
fn good_single_and_pair_cuts() {
    let es = good_entries();
    let all = es.concat();
    let bytes = all.as_bytes();
    check_good(bytes, &es, &[]);
    for c in 0..=bytes.len() {
        check_good(bytes, &es, &[c]);
    }
    /* pairs of cuts around the interesting places: separators, multi-byte */
    let mut hot: Vec<usize> = vec![0, 1, bytes.len() - 1, bytes.len()];
    for (i, b) in bytes.iter().enumerate() {
        if *b >= 0x80 || (*b == b'\n' && i + 1 < bytes.len() && bytes[i + 1] == b'\n') {
            for d in 0..4 {
                if i + d <= bytes.len() {
                    hot.push(i + d);
                }
            }
            if i > 0 {
                hot.push(i - 1);
            }
        }
    }
    hot.sort();
    hot.dedup();
    for (i, a) in hot.iter().enumerate() {
        for b in &hot[i..] {
            check_good(bytes, &es, &[*a, *b]);
        }
    }
}

#[test]
fn good_fixed_chunks_and_bytewise() {
    let es = good_entries();
    let all = es.concat();
    let bytes = all.as_bytes();
    for sz in 1..=64usize {
        let cuts: Vec<usize> = (1..bytes.len()).filter(|i| i % sz == 0).collect();
        check_good(bytes, &es, &cuts);
    }
    for sz in [100usize, 255, 256, 257, 500, 1000] {
        let cuts: Vec<usize> = (1..bytes.len()).filter(|i| i % sz == 0).collect();
        check_good(bytes, &es, &cuts);
    }
}

#[test]
fn good_pseudo_random_partitions() {
    let es = good_entries();
    let all = es.concat();
    let bytes = all.as_bytes();
    let mut x: u64 = 0x9e3779b97f4a7c15;
    for _ in 0..300 {
        let mut cuts = vec![];
        let mut pos = 0usize;
        loop {
            x ^= x << 13;
            x ^= x >> 7;
            x ^= x << 17;
            pos += (x % 97) as usize;
            if pos >= bytes.len() {
                break;
            }
            cuts.push(pos);
        }
        check_good(bytes, &es, &cuts);
    }
}

#[test]
fn malformed_entry_every_position_and_cut() {
    let es = good_entries();
    for pos in 0..=es.len() {
        let before: Vec<String> = es[..pos].to_vec();
        let mut all = before.concat();
        all.push_str(&bad_entry());
        let bad_end = all.len();
        all.push_str(&es[pos..].concat());
        let bytes = all.as_bytes();
        let mut partitions: Vec<Vec<usize>> = vec![vec![]];
        for c in 0..=bytes.len() {
            partitions.push(vec![c]);
        }
        for sz in [1usize, 2, 3, 7, 64, 300, 600] {
            partitions.push((1..bytes.len()).filter(|i| i % sz == 0).collect());
        }
        for cuts in partitions {
            let (s, tr) = trace(bytes, &cuts);
            let mut bounds = cuts.clone();
            bounds.push(bytes.len());
            let mut failed = false;
            for (i, b) in bounds.iter().enumerate() {
                if *b < bad_end {
                    assert!(tr[i].0.is_ok(), "pos {} cuts {:?}", pos, cuts);
                } else {
                    /*
                     * From the write completing the bad entry on, every write
                     * fails (the bad record stays in the buffer) and nothing
                     * more is collected beyond the good prefix.
                     */
                    assert_eq!(tr[i].0, Err(ErrorKind::InvalidData), "pos {} cuts {:?}", pos, cuts);
                    if !failed {
                        assert_eq!(tr[i].1, pos, "pos {} cuts {:?}", pos, cuts);
                    }
                    failed = true;
                }
            }
            assert!(failed);
            /* the collected entries always start with the good prefix */
            let r = rendered(&s);
            assert!(r.len() >= pos);
            assert_eq!(r[..pos].to_vec(), before, "pos {} cuts {:?}", pos, cuts);
        }
    }
}

#[test]
fn invalid_utf8_and_unterminated_tail() {
    let es = good_entries();
    /* invalid byte inside a record */
    let mut v = es[0].clone().into_bytes();
    let n = v.len();
    v.extend_from_slice(b"COMMENT=\xff\n\n");
    let mut s = SummaryStream::new();
    assert_eq!(s.write(&v).map_err(|e| e.kind()), Err(ErrorKind::InvalidData));
    assert_eq!(s.entries().len(), 0);
    let mut s = SummaryStream::new();
    assert_eq!(s.write(&v[..n]).unwrap(), n);
    assert_eq!(s.entries().len(), 1);
    assert_eq!(s.write(&v[n..]).map_err(|e| e.kind()), Err(ErrorKind::InvalidData));
    assert_eq!(s.entries().len(), 1);

    /* a truncated multi-byte character followed by a non-continuation byte */
    let mut s = SummaryStream::new();
    assert_eq!(s.write(b"COMMENT=\xe2\x82").unwrap(), 10);
    assert_eq!(s.write(b"x\n\n").map_err(|e| e.kind()), Err(ErrorKind::InvalidData));

    /* an unterminated tail stays pending and is not printed */
    let all = es.concat();
    let mut s = SummaryStream::new();
    let cut = all.len() - 2;
    assert_eq!(s.write(&all.as_bytes()[..cut]).unwrap(), cut);
    assert_eq!(s.entries().len(), 2);
    assert_eq!(format!("{}", s), es[..2].concat());
    assert_eq!(s.write(b"").unwrap(), 0);
    assert_eq!(s.entries().len(), 2);
    assert_eq!(s.write(b"\n\n").unwrap(), 2);
    assert_eq!(rendered(&s), es);

    /* empty stream */
    let s = SummaryStream::new();
    assert_eq!(format!("{}", s), "");
    assert!(s.entries().is_empty());
}
