use pkgsrc::summary::{MissingVariable, Summary, SummaryError};
use std::str::FromStr;

const REQUIRED: [(&str, &str); 11] = [
    ("BUILD_DATE", "2019-08-12 15:58:02 +0100"),
    ("CATEGORIES", "devel pkgtools"),
    ("COMMENT", "This is a test"),
    ("DESCRIPTION", "A test description"),
    ("MACHINE_ARCH", "x86_64"),
    ("OPSYS", "Darwin"),
    ("OS_VERSION", "18.7.0"),
    ("PKGNAME", "testpkg-1.0"),
    ("PKGPATH", "pkgtools/testpkg"),
    ("PKGTOOLS_VERSION", "20091115"),
    ("SIZE_PKG", "4321"),
];

const OPTIONAL: [(&str, &str); 12] = [
    ("CONFLICTS", "cfl-pkg2>=2.0"),
    ("DEPENDS", "dep-pkg2>=2.0"),
    ("FILE_CKSUM", "SHA1 a4801e9b26eeb5b8bd1f54bac1c8e89dec67786a"),
    ("FILE_NAME", "testpkg-1.0.tgz"),
    ("FILE_SIZE", "1234"),
    ("HOMEPAGE", "https://docs.rs/pkgsrc/?a=b&c=d"),
    ("LICENSE", "apache-2.0 OR modified-bsd"),
    ("PKG_OPTIONS", "http2 idn inet6"),
    ("PREV_PKGPATH", "obsolete/testpkg"),
    ("PROVIDES", "/opt/pkg/lib/libfoo.dylib"),
    ("REQUIRES", "/usr/lib/libSystem.B.dylib"),
    ("SUPERSEDES", "oldpkg-[0-9]*"),
];

fn text(vars: &[(&str, &str)]) -> String {
    vars.iter().map(|(k, v)| format!("{}={}\n", k, v)).collect()
}

fn missing_name(m: &MissingVariable) -> &'static str {
    match m {
        MissingVariable::BuildDate => "BUILD_DATE",
        MissingVariable::Categories => "CATEGORIES",
        MissingVariable::Comment => "COMMENT",
        MissingVariable::Description => "DESCRIPTION",
        MissingVariable::MachineArch => "MACHINE_ARCH",
        MissingVariable::Opsys => "OPSYS",
        MissingVariable::OsVersion => "OS_VERSION",
        MissingVariable::Pkgname => "PKGNAME",
        MissingVariable::Pkgpath => "PKGPATH",
        MissingVariable::PkgtoolsVersion => "PKGTOOLS_VERSION",
        MissingVariable::SizePkg => "SIZE_PKG",
    }
}

#[test]
fn complete_entries_are_accepted_in_any_order() {
    let mut all: Vec<(&str, &str)> = REQUIRED.to_vec();
    all.extend_from_slice(&OPTIONAL);
    for rot in 0..all.len() {
        let mut vars = all.clone();
        vars.rotate_left(rot);
        if rot % 2 == 1 {
            vars.reverse();
        }
        let sum = Summary::from_str(&text(&vars)).expect("complete entry");
        assert!(sum.is_completed());
        assert_eq!(sum.build_date(), Some("2019-08-12 15:58:02 +0100"));
        assert_eq!(sum.categories(), Some("devel pkgtools"));
        assert_eq!(sum.comment(), Some("This is a test"));
        assert_eq!(sum.description().unwrap(), ["A test description"]);
        assert_eq!(sum.machine_arch(), Some("x86_64"));
        assert_eq!(sum.opsys(), Some("Darwin"));
        assert_eq!(sum.os_version(), Some("18.7.0"));
        assert_eq!(sum.pkgname(), Some("testpkg-1.0"));
        assert_eq!(sum.pkgpath(), Some("pkgtools/testpkg"));
        assert_eq!(sum.pkgtools_version(), Some("20091115"));
        assert_eq!(sum.size_pkg(), Some(4321));
        assert_eq!(sum.conflicts().unwrap(), ["cfl-pkg2>=2.0"]);
        assert_eq!(sum.depends().unwrap(), ["dep-pkg2>=2.0"]);
        assert_eq!(
            sum.file_cksum(),
            Some("SHA1 a4801e9b26eeb5b8bd1f54bac1c8e89dec67786a")
        );
        assert_eq!(sum.file_name(), Some("testpkg-1.0.tgz"));
        assert_eq!(sum.file_size(), Some(1234));
        assert_eq!(sum.homepage(), Some("https://docs.rs/pkgsrc/?a=b&c=d"));
        assert_eq!(sum.license(), Some("apache-2.0 OR modified-bsd"));
        assert_eq!(sum.pkg_options(), Some("http2 idn inet6"));
        assert_eq!(sum.prev_pkgpath(), Some("obsolete/testpkg"));
        assert_eq!(sum.provides().unwrap(), ["/opt/pkg/lib/libfoo.dylib"]);
        assert_eq!(sum.requires().unwrap(), ["/usr/lib/libSystem.B.dylib"]);
        assert_eq!(sum.supersedes().unwrap(), ["oldpkg-[0-9]*"]);
    }
    /* Only the required ones. */
    let sum = Summary::from_str(&text(&REQUIRED)).expect("complete entry");
    assert!(sum.is_completed());
    assert_eq!(sum.file_size(), None);
    assert_eq!(sum.homepage(), None);
    assert_eq!(sum.depends(), None);
}

#[test]
fn each_missing_required_variable_is_named() {
    for skip in 0..REQUIRED.len() {
        let mut vars: Vec<(&str, &str)> = REQUIRED.to_vec();
        vars.extend_from_slice(&OPTIONAL);
        let (name, _) = vars.remove(skip);
        match Summary::from_str(&text(&vars)) {
            Err(SummaryError::Incomplete(m)) => {
                assert_eq!(missing_name(&m), name)
            }
            other => panic!("without {}: {:?}", name, other),
        }
    }
    /* Several missing: the first in the fixed order is reported. */
    match Summary::from_str("") {
        Err(SummaryError::Incomplete(MissingVariable::BuildDate)) => {}
        other => panic!("{:?}", other),
    }
    match Summary::from_str(&text(&REQUIRED[..5])) {
        Err(SummaryError::Incomplete(MissingVariable::Opsys)) => {}
        other => panic!("{:?}", other),
    }
}

#[test]
fn malformed_lines_and_unknown_variables() {
    let good = text(&REQUIRED);
    for bad in ["PKGNAME", "", " ", "no equals sign here", "HOMEPAGE:x"] {
        for t in [
            format!("{}\n{}", bad, good),
            format!("{}{}\n", good, bad),
            format!("{}{}\n{}", text(&REQUIRED[..4]), bad, text(&REQUIRED[4..])),
        ] {
            match Summary::from_str(&t) {
                Err(SummaryError::ParseLine(l)) => assert_eq!(l, bad),
                other => panic!("{:?}: {:?}", bad, other),
            }
        }
    }
    for (bad, name) in [
        ("BILD_DATE=x", "BILD_DATE"),
        ("pkgname=x", "pkgname"),
        ("=x", ""),
        ("=", ""),
        ("==", ""),
        (" PKGNAME=x", " PKGNAME"),
        ("PKGNAME =x", "PKGNAME "),
        ("PKG_PATH=a=b", "PKG_PATH"),
    ] {
        let t = format!("{}{}\n{}", text(&REQUIRED[..7]), bad, text(&REQUIRED[7..]));
        match Summary::from_str(&t) {
            Err(SummaryError::ParseVariable(v)) => assert_eq!(v, name),
            other => panic!("{:?}: {:?}", bad, other),
        }
    }
    /* Only the final line terminator is not a line of its own. */
    assert!(Summary::from_str(good.trim_end()).is_ok());
    assert!(Summary::from_str(&good).is_ok());
    /* The first faulty line decides. */
    match Summary::from_str("FOO=1\nBAR\nFILE_SIZE=x\n") {
        Err(SummaryError::ParseVariable(v)) => assert_eq!(v, "FOO"),
        other => panic!("{:?}", other),
    }
    match Summary::from_str("BAR\nFOO=1\nFILE_SIZE=x\n") {
        Err(SummaryError::ParseLine(l)) => assert_eq!(l, "BAR"),
        other => panic!("{:?}", other),
    }
    match Summary::from_str("SIZE_PKG=1=2\nBAR\nFOO=1\n") {
        Err(SummaryError::ParseInt(_)) => {}
        other => panic!("{:?}", other),
    }
    match Summary::from_str(&format!("{}FILE_SIZE=\n", good)) {
        Err(SummaryError::ParseInt(_)) => {}
        other => panic!("{:?}", other),
    }
}

#[test]
fn value_is_everything_after_the_first_equals() {
    let t = format!(
        "{}COMMENT=a=b==c=\nHOMEPAGE==\nLICENSE=\nPKG_OPTIONS= x = y \nDEPENDS=p>=1<=2\nDESCRIPTION==\n",
        text(&REQUIRED)
    );
    let sum = Summary::from_str(&t).expect("well-formed");
    assert_eq!(sum.comment(), Some("a=b==c="));
    assert_eq!(sum.homepage(), Some("="));
    assert_eq!(sum.license(), Some(""));
    assert_eq!(sum.pkg_options(), Some(" x = y "));
    assert_eq!(sum.depends().unwrap(), ["p>=1<=2"]);
    assert_eq!(sum.description().unwrap(), ["A test description", "="]);
    /* CRLF line endings are line endings. */
    let crlf = text(&REQUIRED).replace('\n', "\r\n");
    let sum = Summary::from_str(&crlf).expect("well-formed");
    assert_eq!(sum.comment(), Some("This is a test"));
    assert_eq!(sum.size_pkg(), Some(4321));
}

#[test]
fn repetitions() {
    let t = format!(
        "PKGNAME=first-0.1\nSIZE_PKG=1\nFILE_SIZE=10\nDESCRIPTION=zero\n{}\
         DESCRIPTION=\nDESCRIPTION=two\nDESCRIPTION=\nCOMMENT=second\n\
         FILE_SIZE=-20\nCOMMENT=third\nSIZE_PKG=7\nDEPENDS=a\nDEPENDS=b\nDEPENDS=a\n",
        text(&REQUIRED)
    );
    let sum = Summary::from_str(&t).expect("well-formed");
    assert_eq!(sum.pkgname(), Some("testpkg-1.0"));
    assert_eq!(sum.pkgbase(), Some("testpkg"));
    assert_eq!(sum.comment(), Some("third"));
    assert_eq!(sum.size_pkg(), Some(7));
    assert_eq!(sum.file_size(), Some(-20));
    assert_eq!(
        sum.description().unwrap(),
        ["zero", "A test description", "", "two", ""]
    );
    assert_eq!(sum.depends().unwrap(), ["a", "b", "a"]);
    /* Display prints what was kept. */
    let out = format!("{}", sum);
    let again = Summary::from_str(&out).expect("round trip");
    assert_eq!(format!("{}", again), out);
    assert_eq!(out.matches("COMMENT=").count(), 1);
    assert_eq!(out.matches("DESCRIPTION=").count(), 5);
}

#[test]
fn is_completed_follows_the_eleven_setters() {
    type Setter = fn(&mut Summary);
    let setters: [Setter; 11] = [
        |s| s.set_build_date("d"),
        |s| s.set_categories("c"),
        |s| s.set_comment("c"),
        |s| s.push_description("d"),
        |s| s.set_machine_arch("m"),
        |s| s.set_opsys("o"),
        |s| s.set_os_version("v"),
        |s| s.set_pkgname("p-1"),
        |s| s.set_pkgpath("a/p"),
        |s| s.set_pkgtools_version("1"),
        |s| s.set_size_pkg(0),
    ];
    for skip in 0..=setters.len() {
        let mut sum = Summary::new();
        assert!(!sum.is_completed());
        /* The optional ones do not count. */
        sum.set_file_size(1);
        sum.set_homepage("h");
        sum.push_depends("x");
        for (i, set) in setters.iter().enumerate() {
            if i != skip {
                set(&mut sum);
                set(&mut sum);
            }
        }
        assert_eq!(sum.is_completed(), skip == setters.len());
        /* The parser agrees with is_completed on what was built. */
        assert_eq!(
            Summary::from_str(&format!("{}", sum)).is_ok(),
            sum.is_completed()
        );
    }
    /* Setters overwrite, also across value kinds of the same variable. */
    let mut sum = Summary::new();
    sum.set_comment("one");
    sum.set_comment("two");
    assert_eq!(sum.comment(), Some("two"));
    sum.set_size_pkg(1);
    sum.set_size_pkg(2);
    assert_eq!(sum.size_pkg(), Some(2));
    sum.push_description("a");
    sum.push_description("b");
    sum.set_description(&["c".to_string()]);
    sum.push_description("d");
    assert_eq!(sum.description().unwrap(), ["c", "d"]);
}
