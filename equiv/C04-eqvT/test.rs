use pkgsrc::Pattern;

/*
 * Reference csh-style brace expansion: expand the left-most group whose
 * body contains no nested group, commas only split at the group's own depth.
 */
fn expand(pattern: &str) -> Vec<String> {
    let b = pattern.as_bytes();
    // Find the first '{'; if none the string is its own expansion.
    let Some(open) = b.iter().position(|&c| c == b'{') else {
        return vec![pattern.to_string()];
    };
    // Find its matching '}' and the top-level commas.
    let mut depth = 0;
    let mut cuts = vec![open];
    let mut close = None;
    for (i, &c) in b.iter().enumerate().skip(open) {
        match c {
            b'{' => depth += 1,
            b'}' => {
                depth -= 1;
                if depth == 0 {
                    close = Some(i);
                    break;
                }
            }
            b',' if depth == 1 => cuts.push(i),
            _ => {}
        }
    }
    let close = close.expect("balanced");
    cuts.push(close);
    let mut out = vec![];
    for w in cuts.windows(2) {
        let alt = &pattern[w[0] + 1..w[1]];
        let s = format!("{}{}{}", &pattern[..open], alt, &pattern[close + 1..]);
        out.extend(expand(&s));
    }
    out
}

fn reference(pattern: &str, name: &str) -> bool {
    expand(pattern)
        .iter()
        .any(|e| Pattern::new(e).map(|p| p.matches(name)).unwrap_or(false))
}

const PATTERNS: &[&str] = &[
    "a-{b,c}-{d{e,f},g}-h>=1",
    "{foo,bar}-[0-9]*",
    "{a{b,c},d}-1.0",
    "{a,b{c,d}}-1.0",
    "{{a,b},{c,d}}-1.0",
    "x{,y}{,z}-1.0",
    "foo{-bar,}-1.0",
    "foo{}-1.0",
    "{}",
    "{,}",
    "{a,b}",
    "{foo>1<2<3,bar-[0-9]*}",
    "{[0-9,baz}",
    "{a<1>0,b<1>0}",
    "{{x>1<2<3,y>=1},z-[0-9]*}",
    "pkg{>=1<2,-3.*,-4.0}",
    "{mysql,mariadb}-client>=5{,nb*}",
    "a{b{c{d,e},f},g}h-1",
    "{ab,ad,acd,abd}-1.0",
    "é{ü,ö}-1.0",
];

const NAMES: &[&str] = &[
    "", "a", "b", "ab", "ad", "x", "xy", "xz", "xyz", "baz", "[0-9",
    "a-b-de-h-2", "a-b-df-h-2", "a-b-g-h-2", "a-c-de-h-2", "a-c-df-h-2",
    "a-c-g-h-2", "a-a-g-h-2", "a-b-d-h-2", "a-b-de-h-0.5", "a-b-dg-h-2",
    "foo-1.0", "bar-1.0", "foo-bar-1.0", "foo-1.5", "bar-x", "baz-1.0",
    "ab-1.0", "ac-1.0", "ad-1.0", "d-1.0", "a-1.0", "b-1.0", "c-1.0",
    "bc-1.0", "bd-1.0", "acd-1.0", "abd-1.0",
    "x-1.0", "xy-1.0", "xz-1.0", "xyz-1.0", "xzy-1.0",
    "y-1.0", "z-3", "x-1.5", "pkg-1.5", "pkg-2.0", "pkg-3.1", "pkg-4.0",
    "pkg-4.1", "mysql-client-5.7", "mariadb-client-5.0nb3",
    "mysql-client-4.0", "postgres-client-9",
    "abcdh-1", "abceh-1", "abfh-1", "agh-1", "abh-1", "ah-1",
    "éü-1.0", "éö-1.0", "é-1.0", "foo{}-1.0", "{}", ",",
];

#[test]
fn matches_agrees_with_reference_expansion() {
    for pat in PATTERNS {
        let p = Pattern::new(pat).unwrap();
        assert_eq!(p.pattern(), *pat);
        for name in NAMES {
            assert_eq!(
                p.matches(name),
                reference(pat, name),
                "pattern {pat:?} name {name:?}"
            );
        }
    }
}

#[test]
fn spot_checks() {
    let p = Pattern::new("a-{b,c}-{d{e,f},g}-h>=1").unwrap();
    for n in ["a-b-de-h-2", "a-b-df-h-2", "a-b-g-h-2", "a-c-de-h-2", "a-c-g-h-2"] {
        assert!(p.matches(n), "{n}");
    }
    for n in ["a-a-g-h-2", "a-b-d-h-2", "a-b-dg-h-2", "a-b-de-h-0.5"] {
        assert!(!p.matches(n), "{n}");
    }
    let p = Pattern::new("{a{b,c},d}-1.0").unwrap();
    assert!(p.matches("ab-1.0") && p.matches("ac-1.0") && p.matches("d-1.0"));
    assert!(!p.matches("ad-1.0") && !p.matches("a-1.0"));
    let p = Pattern::new("foo{-bar,}-1.0").unwrap();
    assert!(p.matches("foo-1.0") && p.matches("foo-bar-1.0"));
    let p = Pattern::new("{foo>1<2<3,bar-[0-9]*}").unwrap();
    assert!(p.matches("bar-1.0") && !p.matches("foo-1.5") && !p.matches(""));
    let p = Pattern::new("{}").unwrap();
    assert!(p.matches("") && !p.matches("{}"));
}

#[test]
fn best_match_through_alternation() {
    let m = Pattern::new("{foo,bar}-[0-9]*").unwrap();
    assert_eq!(m.best_match("foo-1.1", "bar-1.0"), Some("foo-1.1"));
    assert_eq!(m.best_match("foo-1.0", "bar-1.1"), Some("bar-1.1"));
    assert_eq!(m.best_match("foo-1.0", "bar-1.0"), Some("bar-1.0"));
    assert_eq!(m.best_match("baz-1.0", "bar-1.0"), Some("bar-1.0"));
    assert_eq!(m.best_match("baz-1.0", "qux-1.0"), None);
}

#[test]
fn unbalanced_braces_are_rejected() {
    for bad in ["foo}>=1", "{foo,bar}}>=1", "{{foo,bar}>=1", "}foo,bar}>=1",
                "foo}b{ar>1.0", "{a}}{b", "{", "}"] {
        assert!(Pattern::new(bad).is_err(), "{bad:?}");
    }
}
