/*
 * Differential check of the Plist query functions against a small reference
 * model written directly from the documentation: every view is recomputed
 * from the sequence of input lines and compared with what the crate returns.
 */
use pkgsrc::plist::{Plist, PlistEntry, PlistOption};
use std::ffi::{OsStr, OsString};
use std::os::unix::ffi::{OsStrExt, OsStringExt};

fn os(b: &[u8]) -> OsString {
    OsString::from_vec(b.to_vec())
}

fn s(b: &[u8]) -> String {
    String::from_utf8(b.to_vec()).unwrap()
}

/* The lines the generators draw from, paired with the entry they denote. */
fn pool() -> Vec<(Vec<u8>, PlistEntry)> {
    vec![
        (b"bin/a".to_vec(), PlistEntry::File(os(b"bin/a"))),
        (b"lib/b.so".to_vec(), PlistEntry::File(os(b"lib/b.so"))),
        (b"+CONTENTS".to_vec(), PlistEntry::File(os(b"+CONTENTS"))),
        (
            b"share/caf\xe9.txt".to_vec(),
            PlistEntry::File(os(b"share/caf\xe9.txt")),
        ),
        (
            b"man/na\xc3\xafve.1".to_vec(),
            PlistEntry::File(os(b"man/na\xc3\xafve.1")),
        ),
        (b"@ignore".to_vec(), PlistEntry::Ignore),
        (b"@cwd /opt/pkg".to_vec(), PlistEntry::Cwd(os(b"/opt/pkg"))),
        (b"@cwd /usr/".to_vec(), PlistEntry::Cwd(os(b"/usr/"))),
        (b"@src /".to_vec(), PlistEntry::Cwd(os(b"/"))),
        (b"@cd rel".to_vec(), PlistEntry::Cwd(os(b"rel"))),
        (
            b"@cwd /opt/\xe9t\xe9".to_vec(),
            PlistEntry::Cwd(os(b"/opt/\xe9t\xe9")),
        ),
        (
            b"@cwd /opt/\xe9t\xe9/".to_vec(),
            PlistEntry::Cwd(os(b"/opt/\xe9t\xe9/")),
        ),
        (
            b"@cwd /opt/\xc3\xa9/".to_vec(),
            PlistEntry::Cwd(os(b"/opt/\xc3\xa9/")),
        ),
        (b"@cwd /trail\xff".to_vec(), PlistEntry::Cwd(os(b"/trail\xff"))),
        (
            b"@exec touch %D/%F".to_vec(),
            PlistEntry::Exec(os(b"touch %D/%F")),
        ),
        (b"@unexec rm %D/%F".to_vec(), PlistEntry::UnExec(os(b"rm %D/%F"))),
        (b"@mode 0755".to_vec(), PlistEntry::Mode(Some(s(b"0755")))),
        (b"@mode".to_vec(), PlistEntry::Mode(None)),
        (b"@owner root".to_vec(), PlistEntry::Owner(Some(s(b"root")))),
        (b"@owner".to_vec(), PlistEntry::Owner(None)),
        (b"@group wheel".to_vec(), PlistEntry::Group(Some(s(b"wheel")))),
        (b"@group".to_vec(), PlistEntry::Group(None)),
        (
            b"@pkgdir /var/db/x".to_vec(),
            PlistEntry::PkgDir(os(b"/var/db/x")),
        ),
        (b"@pkgdir etc/y".to_vec(), PlistEntry::PkgDir(os(b"etc/y"))),
        (b"@dirrm share/old".to_vec(), PlistEntry::DirRm(os(b"share/old"))),
        (b"@dirrm \xe9".to_vec(), PlistEntry::DirRm(os(b"\xe9"))),
        (b"@comment hi".to_vec(), PlistEntry::Comment(Some(os(b"hi")))),
        (b"@comment".to_vec(), PlistEntry::Comment(None)),
        (b"@name pkg-1.0".to_vec(), PlistEntry::Name(s(b"pkg-1.0"))),
        (b"@name other-2.0".to_vec(), PlistEntry::Name(s(b"other-2.0"))),
        (b"@display MESSAGE".to_vec(), PlistEntry::Display(os(b"MESSAGE"))),
        (b"@display MSG2".to_vec(), PlistEntry::Display(os(b"MSG2"))),
        (b"@pkgdep a>=1".to_vec(), PlistEntry::PkgDep(s(b"a>=1"))),
        (b"@pkgdep b-[0-9]*".to_vec(), PlistEntry::PkgDep(s(b"b-[0-9]*"))),
        (b"@blddep a-1.0nb2".to_vec(), PlistEntry::BldDep(s(b"a-1.0nb2"))),
        (b"@pkgcfl c<2".to_vec(), PlistEntry::PkgCfl(s(b"c<2"))),
        (
            b"@option preserve".to_vec(),
            PlistEntry::PkgOpt(PlistOption::Preserve),
        ),
    ]
}

struct Expected {
    files: Vec<OsString>,
    prefixed: Vec<OsString>,
    install: Vec<usize>,
    uninstall: Vec<usize>,
}

/* The four file views, straight from the statement of their behaviour. */
fn model(entries: &[&PlistEntry]) -> Expected {
    let mut e = Expected {
        files: vec![],
        prefixed: vec![],
        install: vec![],
        uninstall: vec![],
    };
    let mut cwd: Vec<u8> = vec![];
    let mut last_file: Option<usize> = None;
    for (i, entry) in entries.iter().enumerate() {
        match entry {
            PlistEntry::File(f) => {
                let from = last_file.map(|p| p + 1).unwrap_or(0);
                let ignored = entries[from..i]
                    .iter()
                    .any(|x| matches!(x, PlistEntry::Ignore));
                last_file = Some(i);
                if ignored {
                    continue;
                }
                e.files.push(f.clone());
                let mut p = cwd.clone();
                if !p.ends_with(b"/") {
                    p.push(b'/');
                }
                p.extend_from_slice(f.as_bytes());
                e.prefixed.push(OsString::from_vec(p));
                e.install.push(i);
                e.uninstall.push(i);
            }
            PlistEntry::Cwd(d) => {
                cwd = d.as_bytes().to_vec();
                e.install.push(i);
                e.uninstall.push(i);
            }
            PlistEntry::Mode(_)
            | PlistEntry::Owner(_)
            | PlistEntry::Group(_)
            | PlistEntry::PkgDir(_) => {
                e.install.push(i);
                e.uninstall.push(i);
            }
            PlistEntry::Exec(_) => e.install.push(i),
            PlistEntry::UnExec(_) | PlistEntry::DirRm(_) => {
                e.uninstall.push(i)
            }
            _ => {}
        }
    }
    e
}

fn check(picks: &[usize], pool: &[(Vec<u8>, PlistEntry)]) {
    let mut input: Vec<u8> = vec![];
    let mut entries: Vec<&PlistEntry> = vec![];
    for &k in picks {
        input.extend_from_slice(&pool[k].0);
        input.push(b'\n');
        entries.push(&pool[k].1);
    }
    let plist = Plist::from_bytes(&input).expect("valid plist");
    let exp = model(&entries);
    let ctx = String::from_utf8_lossy(&input).into_owned();

    let files: Vec<&OsStr> = exp.files.iter().map(|f| f.as_os_str()).collect();
    assert_eq!(plist.files(), files, "files() for {:?}", ctx);
    assert_eq!(plist.files_prefixed(), exp.prefixed, "prefixed {:?}", ctx);
    let inst: Vec<&PlistEntry> = exp.install.iter().map(|&i| entries[i]).collect();
    assert_eq!(plist.install_cmds(), inst, "install_cmds() for {:?}", ctx);
    let unin: Vec<&PlistEntry> =
        exp.uninstall.iter().map(|&i| entries[i]).collect();
    assert_eq!(plist.uninstall_cmds(), unin, "uninstall_cmds() {:?}", ctx);

    /* The file views agree with each other. */
    let inst_files: Vec<&OsStr> = plist
        .install_cmds()
        .into_iter()
        .filter_map(|e| match e {
            PlistEntry::File(f) => Some(f.as_os_str()),
            _ => None,
        })
        .collect();
    assert_eq!(inst_files, plist.files(), "install files {:?}", ctx);
    assert_eq!(plist.files().len(), plist.files_prefixed().len());

    /* Kind filters. */
    macro_rules! all_of {
        ($p:path) => {
            entries
                .iter()
                .filter_map(|e| match e {
                    $p(x) => Some(x),
                    _ => None,
                })
                .collect::<Vec<_>>()
        };
    }
    let dep: Vec<&str> =
        all_of!(PlistEntry::PkgDep).into_iter().map(|x| x.as_str()).collect();
    assert_eq!(plist.depends(), dep);
    let bld: Vec<&str> =
        all_of!(PlistEntry::BldDep).into_iter().map(|x| x.as_str()).collect();
    assert_eq!(plist.build_depends(), bld);
    let cfl: Vec<&str> =
        all_of!(PlistEntry::PkgCfl).into_iter().map(|x| x.as_str()).collect();
    assert_eq!(plist.conflicts(), cfl);
    let dirs: Vec<&OsStr> = all_of!(PlistEntry::PkgDir)
        .into_iter()
        .map(|x| x.as_os_str())
        .collect();
    assert_eq!(plist.pkgdirs(), dirs);
    let rm: Vec<&OsStr> = all_of!(PlistEntry::DirRm)
        .into_iter()
        .map(|x| x.as_os_str())
        .collect();
    assert_eq!(plist.pkgrmdirs(), rm);
    assert_eq!(
        plist.pkgname(),
        all_of!(PlistEntry::Name).first().map(|x| x.as_str())
    );
    assert_eq!(
        plist.display(),
        all_of!(PlistEntry::Display).first().map(|x| x.as_os_str())
    );
    let preserve = entries
        .iter()
        .any(|e| matches!(e, PlistEntry::PkgOpt(PlistOption::Preserve)));
    assert_eq!(plist.is_preserve(), preserve, "is_preserve() for {:?}", ctx);
}

/* Every sequence up to length 6 over the lines that drive the state. */
#[test]
fn exhaustive_small_alphabet() {
    let pool = pool();
    let find = |l: &[u8]| pool.iter().position(|(b, _)| b == l).unwrap();
    let alpha = [
        find(b"bin/a"),
        find(b"share/caf\xe9.txt"),
        find(b"@ignore"),
        find(b"@cwd /opt/pkg"),
        find(b"@cwd /opt/\xe9t\xe9/"),
        find(b"@exec touch %D/%F"),
        find(b"@option preserve"),
    ];
    for len in 0..=6usize {
        let total = alpha.len().pow(len as u32);
        for mut n in 0..total {
            let mut picks = Vec::with_capacity(len);
            for _ in 0..len {
                picks.push(alpha[n % alpha.len()]);
                n /= alpha.len();
            }
            check(&picks, &pool);
        }
    }
}

/* Pseudo-random interleavings of every kind of line. */
#[test]
fn random_interleavings() {
    let pool = pool();
    let ign = pool.iter().position(|(b, _)| b == b"@ignore").unwrap();
    let mut state: u64 = 0x9e37_79b9_7f4a_7c15;
    let mut next = move || {
        state = state
            .wrapping_mul(6364136223846793005)
            .wrapping_add(1442695040888963407);
        (state >> 33) as usize
    };
    for _ in 0..4000 {
        let len = next() % 24;
        let mut picks = Vec::with_capacity(len);
        for _ in 0..len {
            /* Bias towards files and @ignore so the flag is exercised. */
            let r = next() % 10;
            if r < 2 {
                picks.push(ign);
            } else if r < 5 {
                picks.push(next() % 5);
            } else {
                picks.push(next() % pool.len());
            }
        }
        check(&picks, &pool);
    }
}

/* A few hand-written lists with fixed expectations. */
#[test]
fn fixed_cases() {
    let p = Plist::from_bytes(
        b"first\n@ignore\n@ignore\n+A\n+B\n@cwd /p/\n@ignore\n@mode 1\nc\nd\n@ignore\n",
    )
    .unwrap();
    assert_eq!(p.files(), ["first", "+B", "d"]);
    assert_eq!(p.files_prefixed(), ["/first", "/+B", "/p/d"]);
    assert_eq!(
        p.install_cmds(),
        [
            &PlistEntry::File(OsString::from("first")),
            &PlistEntry::File(OsString::from("+B")),
            &PlistEntry::Cwd(OsString::from("/p/")),
            &PlistEntry::Mode(Some("1".to_string())),
            &PlistEntry::File(OsString::from("d")),
        ]
    );
    assert_eq!(p.install_cmds(), p.uninstall_cmds());
    assert!(!p.is_preserve());

    let p = Plist::from_bytes(b"@cwd /\xe9/\nx\n@cwd /\xe9\nx\n").unwrap();
    assert_eq!(p.files_prefixed(), [os(b"/\xe9/x"), os(b"/\xe9/x")]);

    let p = Plist::from_bytes(b"a\n@option preserve\n@option preserve\n");
    assert!(p.unwrap().is_preserve());
    assert!(!Plist::new().is_preserve());
    assert!(Plist::new().files().is_empty());
}
