/*
 * Behaviour check for pkg_summary entry parsing (Summary::from_str), via the
 * public API.  Passes before and after the refactoring.
 */
use pkgsrc::summary::{MissingVariable, Summary, SummaryError};
use std::str::FromStr;

/* All 23 supported variables with a valid value; required ones flagged. */
const VARS: [(&str, &str, bool); 23] = [
    ("BUILD_DATE", "2019-08-12 15:58:02 +0100", true),
    ("CATEGORIES", "devel pkgtools", true),
    ("COMMENT", "This is a test", true),
    ("CONFLICTS", "cfl-pkg1-[0-9]*", false),
    ("DEPENDS", "dep-pkg1-[0-9]*", false),
    ("DESCRIPTION", "A test description", true),
    ("FILE_CKSUM", "SHA1 a4801e9b26eeb5b8bd1f54bac1c8e89dec67786a", false),
    ("FILE_NAME", "testpkg-1.0.tgz", false),
    ("FILE_SIZE", "1234", false),
    ("HOMEPAGE", "https://example.org/?a=b", false),
    ("LICENSE", "apache-2.0 OR mit", false),
    ("MACHINE_ARCH", "x86_64", true),
    ("OPSYS", "Darwin", true),
    ("OS_VERSION", "18.7.0", true),
    ("PKG_OPTIONS", "http2 idn inet6", false),
    ("PKGNAME", "testpkg-1.0", true),
    ("PKGPATH", "pkgtools/testpkg", true),
    ("PKGTOOLS_VERSION", "20091115", true),
    ("PREV_PKGPATH", "obsolete/testpkg", false),
    ("PROVIDES", "/opt/pkg/lib/libfoo.dylib", false),
    ("REQUIRES", "/usr/lib/libSystem.B.dylib", false),
    ("SIZE_PKG", "4321", true),
    ("SUPERSEDES", "oldpkg-[0-9]*", false),
];

fn entry(skip: Option<&str>) -> String {
    VARS.iter()
        .filter(|(k, _, _)| Some(*k) != skip)
        .map(|(k, v, _)| format!("{k}={v}\n"))
        .collect()
}

fn missing_name(m: &MissingVariable) -> String {
    format!("{m:?}")
}

#[test]
fn full_entry_parses_and_values_are_kept() {
    let sum = Summary::from_str(&entry(None)).unwrap();
    assert!(sum.is_completed());
    assert_eq!(sum.build_date(), Some("2019-08-12 15:58:02 +0100"));
    assert_eq!(sum.categories(), Some("devel pkgtools"));
    assert_eq!(sum.comment(), Some("This is a test"));
    assert_eq!(sum.conflicts().unwrap(), ["cfl-pkg1-[0-9]*"]);
    assert_eq!(sum.depends().unwrap(), ["dep-pkg1-[0-9]*"]);
    assert_eq!(sum.description().unwrap(), ["A test description"]);
    assert_eq!(
        sum.file_cksum(),
        Some("SHA1 a4801e9b26eeb5b8bd1f54bac1c8e89dec67786a")
    );
    assert_eq!(sum.file_name(), Some("testpkg-1.0.tgz"));
    assert_eq!(sum.file_size(), Some(1234));
    /* value is everything after the first '=' */
    assert_eq!(sum.homepage(), Some("https://example.org/?a=b"));
    assert_eq!(sum.license(), Some("apache-2.0 OR mit"));
    assert_eq!(sum.machine_arch(), Some("x86_64"));
    assert_eq!(sum.opsys(), Some("Darwin"));
    assert_eq!(sum.os_version(), Some("18.7.0"));
    assert_eq!(sum.pkg_options(), Some("http2 idn inet6"));
    assert_eq!(sum.pkgname(), Some("testpkg-1.0"));
    assert_eq!(sum.pkgpath(), Some("pkgtools/testpkg"));
    assert_eq!(sum.pkgtools_version(), Some("20091115"));
    assert_eq!(sum.prev_pkgpath(), Some("obsolete/testpkg"));
    assert_eq!(sum.provides().unwrap(), ["/opt/pkg/lib/libfoo.dylib"]);
    assert_eq!(sum.requires().unwrap(), ["/usr/lib/libSystem.B.dylib"]);
    assert_eq!(sum.size_pkg(), Some(4321));
    assert_eq!(sum.supersedes().unwrap(), ["oldpkg-[0-9]*"]);

    /* line order does not matter */
    let mut lines: Vec<String> =
        entry(None).lines().map(String::from).collect();
    lines.reverse();
    let rev = Summary::from_str(&lines.join("\n")).unwrap();
    assert!(rev.is_completed());
    assert_eq!(rev.file_size(), Some(1234));
    assert_eq!(rev.size_pkg(), Some(4321));
    assert_eq!(rev.to_string(), sum.to_string());
}

#[test]
fn each_required_variable_is_reported_when_missing() {
    for (k, _, required) in VARS {
        let r = Summary::from_str(&entry(Some(k)));
        if required {
            let want: String = k
                .split('_')
                .map(|w| format!("{}{}", &w[..1], w[1..].to_lowercase()))
                .collect();
            match r {
                Err(SummaryError::Incomplete(m)) => {
                    assert_eq!(missing_name(&m), want, "{k}")
                }
                other => panic!("{k}: expected Incomplete, got {other:?}"),
            }
        } else {
            let sum = r.unwrap_or_else(|e| panic!("{k}: {e:?}"));
            assert!(sum.is_completed(), "{k}");
        }
    }
    /* with several missing, the first in the fixed check order is named */
    match Summary::from_str("") {
        Err(SummaryError::Incomplete(m)) => {
            assert_eq!(missing_name(&m), "BuildDate")
        }
        other => panic!("{other:?}"),
    }
    match Summary::from_str("BUILD_DATE=x\nSIZE_PKG=1") {
        Err(SummaryError::Incomplete(m)) => {
            assert_eq!(missing_name(&m), "Categories")
        }
        other => panic!("{other:?}"),
    }
}

#[test]
fn integer_fields() {
    for (k, _, _) in [VARS[8], VARS[21]] {
        for bad in ["", "NaN", "12x", " 12", "12 ", "1.0", "0x10", "9223372036854775808", "\u{0663}"] {
            let text = format!("{}{k}={bad}\n", entry(Some(k)));
            match Summary::from_str(&text) {
                Err(SummaryError::ParseInt(_)) => {}
                other => panic!("{k}={bad:?}: {other:?}"),
            }
            /* a bad integer is reported even if the entry is incomplete */
            match Summary::from_str(&format!("{k}={bad}")) {
                Err(SummaryError::ParseInt(_)) => {}
                other => panic!("{k}={bad:?}: {other:?}"),
            }
        }
        for (good, val) in [
            ("0", 0i64),
            ("-5", -5),
            ("+7", 7),
            ("007", 7),
            ("9223372036854775807", i64::MAX),
            ("-9223372036854775808", i64::MIN),
        ] {
            let text = format!("{}{k}={good}\n", entry(Some(k)));
            let sum = Summary::from_str(&text).unwrap();
            let got = if k == "FILE_SIZE" {
                sum.file_size()
            } else {
                sum.size_pkg()
            };
            assert_eq!(got, Some(val), "{k}={good}");
        }
    }
}

#[test]
fn malformed_lines_and_unknown_variables() {
    let full = entry(None);
    for bad in ["BUILD_DATE", "garbage", " ", "\u{e9}"] {
        match Summary::from_str(&format!("{full}{bad}\n")) {
            Err(SummaryError::ParseLine(l)) => assert_eq!(l, bad),
            other => panic!("{bad:?}: {other:?}"),
        }
    }
    /* an empty line in the middle is a malformed line too */
    match Summary::from_str(&format!("BUILD_DATE=x\n\n{full}")) {
        Err(SummaryError::ParseLine(l)) => assert_eq!(l, ""),
        other => panic!("{other:?}"),
    }
    for (line, name) in [
        ("BILD_DATE=x", "BILD_DATE"),
        ("build_date=x", "build_date"),
        ("=x", ""),
        (" PKGNAME=x", " PKGNAME"),
        ("PKGNAME =x", "PKGNAME "),
        ("FILESIZE=1", "FILESIZE"),
        ("FILE_SIZ\u{c9}=1", "FILE_SIZ\u{c9}"),
    ] {
        match Summary::from_str(&format!("{full}{line}\n")) {
            Err(SummaryError::ParseVariable(v)) => assert_eq!(v, name),
            other => panic!("{line:?}: {other:?}"),
        }
    }
    /* the first fault in input order wins */
    match Summary::from_str("NOPE=1\nFILE_SIZE=x\nbad") {
        Err(SummaryError::ParseVariable(v)) => assert_eq!(v, "NOPE"),
        other => panic!("{other:?}"),
    }
    match Summary::from_str("FILE_SIZE=x\nNOPE=1\nbad") {
        Err(SummaryError::ParseInt(_)) => {}
        other => panic!("{other:?}"),
    }
}

#[test]
fn repeats_accumulate_or_overwrite() {
    let text = format!(
        "{}DESCRIPTION=second\nDESCRIPTION=\nDESCRIPTION=a=b\n\
         DEPENDS=d2\nDEPENDS=d3\nCONFLICTS=c2\nPROVIDES=p2\nREQUIRES=r2\n\
         SUPERSEDES=s2\nCOMMENT=last comment\nPKGNAME=other-2.0\n\
         FILE_SIZE=1\nFILE_SIZE=2\nSIZE_PKG=9\n",
        entry(None)
    );
    let sum = Summary::from_str(&text).unwrap();
    assert_eq!(
        sum.description().unwrap(),
        ["A test description", "second", "", "a=b"]
    );
    assert_eq!(sum.depends().unwrap(), ["dep-pkg1-[0-9]*", "d2", "d3"]);
    assert_eq!(sum.conflicts().unwrap(), ["cfl-pkg1-[0-9]*", "c2"]);
    assert_eq!(sum.provides().unwrap(), ["/opt/pkg/lib/libfoo.dylib", "p2"]);
    assert_eq!(sum.requires().unwrap(), ["/usr/lib/libSystem.B.dylib", "r2"]);
    assert_eq!(sum.supersedes().unwrap(), ["oldpkg-[0-9]*", "s2"]);
    assert_eq!(sum.comment(), Some("last comment"));
    assert_eq!(sum.pkgname(), Some("other-2.0"));
    assert_eq!(sum.file_size(), Some(2));
    assert_eq!(sum.size_pkg(), Some(9));
}
