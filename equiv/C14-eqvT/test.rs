/*
 * Exercises PlistEntry::from_bytes (command / argument split, leading-blank
 * stripping of the argument, the command table) against fixed expectations
 * and against an independent model over an exhaustive product of
 * command x separator x argument pieces.
 */
use pkgsrc::plist::{Plist, PlistEntry, PlistError, PlistOption};
use std::ffi::{OsStr, OsString};
use std::os::unix::ffi::OsStrExt;

fn os(b: &[u8]) -> OsString {
    OsStr::from_bytes(b).to_os_string()
}

fn is_ws(c: u8) -> bool {
    matches!(c, b' ' | b'\t' | b'\n' | 0x0b | 0x0c | b'\r')
}

/* Independent model of one line. */
fn model(line: &[u8]) -> Result<PlistEntry, PlistError> {
    if line.first() != Some(&b'@') {
        return Ok(PlistEntry::File(os(line)));
    }
    let (cmd, arg): (&[u8], Option<&[u8]>) =
        match line.iter().position(|&c| c == b' ') {
            None => (line, None),
            Some(i) => {
                let rest = &line[i..];
                let k = rest.iter().position(|&c| !is_ws(c));
                (&line[..i], k.map(|k| &rest[k..]))
            }
        };
    let bad_args = || Err(PlistError::IncorrectArguments(os(line)));
    let unsupported = || {
        Err(PlistError::UnsupportedCommand(OsString::from(
            String::from_utf8_lossy(cmd).into_owned(),
        )))
    };
    let req_os = |f: fn(OsString) -> PlistEntry| match arg {
        Some(a) => Ok(f(os(a))),
        None => bad_args(),
    };
    let req_str = |f: fn(String) -> PlistEntry| match arg {
        Some(a) => match String::from_utf8(a.to_vec()) {
            Ok(s) => Ok(f(s)),
            Err(e) => Err(PlistError::Utf8(e)),
        },
        None => bad_args(),
    };
    let opt_str = |f: fn(Option<String>) -> PlistEntry| match arg {
        Some(a) => match String::from_utf8(a.to_vec()) {
            Ok(s) => Ok(f(Some(s))),
            Err(e) => Err(PlistError::Utf8(e)),
        },
        None => Ok(f(None)),
    };
    match cmd {
        b"@cwd" | b"@src" | b"@cd" => req_os(PlistEntry::Cwd),
        b"@exec" => req_os(PlistEntry::Exec),
        b"@unexec" => req_os(PlistEntry::UnExec),
        b"@pkgdir" => req_os(PlistEntry::PkgDir),
        b"@dirrm" => req_os(PlistEntry::DirRm),
        b"@display" => req_os(PlistEntry::Display),
        b"@name" => req_str(PlistEntry::Name),
        b"@pkgdep" => req_str(PlistEntry::PkgDep),
        b"@blddep" => req_str(PlistEntry::BldDep),
        b"@pkgcfl" => req_str(PlistEntry::PkgCfl),
        b"@mode" => opt_str(PlistEntry::Mode),
        b"@owner" => opt_str(PlistEntry::Owner),
        b"@group" => opt_str(PlistEntry::Group),
        b"@comment" => Ok(PlistEntry::Comment(arg.map(os))),
        b"@ignore" => match arg {
            None => Ok(PlistEntry::Ignore),
            Some(_) => bad_args(),
        },
        b"@option" => match arg.map(std::str::from_utf8) {
            Some(Ok("preserve")) => Ok(PlistEntry::PkgOpt(PlistOption::Preserve)),
            Some(Ok(_)) => unsupported(),
            Some(Err(_)) | None => bad_args(),
        },
        _ => unsupported(),
    }
}

const CMDS: &[&[u8]] = &[
    b"@cwd", b"@src", b"@cd", b"@exec", b"@unexec", b"@option", b"@mode",
    b"@owner", b"@group", b"@comment", b"@ignore", b"@name", b"@pkgdir",
    b"@dirrm", b"@display", b"@pkgdep", b"@blddep", b"@pkgcfl", b"@", b"@foo",
    b"@CWD", b"@cwd\t", b"@comment\r", b"@\xf8", b"@name\xf8", b"",
    b"bin/x", b"a", b"\xf8", b"\t@cwd",
];
const SEPS: &[&[u8]] = &[
    b"", b" ", b"  ", b" \t", b" \r", b" \x0b\x0c", b" \n ", b" \t \t ",
];
const ARGS: &[&[u8]] = &[
    b"", b"a", b"/", b"preserve", b"preserve ", b"hi there ", b"0644",
    "\u{1f496}".as_bytes(), b"\xf8", b"a\xf8 b", b"x\x0b", b"@cwd /", b"\xc3",
    "\u{a0}x".as_bytes(),
];

#[test]
fn agrees_with_model_on_product_of_pieces() {
    let mut n = 0;
    for cmd in CMDS {
        for sep in SEPS {
            for arg in ARGS {
                let mut line = cmd.to_vec();
                line.extend_from_slice(sep);
                line.extend_from_slice(arg);
                let got = format!("{:?}", PlistEntry::from_bytes(&line));
                let want = format!("{:?}", model(&line));
                assert_eq!(got, want, "line {:?}", os(&line));
                /* a leading blank turns any line into a file name */
                let mut fline = b" ".to_vec();
                fline.extend_from_slice(&line);
                assert_eq!(
                    PlistEntry::from_bytes(&fline).unwrap(),
                    PlistEntry::File(os(&fline))
                );
                n += 1;
            }
        }
    }
    assert_eq!(n, CMDS.len() * SEPS.len() * ARGS.len());
}

#[test]
fn fixed_expectations() {
    let e = |b: &[u8]| PlistEntry::from_bytes(b);
    assert_eq!(e(b"").unwrap(), PlistEntry::File(os(b"")));
    assert_eq!(e(b" ").unwrap(), PlistEntry::File(os(b" ")));
    assert_eq!(e(b"a").unwrap(), PlistEntry::File(os(b"a")));
    assert_eq!(e(b"bin/a b ").unwrap(), PlistEntry::File(os(b"bin/a b ")));
    assert_eq!(e(b"@cwd /").unwrap(), PlistEntry::Cwd(os(b"/")));
    assert_eq!(e(b"@cd  \t/x ").unwrap(), PlistEntry::Cwd(os(b"/x ")));
    assert_eq!(e(b"@mode").unwrap(), PlistEntry::Mode(None));
    assert_eq!(e(b"@mode ").unwrap(), PlistEntry::Mode(None));
    assert_eq!(e(b"@mode  \r\x0b").unwrap(), PlistEntry::Mode(None));
    assert_eq!(
        e(b"@mode 7").unwrap(),
        PlistEntry::Mode(Some(String::from("7")))
    );
    assert_eq!(
        e("@owner \u{a0}r".as_bytes()).unwrap(),
        PlistEntry::Owner(Some(String::from("\u{a0}r")))
    );
    assert_eq!(e(b"@comment").unwrap(), PlistEntry::Comment(None));
    assert_eq!(
        e(b"@comment \xf8 ").unwrap(),
        PlistEntry::Comment(Some(os(b"\xf8 ")))
    );
    assert_eq!(e(b"@ignore").unwrap(), PlistEntry::Ignore);
    assert_eq!(e(b"@ignore  ").unwrap(), PlistEntry::Ignore);
    assert!(matches!(
        e(b"@ignore x"),
        Err(PlistError::IncorrectArguments(l)) if l == os(b"@ignore x")
    ));
    assert!(matches!(
        e(b"@name "),
        Err(PlistError::IncorrectArguments(l)) if l == os(b"@name ")
    ));
    assert!(matches!(e(b"@name \xf8"), Err(PlistError::Utf8(_))));
    assert!(matches!(
        e(b"@cwd\t/x"),
        Err(PlistError::UnsupportedCommand(c)) if c == os(b"@cwd\t/x")
    ));
    assert!(matches!(
        e(b"@ x"),
        Err(PlistError::UnsupportedCommand(c)) if c == os(b"@")
    ));
    assert!(matches!(
        e(b"@\xf8 x"),
        Err(PlistError::UnsupportedCommand(c)) if c == OsString::from("@\u{fffd}")
    ));
    assert_eq!(
        e(b"@option   preserve").unwrap(),
        PlistEntry::PkgOpt(PlistOption::Preserve)
    );
    assert!(matches!(
        e(b"@option preserve "),
        Err(PlistError::UnsupportedCommand(c)) if c == os(b"@option")
    ));
    assert!(matches!(
        e(b"@option \xf8"),
        Err(PlistError::IncorrectArguments(_))
    ));
}

#[test]
fn whole_list_equals_line_by_line() {
    let lines: Vec<&[u8]> = vec![
        b"@name  pkg-1.0",
        b"@comment",
        b"@cwd /",
        b"a",
        b"@mode ",
        b" @ignore",
        b"@exec  echo \xf8 ",
        b"@ignore ",
        b"+CONTENTS",
    ];
    let each: Vec<PlistEntry> = lines
        .iter()
        .map(|l| PlistEntry::from_bytes(l).unwrap())
        .collect();
    for sep in [&b"\n"[..], &b"\n\n \t\n"[..]] {
        for last_nl in [false, true] {
            let mut input = lines.join(sep);
            if last_nl {
                input.push(b'\n');
            }
            let plist = Plist::from_bytes(&input).unwrap();
            assert_eq!(
                format!("{:?}", plist),
                format!("Plist {{ entries: {:?} }}", each)
            );
            assert_eq!(plist.pkgname(), Some("pkg-1.0"));
            assert_eq!(
                plist.files(),
                [OsStr::new("a"), OsStr::new(" @ignore")]
            );
        }
    }
    /* the first failing line decides the error */
    assert!(matches!(
        Plist::from_bytes(b"a\n@name\n@bogus x\n"),
        Err(PlistError::IncorrectArguments(l)) if l == os(b"@name")
    ));
}
