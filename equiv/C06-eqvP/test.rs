/*
 * Behaviour check for Pattern::best_match via the public API.  Passes before
 * and after the refactoring.
 */
use pkgsrc::Pattern;

fn bm<'a>(pattern: &str, a: &'a str, b: &'a str) -> Option<&'a str> {
    let p = Pattern::new(pattern).unwrap();
    let r = p.best_match(a, b);
    /* argument order never matters */
    assert_eq!(r, p.best_match(b, a), "{pattern}: {a} / {b}");
    /* the result is one of the inputs and matches */
    if let Some(w) = r {
        assert!(w == a || w == b);
        assert!(p.matches(w));
    } else {
        assert!(!p.matches(a) && !p.matches(b));
    }
    r
}

#[test]
fn none_and_single_match() {
    assert_eq!(bm("pkg>=1", "pkg-0.5", "pkg-0.9"), None);
    assert_eq!(bm("pkg>=1", "pkg", "other-2"), None);
    assert_eq!(bm("pkg>=1", "", ""), None);
    assert_eq!(bm("pkg>=1", "pkg-0.5", "pkg-1.5"), Some("pkg-1.5"));
    assert_eq!(bm("pkg>=1<2", "pkg-3", "pkg-1.5"), Some("pkg-1.5"));
    assert_eq!(bm("pkg>=1", "pkg-1.5", "other-9"), Some("pkg-1.5"));
    assert_eq!(bm("pkg-1.0", "pkg-1.0", "pkg-2.0"), Some("pkg-1.0"));
}

#[test]
fn higher_version_wins() {
    assert_eq!(bm("pkg>=1", "pkg-1.0", "pkg-1.1"), Some("pkg-1.1"));
    assert_eq!(bm("pkg>=1", "pkg-1.9", "pkg-1.10"), Some("pkg-1.10"));
    assert_eq!(bm("pkg>=1", "pkg-1.0", "pkg-1.0nb1"), Some("pkg-1.0nb1"));
    assert_eq!(bm("pkg>=1", "pkg-1.0nb2", "pkg-1.0nb10"), Some("pkg-1.0nb10"));
    assert_eq!(bm("pkg>=1", "pkg-2.0rc1", "pkg-2.0"), Some("pkg-2.0"));
    assert_eq!(bm("pkg>=1", "pkg-2.0alpha", "pkg-2.0beta"), Some("pkg-2.0beta"));
    assert_eq!(bm("pkg-[0-9]*", "pkg-1.0", "pkg-1.0.1"), Some("pkg-1.0.1"));
    assert_eq!(bm("pkg-[0-9]*", "pkg-1", "pkg-1.0alpha"), Some("pkg-1"));
    assert_eq!(bm("pkg-*", "pkg-1a", "pkg-1b"), Some("pkg-1b"));
}

#[test]
fn ties_go_to_the_smaller_string() {
    assert_eq!(bm("pkg-[0-9]*", "pkg-1.0", "pkg-1_0"), Some("pkg-1.0"));
    assert_eq!(bm("pkg-[0-9]*", "pkg-1", "pkg-1.0"), Some("pkg-1"));
    assert_eq!(bm("pkg-[0-9]*", "pkg-1rc1", "pkg-1RC1"), Some("pkg-1RC1"));
    assert_eq!(bm("pkg-[0-9]*", "pkg-01", "pkg-1"), Some("pkg-01"));
    assert_eq!(bm("pkg-[0-9]*", "pkg-1.0", "pkg-1.0"), Some("pkg-1.0"));
    /* different bases with tied versions */
    assert_eq!(bm("{foo,bar}-[0-9]*", "foo-1.0", "bar-1.0"), Some("bar-1.0"));
    assert_eq!(bm("*-1.0", "zzz-1.0", "aaa-1.0"), Some("aaa-1.0"));
    assert_eq!(bm("{foo,bar}>=1", "foo-1.0", "bar-1.1"), Some("bar-1.1"));
    assert_eq!(bm("{foo,bar}>=1", "foo-1.2", "bar-1.1"), Some("foo-1.2"));
    /* names without a version part compare as version "" */
    assert_eq!(bm("*", "foo", "bar"), Some("bar"));
    assert_eq!(bm("*", "foo", "bar-1"), Some("bar-1"));
    assert_eq!(bm("*", "foo-0", "bar"), Some("bar"));
    assert_eq!(bm("*", "p\u{e9}-1", "pe-1"), Some("pe-1"));
}

#[test]
fn reduction_is_order_independent() {
    let p = Pattern::new("{foo,bar}-[0-9]*").unwrap();
    let c: [&'static str; 6] = ["foo-1.0", "bar-1.0", "foo-1.0nb1", "bar-0.9", "baz-9", "foo-1_0"];
    let fold = |order: &[usize]| -> Option<&'static str> {
        let mut best: Option<&'static str> = None;
        for &i in order {
            best = match best {
                None => p.best_match(c[i], c[i]),
                Some(b) => p.best_match(b, c[i]),
            };
        }
        best
    };
    let orders: [[usize; 6]; 6] = [
        [0, 1, 2, 3, 4, 5],
        [5, 4, 3, 2, 1, 0],
        [2, 0, 4, 1, 5, 3],
        [3, 5, 1, 4, 0, 2],
        [1, 3, 5, 0, 2, 4],
        [4, 2, 0, 5, 3, 1],
    ];
    for o in &orders {
        assert_eq!(fold(o), Some("foo-1.0nb1"), "{o:?}");
    }
}
