/*
 * Behaviour check for the restructured comparisons in
 * Pattern::quick_pkg_match (`if p != q { return false }` inverted, final
 * test turned into an if/else tail expression).  Public API only; passes
 * before and after the change.
 */
use pkgsrc::Pattern;

fn m(pattern: &str, pkg: &str) -> bool {
    Pattern::new(pattern).unwrap().matches(pkg)
}

#[test]
fn first_character_position() {
    assert!(m("foo-[0-9]*", "foo-1"));
    assert!(!m("foo-[0-9]*", "goo-1"));
    assert!(!m("foo-[0-9]*", "Foo-1"));
    assert!(!m("foo-[0-9]*", "\u{e9}oo-1"));
    assert!(!m("foo-[0-9]*", ""));
    assert!(m("f*", "f"));
    assert!(!m("f*", "g"));
    assert!(!m("f*", ""));
    assert!(m("f", "f"));
    assert!(!m("f", "g"));
    assert!(!m("f", ""));
    assert!(m("9?", "9x"));
    assert!(!m("9?", "8x"));
    assert!(m("-?", "-x"));
    assert!(!m("-?", "_x"));
}

#[test]
fn second_character_position() {
    assert!(!m("foo-[0-9]*", "fxo-1"));
    assert!(!m("foo-[0-9]*", "fOo-1"));
    assert!(!m("foo-[0-9]*", "f\u{f6}o-1"));
    assert!(!m("foo-[0-9]*", "f"));
    assert!(m("fo*", "fo"));
    assert!(m("fo*", "fox"));
    assert!(!m("fo*", "fa"));
    assert!(!m("fo*", "f"));
    assert!(m("fo", "fo"));
    assert!(!m("fo", "fa"));
    assert!(!m("fo", "f"));
    assert!(!m("fo", "foo"));
    assert!(m("f-*", "f-1"));
    assert!(!m("f-*", "f+1"));
    assert!(m("f0?", "f01"));
    assert!(!m("f0?", "f11"));
}

#[test]
fn shortcut_stops_at_non_simple_pattern_characters() {
    assert!(m("", ""));
    assert!(!m("", "x"));
    assert!(m("*", ""));
    assert!(m("*-1", "anything-1"));
    assert!(m("?oo", "foo"));
    assert!(m("[a-f]oo", "foo"));
    assert!(!m("[a-f]oo", "goo"));
    assert!(m("f?o", "foo"));
    assert!(m("f*o", "fo"));
    assert!(m("f[o]o", "foo"));
    assert!(m("f.o", "f.o"));
    assert!(!m("f.o", "f_o"));
    assert!(m(".fo", ".fo"));
    assert!(m("\u{e9}?", "\u{e9}x"));
    assert!(m("f\u{e9}?", "f\u{e9}x"));
    assert!(!m("f\u{e9}?", "fex"));
    assert!(m("_a*", "_ab"));
    assert!(!m("_a*", "-ab"));
}

#[test]
fn other_pattern_kinds_go_through_the_same_shortcut() {
    assert!(m("ab>=1", "ab-1"));
    assert!(!m("ab>=1", "ax-1"));
    assert!(!m("ab>=1", "xb-1"));
    assert!(!m("ab>=1", "a"));
    assert!(m("a>=1", "a-1"));
    assert!(m("ab{c,d}-1", "abd-1"));
    assert!(!m("ab{c,d}-1", "acd-1"));
    assert!(m("a{b,c}-1", "ac-1"));
    assert!(m("{a,b}c-1", "bc-1"));
}
