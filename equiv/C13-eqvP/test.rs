/*
 * Behaviour documentation for Digest::hash_patch: equals the plain hash of
 * the input with '$NetBSD' lines removed, for any read schedule, and read
 * errors are reported.
 */
use pkgsrc::digest::{Digest, DigestError};
use std::io::{self, Read};

const ALL: [Digest; 6] = [
    Digest::BLAKE2s,
    Digest::MD5,
    Digest::RMD160,
    Digest::SHA1,
    Digest::SHA256,
    Digest::SHA512,
];

/* Reader handing out at most `step` bytes per call, with optional EINTR
 * before every read and an optional hard error at a byte offset. */
struct Sched<'a> {
    data: &'a [u8],
    pos: usize,
    step: usize,
    eintr: bool,
    flip: bool,
    fail_at: Option<usize>,
}

impl<'a> Read for Sched<'a> {
    fn read(&mut self, buf: &mut [u8]) -> io::Result<usize> {
        if self.eintr {
            self.flip = !self.flip;
            if self.flip {
                return Err(io::Error::new(io::ErrorKind::Interrupted, "eintr"));
            }
        }
        if let Some(at) = self.fail_at {
            if self.pos >= at {
                return Err(io::Error::new(io::ErrorKind::Other, "boom"));
            }
        }
        let mut n = self.step.min(buf.len()).min(self.data.len() - self.pos);
        if let Some(at) = self.fail_at {
            n = n.min(at - self.pos);
        }
        buf[..n].copy_from_slice(&self.data[self.pos..self.pos + n]);
        self.pos += n;
        Ok(n)
    }
}

/* Reference: drop every line containing "$NetBSD"; the last unterminated
 * line counts as terminated. */
fn filtered(input: &[u8]) -> Vec<u8> {
    let mut out = Vec::new();
    if input.is_empty() {
        return out;
    }
    let body = if input.ends_with(b"\n") {
        &input[..input.len() - 1]
    } else {
        input
    };
    for line in body.split(|b| *b == b'\n') {
        if line.windows(7).any(|w| w == b"$NetBSD") {
            continue;
        }
        out.extend_from_slice(line);
        out.push(b'\n');
    }
    out
}

fn samples() -> Vec<Vec<u8>> {
    let mut long = Vec::new();
    for i in 0..400 {
        if i % 7 == 3 {
            long.extend_from_slice(b"+# $NetBSD: Makefile,v 1.1 joe Exp $\n");
        } else {
            long.extend_from_slice(format!("line {i} of the patch\n").as_bytes());
        }
    }
    vec![
        b"".to_vec(),
        b"\n".to_vec(),
        b"\n\n".to_vec(),
        b"abc".to_vec(),
        b"abc\n".to_vec(),
        b"$NetBSD".to_vec(),
        b"$NetBSD\n".to_vec(),
        b"$NetBS\nD\n".to_vec(),
        b"$NetBSD$\n\n--- a\n+++ b\n".to_vec(),
        b"a\nx $NetBSD: y $ z\nb".to_vec(),
        b"a\nb\n$NetBSD: unterminated".to_vec(),
        b"$netbsd$\n$NETBSD$\n".to_vec(),
        b"caf\xc3\xa9 \xe9\n$NetBSD \xff\nend\n".to_vec(),
        long,
    ]
}

#[test]
fn patch_equals_filtered_plain_hash() {
    for input in samples() {
        let want_bytes = filtered(&input);
        for d in ALL {
            let want = d.hash_file(&mut &want_bytes[..]).unwrap();
            assert_eq!(d.hash_patch(&mut &input[..]).unwrap(), want);
            for step in [1usize, 3, 7, 64, 4096] {
                for eintr in [false, true] {
                    let mut r = Sched {
                        data: &input,
                        pos: 0,
                        step,
                        eintr,
                        flip: false,
                        fail_at: None,
                    };
                    assert_eq!(d.hash_patch(&mut r).unwrap(), want);
                }
            }
        }
    }
}

#[test]
fn patch_known_values() {
    /* Only marker lines: same as hashing nothing. */
    let d = Digest::SHA1;
    assert_eq!(
        d.hash_patch(&mut &b"$NetBSD$\n"[..]).unwrap(),
        "da39a3ee5e6b4b0d3255bfef95601890afd80709"
    );
    assert_eq!(
        d.hash_patch(&mut &b""[..]).unwrap(),
        "da39a3ee5e6b4b0d3255bfef95601890afd80709"
    );
    /* "abc" without newline hashes as "abc\n". */
    assert_eq!(
        d.hash_patch(&mut &b"abc"[..]).unwrap(),
        d.hash_str("abc\n").unwrap()
    );
    assert_eq!(
        Digest::MD5.hash_patch(&mut &b"$NetBSD: x $"[..]).unwrap(),
        "d41d8cd98f00b204e9800998ecf8427e"
    );
}

#[test]
fn patch_read_error_is_returned() {
    let input = b"one\ntwo $NetBSD$\nthree\nfour\n".to_vec();
    for d in ALL {
        for at in 0..input.len() {
            for eintr in [false, true] {
                let mut r = Sched {
                    data: &input,
                    pos: 0,
                    step: 5,
                    eintr,
                    flip: false,
                    fail_at: Some(at),
                };
                match d.hash_patch(&mut r) {
                    Err(DigestError::Io(e)) => {
                        assert_eq!(e.kind(), io::ErrorKind::Other)
                    }
                    other => panic!("expected I/O error, got {:?}", other),
                }
            }
        }
    }
}
