/*
 * C16: exercises ScanIndex::from_reader (record segmentation, KEY=VALUE map,
 * typed field extraction, error propagation).
 */
use pkgsrc::{Depend, PkgName, PkgPath, ScanIndex};
use std::io::{self, BufReader, Read};
use std::path::PathBuf;

fn read(input: &str) -> io::Result<Vec<ScanIndex>> {
    ScanIndex::from_reader(input.as_bytes())
}

#[test]
fn full_record_all_fields() {
    let input = "PKGNAME=alpha-1.0nb2\n\
        ALL_DEPENDS=  foo>=1.0:../../devel/foo   bar-[0-9]*:../../misc/bar\n\
        PKG_SKIP_REASON=skip me\n\
        PKG_FAIL_REASON=\n\
        NO_BIN_ON_FTP=nope\n\
        RESTRICTED=No = redistribution\n\
        CATEGORIES=devel   python\n\
        MAINTAINER=  a@example.org  \n\
        USE_DESTDIR=user-destdir\n\
        BOOTSTRAP_PKG=yes\n\
        USERGROUP_PHASE=configure\n\
        SCAN_DEPENDS=/usr/pkgsrc/devel/foo/Makefile\t/usr/pkgsrc/mk/bsd.pkg.mk\n\
        PBULK_WEIGHT=150\n\
        MULTI_VERSION= PYTHON_VERSION_REQD=312 MYSQL_VERSION_REQD=80\n\
        PKG_LOCATION=devel/alpha\n";
    let index = read(input).unwrap();
    assert_eq!(index.len(), 1);
    let r = &index[0];
    assert_eq!(r.pkgname, PkgName::new("alpha-1.0nb2"));
    assert_eq!(
        r.all_depends,
        vec![
            Depend::new("foo>=1.0:../../devel/foo").unwrap(),
            Depend::new("bar-[0-9]*:../../misc/bar").unwrap()
        ]
    );
    assert_eq!(r.pkg_skip_reason.as_deref(), Some("skip me"));
    assert_eq!(r.pkg_fail_reason.as_deref(), Some(""));
    assert_eq!(r.no_bin_on_ftp.as_deref(), Some("nope"));
    assert_eq!(r.restricted.as_deref(), Some("No = redistribution"));
    assert_eq!(r.categories.as_deref(), Some("devel   python"));
    assert_eq!(r.maintainer.as_deref(), Some("a@example.org"));
    assert_eq!(r.use_destdir.as_deref(), Some("user-destdir"));
    assert_eq!(r.bootstrap_pkg.as_deref(), Some("yes"));
    assert_eq!(r.usergroup_phase.as_deref(), Some("configure"));
    assert_eq!(
        r.scan_depends,
        vec![
            PathBuf::from("/usr/pkgsrc/devel/foo/Makefile"),
            PathBuf::from("/usr/pkgsrc/mk/bsd.pkg.mk")
        ]
    );
    assert_eq!(r.pbulk_weight.as_deref(), Some("150"));
    assert_eq!(
        r.multi_version,
        vec![
            "PYTHON_VERSION_REQD=312".to_string(),
            "MYSQL_VERSION_REQD=80".to_string()
        ]
    );
    assert_eq!(r.pkg_location, Some(PkgPath::new("devel/alpha").unwrap()));
    assert!(r.depends.is_empty());
}

#[test]
fn absent_keys_are_none_or_empty() {
    let index = read("PKGNAME=solo-1\n").unwrap();
    assert_eq!(index.len(), 1);
    let r = &index[0];
    assert_eq!(r.pkgname, PkgName::new("solo-1"));
    assert_eq!(r.pkg_location, None);
    assert!(r.all_depends.is_empty());
    assert_eq!(r.pkg_skip_reason, None);
    assert_eq!(r.pkg_fail_reason, None);
    assert_eq!(r.no_bin_on_ftp, None);
    assert_eq!(r.restricted, None);
    assert_eq!(r.categories, None);
    assert_eq!(r.maintainer, None);
    assert_eq!(r.use_destdir, None);
    assert_eq!(r.bootstrap_pkg, None);
    assert_eq!(r.usergroup_phase, None);
    assert!(r.scan_depends.is_empty());
    assert_eq!(r.pbulk_weight, None);
    assert!(r.multi_version.is_empty());
    assert!(r.depends.is_empty());
}

#[test]
fn adjacent_records_do_not_leak() {
    let input = "\n\nPKGNAME=a-1\nMAINTAINER=ma\nCATEGORIES=ca\n\n\
                 PKGNAME=b-2\nPBULK_WEIGHT=7\n   \n\
                 \t PKGNAME=c-3 \nMAINTAINER=mc\nMULTI_VERSION=X=1\n\
                 PKGNAME=d-4\n\n";
    let index = read(input).unwrap();
    assert_eq!(index.len(), 4);
    let names: Vec<_> = index.iter().map(|r| r.pkgname.clone()).collect();
    assert_eq!(
        names,
        vec![
            PkgName::new("a-1"),
            PkgName::new("b-2"),
            PkgName::new("c-3"),
            PkgName::new("d-4")
        ]
    );
    assert_eq!(index[0].maintainer.as_deref(), Some("ma"));
    assert_eq!(index[0].categories.as_deref(), Some("ca"));
    assert_eq!(index[0].pbulk_weight, None);
    assert_eq!(index[1].maintainer, None);
    assert_eq!(index[1].categories, None);
    assert_eq!(index[1].pbulk_weight.as_deref(), Some("7"));
    assert_eq!(index[2].maintainer.as_deref(), Some("mc"));
    assert_eq!(index[2].pbulk_weight, None);
    assert_eq!(index[2].multi_version, vec!["X=1".to_string()]);
    assert_eq!(index[3].maintainer, None);
    assert!(index[3].multi_version.is_empty());
}

#[test]
fn repeated_keys_last_wins() {
    let input = "PKGNAME=a-1\nMAINTAINER=first\nSCAN_DEPENDS=/x /y\n\
                 MAINTAINER=second\nSCAN_DEPENDS=/z\nMAINTAINER =third\n\
                 ALL_DEPENDS=not valid\nALL_DEPENDS=foo-[0-9]*:../../devel/foo\n";
    let index = read(input).unwrap();
    assert_eq!(index.len(), 1);
    assert_eq!(index[0].maintainer.as_deref(), Some("third"));
    assert_eq!(index[0].scan_depends, vec![PathBuf::from("/z")]);
    assert_eq!(
        index[0].all_depends,
        vec![Depend::new("foo-[0-9]*:../../devel/foo").unwrap()]
    );
}

#[test]
fn ignored_lines() {
    let input = "PKGNAME=a-1\nUNKNOWN_KEY=zzz\nMAINTAINER\nno equals here\n\
                 maintainer=lower\n=novalue\nPKGNAME\nPKGNAMEX=q\n\
                 CATEGORIES=net\n";
    let index = read(input).unwrap();
    assert_eq!(index.len(), 1);
    assert_eq!(index[0].pkgname, PkgName::new("a-1"));
    assert_eq!(index[0].maintainer, None);
    assert_eq!(index[0].categories.as_deref(), Some("net"));
}

#[test]
fn crlf_and_no_final_newline() {
    let input = "PKGNAME=a-1\r\nMAINTAINER=m\r\nPKGNAME=b-2\r\nCATEGORIES=c";
    let index = read(input).unwrap();
    assert_eq!(index.len(), 2);
    assert_eq!(index[0].pkgname, PkgName::new("a-1"));
    assert_eq!(index[0].maintainer.as_deref(), Some("m"));
    assert_eq!(index[0].categories, None);
    assert_eq!(index[1].pkgname, PkgName::new("b-2"));
    assert_eq!(index[1].categories.as_deref(), Some("c"));
}

#[test]
fn empty_and_blank_inputs() {
    assert_eq!(read("").unwrap().len(), 0);
    assert_eq!(read("\n  \n\t\n").unwrap().len(), 0);
    let index = read("PKGNAME=\nPKGNAME=\n").unwrap();
    assert_eq!(index.len(), 2);
    assert_eq!(index[0].pkgname, PkgName::new(""));
}

#[test]
fn faults_fail_the_whole_read() {
    /* Leading block without PKGNAME. */
    assert!(read("MAINTAINER=x\nPKGNAME=a-1\n").is_err());
    assert!(read("junk\nPKGNAME=a-1\n").is_err());
    /* Bad dependency in first, middle and last record. */
    assert!(read("PKGNAME=a-1\nALL_DEPENDS=bad\nPKGNAME=b-2\n").is_err());
    assert!(read(
        "PKGNAME=a-1\nPKGNAME=b-2\nALL_DEPENDS=x>=1:../../a/b bad\nPKGNAME=c-3\n"
    )
    .is_err());
    assert!(read("PKGNAME=a-1\nPKGNAME=b-2\nALL_DEPENDS=bad").is_err());
    /* Bad location. */
    assert!(read("PKGNAME=a-1\nPKG_LOCATION=nonsense\nPKGNAME=b-2\n").is_err());
    assert!(read("PKGNAME=a-1\nPKGNAME=b-2\nPKG_LOCATION=a/b/c\n").is_err());
    let e = read("PKGNAME=a-1\nPKG_LOCATION=nonsense\n").unwrap_err();
    assert_eq!(e.kind(), io::ErrorKind::InvalidData);
}

/* A reader that fails after delivering a prefix of the data. */
struct Failing {
    data: Vec<u8>,
    pos: usize,
}

impl Read for Failing {
    fn read(&mut self, buf: &mut [u8]) -> io::Result<usize> {
        if self.pos >= self.data.len() {
            return Err(io::Error::new(io::ErrorKind::Other, "boom"));
        }
        let n = buf.len().min(self.data.len() - self.pos).min(7);
        buf[..n].copy_from_slice(&self.data[self.pos..self.pos + n]);
        self.pos += n;
        Ok(n)
    }
}

#[test]
fn io_errors_fail_the_whole_read() {
    let full = "PKGNAME=a-1\nMAINTAINER=m\nPKGNAME=b-2\nCATEGORIES=c\n";
    for cut in 0..=full.len() {
        let r = Failing {
            data: full.as_bytes()[..cut].to_vec(),
            pos: 0,
        };
        let res = ScanIndex::from_reader(BufReader::new(r));
        let e = res.unwrap_err();
        assert_eq!(e.kind(), io::ErrorKind::Other, "cut at {}", cut);
    }
    /* Invalid UTF-8 is reported by the reader as an error as well. */
    let bytes: &[u8] = b"PKGNAME=a-1\nMAINTAINER=\xff\xfe\nPKGNAME=b-2\n";
    assert!(ScanIndex::from_reader(bytes).is_err());
}

#[test]
fn real_world_file() {
    let mut path = PathBuf::from(env!("CARGO_MANIFEST_DIR"));
    path.push("tests/data/scanindex/pbulk-index.txt");
    let text = std::fs::read_to_string(&path).unwrap();
    let index = read(&text).unwrap();
    let names: Vec<&str> = text
        .lines()
        .filter_map(|l| l.strip_prefix("PKGNAME="))
        .collect();
    assert_eq!(index.len(), names.len());
    for (r, n) in index.iter().zip(&names) {
        assert_eq!(r.pkgname, PkgName::new(n));
        assert_eq!(r.pkg_location, None);
        assert_eq!(r.maintainer.as_deref(), Some("wiedi@frubar.net"));
        assert_eq!(r.pkg_skip_reason.as_deref(), Some(""));
        assert_eq!(r.multi_version.len(), 2);
    }
    /* Reading through a tiny buffer gives the same result. */
    let small = BufReader::with_capacity(3, text.as_bytes());
    assert_eq!(ScanIndex::from_reader(small).unwrap(), index);
}
