use pkgsrc::digest::Digest;
use pkgsrc::distinfo::{Checksum, Distinfo};
use std::ffi::OsString;
use std::os::unix::ffi::OsStringExt;
use std::path::PathBuf;

fn name(b: &[u8]) -> PathBuf {
    PathBuf::from(OsString::from_vec(b.to_vec()))
}

fn sum(d: Digest, h: &str) -> Checksum {
    Checksum::new(d, h.to_string())
}

#[test]
fn canonical_roundtrip_ascii() {
    let input = concat!(
        "$NetBSD: distinfo,v 1.80 2024/05/27 23:27:10 riastradh Exp $\n",
        "\n",
        "BLAKE2s (pkgin-23.8.1.tar.gz) = eb0f\n",
        "SHA512 (pkgin-23.8.1.tar.gz) = 2561\n",
        "Size (pkgin-23.8.1.tar.gz) = 267029 bytes\n",
        "SHA1 (sub/dir/x.tgz) = 01\n",
        "RMD160 (sub/dir/x.tgz) = 02\n",
        "MD5 (sub/dir/x.tgz) = 03\n",
        "SHA256 (sub/dir/x.tgz) = 04\n",
        "Size (sub/dir/x.tgz) = 18446744073709551615 bytes\n",
        "Size (onlysize.zip) = 0 bytes\n",
        "SHA1 (patch-aa) = 53f5\n",
        "SHA1 (patch-configure.ac) = 9999\n",
    )
    .as_bytes();
    let di = Distinfo::from_bytes(input);
    assert_eq!(di.as_bytes(), input);
    assert_eq!(di.distfiles().len(), 3);
    assert_eq!(di.patchfiles().len(), 2);
    let x = di.get_distfile("sub/dir/x.tgz").unwrap();
    assert_eq!(
        x.checksums,
        vec![
            sum(Digest::SHA1, "01"),
            sum(Digest::RMD160, "02"),
            sum(Digest::MD5, "03"),
            sum(Digest::SHA256, "04"),
        ]
    );
    assert_eq!(x.size, Some(u64::MAX));
    assert_eq!(di.get_distfile("onlysize.zip").unwrap().size, Some(0));
    assert!(di.get_distfile("onlysize.zip").unwrap().checksums.is_empty());
}

#[test]
fn canonical_roundtrip_non_ascii_names_and_rcsid() {
    let mut input: Vec<u8> = Vec::new();
    input.extend_from_slice(b"$NetBSD: distinfo,v 1.2 2001/01/01 00:00:00 j\xf6rg Exp $ \xa0\n\n");
    input.extend_from_slice(b"SHA1 (caf\xc3\xa0-\xc3\x85.tar.gz) = aa\n");
    input.extend_from_slice(b"Size (caf\xc3\xa0-\xc3\x85.tar.gz) = 12 bytes\n");
    input.extend_from_slice(b"SHA512 (d\xe9j\xe0/vu\x85\xa0.tgz) = bb\n");
    input.extend_from_slice(b"Size (d\xe9j\xe0/vu\x85\xa0.tgz) = 34 bytes\n");
    input.extend_from_slice(b"SHA1 (patch-\xe9) = cc\n");
    let di = Distinfo::from_bytes(&input);
    assert_eq!(di.as_bytes(), input);
    assert_eq!(
        di.rcsid().unwrap(),
        &OsString::from_vec(
            b"$NetBSD: distinfo,v 1.2 2001/01/01 00:00:00 j\xf6rg Exp $ \xa0".to_vec()
        )
    );
    assert_eq!(
        di.distfiles()[0].filename,
        name(b"caf\xc3\xa0-\xc3\x85.tar.gz")
    );
    assert_eq!(di.distfiles()[1].filename, name(b"d\xe9j\xe0/vu\x85\xa0.tgz"));
    assert_eq!(di.distfiles()[1].size, Some(34));
    assert_eq!(di.patchfiles()[0].filename, name(b"patch-\xe9"));
}

/*
 * Liberal parsing: leading whitespace (all ASCII kinds), repeated separators,
 * missing "bytes", extra trailing tokens, comments, lower case digest names.
 */
#[test]
fn liberal_whitespace_and_extras() {
    let input = b" \t\x0b\x0c\r $NetBSD: id $\n\
        #SHA1 (commented) = 00\n\
        \t  sha1\t\t(a.tgz)  \x0b=\x0c  h1   trailing junk\n\
        Size (a.tgz) = 5\n\
        Size\t(b.tgz)\t=\t6\tbytes\textra\r\n\
        \xa0SHA1 (nbsp-lead) = zz\n\
        \n\
        \r\n\
           \n";
    let di = Distinfo::from_bytes(input);
    assert_eq!(di.rcsid(), Some(&OsString::from("$NetBSD: id $")));
    assert_eq!(di.distfiles().len(), 2);
    let a = di.get_distfile("a.tgz").unwrap();
    assert_eq!(a.checksums, vec![sum(Digest::SHA1, "h1")]);
    assert_eq!(a.size, Some(5));
    assert_eq!(di.get_distfile("b.tgz").unwrap().size, Some(6));
    assert!(di.get_distfile("nbsp-lead").is_none());
    assert!(di.get_distfile("commented").is_none());
    assert_eq!(
        di.as_bytes(),
        b"$NetBSD: id $\n\nSHA1 (a.tgz) = h1\nSize (a.tgz) = 5 bytes\nSize (b.tgz) = 6 bytes\n"
    );
}

/*
 * Every kind of malformed line is ignored and leaves nothing behind.
 */
#[test]
fn malformed_lines_are_ignored() {
    let lines: Vec<&[u8]> = vec![
        b"",
        b"   ",
        b"#",
        b"$NetBSD$",
        b"$NetBSD:",
        b"SHA1",
        b"SHA1 (f)",
        b"SHA1 (f) =",
        b"SHA1 f = h",
        b"SHA1 (f = h",
        b"SHA1 f) = h",
        b"SHA1 ( = h",
        b"SHA1 ) = h",
        b"SHA1 (f) == h",
        b"SHA1 (f) h =",
        b"SHA1 (f) : h",
        b"SHA3 (f) = h",
        b"SIZE (f) = 1 bytes",
        b"size (f) = 1 bytes",
        b"Size (f) = -1 bytes",
        b"Size (f) = 18446744073709551616 bytes",
        b"Size (f) = 1.5 bytes",
        b"Size (f) = bytes",
        b"Size (f) = 0x10 bytes",
        b"SHA1 (f) = \xe9",
        b"SH\xe91 (f) = h",
        b"\xe9 (f) = h",
        b"Size (f) = \xff bytes",
        b"SHA1 (f g) = h",
        b"SHA1(f) = h",
        b"SHA1 (f)= h",
        b"SHA1 (f) =h",
    ];
    for l in &lines {
        let di = Distinfo::from_bytes(l);
        assert!(di.rcsid().is_none(), "{:?}", l);
        assert!(di.distfiles().is_empty(), "{:?}", l);
        assert!(di.patchfiles().is_empty(), "{:?}", l);
    }
    /* and all of them together, around one good entry */
    let mut all: Vec<u8> = Vec::new();
    for l in &lines {
        all.extend_from_slice(l);
        all.push(b'\n');
    }
    all.extend_from_slice(b"MD5 (good) = 1\n");
    for l in lines.iter().rev() {
        all.extend_from_slice(l);
        all.push(b'\n');
    }
    let di = Distinfo::from_bytes(&all);
    assert_eq!(di.as_bytes(), b"$NetBSD$\n\nMD5 (good) = 1\n");
}

/*
 * Odd but accepted shapes: empty name, name that is only a parenthesis,
 * names with parentheses and '=' inside, "+" sign on sizes, size with a
 * value that is not followed by "bytes", a hash that is not hex.
 */
#[test]
fn odd_but_accepted() {
    let di = Distinfo::from_bytes(b"SHA1 () = h\n");
    assert_eq!(di.distfiles().len(), 1);
    assert_eq!(di.distfiles()[0].filename, PathBuf::new());

    let di = Distinfo::from_bytes(b"SHA1 (() = h\nSHA1 ()) = i\n");
    assert_eq!(di.distfiles().len(), 2);
    assert_eq!(di.distfiles()[0].filename, PathBuf::from("("));
    assert_eq!(di.distfiles()[1].filename, PathBuf::from(")"));

    let input = b"$NetBSD: x\n\nSHA1 (a(1)=b.tgz) = \xc3\xa9=()\nSize (a(1)=b.tgz) = 7 bytes\n";
    let di = Distinfo::from_bytes(input);
    assert_eq!(di.as_bytes(), input);
    assert_eq!(
        di.distfiles()[0].checksums,
        vec![sum(Digest::SHA1, "\u{e9}=()")]
    );

    let di = Distinfo::from_bytes(b"Size (p) = +42 octets\nSize (q) = 007\n");
    assert_eq!(di.get_distfile("p").unwrap().size, Some(42));
    assert_eq!(di.get_distfile("q").unwrap().size, Some(7));

    /* a lone "(" or ")" token in the name position is rejected or accepted
     * consistently: "(" is both first and last byte of a 1-byte token */
    let di = Distinfo::from_bytes(b"SHA1 ( = h\nSHA1 ) = h\n");
    assert!(di.distfiles().is_empty());

    /* repeated entries merge, later Size wins, last RCS Id wins */
    let di = Distinfo::from_bytes(
        b"$NetBSD: one $\nSHA1 (f) = 1\nSize (f) = 1 bytes\n$NetBSD: two $\nSHA1 (f) = 2\nSize (f) = 2 bytes\n",
    );
    assert_eq!(di.rcsid(), Some(&OsString::from("$NetBSD: two $")));
    let f = di.get_distfile("f").unwrap();
    assert_eq!(
        f.checksums,
        vec![sum(Digest::SHA1, "1"), sum(Digest::SHA1, "2")]
    );
    assert_eq!(f.size, Some(2));
}
