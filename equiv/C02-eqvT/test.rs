/*
 * C02: exercises Dewey::matches (and Pattern::matches on top of it): split at
 * the last '-', byte-for-byte base equality, conjunction of the bounds.
 */
use pkgsrc::{Dewey, Pattern};

/// Both matchers on one (pattern, name) pair; they must agree.
fn both(pattern: &str, pkg: &str) -> bool {
    let d = Dewey::new(pattern).expect("dewey compiles").matches(pkg);
    let p = Pattern::new(pattern).expect("pattern compiles").matches(pkg);
    assert_eq!(d, p, "Dewey and Pattern disagree on {pattern:?} / {pkg:?}");
    d
}

#[test]
fn name_without_dash_never_matches() {
    for pattern in ["pkg>=0", "pkg>=", "pkg<1", "pkg<=0", "pkg>=0<1", ">=0", "<1"] {
        for pkg in ["pkg", "", "pkg1.0", "pkg_1.0", "0", "pkg>=0"] {
            assert!(!both(pattern, pkg), "{pattern:?} {pkg:?}");
        }
    }
}

#[test]
fn split_is_at_the_last_dash() {
    assert!(both("foo-bar>=1", "foo-bar-1.0"));
    assert!(!both("foo>=0", "foo-bar-1.0"));
    assert!(!both("foo-bar>=1", "foo-bar-baz-1.0"));
    assert!(both("a-b-c-d<2", "a-b-c-d-1"));
    assert!(!both("a-b-c<2", "a-b-c-d-1"));
    // A trailing '-' gives an empty version, which compares as 0.
    assert!(both("foo>=0", "foo-"));
    assert!(!both("foo>0", "foo-"));
    assert!(both("foo-1>=0", "foo-1-"));
    assert!(!both("foo>=0", "foo-1-"));
    // A base that itself ends in '-'.
    assert!(both("foo->=1", "foo--1"));
    assert!(!both("foo>=1", "foo--1"));
    // Empty base.
    assert!(both(">=1", "-1"));
    assert!(both(">=1<3", "-2"));
    assert!(!both(">=1", "--1"));
    assert!(both("->=1", "--1"));
    assert!(both(">=0", "-"));
}

#[test]
fn base_is_compared_byte_for_byte() {
    assert!(both("foo>=1", "foo-1"));
    for pkg in [
        "fo-1", "fooo-1", "xfoo-1", "Foo-1", "foO-1", "foo -1", " foo-1", "bar-1", "foo.-1",
        "f\u{f6}o-1",
    ] {
        assert!(!both("foo>=1", pkg), "{pkg:?}");
    }
    assert!(both("caf\u{e9}>=1", "caf\u{e9}-1"));
    assert!(!both("caf\u{e9}>=1", "cafe-1"));
    assert!(!both("caf\u{e9}>=1", "cafe\u{301}-1"));
    assert!(both("py3.11-foo>=1", "py3.11-foo-1"));
    assert!(!both("py3.11-foo>=1", "py3x11-foo-1"));
}

#[test]
fn every_bound_must_hold() {
    let cases = [
        ("0.9", false, false, false, false),
        ("1.0", false, true, false, true),
        ("1.0nb1", true, true, true, true),
        ("1.5", true, true, true, true),
        ("2.0rc1", true, true, true, true),
        ("2.0", true, true, false, false),
        ("2.0nb1", false, false, false, false),
        ("3", false, false, false, false),
    ];
    for (ver, gt_le, ge_le, gt_lt, ge_lt) in cases {
        let pkg = format!("pkg-{ver}");
        assert_eq!(both("pkg>1.0<=2.0", &pkg), gt_le, "> <= {pkg}");
        assert_eq!(both("pkg>=1.0<=2.0", &pkg), ge_le, ">= <= {pkg}");
        assert_eq!(both("pkg>1.0<2.0", &pkg), gt_lt, "> < {pkg}");
        assert_eq!(both("pkg>=1.0<2.0", &pkg), ge_lt, ">= < {pkg}");
    }
    // An empty range matches nothing; only the lower / only the upper bound
    // holding is not enough.
    for ver in ["0", "1", "2", "2.5", "3", "4"] {
        assert!(!both("pkg>=3<2", &format!("pkg-{ver}")));
    }
    // Adjacent operators: the empty lower bound is 0.
    assert!(both("pkg><2", "pkg-1"));
    assert!(!both("pkg><2", "pkg-0"));
    assert!(!both("pkg><2", "pkg-2"));
    assert!(both("pkg>=<=", "pkg-0"));
    assert!(!both("pkg>=<=", "pkg-0nb1"));
}

#[test]
fn single_bounds() {
    assert!(both("pkg>1", "pkg-1.1"));
    assert!(!both("pkg>1", "pkg-1.0"));
    assert!(both("pkg>=1", "pkg-1.0"));
    assert!(!both("pkg>=1", "pkg-1.0rc1"));
    assert!(both("pkg<1", "pkg-1.0alpha"));
    assert!(!both("pkg<1", "pkg-1"));
    assert!(both("pkg<=1", "pkg-1"));
    assert!(!both("pkg<=1", "pkg-1nb1"));
    // The version part may contain anything except '-'.
    assert!(both("pkg>=1", "pkg-1.0_\u{e9}"));
    assert!(both("pkg>1", "pkg-2>=3"));
}

#[test]
fn compiled_pattern_is_reusable() {
    let d = Dewey::new("lib-x>=2.12<2.41").unwrap();
    let names = ["lib-x", "lib-x-2.11", "lib-x-2.12", "lib-x-2.40nb9", "lib-x-2.41", "lib-2.13"];
    let expect = [false, false, true, true, false, false];
    for _ in 0..2 {
        for (n, e) in names.iter().zip(expect) {
            assert_eq!(d.matches(n), e, "{n}");
        }
    }
    assert_eq!(d.clone(), d);
}
