/*
 * Behaviour check for the mirrored comparisons in dewey_test, the inverted
 * component test and the removed duplicate `return` in the longer-left branch
 * of dewey_cmp.  Public API only; passes before and after the change.
 */
use pkgsrc::{Dewey, Pattern};

/* [a>b, a>=b, a<b, a<=b] with a as the package version, b in the pattern */
fn verdicts(a: &str, b: &str) -> [bool; 4] {
    let pkg = format!("pkg-{a}");
    [
        Dewey::new(&format!("pkg>{b}")).unwrap().matches(&pkg),
        Dewey::new(&format!("pkg>={b}")).unwrap().matches(&pkg),
        Dewey::new(&format!("pkg<{b}")).unwrap().matches(&pkg),
        Dewey::new(&format!("pkg<={b}")).unwrap().matches(&pkg),
    ]
}

const GT: [bool; 4] = [true, true, false, false];
const LT: [bool; 4] = [false, false, true, true];
const EQ: [bool; 4] = [false, true, false, true];

#[test]
fn longer_left_falls_through_to_pkgrevision() {
    /* all extra components are zero: PKGREVISION decides */
    assert_eq!(verdicts("1.0.0", "1"), EQ);
    assert_eq!(verdicts("1.0.0nb2", "1nb2"), EQ);
    assert_eq!(verdicts("1.0.0nb3", "1nb2"), GT);
    assert_eq!(verdicts("1.0.0nb1", "1nb2"), LT);
    assert_eq!(verdicts("1._.pl", "1"), EQ);
    assert_eq!(verdicts("0", ""), EQ);
    assert_eq!(verdicts("0nb1", ""), GT);
    assert_eq!(verdicts(".", "nb1"), LT);
    /* a non-zero extra component decides before PKGREVISION */
    assert_eq!(verdicts("1.0.1", "1nb9"), GT);
    assert_eq!(verdicts("1.0rc1nb9", "1"), LT);
}

#[test]
fn first_differing_component_decides() {
    assert_eq!(verdicts("1.2.3", "1.2.4"), LT);
    assert_eq!(verdicts("1.2.4", "1.2.3"), GT);
    assert_eq!(verdicts("1.2.3", "1.2.3"), EQ);
    assert_eq!(verdicts("2.0", "1.9.9.9"), GT);
    assert_eq!(verdicts("1.0alpha", "1.0beta"), LT);
    assert_eq!(verdicts("1.0rc", "1.0beta"), GT);
    assert_eq!(verdicts("1.0pre", "1.0rc"), EQ);
    assert_eq!(verdicts("1.0a", "1.0b"), LT);
    assert_eq!(verdicts("1.0nb5", "1.1nb1"), LT);
    /* i64 extremes of a component */
    assert_eq!(verdicts("999999999999999999", "999999999999999998"), GT);
    assert_eq!(verdicts("99999999999999999999", "9223372036854775807"), EQ);
    assert_eq!(verdicts("0", "alpha"), GT);
}

#[test]
fn shorter_left() {
    assert_eq!(verdicts("1", "1.0.0"), EQ);
    assert_eq!(verdicts("1", "1.0.0nb1"), LT);
    assert_eq!(verdicts("1", "1.0.1"), LT);
    assert_eq!(verdicts("1", "1.0beta"), GT);
}

#[test]
fn duality_and_two_bound_patterns() {
    let vs = ["", "1", "1.0", "1.0.0nb1", "1.0rc2", "1.0a", "1.1", "\u{e9}2", "2nb1"];
    for a in vs {
        for b in vs {
            let v = verdicts(a, b);
            assert_eq!(v[3], !v[0], "{a:?} {b:?}");
            assert_eq!(v[1], !v[2], "{a:?} {b:?}");
            assert!(!(v[0] && v[2]), "{a:?} {b:?}");
            for c in vs {
                let w = verdicts(a, c);
                let pkg = format!("pkg-{a}");
                let two = Pattern::new(&format!("pkg>={b}<{c}")).unwrap();
                assert_eq!(two.matches(&pkg), v[1] && w[2], "{a:?} {b:?} {c:?}");
                let two = Pattern::new(&format!("pkg>{b}<={c}")).unwrap();
                assert_eq!(two.matches(&pkg), v[0] && w[3], "{a:?} {b:?} {c:?}");
            }
        }
    }
}
