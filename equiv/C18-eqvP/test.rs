/*
 * Behaviour-documenting tests for PkgName::new and Dewey::matches (the two
 * PKGNAME splitters).  Uses only the public API; passes on the unmodified and
 * refactored code.
 */
use pkgsrc::{Dewey, PkgName};

fn check(name: &str, base: &str, version: &str, rev: Option<i64>) {
    let p = PkgName::new(name);
    assert_eq!(p.pkgname(), name, "{name:?}");
    assert_eq!(p.pkgbase(), base, "{name:?}");
    assert_eq!(p.pkgversion(), version, "{name:?}");
    assert_eq!(p.pkgrevision(), rev, "{name:?}");
    /* Lossless: base, '-' and version rebuild the name when a '-' exists. */
    if name.contains('-') {
        assert_eq!(format!("{}-{}", p.pkgbase(), p.pkgversion()), name);
    } else {
        assert_eq!(p.pkgbase(), name);
        assert_eq!(p.pkgversion(), "");
    }
}

#[test]
fn pkgname_split() {
    check("", "", "", None);
    check("-", "", "", None);
    check("--", "-", "", None);
    check("a-", "a", "", None);
    check("-1.0", "", "1.0", None);
    check("mktool", "mktool", "", None);
    check("mktool-1.3.2nb2", "mktool", "1.3.2nb2", Some(2));
    check("mktool-1.3-2", "mktool-1.3", "2", None);
    check("a-b-c-1.0nb7", "a-b-c", "1.0nb7", Some(7));
    check("1.0nb2", "1.0nb2", "", None);
    /* "nb" inside the base is not a revision. */
    check("nbtool-1.0", "nbtool", "1.0", None);
    check("libnb4-2.0", "libnb4", "2.0", None);
    /* Non-ASCII. */
    check("caf\u{e9}-\u{3b1}1nb3", "caf\u{e9}", "\u{3b1}1nb3", Some(3));
    check("\u{1f600}", "\u{1f600}", "", None);
}

#[test]
fn pkgname_revision() {
    /* Missing or unparsable digits after the last "nb" give Some(0). */
    check("p-1nb", "p", "1nb", Some(0));
    check("p-1nbx", "p", "1nbx", Some(0));
    check("p-1nb3alpha2nb", "p", "1nb3alpha2nb", Some(0));
    check("p-1nb3alpha", "p", "1nb3alpha", Some(0));
    /* Several "nb": the last one counts. */
    check("p-1nb3nb4", "p", "1nb3nb4", Some(4));
    check("p-nbnb", "p", "nbnb", Some(0));
    /* Whatever i64::from_str accepts is accepted. */
    check("p-1nb+5", "p", "1nb+5", Some(5));
    check("p-1nb007", "p", "1nb007", Some(7));
    /* Up to 18 digits, the i64 maximum, and overflow. */
    check(
        "p-1nb999999999999999999",
        "p",
        "1nb999999999999999999",
        Some(999_999_999_999_999_999),
    );
    check(
        "p-1nb9223372036854775807",
        "p",
        "1nb9223372036854775807",
        Some(i64::MAX),
    );
    check(
        "p-1nb9223372036854775808",
        "p",
        "1nb9223372036854775808",
        Some(0),
    );
    /* Upper-case NB is not a revision for PkgName. */
    check("p-1NB2", "p", "1NB2", None);
    /* Very long input. */
    let long = format!("{}-{}nb12", "b".repeat(50_000), "1.".repeat(50_000));
    let p = PkgName::new(&long);
    assert_eq!(p.pkgname(), long);
    assert_eq!(p.pkgbase().len(), 50_000);
    assert_eq!(p.pkgrevision(), Some(12));
}

#[test]
fn dewey_matches_split() {
    let m = Dewey::new("pkg>=1.0nb2").unwrap();
    /* No '-' at all, or wrong base. */
    assert!(!m.matches(""));
    assert!(!m.matches("pkg"));
    assert!(!m.matches("-"));
    assert!(!m.matches("other-2.0"));
    assert!(!m.matches("pkg-extra-2.0"));
    /* Split at the last '-'. */
    assert!(!m.matches("pkg-1.0-2.0"));
    /* Revision is the one used for the comparison. */
    assert!(!m.matches("pkg-1.0"));
    assert!(!m.matches("pkg-1.0nb1"));
    assert!(m.matches("pkg-1.0nb2"));
    assert!(m.matches("pkg-1.0nb3"));
    assert!(m.matches("pkg-1.0nb999999999999999999"));
    assert!(m.matches("pkg-1.1"));
    /* Empty version compares as 0. */
    assert!(!m.matches("pkg-"));

    /* A base containing '-' and non-ASCII text. */
    let m = Dewey::new("caf\u{e9}-x>1<2").unwrap();
    assert!(m.matches("caf\u{e9}-x-1.5"));
    assert!(!m.matches("caf\u{e9}-x-2"));
    assert!(!m.matches("caf\u{e9}-1.5"));

    /* Empty base. */
    let m = Dewey::new(">1").unwrap();
    assert!(m.matches("-2"));
    assert!(!m.matches("2"));
}
