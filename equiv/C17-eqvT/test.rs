/*
 * Exercises Dewey::matches (package name split at the last '-', base name
 * comparison, all-operators-must-hold) and the DeweyVersion tokeniser, both
 * directly and through Pattern.
 */
use pkgsrc::{Dewey, Pattern};

fn check(pat: &str, pkg: &str, expect: bool) {
    let d = Dewey::new(pat).unwrap();
    assert_eq!(d.matches(pkg), expect, "Dewey {:?} vs {:?}", pat, pkg);
    let p = Pattern::new(pat).unwrap();
    assert_eq!(p.matches(pkg), expect, "Pattern {:?} vs {:?}", pat, pkg);
}

#[test]
fn split_at_last_dash() {
    /* No '-' at all: never a match. */
    check("pkg>=0", "pkg", false);
    check("pkg>=0", "", false);
    check(">=0", "", false);
    /* Empty version after the dash behaves like 0. */
    check("pkg>=0", "pkg-", true);
    check("pkg>0", "pkg-", false);
    /* Empty base. */
    check(">=1", "-1", true);
    check(">=1", "-0", false);
    check(">=1", "--1", false);
    check("->=1", "--1", true);
    /* The split is at the LAST dash. */
    check("a-b>=1", "a-b-2", true);
    check("a>=1", "a-b-2", false);
    check("a-b>=1", "a-b", false);
    check("a-b-2>=0", "a-b-2-", true);
    check("pkg>=1", "pkg-1-2", false);
    check("pkg-1>=1", "pkg-1-2", true);
    /* Base must be equal, not a prefix or suffix. */
    check("pkg>=1", "pkgx-2", false);
    check("pkgx>=1", "pkg-2", false);
    check("pkg>=1", "xpkg-2", false);
    check("Pkg>=1", "pkg-2", false);
}

#[test]
fn every_operator_must_hold() {
    let pat = "pkg>=1.0<2";
    check(pat, "pkg-0.9", false);
    check(pat, "pkg-1.0rc1", false);
    check(pat, "pkg-1.0", true);
    check(pat, "pkg-1.5nb3", true);
    check(pat, "pkg-2.0rc1", true);
    check(pat, "pkg-2", false);
    check(pat, "pkg-2.0", false);
    check(pat, "pkg-3", false);
    let pat = "pkg>1.0alpha3nb2<=2.0beta4nb7";
    check(pat, "pkg-1.0alpha3nb2", false);
    check(pat, "pkg-1.0alpha3nb3", true);
    check(pat, "pkg-2.0beta4nb7", true);
    check(pat, "pkg-2.0beta4nb8", false);
    check(pat, "pkg-2.0", false);
    /* Single operators. */
    check("pkg<7", "pkg-6.99", true);
    check("pkg<7", "pkg-7", false);
    check("pkg<=7", "pkg-7.0", true);
    check("pkg<=7", "pkg-7nb1", false);
    check("pkg>7", "pkg-7nb1", true);
    check("pkg>7", "pkg-7.0.0", false);
    /* An empty range. */
    check("pkg>2<1", "pkg-1.5", false);
}

#[test]
fn tokeniser() {
    /* Case-insensitive modifiers and letters. */
    check("pkg>=1.0RC1<1.0", "pkg-1.0rc2", true);
    check("pkg>=1.0rc1<1.0", "pkg-1.0RC2", true);
    check("pkg>=1.0a", "pkg-1.0A", true);
    check("pkg>1.0a", "pkg-1.0B", true);
    check("pkg<1.0b", "pkg-1.0A", true);
    check("pkg>=1.0NB2", "pkg-1.0nb2", true);
    check("pkg>1.0NB2", "pkg-1.0nb2", false);
    /* alpha < beta < rc == pre < (nothing) == pl == . == _ */
    check("pkg>1alpha", "pkg-1beta", true);
    check("pkg>1beta", "pkg-1rc", true);
    check("pkg>=1rc<=1rc", "pkg-1pre", true);
    check("pkg>1pre", "pkg-1", true);
    check("pkg>=1pl<=1pl", "pkg-1.", true);
    check("pkg>=1_<=1_", "pkg-1", true);
    /* Non-ASCII and other ignored characters are skipped. */
    check("pkg>=1é2", "pkg-1é2", true);
    check("pkg>=1é2<=1é2", "pkg-12", false);
    check("pkg>=1é2<=1é2", "pkg-1+2", true);
    check("pkg>=日本<=日本", "pkg-", true);
    check("pkgé>=1", "pkgé-2", true);
    check("pkgé>=1", "pkg-2", false);
    /* Saturating components. */
    check("pkg>=99999999999999999999", "pkg-99999999999999999999", true);
    check("pkg>99999999999999999999", "pkg-9223372036854775807", false);
    check("pkg<99999999999999999999", "pkg-9223372036854775806", true);
    check("pkg>=1nb99999999999999999999", "pkg-1nb0", true);
    /* Trailing nb without digits. */
    check("pkg>=1nb<=1nb", "pkg-1", true);
    check("pkg>1nb", "pkg-1nb1", true);
}

#[test]
fn long_and_odd_inputs_return() {
    let d = Dewey::new("pkg>=1<3").unwrap();
    let long = format!("pkg-{}", "1.".repeat(5000));
    assert_eq!(d.matches(&long), true);
    let long = format!("pkg-{}", "z".repeat(5000));
    assert_eq!(d.matches(&long), false);
    let long = format!("pkg-2{}", "z".repeat(5000));
    assert_eq!(d.matches(&long), true);
    let dashes = "-".repeat(1000);
    assert_eq!(d.matches(&dashes), false);
    assert_eq!(d.matches("pkg-\u{0}2"), true);
    assert_eq!(d.matches("pkg-2\n"), true);
    assert_eq!(d.matches("pkg-🦀"), false);
}
