/*
 * Behaviour-documenting tests for the two-component branch of PkgPath::new
 * and for Depend::new's separator handling.  Uses only the public API; passes
 * on the unmodified and refactored code.
 */
use pkgsrc::{Depend, DependError, Pattern, PkgPath, PkgPathError};

fn short_and_full(input: &str) -> (String, String) {
    let p = PkgPath::new(input).unwrap_or_else(|_| panic!("{input:?}"));
    (
        p.as_path().to_str().unwrap().to_string(),
        p.as_full_path().to_str().unwrap().to_string(),
    )
}

#[test]
fn two_components_accepted() {
    for s in ["cat/pkg", "cat//pkg", "cat/pkg/", "cat/./pkg", "cat/pkg/.",
              "caf\u{e9}/\u{3b1}\u{1f600}", ".../.. ", "a/b"] {
        /* Short path keeps the given spelling, full path prepends ../../ */
        assert_eq!(short_and_full(s), (s.to_string(), format!("../../{s}")));
        let p = PkgPath::new(s).unwrap();
        assert_eq!(PkgPath::new(&format!("../../{s}")).unwrap(), p);
        assert_eq!(PkgPath::new(p.as_full_path().to_str().unwrap()).unwrap(), p);
    }
}

#[test]
fn two_components_rejected() {
    /* Exactly two components, but not both ordinary names. */
    for s in ["../pkg", "cat/..", "../..", "./pkg", "/pkg", "/..", "./..",
              "..//pkg/", "cat/../", "/./pkg"] {
        assert_eq!(PkgPath::new(s), Err(PkgPathError::InvalidPath), "{s:?}");
    }
    /* Other component counts. */
    for s in ["", ".", "/", "pkg", "a/b/c", "../a/b", "../../a", "../../a/b/c",
              "../../../a/b", "a/../b", "a/b/../..", "../../a/.."] {
        assert_eq!(PkgPath::new(s), Err(PkgPathError::InvalidPath), "{s:?}");
    }
}

#[test]
fn four_components_unchanged() {
    assert_eq!(
        short_and_full("../../cat/pkg"),
        ("cat/pkg".to_string(), "../../cat/pkg".to_string())
    );
    assert_eq!(
        short_and_full("..//..//cat//pkg//"),
        ("cat/pkg".to_string(), "..//..//cat//pkg//".to_string())
    );
}

#[test]
fn depend_colon_counts() {
    let pats = ["ok-[0-9]*", "bad>2>3"];
    let paths = ["cat/ok", "../../cat/ok", "nonsense", ""];
    for pat in pats {
        for path in paths {
            let r = Depend::new(&format!("{pat}:{path}"));
            let pr = Pattern::new(pat);
            let pp = PkgPath::new(path);
            match (&pr, &pp) {
                (Ok(a), Ok(b)) => {
                    let d = r.unwrap();
                    assert_eq!(d.pattern(), a);
                    assert_eq!(d.pkgpath(), b);
                }
                /* The pattern is validated first. */
                (Err(_), _) => {
                    assert!(matches!(r, Err(DependError::Pattern(_))))
                }
                (Ok(_), Err(_)) => assert!(matches!(
                    r,
                    Err(DependError::PkgPath(PkgPathError::InvalidPath))
                )),
            }
            /* Zero, two or three colons are always Invalid. */
            for s in [
                format!("{pat}{path}"),
                format!("{pat}::{path}"),
                format!("{pat}:{path}:"),
                format!(":{pat}:{path}"),
                format!(":{pat}:{path}:"),
                format!("{pat}:::{path}"),
            ] {
                if s.matches(':').count() == 1 {
                    continue;
                }
                assert!(
                    matches!(Depend::new(&s), Err(DependError::Invalid)),
                    "{s:?}"
                );
            }
        }
    }
    assert!(matches!(Depend::new(""), Err(DependError::Invalid)));
    assert!(Depend::new(":").is_err());
    let long = "x".repeat(100_000);
    assert!(matches!(Depend::new(&long), Err(DependError::Invalid)));
    assert!(matches!(
        Depend::new(&":".repeat(100_000)),
        Err(DependError::Invalid)
    ));
}
