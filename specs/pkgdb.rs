// Unit pkgdb: src/pkgdb.rs and src/metadata.rs -- package database iteration over an uninterpreted file system,
// MetadataEntry <-> file name tables, Metadata::is_valid (C20, C17)
//@ unit pkgdb
#![allow(unused_imports)]
use vstd::prelude::*;
use vstd::utf8::*;
use vstd::string::*;
use std::ffi::{OsStr, OsString};
use std::os::unix::ffi::{OsStrExt, OsStringExt};
use std::path::{Path, PathBuf};
use std::fs;
use std::fs::{ReadDir, DirEntry};
use std::io;
use std::string::FromUtf8Error;
use vstd::std_specs::iter::IteratorSpec;
verus! {

//@ include lib/std_str.rs
//@ include lib/std_os.rs

#[verifier::external_type_specification]
#[verifier::external_body]
pub struct ExIoError(io::Error);
#[verifier::external_type_specification]
#[verifier::external_body]
pub struct ExFromUtf8Error(FromUtf8Error);
#[verifier::external_type_specification]
#[verifier::external_body]
pub struct ExReadDir(ReadDir);
#[verifier::external_type_specification]
#[verifier::external_body]
pub struct ExDirEntry(DirEntry);

// ---------------- src/metadata.rs ----------------
//@ extract src/metadata.rs : enum MetadataEntry
pub enum MetadataEntry {
    BuildInfo,
    BuildVersion,
    Comment,
    Contents,
    DeInstall,
    Desc,
    Display,
    Install,
    InstalledInfo,
    MtreeDirs,
    Preserve,
    RequiredBy,
    SizeAll,
    SizePkg,
}
//@ end
pub open spec fn fname_of(e: MetadataEntry) -> Seq<char> { match e { MetadataEntry::BuildInfo => "+BUILD_INFO"@, MetadataEntry::BuildVersion => "+BUILD_VERSION"@, MetadataEntry::Comment => "+COMMENT"@, MetadataEntry::Contents => "+CONTENTS"@, MetadataEntry::DeInstall => "+DEINSTALL"@, MetadataEntry::Desc => "+DESC"@, MetadataEntry::Display => "+DISPLAY"@, MetadataEntry::Install => "+INSTALL"@, MetadataEntry::InstalledInfo => "+INSTALLED_INFO"@, MetadataEntry::MtreeDirs => "+MTREE_DIRS"@, MetadataEntry::Preserve => "+PRESERVE"@, MetadataEntry::RequiredBy => "+REQUIRED_BY"@, MetadataEntry::SizeAll => "+SIZE_ALL"@, MetadataEntry::SizePkg => "+SIZE_PKG"@, } }
pub open spec fn entry_of(n: Seq<char>) -> Option<MetadataEntry> {
    if n == "+BUILD_INFO"@ { Some(MetadataEntry::BuildInfo) }
    else if n == "+BUILD_VERSION"@ { Some(MetadataEntry::BuildVersion) }
    else if n == "+COMMENT"@ { Some(MetadataEntry::Comment) }
    else if n == "+CONTENTS"@ { Some(MetadataEntry::Contents) }
    else if n == "+DEINSTALL"@ { Some(MetadataEntry::DeInstall) }
    else if n == "+DESC"@ { Some(MetadataEntry::Desc) }
    else if n == "+DISPLAY"@ { Some(MetadataEntry::Display) }
    else if n == "+INSTALL"@ { Some(MetadataEntry::Install) }
    else if n == "+INSTALLED_INFO"@ { Some(MetadataEntry::InstalledInfo) }
    else if n == "+MTREE_DIRS"@ { Some(MetadataEntry::MtreeDirs) }
    else if n == "+PRESERVE"@ { Some(MetadataEntry::Preserve) }
    else if n == "+REQUIRED_BY"@ { Some(MetadataEntry::RequiredBy) }
    else if n == "+SIZE_ALL"@ { Some(MetadataEntry::SizeAll) }
    else if n == "+SIZE_PKG"@ { Some(MetadataEntry::SizePkg) }
    else { None }
}
impl MetadataEntry {
//@ extract src/metadata.rs : impl MetadataEntry fn to_filename
    pub fn to_filename(&self) -> (r: &str)
        ensures r@ == fname_of(*self)
    {
        match self {
            MetadataEntry::BuildInfo => "+BUILD_INFO",
            MetadataEntry::BuildVersion => "+BUILD_VERSION",
            MetadataEntry::Comment => "+COMMENT",
            MetadataEntry::Contents => "+CONTENTS",
            MetadataEntry::DeInstall => "+DEINSTALL",
            MetadataEntry::Desc => "+DESC",
            MetadataEntry::Display => "+DISPLAY",
            MetadataEntry::Install => "+INSTALL",
            MetadataEntry::InstalledInfo => "+INSTALLED_INFO",
            MetadataEntry::MtreeDirs => "+MTREE_DIRS",
            MetadataEntry::Preserve => "+PRESERVE",
            MetadataEntry::RequiredBy => "+REQUIRED_BY",
            MetadataEntry::SizeAll => "+SIZE_ALL",
            MetadataEntry::SizePkg => "+SIZE_PKG",
        }
    }
//@ end
//@ extract src/metadata.rs : impl MetadataEntry fn from_filename
    pub fn from_filename(file: &str) -> (r: Option<MetadataEntry>)
        ensures r == entry_of(file@)
    {
        proof {
            assert forall|t: &str| (t == "+BUILD_INFO") == (#[trigger] t@ == "+BUILD_INFO"@) by { axiom_str_ext(t, "+BUILD_INFO"); }
            assert forall|t: &str| (t == "+BUILD_VERSION") == (#[trigger] t@ == "+BUILD_VERSION"@) by { axiom_str_ext(t, "+BUILD_VERSION"); }
            assert forall|t: &str| (t == "+COMMENT") == (#[trigger] t@ == "+COMMENT"@) by { axiom_str_ext(t, "+COMMENT"); }
            assert forall|t: &str| (t == "+CONTENTS") == (#[trigger] t@ == "+CONTENTS"@) by { axiom_str_ext(t, "+CONTENTS"); }
            assert forall|t: &str| (t == "+DEINSTALL") == (#[trigger] t@ == "+DEINSTALL"@) by { axiom_str_ext(t, "+DEINSTALL"); }
            assert forall|t: &str| (t == "+DESC") == (#[trigger] t@ == "+DESC"@) by { axiom_str_ext(t, "+DESC"); }
            assert forall|t: &str| (t == "+DISPLAY") == (#[trigger] t@ == "+DISPLAY"@) by { axiom_str_ext(t, "+DISPLAY"); }
            assert forall|t: &str| (t == "+INSTALL") == (#[trigger] t@ == "+INSTALL"@) by { axiom_str_ext(t, "+INSTALL"); }
            assert forall|t: &str| (t == "+INSTALLED_INFO") == (#[trigger] t@ == "+INSTALLED_INFO"@) by { axiom_str_ext(t, "+INSTALLED_INFO"); }
            assert forall|t: &str| (t == "+MTREE_DIRS") == (#[trigger] t@ == "+MTREE_DIRS"@) by { axiom_str_ext(t, "+MTREE_DIRS"); }
            assert forall|t: &str| (t == "+PRESERVE") == (#[trigger] t@ == "+PRESERVE"@) by { axiom_str_ext(t, "+PRESERVE"); }
            assert forall|t: &str| (t == "+REQUIRED_BY") == (#[trigger] t@ == "+REQUIRED_BY"@) by { axiom_str_ext(t, "+REQUIRED_BY"); }
            assert forall|t: &str| (t == "+SIZE_ALL") == (#[trigger] t@ == "+SIZE_ALL"@) by { axiom_str_ext(t, "+SIZE_ALL"); }
            assert forall|t: &str| (t == "+SIZE_PKG") == (#[trigger] t@ == "+SIZE_PKG"@) by { axiom_str_ext(t, "+SIZE_PKG"); }
        }
        match file {
            "+BUILD_INFO" => Some(MetadataEntry::BuildInfo),
            "+BUILD_VERSION" => Some(MetadataEntry::BuildVersion),
            "+COMMENT" => Some(MetadataEntry::Comment),
            "+CONTENTS" => Some(MetadataEntry::Contents),
            "+DEINSTALL" => Some(MetadataEntry::DeInstall),
            "+DESC" => Some(MetadataEntry::Desc),
            "+DISPLAY" => Some(MetadataEntry::Display),
            "+INSTALL" => Some(MetadataEntry::Install),
            "+INSTALLED_INFO" => Some(MetadataEntry::InstalledInfo),
            "+MTREE_DIRS" => Some(MetadataEntry::MtreeDirs),
            "+PRESERVE" => Some(MetadataEntry::Preserve),
            "+REQUIRED_BY" => Some(MetadataEntry::RequiredBy),
            "+SIZE_ALL" => Some(MetadataEntry::SizeAll),
            "+SIZE_PKG" => Some(MetadataEntry::SizePkg),
            _ => None,
        }
    }
//@ end
}
/// C20: MetadataEntry <-> file-name conversion is a bijection over the 14 '+' files
pub proof fn lemma_metadata_names_bijective(e: MetadataEntry, n: Seq<char>)
    ensures entry_of(fname_of(e)) == Some(e), entry_of(n) is Some ==> fname_of(entry_of(n)->Some_0) == n
{
    reveal_strlit("+BUILD_INFO");
    reveal_strlit("+BUILD_VERSION");
    reveal_strlit("+COMMENT");
    reveal_strlit("+CONTENTS");
    reveal_strlit("+DEINSTALL");
    reveal_strlit("+DESC");
    reveal_strlit("+DISPLAY");
    reveal_strlit("+INSTALL");
    reveal_strlit("+INSTALLED_INFO");
    reveal_strlit("+MTREE_DIRS");
    reveal_strlit("+PRESERVE");
    reveal_strlit("+REQUIRED_BY");
    reveal_strlit("+SIZE_ALL");
    reveal_strlit("+SIZE_PKG");
    assert("+BUILD_INFO"@ != "+BUILD_VERSION"@) by { assert("+BUILD_INFO"@.len() != "+BUILD_VERSION"@.len()); }
    assert("+BUILD_INFO"@ != "+COMMENT"@) by { assert("+BUILD_INFO"@.len() != "+COMMENT"@.len()); }
    assert("+BUILD_VERSION"@ != "+COMMENT"@) by { assert("+BUILD_VERSION"@.len() != "+COMMENT"@.len()); }
    assert("+BUILD_INFO"@ != "+CONTENTS"@) by { assert("+BUILD_INFO"@.len() != "+CONTENTS"@.len()); }
    assert("+BUILD_VERSION"@ != "+CONTENTS"@) by { assert("+BUILD_VERSION"@.len() != "+CONTENTS"@.len()); }
    assert("+COMMENT"@ != "+CONTENTS"@) by { assert("+COMMENT"@.len() != "+CONTENTS"@.len()); }
    assert("+BUILD_INFO"@ != "+DEINSTALL"@) by { assert("+BUILD_INFO"@.len() != "+DEINSTALL"@.len()); }
    assert("+BUILD_VERSION"@ != "+DEINSTALL"@) by { assert("+BUILD_VERSION"@.len() != "+DEINSTALL"@.len()); }
    assert("+COMMENT"@ != "+DEINSTALL"@) by { assert("+COMMENT"@.len() != "+DEINSTALL"@.len()); }
    assert("+CONTENTS"@ != "+DEINSTALL"@) by { assert("+CONTENTS"@.len() != "+DEINSTALL"@.len()); }
    assert("+BUILD_INFO"@ != "+DESC"@) by { assert("+BUILD_INFO"@.len() != "+DESC"@.len()); }
    assert("+BUILD_VERSION"@ != "+DESC"@) by { assert("+BUILD_VERSION"@.len() != "+DESC"@.len()); }
    assert("+COMMENT"@ != "+DESC"@) by { assert("+COMMENT"@.len() != "+DESC"@.len()); }
    assert("+CONTENTS"@ != "+DESC"@) by { assert("+CONTENTS"@.len() != "+DESC"@.len()); }
    assert("+DEINSTALL"@ != "+DESC"@) by { assert("+DEINSTALL"@.len() != "+DESC"@.len()); }
    assert("+BUILD_INFO"@ != "+DISPLAY"@) by { assert("+BUILD_INFO"@.len() != "+DISPLAY"@.len()); }
    assert("+BUILD_VERSION"@ != "+DISPLAY"@) by { assert("+BUILD_VERSION"@.len() != "+DISPLAY"@.len()); }
    assert("+COMMENT"@ != "+DISPLAY"@) by { assert("+COMMENT"@[1] != "+DISPLAY"@[1]); }
    assert("+CONTENTS"@ != "+DISPLAY"@) by { assert("+CONTENTS"@.len() != "+DISPLAY"@.len()); }
    assert("+DEINSTALL"@ != "+DISPLAY"@) by { assert("+DEINSTALL"@.len() != "+DISPLAY"@.len()); }
    assert("+DESC"@ != "+DISPLAY"@) by { assert("+DESC"@.len() != "+DISPLAY"@.len()); }
    assert("+BUILD_INFO"@ != "+INSTALL"@) by { assert("+BUILD_INFO"@.len() != "+INSTALL"@.len()); }
    assert("+BUILD_VERSION"@ != "+INSTALL"@) by { assert("+BUILD_VERSION"@.len() != "+INSTALL"@.len()); }
    assert("+COMMENT"@ != "+INSTALL"@) by { assert("+COMMENT"@[1] != "+INSTALL"@[1]); }
    assert("+CONTENTS"@ != "+INSTALL"@) by { assert("+CONTENTS"@.len() != "+INSTALL"@.len()); }
    assert("+DEINSTALL"@ != "+INSTALL"@) by { assert("+DEINSTALL"@.len() != "+INSTALL"@.len()); }
    assert("+DESC"@ != "+INSTALL"@) by { assert("+DESC"@.len() != "+INSTALL"@.len()); }
    assert("+DISPLAY"@ != "+INSTALL"@) by { assert("+DISPLAY"@[1] != "+INSTALL"@[1]); }
    assert("+BUILD_INFO"@ != "+INSTALLED_INFO"@) by { assert("+BUILD_INFO"@.len() != "+INSTALLED_INFO"@.len()); }
    assert("+BUILD_VERSION"@ != "+INSTALLED_INFO"@) by { assert("+BUILD_VERSION"@.len() != "+INSTALLED_INFO"@.len()); }
    assert("+COMMENT"@ != "+INSTALLED_INFO"@) by { assert("+COMMENT"@.len() != "+INSTALLED_INFO"@.len()); }
    assert("+CONTENTS"@ != "+INSTALLED_INFO"@) by { assert("+CONTENTS"@.len() != "+INSTALLED_INFO"@.len()); }
    assert("+DEINSTALL"@ != "+INSTALLED_INFO"@) by { assert("+DEINSTALL"@.len() != "+INSTALLED_INFO"@.len()); }
    assert("+DESC"@ != "+INSTALLED_INFO"@) by { assert("+DESC"@.len() != "+INSTALLED_INFO"@.len()); }
    assert("+DISPLAY"@ != "+INSTALLED_INFO"@) by { assert("+DISPLAY"@.len() != "+INSTALLED_INFO"@.len()); }
    assert("+INSTALL"@ != "+INSTALLED_INFO"@) by { assert("+INSTALL"@.len() != "+INSTALLED_INFO"@.len()); }
    assert("+BUILD_INFO"@ != "+MTREE_DIRS"@) by { assert("+BUILD_INFO"@[1] != "+MTREE_DIRS"@[1]); }
    assert("+BUILD_VERSION"@ != "+MTREE_DIRS"@) by { assert("+BUILD_VERSION"@.len() != "+MTREE_DIRS"@.len()); }
    assert("+COMMENT"@ != "+MTREE_DIRS"@) by { assert("+COMMENT"@.len() != "+MTREE_DIRS"@.len()); }
    assert("+CONTENTS"@ != "+MTREE_DIRS"@) by { assert("+CONTENTS"@.len() != "+MTREE_DIRS"@.len()); }
    assert("+DEINSTALL"@ != "+MTREE_DIRS"@) by { assert("+DEINSTALL"@.len() != "+MTREE_DIRS"@.len()); }
    assert("+DESC"@ != "+MTREE_DIRS"@) by { assert("+DESC"@.len() != "+MTREE_DIRS"@.len()); }
    assert("+DISPLAY"@ != "+MTREE_DIRS"@) by { assert("+DISPLAY"@.len() != "+MTREE_DIRS"@.len()); }
    assert("+INSTALL"@ != "+MTREE_DIRS"@) by { assert("+INSTALL"@.len() != "+MTREE_DIRS"@.len()); }
    assert("+INSTALLED_INFO"@ != "+MTREE_DIRS"@) by { assert("+INSTALLED_INFO"@.len() != "+MTREE_DIRS"@.len()); }
    assert("+BUILD_INFO"@ != "+PRESERVE"@) by { assert("+BUILD_INFO"@.len() != "+PRESERVE"@.len()); }
    assert("+BUILD_VERSION"@ != "+PRESERVE"@) by { assert("+BUILD_VERSION"@.len() != "+PRESERVE"@.len()); }
    assert("+COMMENT"@ != "+PRESERVE"@) by { assert("+COMMENT"@.len() != "+PRESERVE"@.len()); }
    assert("+CONTENTS"@ != "+PRESERVE"@) by { assert("+CONTENTS"@[1] != "+PRESERVE"@[1]); }
    assert("+DEINSTALL"@ != "+PRESERVE"@) by { assert("+DEINSTALL"@.len() != "+PRESERVE"@.len()); }
    assert("+DESC"@ != "+PRESERVE"@) by { assert("+DESC"@.len() != "+PRESERVE"@.len()); }
    assert("+DISPLAY"@ != "+PRESERVE"@) by { assert("+DISPLAY"@.len() != "+PRESERVE"@.len()); }
    assert("+INSTALL"@ != "+PRESERVE"@) by { assert("+INSTALL"@.len() != "+PRESERVE"@.len()); }
    assert("+INSTALLED_INFO"@ != "+PRESERVE"@) by { assert("+INSTALLED_INFO"@.len() != "+PRESERVE"@.len()); }
    assert("+MTREE_DIRS"@ != "+PRESERVE"@) by { assert("+MTREE_DIRS"@.len() != "+PRESERVE"@.len()); }
    assert("+BUILD_INFO"@ != "+REQUIRED_BY"@) by { assert("+BUILD_INFO"@.len() != "+REQUIRED_BY"@.len()); }
    assert("+BUILD_VERSION"@ != "+REQUIRED_BY"@) by { assert("+BUILD_VERSION"@.len() != "+REQUIRED_BY"@.len()); }
    assert("+COMMENT"@ != "+REQUIRED_BY"@) by { assert("+COMMENT"@.len() != "+REQUIRED_BY"@.len()); }
    assert("+CONTENTS"@ != "+REQUIRED_BY"@) by { assert("+CONTENTS"@.len() != "+REQUIRED_BY"@.len()); }
    assert("+DEINSTALL"@ != "+REQUIRED_BY"@) by { assert("+DEINSTALL"@.len() != "+REQUIRED_BY"@.len()); }
    assert("+DESC"@ != "+REQUIRED_BY"@) by { assert("+DESC"@.len() != "+REQUIRED_BY"@.len()); }
    assert("+DISPLAY"@ != "+REQUIRED_BY"@) by { assert("+DISPLAY"@.len() != "+REQUIRED_BY"@.len()); }
    assert("+INSTALL"@ != "+REQUIRED_BY"@) by { assert("+INSTALL"@.len() != "+REQUIRED_BY"@.len()); }
    assert("+INSTALLED_INFO"@ != "+REQUIRED_BY"@) by { assert("+INSTALLED_INFO"@.len() != "+REQUIRED_BY"@.len()); }
    assert("+MTREE_DIRS"@ != "+REQUIRED_BY"@) by { assert("+MTREE_DIRS"@.len() != "+REQUIRED_BY"@.len()); }
    assert("+PRESERVE"@ != "+REQUIRED_BY"@) by { assert("+PRESERVE"@.len() != "+REQUIRED_BY"@.len()); }
    assert("+BUILD_INFO"@ != "+SIZE_ALL"@) by { assert("+BUILD_INFO"@.len() != "+SIZE_ALL"@.len()); }
    assert("+BUILD_VERSION"@ != "+SIZE_ALL"@) by { assert("+BUILD_VERSION"@.len() != "+SIZE_ALL"@.len()); }
    assert("+COMMENT"@ != "+SIZE_ALL"@) by { assert("+COMMENT"@.len() != "+SIZE_ALL"@.len()); }
    assert("+CONTENTS"@ != "+SIZE_ALL"@) by { assert("+CONTENTS"@[1] != "+SIZE_ALL"@[1]); }
    assert("+DEINSTALL"@ != "+SIZE_ALL"@) by { assert("+DEINSTALL"@.len() != "+SIZE_ALL"@.len()); }
    assert("+DESC"@ != "+SIZE_ALL"@) by { assert("+DESC"@.len() != "+SIZE_ALL"@.len()); }
    assert("+DISPLAY"@ != "+SIZE_ALL"@) by { assert("+DISPLAY"@.len() != "+SIZE_ALL"@.len()); }
    assert("+INSTALL"@ != "+SIZE_ALL"@) by { assert("+INSTALL"@.len() != "+SIZE_ALL"@.len()); }
    assert("+INSTALLED_INFO"@ != "+SIZE_ALL"@) by { assert("+INSTALLED_INFO"@.len() != "+SIZE_ALL"@.len()); }
    assert("+MTREE_DIRS"@ != "+SIZE_ALL"@) by { assert("+MTREE_DIRS"@.len() != "+SIZE_ALL"@.len()); }
    assert("+PRESERVE"@ != "+SIZE_ALL"@) by { assert("+PRESERVE"@[1] != "+SIZE_ALL"@[1]); }
    assert("+REQUIRED_BY"@ != "+SIZE_ALL"@) by { assert("+REQUIRED_BY"@.len() != "+SIZE_ALL"@.len()); }
    assert("+BUILD_INFO"@ != "+SIZE_PKG"@) by { assert("+BUILD_INFO"@.len() != "+SIZE_PKG"@.len()); }
    assert("+BUILD_VERSION"@ != "+SIZE_PKG"@) by { assert("+BUILD_VERSION"@.len() != "+SIZE_PKG"@.len()); }
    assert("+COMMENT"@ != "+SIZE_PKG"@) by { assert("+COMMENT"@.len() != "+SIZE_PKG"@.len()); }
    assert("+CONTENTS"@ != "+SIZE_PKG"@) by { assert("+CONTENTS"@[1] != "+SIZE_PKG"@[1]); }
    assert("+DEINSTALL"@ != "+SIZE_PKG"@) by { assert("+DEINSTALL"@.len() != "+SIZE_PKG"@.len()); }
    assert("+DESC"@ != "+SIZE_PKG"@) by { assert("+DESC"@.len() != "+SIZE_PKG"@.len()); }
    assert("+DISPLAY"@ != "+SIZE_PKG"@) by { assert("+DISPLAY"@.len() != "+SIZE_PKG"@.len()); }
    assert("+INSTALL"@ != "+SIZE_PKG"@) by { assert("+INSTALL"@.len() != "+SIZE_PKG"@.len()); }
    assert("+INSTALLED_INFO"@ != "+SIZE_PKG"@) by { assert("+INSTALLED_INFO"@.len() != "+SIZE_PKG"@.len()); }
    assert("+MTREE_DIRS"@ != "+SIZE_PKG"@) by { assert("+MTREE_DIRS"@.len() != "+SIZE_PKG"@.len()); }
    assert("+PRESERVE"@ != "+SIZE_PKG"@) by { assert("+PRESERVE"@[1] != "+SIZE_PKG"@[1]); }
    assert("+REQUIRED_BY"@ != "+SIZE_PKG"@) by { assert("+REQUIRED_BY"@.len() != "+SIZE_PKG"@.len()); }
    assert("+SIZE_ALL"@ != "+SIZE_PKG"@) by { assert("+SIZE_ALL"@[6] != "+SIZE_PKG"@[6]); }
}

//@ extract src/metadata.rs : struct Metadata
pub struct Metadata {
    build_info: Option<Vec<String>>,
    build_version: Option<Vec<String>>,
    comment: String,
    contents: String,
    deinstall: Option<String>,
    desc: String,
    display: Option<String>,
    install: Option<String>,
    installed_info: Option<Vec<String>>,
    mtree_dirs: Option<Vec<String>>,
    preserve: Option<Vec<String>>,
    required_by: Option<Vec<String>>,
    size_all: Option<i64>,
    size_pkg: Option<i64>,
}
//@ end
impl Metadata {
    pub closed spec fn comment_v(&self) -> Seq<char> { self.comment@ }
    pub closed spec fn contents_v(&self) -> Seq<char> { self.contents@ }
    pub closed spec fn desc_v(&self) -> Seq<char> { self.desc@ }
//@ extract src/metadata.rs : impl Metadata fn is_valid
    pub fn is_valid(&self) -> (r: Result<(), &'static str>)
        ensures r is Ok <==> (self.comment_v().len() > 0 && self.contents_v().len() > 0 && self.desc_v().len() > 0)
    {
        if self.comment.is_empty() {
            return Err("Missing or empty +COMMENT");
        }
        if self.contents.is_empty() {
            return Err("Missing or empty +CONTENTS");
        }
        if self.desc.is_empty() {
            return Err("Missing or empty +DESC");
        }
        Ok(())
    }
//@ end
}

pub struct MetaV { pub build_info: Option<Seq<Seq<char>>>, pub build_version: Option<Seq<Seq<char>>>, pub comment: Seq<char>, pub contents: Seq<char>, pub deinstall: Option<Seq<char>>, pub desc: Seq<char>, pub display: Option<Seq<char>>, pub install: Option<Seq<char>>, pub installed_info: Option<Seq<Seq<char>>>, pub mtree_dirs: Option<Seq<Seq<char>>>, pub preserve: Option<Seq<Seq<char>>>, pub required_by: Option<Seq<Seq<char>>>, pub size_all: Option<int>, pub size_pkg: Option<int> }
pub open spec fn vs_view(v: Seq<String>) -> Seq<Seq<char>> { Seq::new(v.len(), |i: int| v[i]@) }
pub open spec fn mv_empty() -> MetaV { MetaV { build_info: None, build_version: None, comment: Seq::<char>::empty(), contents: Seq::<char>::empty(), deinstall: None, desc: Seq::<char>::empty(), display: None, install: None, installed_info: None, mtree_dirs: None, preserve: None, required_by: None, size_all: None, size_pkg: None } }
/// what registering one metadata file does: the text is trimmed; list-valued entries become its lines, the three mandatory texts are
/// APPENDED to, optional texts are replaced, the two sizes must be i64 text (otherwise an error and nothing changes)
pub open spec fn read_spec(m: MetaV, e: MetadataEntry, value: Seq<char>) -> core::result::Result<MetaV, ()> {
    let v = trimmed(value);
    let ls = lines_spec(v);
    match e {
        MetadataEntry::BuildInfo => Ok(MetaV { build_info: Some(ls), ..m }),
        MetadataEntry::BuildVersion => Ok(MetaV { build_version: Some(ls), ..m }),
        MetadataEntry::Comment => Ok(MetaV { comment: m.comment + v, ..m }),
        MetadataEntry::Contents => Ok(MetaV { contents: m.contents + v, ..m }),
        MetadataEntry::DeInstall => Ok(MetaV { deinstall: Some(v), ..m }),
        MetadataEntry::Desc => Ok(MetaV { desc: m.desc + v, ..m }),
        MetadataEntry::Display => Ok(MetaV { display: Some(v), ..m }),
        MetadataEntry::Install => Ok(MetaV { install: Some(v), ..m }),
        MetadataEntry::InstalledInfo => Ok(MetaV { installed_info: Some(ls), ..m }),
        MetadataEntry::MtreeDirs => Ok(MetaV { mtree_dirs: Some(ls), ..m }),
        MetadataEntry::Preserve => Ok(MetaV { preserve: Some(ls), ..m }),
        MetadataEntry::RequiredBy => Ok(MetaV { required_by: Some(ls), ..m }),
        MetadataEntry::SizeAll => match i64_text_value(v) { Some(n) => Ok(MetaV { size_all: Some(n), ..m }), None => Err(()) },
        MetadataEntry::SizePkg => match i64_text_value(v) { Some(n) => Ok(MetaV { size_pkg: Some(n), ..m }), None => Err(()) },
    }
}
impl Default for Metadata {
    fn default() -> (r: Metadata) ensures r.mv() == mv_empty()
    {
        let r = Metadata { build_info: None, build_version: None, comment: String::new(), contents: String::new(), deinstall: None, desc: String::new(), display: None, install: None, installed_info: None, mtree_dirs: None, preserve: None, required_by: None, size_all: None, size_pkg: None };
        r
    }
}
impl Metadata {
    pub closed spec fn mv(&self) -> MetaV { MetaV { build_info: (match self.build_info { Some(v) => Some(vs_view(v@)), None => None }), build_version: (match self.build_version { Some(v) => Some(vs_view(v@)), None => None }), comment: self.comment@, contents: self.contents@, deinstall: (match self.deinstall { Some(v) => Some(v@), None => None }), desc: self.desc@, display: (match self.display { Some(v) => Some(v@), None => None }), install: (match self.install { Some(v) => Some(v@), None => None }), installed_info: (match self.installed_info { Some(v) => Some(vs_view(v@)), None => None }), mtree_dirs: (match self.mtree_dirs { Some(v) => Some(vs_view(v@)), None => None }), preserve: (match self.preserve { Some(v) => Some(vs_view(v@)), None => None }), required_by: (match self.required_by { Some(v) => Some(vs_view(v@)), None => None }), size_all: (match self.size_all { Some(v) => Some(v as int), None => None }), size_pkg: (match self.size_pkg { Some(v) => Some(v as int), None => None }) } }
//@ extract src/metadata.rs : impl Metadata fn new
    pub fn new() -> (r: Metadata)
        ensures r.mv() == mv_empty()
    {
        let metadata: Metadata = Default::default();
        metadata
    }
//@ end
//@ extract src/metadata.rs : impl Metadata fn build_info
    pub fn build_info(&self) -> (r: &Option<Vec<String>>)
        ensures (match *r { Some(v) => self.mv().build_info == Some(vs_view(v@)), None => self.mv().build_info is None })
    {
        &self.build_info
    }
//@ end
//@ extract src/metadata.rs : impl Metadata fn build_version
    pub fn build_version(&self) -> (r: &Option<Vec<String>>)
        ensures (match *r { Some(v) => self.mv().build_version == Some(vs_view(v@)), None => self.mv().build_version is None })
    {
        &self.build_version
    }
//@ end
//@ extract src/metadata.rs : impl Metadata fn comment
    pub fn comment(&self) -> (r: &String)
        ensures r@ == self.mv().comment
    {
        &self.comment
    }
//@ end
//@ extract src/metadata.rs : impl Metadata fn contents
    pub fn contents(&self) -> (r: &String)
        ensures r@ == self.mv().contents
    {
        &self.contents
    }
//@ end
//@ extract src/metadata.rs : impl Metadata fn deinstall
    pub fn deinstall(&self) -> (r: &Option<String>)
        ensures (match *r { Some(v) => self.mv().deinstall == Some(v@), None => self.mv().deinstall is None })
    {
        &self.deinstall
    }
//@ end
//@ extract src/metadata.rs : impl Metadata fn desc
    pub fn desc(&self) -> (r: &String)
        ensures r@ == self.mv().desc
    {
        &self.desc
    }
//@ end
//@ extract src/metadata.rs : impl Metadata fn display
    pub fn display(&self) -> (r: &Option<String>)
        ensures (match *r { Some(v) => self.mv().display == Some(v@), None => self.mv().display is None })
    {
        &self.display
    }
//@ end
//@ extract src/metadata.rs : impl Metadata fn install
    pub fn install(&self) -> (r: &Option<String>)
        ensures (match *r { Some(v) => self.mv().install == Some(v@), None => self.mv().install is None })
    {
        &self.install
    }
//@ end
//@ extract src/metadata.rs : impl Metadata fn installed_info
    pub fn installed_info(&self) -> (r: &Option<Vec<String>>)
        ensures (match *r { Some(v) => self.mv().installed_info == Some(vs_view(v@)), None => self.mv().installed_info is None })
    {
        &self.installed_info
    }
//@ end
//@ extract src/metadata.rs : impl Metadata fn mtree_dirs
    pub fn mtree_dirs(&self) -> (r: &Option<Vec<String>>)
        ensures (match *r { Some(v) => self.mv().mtree_dirs == Some(vs_view(v@)), None => self.mv().mtree_dirs is None })
    {
        &self.mtree_dirs
    }
//@ end
//@ extract src/metadata.rs : impl Metadata fn preserve
    pub fn preserve(&self) -> (r: &Option<Vec<String>>)
        ensures (match *r { Some(v) => self.mv().preserve == Some(vs_view(v@)), None => self.mv().preserve is None })
    {
        &self.preserve
    }
//@ end
//@ extract src/metadata.rs : impl Metadata fn required_by
    pub fn required_by(&self) -> (r: &Option<Vec<String>>)
        ensures (match *r { Some(v) => self.mv().required_by == Some(vs_view(v@)), None => self.mv().required_by is None })
    {
        &self.required_by
    }
//@ end
//@ extract src/metadata.rs : impl Metadata fn size_all
    pub fn size_all(&self) -> (r: &Option<i64>)
        ensures (match *r { Some(v) => self.mv().size_all == Some(v as int), None => self.mv().size_all is None })
    {
        &self.size_all
    }
//@ end
//@ extract src/metadata.rs : impl Metadata fn size_pkg
    pub fn size_pkg(&self) -> (r: &Option<i64>)
        ensures (match *r { Some(v) => self.mv().size_pkg == Some(v as int), None => self.mv().size_pkg is None })
    {
        &self.size_pkg
    }
//@ end
//@ extract src/metadata.rs : impl Metadata fn read_metadata
//@ rewrite D6.trim_to_string D6.parse_i64_full_string D6.string_lines
    pub fn read_metadata(
        &mut self,
        entry: MetadataEntry,
        value: &str,
    ) -> (r: Result<(), &'static str>)
        ensures (match read_spec(old(self).mv(), entry, value@) { Ok(m2) => r is Ok && final(self).mv() == m2, Err(_) => r is Err && final(self).mv() == old(self).mv() })
    {
        /*
         * Set up various variable types that may be used.
         *
         * XXX: I'm not 100% sure .trim() is correct here, it might need to be
         * modified to only strip newlines rather than all whitespace.
         */
        let val_string = value.trim().to_string();
        let val_i64 = val_string.parse::<i64>();
        let mut val_vec = vec![];
        let ghost ls = lines_spec(val_string@);
        for line in it: val_string.lines()
            invariant
                ls == lines_spec(val_string@),
                it.snapshot@.remaining().len() == ls.len(),
                forall|i: int| 0 <= i < ls.len() ==> (#[trigger] it.snapshot@.remaining()[i])@ == ls[i],
                vs_view(val_vec@) =~= ls.take(it.index@ as int),
        {
            let ghost v0 = val_vec@;
            let ghost k = it.index@ as int;
            val_vec.push(line.to_string());
            proof {
                assert(ls.take(k + 1) =~= ls.take(k).push(ls[k]));
                assert(vs_view(val_vec@) =~= vs_view(v0).push(ls[k]));
            }
        }
        proof { assert(ls.take(ls.len() as int) =~= ls); }

        match entry {
            MetadataEntry::BuildInfo => self.build_info = Some(val_vec),
            MetadataEntry::BuildVersion => self.build_version = Some(val_vec),
            MetadataEntry::Comment => self.comment.push_str(&val_string),
            MetadataEntry::Contents => self.contents.push_str(&val_string),
            MetadataEntry::DeInstall => self.deinstall = Some(val_string),
            MetadataEntry::Desc => self.desc.push_str(&val_string),
            MetadataEntry::Display => self.display = Some(val_string),
            MetadataEntry::Install => self.install = Some(val_string),
            MetadataEntry::InstalledInfo => self.installed_info = Some(val_vec),
            MetadataEntry::MtreeDirs => self.mtree_dirs = Some(val_vec),
            MetadataEntry::Preserve => self.preserve = Some(val_vec),
            MetadataEntry::RequiredBy => self.required_by = Some(val_vec),
            MetadataEntry::SizeAll => {
                self.size_all = Some(val_i64.or(Err("Invalid +SIZE_ALL"))?)
            }
            MetadataEntry::SizePkg => {
                self.size_pkg = Some(val_i64.or(Err("Invalid +SIZE_PKG"))?)
            }
        }

        Ok(())
    }
//@ end
}

// ---------------- the file system as uninterpreted world functions ----------------
pub uninterp spec fn w_is_file(p: Seq<u8>) -> bool;
pub uninterp spec fn w_exists(dir: Seq<u8>, name: Seq<char>) -> bool;
/// a directory holding +COMMENT, +CONTENTS and +DESC (and not a plain file)
pub open spec fn valid_pkgdir(p: Seq<u8>) -> bool {
    !w_is_file(p) && w_exists(p, "+COMMENT"@) && w_exists(p, "+CONTENTS"@) && w_exists(p, "+DESC"@)
}
#[verifier::external_body]
fn shim_path_is_file(p: &Path) -> (r: bool) ensures r == w_is_file(pab(p)) { p.is_file() }
#[verifier::external_body]
fn shim_path_join_exists(p: &Path, name: &str) -> (r: bool) ensures r == w_exists(pab(p), name@) { p.join(name).exists() }
/// what a ReadDir still has to yield: Ok((path bytes, name bytes)) or an I/O error
pub uninterp spec fn rd_rest(rd: ReadDir) -> Seq<core::result::Result<(Seq<u8>, Seq<u8>), ()>>;
pub uninterp spec fn de_path(d: &DirEntry) -> Seq<u8>;
pub uninterp spec fn de_name(d: &DirEntry) -> Seq<u8>;
#[verifier::external_body]
fn shim_readdir_next(rd: &mut Option<ReadDir>) -> (r: Option<io::Result<DirEntry>>)
    requires *old(rd) is Some
    ensures *final(rd) is Some,
        (if rd_rest((*old(rd))->Some_0).len() == 0 { r is None && rd_rest((*final(rd))->Some_0) == rd_rest((*old(rd))->Some_0) }
         else { r is Some && rd_rest((*final(rd))->Some_0) == rd_rest((*old(rd))->Some_0).skip(1)
                && (match rd_rest((*old(rd))->Some_0)[0] { Ok(e) => r->Some_0 is Ok && de_path(&r->Some_0->Ok_0) == e.0 && de_name(&r->Some_0->Ok_0) == e.1, Err(_) => r->Some_0 is Err }) })
{ rd.as_mut().expect("Bad pkgdb read").next() }
pub uninterp spec fn w_is_dir(p: Seq<u8>) -> bool;
/// the entries a directory listing will yield (None: the directory cannot be read)
pub uninterp spec fn w_read_dir(p: Seq<u8>) -> Option<Seq<core::result::Result<(Seq<u8>, Seq<u8>), ()>>>;
#[verifier::external_body]
fn shim_path_is_dir(p: &Path) -> (r: bool) ensures r == w_is_dir(pab(p)) { p.is_dir() }
#[verifier::external_body]
fn shim_pathbuf_from_path(p: &Path) -> (r: PathBuf) ensures pbb(&r) == pab(p) { PathBuf::from(p) }
#[verifier::external_body]
fn shim_read_dir(p: &PathBuf) -> (r: io::Result<ReadDir>)
    ensures (match w_read_dir(pbb(p)) { Some(es) => r is Ok && rd_rest(r->Ok_0) == es, None => r is Err })
{ std::fs::read_dir(p) }
#[verifier::external_body]
fn shim_io_not_found(m: &str) -> (r: io::Error) { io::Error::new(io::ErrorKind::NotFound, m.to_string()) }
#[verifier::external_body]
fn shim_dirent_path(d: &DirEntry) -> (r: PathBuf) ensures pbb(&r) == de_path(d) { d.path() }
#[verifier::external_body]
fn shim_dirent_file_name(d: &DirEntry) -> (r: OsString) ensures osbs(&r) == de_name(d) { d.file_name() }
pub assume_specification [<OsString as core::ops::Deref>::deref] (s: &OsString) -> (r: &OsStr) ensures osb(r) == osbs(s);
pub assume_specification [OsStr::to_str] (s: &OsStr) -> (r: Option<&str>)
    ensures (if valid_utf8(osb(s)) { r is Some && r->Some_0.spec_bytes() == osb(s) } else { r is None });
pub uninterp spec fn io_invalid_data(e: io::Error) -> bool;
#[verifier::external_body]
fn shim_io_invalid_data_msg(m: &str) -> (r: io::Error) ensures io_invalid_data(r) { io::Error::new(io::ErrorKind::InvalidData, m.to_string()) }

// ---------------- src/pkgdb.rs ----------------
//@ extract src/pkgdb.rs : enum DBType
pub enum DBType {
    Files,
    Database,
}
//@ end
//@ extract src/pkgdb.rs : struct PkgDB
pub struct PkgDB {
    dbtype: DBType,
    path: PathBuf,
    readdir: Option<ReadDir>,
}
//@ end
//@ extract src/pkgdb.rs : struct Package
pub struct Package {
    path: PathBuf,
    pkgbase: String,
    pkgname: String,
    pkgversion: String,
}
//@ end
impl Default for Package {
    fn default() -> (r: Package) ensures r.is_new()
    { Package { path: PathBuf::new(), pkgbase: String::new(), pkgname: String::new(), pkgversion: String::new() } }
}
pub struct PkgV { pub path: Seq<u8>, pub name: Seq<char>, pub base: Seq<char>, pub version: Seq<char> }
/// statement of C20 for one directory entry: pkgname = the directory name, base / version = the parts before / after its last '-'
pub open spec fn pkg_of(path: Seq<u8>, name: Seq<char>) -> PkgV {
    PkgV { path: path, name: name, base: base_of(name), version: version_of(name) }
}
/// result of one next(): skip everything that is not a valid package directory; an entry error ends the iteration
pub open spec fn next_spec(rest: Seq<core::result::Result<(Seq<u8>, Seq<u8>), ()>>) -> (Option<core::result::Result<PkgV, ()>>, Seq<core::result::Result<(Seq<u8>, Seq<u8>), ()>>)
    decreases rest.len()
{
    if rest.len() == 0 { (None, rest) }
    else {
        match rest[0] {
            Err(_) => (None, rest.skip(1)),
            Ok(e) => if !valid_pkgdir(e.0) { next_spec(rest.skip(1)) }
                     else if valid_utf8(e.1) { (Some(Ok(pkg_of(e.0, decode_utf8(e.1)))), rest.skip(1)) }
                     else { (Some(Err(())), rest.skip(1)) },
        }
    }
}
pub proof fn lemma_reqd_lits() {}

impl Package {
    pub closed spec fn pv(&self) -> PkgV { PkgV { path: pbb(&self.path), name: self.pkgname@, base: self.pkgbase@, version: self.pkgversion@ } }
    pub closed spec fn is_new(&self) -> bool { pbb(&self.path).len() == 0 && self.pkgname@.len() == 0 && self.pkgbase@.len() == 0 && self.pkgversion@.len() == 0 }
//@ extract src/pkgdb.rs : impl Package fn new
    pub fn new() -> (r: Package)
        ensures r.is_new()
    {
        let package: Package = Default::default();
        package
    }
//@ end
}
pub uninterp spec fn pjoin(dir: Seq<u8>, name: Seq<char>) -> Seq<u8>;
pub uninterp spec fn w_read(path: Seq<u8>) -> Option<Seq<char>>;
#[verifier::external_body]
fn shim_path_join_str(p: &Path, name: &str) -> (r: PathBuf) ensures pbb(&r) == pjoin(pab(p), name@) { p.join(name) }
#[verifier::external_body]
fn shim_read_to_string(p: PathBuf) -> (r: io::Result<String>)
    ensures (match w_read(pbb(&p)) { Some(t) => r is Ok && r->Ok_0@ == t, None => r is Err })
{ fs::read_to_string(p) }
impl Package {
//@ extract src/pkgdb.rs : impl Package fn pkgbase
    pub fn pkgbase(&self) -> (r: &String)
        ensures r@ == self.pv().base
    {
        &self.pkgbase
    }
//@ end
//@ extract src/pkgdb.rs : impl Package fn pkgname
    pub fn pkgname(&self) -> (r: &String)
        ensures r@ == self.pv().name
    {
        &self.pkgname
    }
//@ end
//@ extract src/pkgdb.rs : impl Package fn pkgversion
    pub fn pkgversion(&self) -> (r: &String)
        ensures r@ == self.pv().version
    {
        &self.pkgversion
    }
//@ end
//@ extract src/pkgdb.rs : impl Package fn read_metadata
//@ rewrite D6.path_join_str D6.fs_read_to_string
    pub fn read_metadata(
        &self,
        mentry: MetadataEntry,
    ) -> (r: Result<String, io::Error>)
        ensures (match w_read(pjoin(self.pv().path, fname_of(mentry))) { Some(t) => r is Ok && r->Ok_0@ == t, None => r is Err })
    {
        let fname = self.path.as_path().join(mentry.to_filename());
        fs::read_to_string(fname)
    }
//@ end
}
impl PkgDB {
    /// a file-backed database always has its directory iterator
    pub closed spec fn wf(&self) -> bool { self.dbtype is Files ==> self.readdir is Some }
    pub closed spec fn is_files(&self) -> bool { self.dbtype is Files }
    pub closed spec fn rd(&self) -> ReadDir { self.readdir->Some_0 }
    pub closed spec fn dbpath(&self) -> Seq<u8> { pbb(&self.path) }
//@ extract src/pkgdb.rs : impl PkgDB fn open
//@ rewrite D6.path_is_dir_p D6.path_is_file_p D6.pathbuf_from_path_p D6.fs_read_dir D6.io_not_found
    pub fn open(p: &std::path::Path) -> (r: Result<PkgDB, io::Error>)
        ensures (if w_is_dir(pab(p)) {
                match w_read_dir(pab(p)) {
                    Some(entries) => r is Ok && r->Ok_0.wf() && r->Ok_0.is_files() && rd_rest(r->Ok_0.rd()) == entries && r->Ok_0.dbpath() == pab(p),
                    None => r is Err,
                }
            } else if w_is_file(pab(p)) { r is Ok && r->Ok_0.wf() && !r->Ok_0.is_files() && r->Ok_0.dbpath() == pab(p) }
            else { r is Err }),
    {
        let mut db = PkgDB {
            dbtype: DBType::Files,
            path: PathBuf::new(),
            readdir: None,
        };

        /*
         * Nothing fancy for now, assume that what the user passed is valid,
         * we'll find out soon enough if it isn't.
         */
        if p.is_dir() {
            db.dbtype = DBType::Files;
            db.path = PathBuf::from(p);
            db.readdir = Some(fs::read_dir(&db.path)?);
        } else if p.is_file() {
            db.dbtype = DBType::Database;
            db.path = PathBuf::from(p);
        } else {
            return Err(io::Error::new(
                io::ErrorKind::NotFound,
                "Invalid pkgdb",
            ));
        }

        Ok(db)
    }
//@ end
//@ extract src/pkgdb.rs : impl PkgDB fn is_valid_pkgdir
//@ rewrite D6.path_is_file D6.path_join_exists
    fn is_valid_pkgdir(&self, pkgdir: &Path) -> (r: bool)
        ensures r == valid_pkgdir(pab(pkgdir))
    {
        proof { lemma_reqd_lits(); }
        if pkgdir.is_file() {
            return false;
        }
        let reqd = vec![
            MetadataEntry::Comment.to_filename(),
            MetadataEntry::Contents.to_filename(),
            MetadataEntry::Desc.to_filename(),
        ];
        for file in it: reqd
            invariant it.snapshot@.remaining() == reqd@, reqd@.len() == 3, reqd@[0]@ == "+COMMENT"@, reqd@[1]@ == "+CONTENTS"@, reqd@[2]@ == "+DESC"@,
                !w_is_file(pab(pkgdir)),
                forall|i: int| 0 <= i < it.index@ ==> w_exists(pab(pkgdir), #[trigger] reqd@[i]@),
        {
            if !pkgdir.join(file).exists() {
                return false;
            }
        }
        true
    }
//@ end
//@ extract src/pkgdb.rs : impl Iterator for PkgDB fn next
//@ rewrite D9.self_item_pkgdb D6.readdir_next_q D6.dirent_path D6.dirent_file_name D6.rsplit_once_char D6.io_invalid_data_lit
    fn next(&mut self) -> (r: Option<io::Result<Package>>)
        requires old(self).wf()
        ensures final(self).wf(),
            (match old(self).dbtype {
                DBType::Files => ({
                    let (out, rest) = next_spec(rd_rest(old(self).readdir->Some_0));
                    rd_rest(final(self).readdir->Some_0) == rest
                    && (match out {
                        None => r is None,
                        Some(Ok(pv)) => r is Some && r->Some_0 is Ok && r->Some_0->Ok_0.pv() == pv,
                        Some(Err(_)) => r is Some && r->Some_0 is Err,
                    })
                }),
                DBType::Database => r is None,
            }),
    {
        let mut package = Package::new();
        match self.dbtype {
            DBType::Files => loop
                invariant self.wf(), self.dbtype is Files, package.is_new(),
                    next_spec(rd_rest(self.readdir->Some_0)) == next_spec(rd_rest(old(self).readdir->Some_0)),
                decreases rd_rest(self.readdir->Some_0).len()
            {
                match self.readdir.as_mut().expect("Bad pkgdb read").next()? {
                    Ok(dir) => {
                        if !self.is_valid_pkgdir(&dir.path()) {
                            continue;
                        }
                        match dir.file_name().to_str() {
                            Some(p) => {
                                proof {
                                    reveal_strlit(""); lemma_last_index_of(p@, '-');
                                    assert(p.spec_bytes() == encode_utf8(p@)); encode_utf8_decode_utf8(p@);
                                }
                                let (base, version) =
                                    p.rsplit_once('-').unwrap_or((p, ""));
                                package.path = dir.path();
                                package.pkgname = p.to_string();
                                package.pkgbase = base.to_string();
                                package.pkgversion = version.to_string();
                                proof {
                                    let e = rd_rest(old(self).readdir->Some_0);
                                    assert(p@ == decode_utf8(de_name(&dir)));
                                    assert(package.pkgname@ == p@);
                                    assert(base@ == base_of(p@));
                                    assert(version@ == version_of(p@));
                                    assert(pbb(&package.path) == de_path(&dir));
                                }
                                return Some(Ok(package));
                            }
                            _ => {
                                return Some(Err(io::Error::new(
                                    io::ErrorKind::InvalidData,
                                    "Could not parse package directory",
                                )))
                            }
                        };
                    }
                    _ => return None,
                };
            },
            DBType::Database => None,
        }
    }
//@ end
}

} // verus!
fn main() {}
