// Unit digest: src/digest.rs -- hash_file / hash_patch / hash_str over an abstract streaming hasher (C13, C17).
// What IS proved on the real code: algorithm dispatch of the three entry points, streaming (every byte of the reader,
// in order, nothing else), the '$NetBSD' line filter of patch hashing, lower-case hex encoding, error propagation, and the
// name tables.  What is ASSUMED (external crates / std, not importable into single-file Verus): that each RustCrypto
// core computes the standard digest of the bytes it is fed, in any chunking (std_digest is uninterpreted), and that
// io::copy / BufRead::split deliver the reader's bytes independently of the read schedule.
//@ unit digest
//@ prop C12 C13 C17 : hash_file_internal hash_patch_internal hash_str_internal hash_file hash_patch hash_str lemma_hex_shape shim_io_copy shim_reader_split_nl shim_contains_netbsd shim_hex2
#![allow(unused_imports)]
use vstd::prelude::*;
use vstd::utf8::*;
use vstd::string::*;
use std::io::{BufRead, BufReader, Read};
use vstd::std_specs::iter::IteratorSpec;
verus! {

//@ include lib/std_str.rs
//@ include lib/std_bytes.rs

#[verifier::external_type_specification]
#[verifier::external_body]
pub struct ExIoError(std::io::Error);
#[verifier::external_type_specification]
#[verifier::external_body]
pub struct ExFromUtf8Error(std::string::FromUtf8Error);
#[verifier::external_trait_specification]
pub trait ExRead { type ExternalTraitSpecificationFor: std::io::Read; }

//@ include lib/digest_names.rs

impl vstd::std_specs::convert::FromSpecImpl<std::io::Error> for DigestError {
    open spec fn obeys_from_spec() -> bool { true }
    open spec fn from_spec(err: std::io::Error) -> DigestError { DigestError::Io(err) }
}
//@ extract src/digest.rs : impl From<std::io::Error> for DigestError
impl From<std::io::Error> for DigestError {
    fn from(err: std::io::Error) -> Self {
        DigestError::Io(err)
    }
}
//@ end

//@ include lib/digest_spec.rs

/// stand-in for the RustCrypto `digest` crate: a hasher accumulates the bytes it is fed; finalize() is the standard digest of them
pub mod digest {
    use vstd::prelude::*;
    pub trait Digest: Sized {
        spec fn algo() -> super::Digest;
        spec fn fed(&self) -> Seq<u8>;
        fn new() -> (r: Self)
            ensures r.fed() == Seq::<u8>::empty();
        fn update(&mut self, data: &[u8])
            ensures final(self).fed() == old(self).fed() + data@;
        /// GenericArray<u8, N> in the real crate; both dereference to [u8]
        fn finalize(self) -> (r: Vec<u8>)
            ensures r@ == super::std_digest(Self::algo(), self.fed());
    }
}
//@ include lib/digest_cores.rs

// shim D6.io_copy_hasher: std::io::copy(reader, &mut hasher) with the hasher's io::Write impl (= update)
#[verifier::external_body]
fn shim_io_copy<R: Read, D: digest::Digest>(reader: &mut R, hasher: &mut D) -> (r: std::io::Result<u64>)
    ensures (match stream_of(*old(reader)) {
        Ok(bytes) => r is Ok && final(hasher).fed() == old(hasher).fed() + bytes,
        Err(_) => r is Err,
    })
{ unimplemented!() }

// shim D6.bufreader_split_nl
#[verifier::external_body]
fn shim_reader_split_nl<R: Read>(reader: &mut R) -> (r: Vec<std::io::Result<Vec<u8>>>)
    ensures (match stream_of(*old(reader)) {
        Ok(bytes) => r@.len() == bsplit_nl(bytes).len() && forall|i: int| 0 <= i < r@.len() ==> (#[trigger] r@[i]) is Ok && r@[i]->Ok_0@ == bsplit_nl(bytes)[i],
        Err(_) => r@.len() > 0 && r@[r@.len() - 1] is Err && forall|i: int| 0 <= i < r@.len() - 1 ==> (#[trigger] r@[i]) is Ok,
    })
{ BufReader::new(reader).split(b'\n').collect() }

// shim D6.windows_any_netbsd
#[verifier::external_body]
fn shim_contains_netbsd(line: &Vec<u8>) -> (r: bool)
    ensures r == has_marker(line@)
{ line.windows(7).any(|window| window == b"$NetBSD") }

// shim D8.format_hex2
#[verifier::external_body]
fn shim_hex2(b: u8) -> (r: String)
    ensures r@ == hex2(b)
{ format!("{b:02x}") }

//@ extract src/digest.rs : fn hash_file_internal
//@ rewrite D9.drop_io_write_bound D6.io_copy_hasher D2.fold_string_to_loop D8.format_hex2 D14.question_mark
fn hash_file_internal<R: Read, D: digest::Digest>(
    reader: &mut R,
) -> (r: DigestResult<String>)
    ensures (match stream_of(*old(reader)) { Ok(bytes) => r is Ok && r->Ok_0@ == hex_seq(std_digest(D::algo(), bytes)), Err(_) => r is Err })
{
    let mut hasher = D::new();
    shim_io_copy(reader, &mut hasher)?;
    proof { assert(Seq::<u8>::empty() + stream_of(*old(reader))->Ok_0 =~= stream_of(*old(reader))->Ok_0); }
    let __fin = hasher.finalize();
    let mut output = String::new();
    for b in it: __fin.iter()
        invariant
            it.snapshot@.remaining().len() == __fin@.len(),
            forall|i: int| 0 <= i < __fin@.len() ==> *(#[trigger] it.snapshot@.remaining()[i]) == __fin@[i],
            output@ == hex_seq(__fin@.take(it.index@ as int)),
    {
        proof { let k = it.index@ as int; assert(__fin@.take(k + 1).drop_last() =~= __fin@.take(k)); }
        output.push_str(shim_hex2(*b).as_str());
    }
    proof { assert(__fin@.take(__fin@.len() as int) =~= __fin@); }
    let hash = output;
    Ok(hash)
}
//@ end

//@ extract src/digest.rs : fn hash_patch_internal
//@ rewrite D9.drop_io_write_bound D6.bufreader_split_nl D6.windows_any_netbsd D17.continue_to_else D6.hasher_update_vec D16.bytestr_to_array D2.fold_string_to_loop D8.format_hex2 D14.question_mark
fn hash_patch_internal<R: Read, D: digest::Digest>(
    reader: &mut R,
) -> (r: DigestResult<String>)
    ensures (match stream_of(*old(reader)) { Ok(bytes) => r is Ok && r->Ok_0@ == hex_seq(std_digest(D::algo(), patch_filter(bytes))), Err(_) => r is Err })
{
    let mut hasher = D::new();
    let ghost st = stream_of(*old(reader));
    let ghost pieces = bsplit_nl(st->Ok_0);
    for line in it: shim_reader_split_nl(reader)
        invariant
            st is Ok ==> it.snapshot@.remaining().len() == pieces.len(),
            st is Ok ==> forall|i: int| 0 <= i < pieces.len() ==> (#[trigger] it.snapshot@.remaining()[i]) is Ok && it.snapshot@.remaining()[i]->Ok_0@ == pieces[i],
            st is Err ==> it.snapshot@.remaining().len() > 0 && it.snapshot@.remaining()[it.snapshot@.remaining().len() - 1] is Err,
            st is Ok ==> hasher.fed() == patch_filter_upto(pieces, it.index@ as int),
            forall|i: int| 0 <= i < it.index@ ==> (#[trigger] it.snapshot@.remaining()[i]) is Ok,
    {
        let line = line?;
        if shim_contains_netbsd(&line) {
            continue;
        }
        hasher.update(line.as_slice());
        hasher.update(&[0x0au8]);
        proof { if st is Ok { assert(hasher.fed() =~= patch_filter_upto(pieces, it.index@ as int + 1)); } }
    }
    let __fin = hasher.finalize();
    let mut output = String::new();
    for b in it: __fin.iter()
        invariant
            it.snapshot@.remaining().len() == __fin@.len(),
            forall|i: int| 0 <= i < __fin@.len() ==> *(#[trigger] it.snapshot@.remaining()[i]) == __fin@[i],
            output@ == hex_seq(__fin@.take(it.index@ as int)),
    {
        proof { let k = it.index@ as int; assert(__fin@.take(k + 1).drop_last() =~= __fin@.take(k)); }
        output.push_str(shim_hex2(*b).as_str());
    }
    proof { assert(__fin@.take(__fin@.len() as int) =~= __fin@); }
    let hash = output;
    Ok(hash)
}
//@ end

//@ extract src/digest.rs : fn hash_str_internal
//@ rewrite D9.drop_io_write_bound D6.hasher_update_str D2.fold_string_to_loop D8.format_hex2
fn hash_str_internal<D: digest::Digest>(
    s: &str,
) -> (r: DigestResult<String>)
    ensures r is Ok && r->Ok_0@ == hex_seq(std_digest(D::algo(), s.spec_bytes()))
{
    let mut hasher = D::new();
    hasher.update(s.as_bytes());
    proof { assert(Seq::<u8>::empty() + s.spec_bytes() =~= s.spec_bytes()); }
    let __fin = hasher.finalize();
    let mut output = String::new();
    for b in it: __fin.iter()
        invariant
            it.snapshot@.remaining().len() == __fin@.len(),
            forall|i: int| 0 <= i < __fin@.len() ==> *(#[trigger] it.snapshot@.remaining()[i]) == __fin@[i],
            output@ == hex_seq(__fin@.take(it.index@ as int)),
    {
        proof { let k = it.index@ as int; assert(__fin@.take(k + 1).drop_last() =~= __fin@.take(k)); }
        output.push_str(shim_hex2(*b).as_str());
    }
    proof { assert(__fin@.take(__fin@.len() as int) =~= __fin@); }
    let hash = output;
    Ok(hash)
}
//@ end

impl Digest {
//@ extract src/digest.rs : impl Digest fn hash_file
    pub fn hash_file<R: Read>(&self, reader: &mut R) -> (r: DigestResult<String>)
        ensures (match stream_of(*old(reader)) { Ok(bytes) => r is Ok && r->Ok_0@ == hex_seq(std_digest(*self, bytes)), Err(_) => r is Err })
    {
        match self {
            Digest::BLAKE2s => {
                hash_file_internal::<_, blake2::Blake2s256>(reader)
            }
            Digest::MD5 => hash_file_internal::<_, md5::Md5>(reader),
            Digest::RMD160 => {
                hash_file_internal::<_, ripemd::Ripemd160>(reader)
            }
            Digest::SHA1 => hash_file_internal::<_, sha1::Sha1>(reader),
            Digest::SHA256 => hash_file_internal::<_, sha2::Sha256>(reader),
            Digest::SHA512 => hash_file_internal::<_, sha2::Sha512>(reader),
        }
    }
//@ end
//@ extract src/digest.rs : impl Digest fn hash_patch
    pub fn hash_patch<R: Read>(&self, reader: &mut R) -> (r: DigestResult<String>)
        ensures (match stream_of(*old(reader)) { Ok(bytes) => r is Ok && r->Ok_0@ == hex_seq(std_digest(*self, patch_filter(bytes))), Err(_) => r is Err })
    {
        match self {
            Digest::BLAKE2s => {
                hash_patch_internal::<_, blake2::Blake2s256>(reader)
            }
            Digest::MD5 => hash_patch_internal::<_, md5::Md5>(reader),
            Digest::RMD160 => {
                hash_patch_internal::<_, ripemd::Ripemd160>(reader)
            }
            Digest::SHA1 => hash_patch_internal::<_, sha1::Sha1>(reader),
            Digest::SHA256 => hash_patch_internal::<_, sha2::Sha256>(reader),
            Digest::SHA512 => hash_patch_internal::<_, sha2::Sha512>(reader),
        }
    }
//@ end
//@ extract src/digest.rs : impl Digest fn hash_str
    pub fn hash_str(&self, s: &str) -> (r: DigestResult<String>)
        ensures r is Ok && r->Ok_0@ == hex_seq(std_digest(*self, s.spec_bytes()))
    {
        match self {
            Digest::BLAKE2s => hash_str_internal::<blake2::Blake2s256>(s),
            Digest::MD5 => hash_str_internal::<md5::Md5>(s),
            Digest::RMD160 => hash_str_internal::<ripemd::Ripemd160>(s),
            Digest::SHA1 => hash_str_internal::<sha1::Sha1>(s),
            Digest::SHA256 => hash_str_internal::<sha2::Sha256>(s),
            Digest::SHA512 => hash_str_internal::<sha2::Sha512>(s),
        }
    }
//@ end
}

/// the hex text has two characters per digest byte, all lower-case hex digits
pub proof fn lemma_hex_shape(bs: Seq<u8>)
    ensures hex_seq(bs).len() == 2 * bs.len(),
        forall|i: int| 0 <= i < hex_seq(bs).len() ==> (is_digit(#[trigger] hex_seq(bs)[i]) || ('a' <= hex_seq(bs)[i] && hex_seq(bs)[i] <= 'f'))
    decreases bs.len()
{
    if bs.len() > 0 {
        lemma_hex_shape(bs.drop_last());
        let b = bs.last();
        assert(0 <= b as int / 16 < 16 && 0 <= b as int % 16 < 16);
    }
}

} // verus!
fn main() {}
