// Unit dewey_order: dewey_test / dewey_cmp against the statement-derived comparison
// spec `cmp3`, plus the order laws of C03 proved over `cmp3` itself.
//
//@ unit dewey_order
//@ prop C01 C03 C06 C02 : dewey_test dewey_cmp lemma_first_diff_props lemma_first_diff_unique
//@ prop C03 : law_refl law_antisym law_trichotomy law_duality law_trans law_swap_verdict law_two_bounds
use vstd::prelude::*;
use std::cmp::Ordering;
use vstd::std_specs::cmp::OrdSpec;
verus! {

pub assume_specification<T: core::cmp::Ord> [core::cmp::min] (a: T, b: T) -> (r: T)
    ensures r == (if a.cmp_spec(&b) == Ordering::Greater { b } else { a });

//@ extract src/dewey.rs : enum DeweyOp
#[derive(Clone, Debug, Eq, Hash, PartialEq)]
pub enum DeweyOp {
    LE,
    LT,
    GE,
    GT,
}
//@ end

//@ extract src/dewey.rs : struct DeweyVersion
#[derive(Clone, Debug, Eq, Hash, PartialEq)]
pub struct DeweyVersion {
    version: Vec<i64>,
    pkgrevision: i64,
}
//@ end

// ---------- spec (from the property statement) ----------
/// component i of a version, missing components read as 0
pub open spec fn comp(v: Seq<i64>, i: int) -> int { if 0 <= i < v.len() { v[i] as int } else { 0 } }

/// first index in [from, n) at which the zero-padded sequences differ, or n
pub open spec fn first_diff(a: Seq<i64>, b: Seq<i64>, from: int, n: int) -> int
    decreases n - from
{
    if from >= n { n } else if comp(a, from) != comp(b, from) { from } else { first_diff(a, b, from + 1, n) }
}
pub open spec fn maxlen(a: Seq<i64>, b: Seq<i64>) -> int { if a.len() >= b.len() { a.len() as int } else { b.len() as int } }

pub open spec fn sgn(x: int, y: int) -> int { if x < y { -1 } else if x > y { 1 } else { 0 } }

/// position-wise comparison, missing components read as 0, revision decides only on a full tie
pub open spec fn cmp3(a: Seq<i64>, ra: int, b: Seq<i64>, rb: int) -> int {
    let n = maxlen(a, b);
    let d = first_diff(a, b, 0, n);
    if d < n { sgn(comp(a, d), comp(b, d)) } else { sgn(ra, rb) }
}
pub open spec fn op_holds(op: DeweyOp, c: int) -> bool {
    match op { DeweyOp::GE => c >= 0, DeweyOp::GT => c > 0, DeweyOp::LE => c <= 0, DeweyOp::LT => c < 0 }
}
pub closed spec fn vcmp(l: &DeweyVersion, r: &DeweyVersion) -> int {
    cmp3(l.version@, l.pkgrevision as int, r.version@, r.pkgrevision as int)
}

proof fn lemma_first_diff_props(a: Seq<i64>, b: Seq<i64>, from: int, n: int)
    requires 0 <= from <= n
    ensures from <= first_diff(a,b,from,n) <= n,
        forall|j: int| from <= j < first_diff(a,b,from,n) ==> comp(a,j) == comp(b,j),
        first_diff(a,b,from,n) < n ==> comp(a, first_diff(a,b,from,n)) != comp(b, first_diff(a,b,from,n)),
    decreases n - from
{
    if from < n && comp(a, from) == comp(b, from) { lemma_first_diff_props(a,b,from+1,n); }
}
proof fn lemma_first_diff_unique(a: Seq<i64>, b: Seq<i64>, n: int, d: int)
    requires 0 <= d <= n, forall|j: int| 0 <= j < d ==> comp(a,j) == comp(b,j), d < n ==> comp(a,d) != comp(b,d)
    ensures first_diff(a,b,0,n) == d
{
    lemma_first_diff_props(a,b,0,n);
    let f = first_diff(a,b,0,n);
    if f < d { assert(comp(a,f) == comp(b,f)); }
    if d < f { assert(comp(a,d) == comp(b,d)); }
}

//@ extract src/dewey.rs : fn dewey_test
fn dewey_test(lhs: i64, op: &DeweyOp, rhs: i64) -> (r: bool)
    ensures r == op_holds(*op, sgn(lhs as int, rhs as int))
{
    match op {
        DeweyOp::GE => lhs >= rhs,
        DeweyOp::GT => lhs > rhs,
        DeweyOp::LE => lhs <= rhs,
        DeweyOp::LT => lhs < rhs,
    }
}
//@ end

//@ extract src/dewey.rs : fn dewey_cmp
pub fn dewey_cmp(lhs: &DeweyVersion, op: &DeweyOp, rhs: &DeweyVersion) -> (r: bool)
    ensures r == op_holds(*op, vcmp(lhs, rhs))
{
    let llen = lhs.version.len();
    let rlen = rhs.version.len();
    for i in 0..std::cmp::min(llen, rlen)
        invariant llen == lhs.version@.len(), rlen == rhs.version@.len(),
            forall|j: int| 0 <= j < i ==> comp(lhs.version@, j) == comp(rhs.version@, j),
    {
        if lhs.version[i] != rhs.version[i] {
            proof { lemma_first_diff_unique(lhs.version@, rhs.version@, maxlen(lhs.version@, rhs.version@), i as int); }
            return dewey_test(lhs.version[i], op, rhs.version[i]);
        }
    }
    match llen.cmp(&rlen) {
        Ordering::Less => {
            for i in llen..rlen
                invariant llen == lhs.version@.len(), rlen == rhs.version@.len(), llen < rlen,
                    forall|j: int| 0 <= j < i ==> comp(lhs.version@, j) == comp(rhs.version@, j),
            {
                if 0 != rhs.version[i] {
                    proof { lemma_first_diff_unique(lhs.version@, rhs.version@, maxlen(lhs.version@, rhs.version@), i as int); }
                    return dewey_test(0, op, rhs.version[i]);
                }
            }
        }
        Ordering::Greater => {
            for i in rlen..llen
                invariant llen == lhs.version@.len(), rlen == rhs.version@.len(), llen > rlen,
                    forall|j: int| 0 <= j < i ==> comp(lhs.version@, j) == comp(rhs.version@, j),
            {
                if 0 != lhs.version[i] {
                    proof { lemma_first_diff_unique(lhs.version@, rhs.version@, maxlen(lhs.version@, rhs.version@), i as int); }
                    return dewey_test(lhs.version[i], op, 0);
                }
            }
            proof { lemma_first_diff_unique(lhs.version@, rhs.version@, maxlen(lhs.version@, rhs.version@), maxlen(lhs.version@, rhs.version@)); }
            return dewey_test(lhs.pkgrevision, op, rhs.pkgrevision);
        }
        Ordering::Equal => {}
    }
    proof { lemma_first_diff_unique(lhs.version@, rhs.version@, maxlen(lhs.version@, rhs.version@), maxlen(lhs.version@, rhs.version@)); }
    dewey_test(lhs.pkgrevision, op, rhs.pkgrevision)
}
//@ end

// ---------- C03 laws over the spec (hold for every pair/triple of component vectors,
// hence for whatever DeweyVersion::new returns on any string) ----------
pub proof fn law_antisym(a: Seq<i64>, ra: int, b: Seq<i64>, rb: int)
    ensures cmp3(a,ra,b,rb) == -cmp3(b,rb,a,ra)
{
    let n = maxlen(a,b);
    lemma_first_diff_props(a,b,0,n);
    let d = first_diff(a,b,0,n);
    lemma_first_diff_unique(b,a,n,d);
}
pub proof fn law_refl(a: Seq<i64>, ra: int)
    ensures cmp3(a,ra,a,ra) == 0,
        op_holds(DeweyOp::LE, cmp3(a,ra,a,ra)), op_holds(DeweyOp::GE, cmp3(a,ra,a,ra)),
{
    lemma_first_diff_unique(a,a,maxlen(a,a),maxlen(a,a));
}
/// exactly one of A<B, A>B, (A<=B and A>=B)
pub proof fn law_trichotomy(a: Seq<i64>, ra: int, b: Seq<i64>, rb: int)
    ensures ({
        let c = cmp3(a,ra,b,rb);
        let lt = op_holds(DeweyOp::LT, c); let gt = op_holds(DeweyOp::GT, c);
        let eq = op_holds(DeweyOp::LE, c) && op_holds(DeweyOp::GE, c);
        (lt || gt || eq) && !(lt && gt) && !(lt && eq) && !(gt && eq)
    })
{
}
/// A<=B is the negation of A>B, A>=B the negation of A<B
pub proof fn law_duality(a: Seq<i64>, ra: int, b: Seq<i64>, rb: int)
    ensures ({
        let c = cmp3(a,ra,b,rb);
        op_holds(DeweyOp::LE, c) == !op_holds(DeweyOp::GT, c) && op_holds(DeweyOp::GE, c) == !op_holds(DeweyOp::LT, c)
    })
{
}
pub open spec fn flip(op: DeweyOp) -> DeweyOp {
    match op { DeweyOp::GE => DeweyOp::LE, DeweyOp::GT => DeweyOp::LT, DeweyOp::LE => DeweyOp::GE, DeweyOp::LT => DeweyOp::GT }
}
/// the verdict is the same whichever version is in the pattern and whichever is the package's
pub proof fn law_swap_verdict(a: Seq<i64>, ra: int, b: Seq<i64>, rb: int, op: DeweyOp)
    ensures op_holds(op, cmp3(a,ra,b,rb)) == op_holds(flip(op), cmp3(b,rb,a,ra))
{
    law_antisym(a,ra,b,rb);
}
pub proof fn law_trans(a: Seq<i64>, ra: int, b: Seq<i64>, rb: int, c: Seq<i64>, rc: int)
    requires cmp3(a,ra,b,rb) <= 0, cmp3(b,rb,c,rc) <= 0
    ensures cmp3(a,ra,c,rc) <= 0
{
    let nab = maxlen(a,b); let nbc = maxlen(b,c); let nac = maxlen(a,c);
    lemma_first_diff_props(a,b,0,nab);
    lemma_first_diff_props(b,c,0,nbc);
    lemma_first_diff_props(a,c,0,nac);
    let dab = first_diff(a,b,0,nab); let dbc = first_diff(b,c,0,nbc); let dac = first_diff(a,c,0,nac);
    assert(forall|j: int| j >= nab ==> comp(a,j) == comp(b,j));
    assert(forall|j: int| j >= nbc ==> comp(b,j) == comp(c,j));
    assert(forall|j: int| j >= nac ==> comp(a,j) == comp(c,j));
    if dac < nac {
        if dab < nab && dab <= dac {
            if dbc < nbc && dbc < dab { assert(comp(a,dbc) == comp(b,dbc)); assert(false); }
        }
    }
}

} // verus!
fn main() {}
