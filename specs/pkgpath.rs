// Unit pkgpath: src/pkgpath.rs (PkgPath) and src/depend.rs (Depend::new) -- C19, C17.
// std::path is an opaque algebra of components (assumed contracts); the decision logic (which shapes are accepted,
// which pieces become the short / full path, one ':' exactly) is the verified part.
//@ unit pkgpath
#![allow(unused_imports)]
use vstd::prelude::*;
use vstd::utf8::*;
use vstd::string::*;
use std::ffi::{OsStr, OsString};
use std::os::unix::ffi::{OsStrExt, OsStringExt};
use std::path::{Component, Path, PathBuf, PrefixComponent};
use std::string::FromUtf8Error;
use std::cmp::Ordering;
use vstd::std_specs::cmp::OrdSpec;
use vstd::std_specs::iter::IteratorSpec;
verus! {

pub mod glob {
    use vstd::prelude::*;
    verus!{
    #[verifier::external_body]
    pub struct Pattern { _p: () }
    #[verifier::external_body]
    pub struct PatternError { _p: () }
    }
}

//@ include lib/std_str.rs
//@ include lib/std_os.rs
//@ include lib/dewey_types.rs
//@ include lib/dewey_order_spec.rs
//@ include lib/dewey_tok_spec.rs
//@ include lib/dewey_match_spec.rs
//@ include lib/dewey_views.rs
//@ include lib/pkgname_views.rs
//@ include lib/pattern_spec.rs

#[verifier::external_type_specification]
#[verifier::external_body]
pub struct ExFromUtf8Error(FromUtf8Error);
#[verifier::external_type_specification]
#[verifier::external_body]
pub struct ExPrefixComponent<'a>(PrefixComponent<'a>);
#[verifier::external_type_specification]
pub struct ExComponent<'a>(Component<'a>);

pub enum CompV { Prefix, RootDir, CurDir, ParentDir, Normal(Seq<u8>) }
pub open spec fn cv(c: Component) -> CompV {
    match c { Component::Prefix(_) => CompV::Prefix, Component::RootDir => CompV::RootDir, Component::CurDir => CompV::CurDir,
              Component::ParentDir => CompV::ParentDir, Component::Normal(o) => CompV::Normal(osb(o)) }
}
/// std::path's component view of a path (repeated and trailing slashes and non-leading '.' are not components): uninterpreted
pub uninterp spec fn comps(b: Seq<u8>) -> Seq<CompV>;
pub open spec fn relative(cs: Seq<CompV>) -> bool { cs.len() == 0 || !(cs[0] is Prefix || cs[0] is RootDir) }
#[verifier::external_body]
fn shim_pathbuf_from_str(s: &str) -> (r: PathBuf) ensures pbb(&r) == s.spec_bytes() { PathBuf::from(s) }
#[verifier::external_body]
fn shim_components<'a>(p: &'a PathBuf) -> (r: Vec<Component<'a>>)
    ensures r@.len() == comps(pbb(p)).len(), forall|i: int| 0 <= i < r@.len() ==> cv(#[trigger] r@[i]) == comps(pbb(p))[i]
{ p.components().collect() }
/// pushing a relative path appends its components
#[verifier::external_body]
fn shim_pathbuf_push(p: &mut PathBuf, q: PathBuf)
    requires relative(comps(pbb(&q)))
    ensures comps(pbb(final(p))) == comps(pbb(old(p))) + comps(pbb(&q))
{ p.push(q) }
#[verifier::external_body]
fn shim_pathbuf_from_comp(c: Component) -> (r: PathBuf)
    requires cv(c) is Normal
    ensures comps(pbb(&r)) == seq![cv(c)]
{ PathBuf::from(c.as_os_str()) }
#[verifier::external_body]
fn shim_pathbuf_push_comp(p: &mut PathBuf, c: Component)
    requires cv(c) is Normal
    ensures comps(pbb(final(p))) == comps(pbb(old(p))).push(cv(c))
{ p.push(c.as_os_str()) }
pub assume_specification [<PathBuf as Clone>::clone] (p: &PathBuf) -> (r: PathBuf) ensures pbb(&r) == pbb(p);
pub axiom fn axiom_comps_updir() ensures comps(seq![0x2eu8, 0x2eu8, 0x2fu8, 0x2eu8, 0x2eu8, 0x2fu8]) == seq![CompV::ParentDir, CompV::ParentDir];
pub proof fn lemma_updir_lit() ensures "../../".spec_bytes() == seq![0x2eu8, 0x2eu8, 0x2fu8, 0x2eu8, 0x2eu8, 0x2fu8] {
    reveal_strlit("../../");
    assert("../../".spec_bytes() == encode_utf8("../../"@));
    assert(is_ascii_chars("../../"@)); is_ascii_chars_encode_utf8("../../"@);
    assert("../../".spec_bytes() =~= seq![0x2eu8, 0x2eu8, 0x2fu8, 0x2eu8, 0x2eu8, 0x2fu8]);
}
/// statement of C19: component-wise 'category/package' or '../../category/package' with ordinary names
pub open spec fn pkgpath_ok(cs: Seq<CompV>) -> bool {
    (cs.len() == 2 && cs[0] is Normal && cs[1] is Normal)
    || (cs.len() == 4 && cs[0] is ParentDir && cs[1] is ParentDir && cs[2] is Normal && cs[3] is Normal)
}

//@ extract src/pkgpath.rs : enum PkgPathError
//@ rewrite D12.drop_thiserror_attrs
pub enum PkgPathError {
    InvalidPath,
}
//@ end
//@ extract src/pkgpath.rs : struct PkgPath
pub struct PkgPath {
    short: PathBuf,
    full: PathBuf,
}
//@ end
impl PkgPath {
    pub closed spec fn short_b(&self) -> Seq<u8> { pbb(&self.short) }
    pub closed spec fn full_b(&self) -> Seq<u8> { pbb(&self.full) }
//@ extract src/pkgpath.rs : impl PkgPath fn new
//@ rewrite D6.pathbuf_from_str D6.path_components D6.pathbuf_from_lit D6.pathbuf_push_clone D6.pathbuf_from_comp_osstr D6.pathbuf_push_component
    pub fn new(path: &str) -> (r: Result<Self, PkgPathError>)
        ensures r is Ok <==> pkgpath_ok(comps(encode_utf8(path@))),
            r is Ok ==> comps(r->Ok_0.short_b()) == seq![comps(encode_utf8(path@))[comps(encode_utf8(path@)).len() - 2], comps(encode_utf8(path@))[comps(encode_utf8(path@)).len() - 1]]
                && comps(r->Ok_0.full_b()) == seq![CompV::ParentDir, CompV::ParentDir] + comps(r->Ok_0.short_b()),
    {
        proof { lemma_updir_lit(); }
        let p = PathBuf::from(path);
        let c: Vec<_> = p.components().collect();
        match c.len() {
            2 => match (c[0], c[1]) {
                (Component::Normal(_), Component::Normal(_)) => {
                    let mut f = PathBuf::from("../../");
                    proof { axiom_comps_updir(); }
                    f.push(p.clone());
                    proof { assert(comps(pbb(&f)) =~= seq![CompV::ParentDir, CompV::ParentDir] + comps(pbb(&p))); assert(comps(pbb(&p)) =~= seq![comps(pbb(&p))[0], comps(pbb(&p))[1]]); }
                    Ok(PkgPath { short: p, full: f })
                }
                _ => Err(PkgPathError::InvalidPath),
            },
            4 => match (c[0], c[1], c[2], c[3]) {
                (
                    Component::ParentDir,
                    Component::ParentDir,
                    Component::Normal(_),
                    Component::Normal(_),
                ) => {
                    let mut s = PathBuf::from(c[2].as_os_str());
                    s.push(c[3].as_os_str());
                    proof { assert(comps(pbb(&p)) =~= seq![CompV::ParentDir, CompV::ParentDir] + comps(pbb(&s))); }
                    Ok(PkgPath { short: s, full: p })
                }
                _ => Err(PkgPathError::InvalidPath),
            },
            _ => Err(PkgPathError::InvalidPath),
        }
    }
//@ end
//@ extract src/pkgpath.rs : impl PkgPath fn as_path
    pub fn as_path(&self) -> (r: &Path)
        ensures pab(r) == self.short_b()
    {
        &self.short
    }
//@ end
//@ extract src/pkgpath.rs : impl PkgPath fn as_full_path
    pub fn as_full_path(&self) -> (r: &Path)
        ensures pab(r) == self.full_b()
    {
        &self.full
    }
//@ end
//@ extract src/pkgpath.rs : impl FromStr for PkgPath fn from_str
    fn from_str(s: &str) -> (r: Result<Self, PkgPathError>)
        ensures r is Ok <==> pkgpath_ok(comps(encode_utf8(s@))),
            r is Ok ==> comps(r->Ok_0.short_b()) == seq![comps(encode_utf8(s@))[comps(encode_utf8(s@)).len() - 2], comps(encode_utf8(s@))[comps(encode_utf8(s@)).len() - 1]]
                && comps(r->Ok_0.full_b()) == seq![CompV::ParentDir, CompV::ParentDir] + comps(r->Ok_0.short_b()),
    {
        PkgPath::new(s)
    }
//@ end
}
/// C19: both spellings of a package path produce equal values (PathBuf equality is component-wise), and re-parsing
/// either accessor's output gives an equal value
pub proof fn lemma_both_spellings(a: Seq<CompV>, b: Seq<CompV>)
    requires pkgpath_ok(a), pkgpath_ok(b), a.len() == 2, b.len() == 4, b[2] == a[0], b[3] == a[1]
    ensures seq![a[a.len() - 2], a[a.len() - 1]] == seq![b[b.len() - 2], b[b.len() - 1]],
        pkgpath_ok(seq![a[0], a[1]]), pkgpath_ok(seq![CompV::ParentDir, CompV::ParentDir] + seq![a[0], a[1]]),
{
    let full = seq![CompV::ParentDir, CompV::ParentDir] + seq![a[0], a[1]];
    assert(full.len() == 4 && full[0] is ParentDir && full[1] is ParentDir && full[2] == a[0] && full[3] == a[1]);
}

// ---------------- src/depend.rs ----------------
//@ extract src/pattern.rs : enum PatternType
#[derive(Clone, Debug, Default, Eq, Hash, PartialEq)]
enum PatternType {
    Alternate,
    Dewey,
    Glob,
    #[default]
    Simple,
}
//@ end
//@ extract src/pattern.rs : enum PatternError
//@ rewrite D12.drop_thiserror_attrs
pub enum PatternError {
    Alternate,
    Dewey(DeweyError),
    Glob(glob::PatternError),
}
//@ end
//@ extract src/pattern.rs : struct Pattern
pub struct Pattern {
    matchtype: PatternType,
    pattern: String,
    likely: bool,
    dewey: Option<Dewey>,
    glob: Option<glob::Pattern>,
}
//@ end
impl Pattern {
    pub uninterp spec fn pat(&self) -> Seq<char>;
    pub uninterp spec fn wf(&self) -> bool;
//@ import pattern : impl Pattern fn new
}
/// str::split(":"): always at least one piece
pub open spec fn split_colon(cs: Seq<char>) -> Seq<Seq<char>> decreases cs.len() {
    let i = first_index_of(cs, ':');
    if i < 0 || i >= cs.len() { seq![cs] } else { seq![cs.take(i)] + split_colon(cs.skip(i + 1)) }
}
#[verifier::external_body]
fn shim_split_colon<'a>(s: &'a str) -> (r: Vec<&'a str>)
    ensures r@.len() == split_colon(s@).len(), forall|i: int| 0 <= i < r@.len() ==> (#[trigger] r@[i])@ == split_colon(s@)[i]
{ s.split(":").collect() }
//@ extract src/depend.rs : enum DependError
//@ rewrite D12.drop_thiserror_attrs
pub enum DependError {
    Invalid,
    Pattern(PatternError),
    PkgPath(PkgPathError),
}
//@ end
impl vstd::std_specs::convert::FromSpecImpl<PatternError> for DependError {
    open spec fn obeys_from_spec() -> bool { true }
    open spec fn from_spec(e: PatternError) -> DependError { DependError::Pattern(e) }
}
impl From<PatternError> for DependError { fn from(e: PatternError) -> DependError { DependError::Pattern(e) } }
impl vstd::std_specs::convert::FromSpecImpl<PkgPathError> for DependError {
    open spec fn obeys_from_spec() -> bool { true }
    open spec fn from_spec(e: PkgPathError) -> DependError { DependError::PkgPath(e) }
}
impl From<PkgPathError> for DependError { fn from(e: PkgPathError) -> DependError { DependError::PkgPath(e) } }
//@ extract src/depend.rs : struct Depend
pub struct Depend {
    pattern: Pattern,
    pkgpath: PkgPath,
}
//@ end
impl Depend {
    pub closed spec fn pat_v(&self) -> Pattern { self.pattern }
    pub closed spec fn path_v(&self) -> PkgPath { self.pkgpath }
//@ extract src/depend.rs : impl Depend fn new
//@ rewrite D6.split_colon D14.question_mark_call
    pub fn new(s: &str) -> (r: Result<Self, DependError>)
        ensures
            r is Ok <==> (split_colon(s@).len() == 2 && pvalid(split_colon(s@)[0]) && pkgpath_ok(comps(encode_utf8(split_colon(s@)[1])))),
            r is Ok ==> r->Ok_0.pat_v().wf() && r->Ok_0.pat_v().pat() == split_colon(s@)[0]
                && comps(r->Ok_0.path_v().short_b()) == seq![comps(encode_utf8(split_colon(s@)[1]))[comps(encode_utf8(split_colon(s@)[1])).len() - 2], comps(encode_utf8(split_colon(s@)[1]))[comps(encode_utf8(split_colon(s@)[1])).len() - 1]],
            r is Err && split_colon(s@).len() != 2 ==> r->Err_0 is Invalid,
    {
        let v: Vec<_> = s.split(":").collect();
        if v.len() != 2 {
            return Err(DependError::Invalid);
        }
        let pattern = Pattern::new(v[0])?;
        let pkgpath = PkgPath::from_str(v[1])?;
        Ok(Depend { pattern, pkgpath })
    }
//@ end
//@ extract src/depend.rs : impl FromStr for Depend fn from_str
    fn from_str(s: &str) -> (r: Result<Self, DependError>)
        ensures
            r is Ok <==> (split_colon(s@).len() == 2 && pvalid(split_colon(s@)[0]) && pkgpath_ok(comps(encode_utf8(split_colon(s@)[1])))),
            r is Ok ==> r->Ok_0.pat_v().wf() && r->Ok_0.pat_v().pat() == split_colon(s@)[0]
                && comps(r->Ok_0.path_v().short_b()) == seq![comps(encode_utf8(split_colon(s@)[1]))[comps(encode_utf8(split_colon(s@)[1])).len() - 2], comps(encode_utf8(split_colon(s@)[1]))[comps(encode_utf8(split_colon(s@)[1])).len() - 1]],
            r is Err && split_colon(s@).len() != 2 ==> r->Err_0 is Invalid,
    {
        Depend::new(s)
    }
//@ end
//@ extract src/depend.rs : impl Depend fn pattern
    pub fn pattern(&self) -> (r: &Pattern)
        ensures *r == self.pat_v()
    {
        &self.pattern
    }
//@ end
//@ extract src/depend.rs : impl Depend fn pkgpath
    pub fn pkgpath(&self) -> (r: &PkgPath)
        ensures *r == self.path_v()
    {
        &self.pkgpath
    }
//@ end
}

} // verus!
fn main() {}
