// Unit pkgname: PkgName::new and accessors (C18), and the lemma tying PKGREVISION to the
// revision the dewey tokeniser (C01) extracts.
//@ unit pkgname
#![allow(unused_imports)]
use vstd::prelude::*;
use vstd::utf8::*;
use vstd::string::*;
verus! {

//@ include lib/std_str.rs
//@ include lib/dewey_tok_spec.rs

pub assume_specification<T>[Option::<T>::or](a: Option<T>, b: Option<T>) -> (r: Option<T>)
    ensures r == (match a { Some(v) => Some(v), None => b });

//@ include lib/pkgname_views.rs

impl PkgName {

//@ extract src/pkgname.rs : impl PkgName fn new
//@ rewrite D6.rsplit_once_char D6.rsplit_once_lit_string D6.parse_i64_str D6.string_from
    pub fn new(pkgname: &str) -> (r: Self)
        ensures
            r.name() == pkgname@,
            r.base() == base_of(pkgname@),
            r.version() == version_of(pkgname@),
            last_index_of(pkgname@, '-') >= 0 ==> r.base() + seq!['-'] + r.version() == pkgname@,
            forall|ds: Seq<char>| ends_in_nb_digits(version_of(pkgname@), ds) ==> r.revision() == Some(dec_value(ds) as i64),
            !has_nb(version_of(pkgname@)) ==> r.revision() is None,
            // corner the statement leaves implicit: a version ending in a bare "nb" (no digits) has revision 0, as in the comparison
            ends_in_bare_nb(version_of(pkgname@)) ==> r.revision() == Some(0i64),
    {
        proof { lemma_last_index_of(pkgname@, '-'); reveal_strlit(""); reveal_strlit("nb"); }
        let (pkgbase, pkgversion) = match pkgname.rsplit_once('-') {
            Some((b, v)) => (String::from(b), String::from(v)),
            None => (String::from(pkgname), String::from("")),
        };
        assert(pkgversion@ =~= version_of(pkgname@));
        assert(last_index_of(pkgname@, '-') >= 0 ==> pkgbase@ + seq!['-'] + pkgversion@ =~= pkgname@);
        let pkgrevision = match pkgversion.rsplit_once("nb") {
            Some((_, v)) => v.parse::<i64>().ok().or(Some(0)),
            None => None,
        };
        proof {
            let ver = pkgversion@;
            assert("nb"@ =~= L_nb());
            lemma_last_sub(ver, L_nb());
            assert forall|ds: Seq<char>| ends_in_nb_digits(ver, ds) implies pkgrevision == Some(dec_value(ds) as i64) by {
                lemma_nb_suffix_is_last(ver, ds);
                lemma_dec_value_bound(ds);
            }
            if ends_in_bare_nb(ver) {
                let j0 = ver.len() - 2;
                assert(L_nb().is_prefix_of(ver.skip(j0))) by { assert(ver.skip(j0) =~= L_nb()); }
                assert(last_sub(ver, L_nb()) == j0);
                assert(ver.skip(j0 + 2).len() == 0);
            }
            if !has_nb(ver) {
                if last_sub(ver, L_nb()) >= 0 {
                    let j = last_sub(ver, L_nb());
                    assert(ver.skip(j)[0] == 'n' && ver.skip(j)[1] == 'b');
                    assert(ver[j] == 'n' && ver[j + 1] == 'b');
                }
            }
        }
        PkgName {
            pkgname: pkgname.to_string(),
            pkgbase,
            pkgversion,
            pkgrevision,
        }
    }
//@ end

//@ extract src/pkgname.rs : impl PkgName fn pkgname
    pub fn pkgname(&self) -> (r: &str)
        ensures r@ == self.name()
    {
        &self.pkgname
    }
//@ end
//@ extract src/pkgname.rs : impl PkgName fn pkgbase
    pub fn pkgbase(&self) -> (r: &str)
        ensures r@ == self.base()
    {
        &self.pkgbase
    }
//@ end
//@ extract src/pkgname.rs : impl PkgName fn pkgversion
    pub fn pkgversion(&self) -> (r: &str)
        ensures r@ == self.version()
    {
        &self.pkgversion
    }
//@ end
//@ extract src/pkgname.rs : impl PkgName fn pkgrevision
    pub fn pkgrevision(&self) -> (r: Option<i64>)
        ensures r == self.revision()
    {
        self.pkgrevision
    }
//@ end
}

/// if v ends in "nb"+ds (ds digits), the last "nb" is that one
pub proof fn lemma_nb_suffix_is_last(v: Seq<char>, ds: Seq<char>)
    requires ends_in_nb_digits(v, ds)
    ensures last_sub(v, L_nb()) == v.len() - ds.len() - 2,
        v.skip(last_sub(v, L_nb()) + 2) == ds,
{
    let j0 = v.len() - ds.len() - 2;
    lemma_last_sub(v, L_nb());
    assert(v.skip(j0).take(2) =~= v.subrange(j0, j0 + 2));
    assert(L_nb().is_prefix_of(v.skip(j0))) by { assert(v.skip(j0).subrange(0, 2) =~= L_nb()); }
    let j = last_sub(v, L_nb());
    if j > j0 {
        // then 'n' would sit inside the digit suffix
        assert(v.skip(j)[0] == 'n');
        assert(v[j] == 'n');
        if j >= j0 + 2 { assert(v.skip(v.len() - ds.len())[j - (j0 + 2)] == v[j]); assert(is_digit(ds[j - (j0 + 2)])); }
        else { assert(j == j0 + 1); assert(v.subrange(j0, j0 + 2)[1] == v[j0 + 1]); }
    }
    assert(v.skip(j0 + 2) =~= v.skip(v.len() - ds.len()));
}

/// the digit run starting at k stops before a non-digit at position p
pub proof fn lemma_dpl_stops(cs: Seq<char>, k: int, p: int)
    requires 0 <= k <= p < cs.len(), !is_digit(cs[p])
    ensures k + dpl(cs.skip(k)) <= p
{
    let t = cs.skip(k);
    lemma_dpl(t);
    if dpl(t) > p - k { assert(is_digit(t[p - k])); assert(t[p - k] == cs[p]); }
}
/// C18: for a version ending in nb<digits> the tokeniser's revision is that number,
/// whatever precedes it (no token can straddle the 'n' of the final "nb")
pub proof fn lemma_tok_rev(cs: Seq<char>, ds: Seq<char>, k: int, acc: Seq<int>, rev: int)
    requires ends_in_nb_digits(cs, ds), 0 <= k <= cs.len() - ds.len() - 2
    ensures tok(cs.skip(k), acc, rev).rev == dec_value(ds)
    decreases cs.len() - k
{
    reveal(tok);
    let p = cs.len() - ds.len() - 2;
    let t = cs.skip(k);
    assert(cs.subrange(p, p + 2)[0] == cs[p] && cs.subrange(p, p + 2)[1] == cs[p + 1]);
    assert(cs[p] == 'n' && cs[p + 1] == 'b');
    assert forall|i: int| 0 <= i < ds.len() implies cs[p + 2 + i] == ds[i] by { assert(cs.skip(cs.len() - ds.len())[i] == cs[p + 2 + i]); }
    if k == p {
        assert(dpl(t) == 0);
        assert(L_nb().is_prefix_of(t)) by { assert(t.subrange(0, 2) =~= L_nb()); }
        let u = t.skip(2);
        assert(u =~= ds);
        lemma_dpl_all(ds);
        let dl = ds.len() as int;
        assert(t.subrange(2, 2 + dl) =~= ds);
        assert(t.skip(2 + dl).len() == 0);
        lemma_dec_value_bound(ds);
        lemma_tok_end(t.skip(2 + dl), acc, dec_value(ds));
    } else {
        let n = dpl(t) as int;
        lemma_dpl(t);
        if n > 0 {
            lemma_dpl_stops(cs, k, p);
            assert(t.skip(n) =~= cs.skip(k + n));
            lemma_tok_rev(cs, ds, k + n, acc.push(run_value(t.take(n))), rev);
        } else if t[0] == '.' || t[0] == '_' {
            assert(t.skip(1) =~= cs.skip(k + 1));
            lemma_tok_rev(cs, ds, k + 1, acc.push(0), rev);
        } else if L_nb().is_prefix_of(t) {
            assert(t[1] == 'b');
            assert(k + 1 != p) by { if k + 1 == p { assert(t[1] == cs[p]); } }
            assert(t.skip(2) =~= cs.skip(k + 2));
            lemma_dpl_stops(cs, k + 2, p);
            let m = dpl(t.skip(2)) as int;
            assert(t.skip(2 + m) =~= cs.skip(k + 2 + m));
            lemma_tok_rev(cs, ds, k + 2 + m, acc, nb_value(t.subrange(2, 2 + m)));
        } else if L_alpha().is_prefix_of(t) {
            assert(forall|i: int| 0 <= i < 5 ==> t[i] == L_alpha()[i]);
            assert(k + 5 <= p) by { if p < k + 5 { assert(t[p - k] == cs[p]); } }
            assert(t.skip(5) =~= cs.skip(k + 5));
            lemma_tok_rev(cs, ds, k + 5, acc.push(-3), rev);
        } else if L_beta().is_prefix_of(t) {
            assert(forall|i: int| 0 <= i < 4 ==> t[i] == L_beta()[i]);
            assert(k + 4 <= p) by { if p < k + 4 { assert(t[p - k] == cs[p]); } }
            assert(t.skip(4) =~= cs.skip(k + 4));
            lemma_tok_rev(cs, ds, k + 4, acc.push(-2), rev);
        } else if L_rc().is_prefix_of(t) {
            assert(forall|i: int| 0 <= i < 2 ==> t[i] == L_rc()[i]);
            assert(k + 2 <= p) by { if p < k + 2 { assert(t[p - k] == cs[p]); } }
            assert(t.skip(2) =~= cs.skip(k + 2));
            lemma_tok_rev(cs, ds, k + 2, acc.push(-1), rev);
        } else if L_pre().is_prefix_of(t) {
            assert(forall|i: int| 0 <= i < 3 ==> t[i] == L_pre()[i]);
            assert(k + 3 <= p) by { if p < k + 3 { assert(t[p - k] == cs[p]); } }
            assert(t.skip(3) =~= cs.skip(k + 3));
            lemma_tok_rev(cs, ds, k + 3, acc.push(-1), rev);
        } else if L_pl().is_prefix_of(t) {
            assert(forall|i: int| 0 <= i < 2 ==> t[i] == L_pl()[i]);
            assert(k + 2 <= p) by { if p < k + 2 { assert(t[p - k] == cs[p]); } }
            assert(t.skip(2) =~= cs.skip(k + 2));
            lemma_tok_rev(cs, ds, k + 2, acc.push(0), rev);
        } else if is_lower_alpha(t[0]) {
            assert(t.skip(1) =~= cs.skip(k + 1));
            lemma_tok_rev(cs, ds, k + 1, acc.push(0).push(letter_value(t[0])), rev);
        } else {
            assert(t.skip(1) =~= cs.skip(k + 1));
            lemma_tok_rev(cs, ds, k + 1, acc, rev);
        }
    }
}
pub proof fn lemma_dpl_all(ds: Seq<char>)
    requires all_digits(ds)
    ensures dpl(ds) == ds.len()
    decreases ds.len()
{
    if ds.len() > 0 { assert(is_digit(ds[0])); assert forall|i: int| 0 <= i < ds.skip(1).len() implies is_digit(#[trigger] ds.skip(1)[i]) by { assert(ds.skip(1)[i] == ds[i + 1]); } lemma_dpl_all(ds.skip(1)); }
}
/// statement form: PkgName's revision is the revision the version comparison (vtok) uses
pub proof fn lemma_pkgrevision_is_dewey_revision(version: Seq<char>, ds: Seq<char>)
    requires ends_in_nb_digits(version, ds)
    ensures vtok(version).rev == dec_value(ds)
{
    let lv = lower_seq(version);
    let p = version.len() - ds.len() - 2;
    assert(version.subrange(p, p + 2)[0] == version[p] && version.subrange(p, p + 2)[1] == version[p + 1]);
    assert(lv.subrange(p, p + 2) =~= L_nb());
    assert forall|i: int| 0 <= i < ds.len() implies lv[p + 2 + i] == ds[i] by {
        assert(version.skip(version.len() - ds.len())[i] == version[p + 2 + i]);
        assert(is_digit(ds[i]));
    }
    assert(lv.skip(lv.len() - ds.len()) =~= ds);
    assert(ends_in_nb_digits(lv, ds));
    assert(lv.skip(0) =~= lv);
    lemma_tok_rev(lv, ds, 0, seq![], 0);
}

} // verus!
fn main() {}
