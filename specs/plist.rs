// Unit plist: src/plist.rs -- Plist::from_bytes (line scanner), PlistEntry::from_bytes (command table),
// and every query (C14, C15, C17).
//@ unit plist
#![allow(unused_imports)]
use vstd::prelude::*;
use vstd::utf8::*;
use vstd::string::*;
use std::ffi::{OsStr, OsString};
use std::os::unix::ffi::{OsStrExt, OsStringExt};
use std::path::{Path, PathBuf};
use std::string::FromUtf8Error;
use vstd::std_specs::iter::IteratorSpec;
verus! {

//@ include lib/std_str.rs
//@ include lib/std_os.rs
//@ include lib/plist_spec.rs

#[verifier::external_type_specification]
#[verifier::external_body]
pub struct ExFromUtf8Error(FromUtf8Error);

//@ extract src/plist.rs : type Result
pub type Result<T> = std::result::Result<T, PlistError>;
//@ end

//@ extract src/plist.rs : enum PlistError
pub enum PlistError {
    UnsupportedCommand(OsString),
    IncorrectArguments(OsString),
    Utf8(FromUtf8Error),
}
//@ end

impl vstd::std_specs::convert::FromSpecImpl<FromUtf8Error> for PlistError {
    open spec fn obeys_from_spec() -> bool { true }
    open spec fn from_spec(err: FromUtf8Error) -> PlistError { PlistError::Utf8(err) }
}
//@ extract src/plist.rs : impl From<FromUtf8Error> for PlistError
impl From<FromUtf8Error> for PlistError {
    fn from(err: FromUtf8Error) -> Self {
        PlistError::Utf8(err)
    }
}
//@ end

//@ extract src/plist.rs : enum PlistEntry
pub enum PlistEntry {
    File(OsString),
    Cwd(OsString),
    Exec(OsString),
    UnExec(OsString),
    Mode(Option<String>),
    PkgOpt(PlistOption),
    Owner(Option<String>),
    Group(Option<String>),
    Comment(Option<OsString>),
    Ignore,
    Name(String),
    PkgDir(OsString),
    DirRm(OsString),
    Display(OsString),
    PkgDep(String),
    BldDep(String),
    PkgCfl(String),
}
//@ end

//@ extract src/plist.rs : enum PlistOption
pub enum PlistOption {
    Preserve,
}
//@ end

pub open spec fn opt_chars(o: Option<String>) -> Option<Seq<char>> { match o { Some(s) => Some(s@), None => None } }
pub open spec fn opt_os(o: Option<OsString>) -> Option<Seq<u8>> { match o { Some(s) => Some(osbs(&s)), None => None } }
/// abstract view of an entry: raw bytes for path-like payloads, characters for UTF-8 payloads
pub open spec fn ev(e: PlistEntry) -> EV {
    match e {
        PlistEntry::File(s) => EV::File(osbs(&s)),
        PlistEntry::Cwd(s) => EV::Cwd(osbs(&s)),
        PlistEntry::Exec(s) => EV::Exec(osbs(&s)),
        PlistEntry::UnExec(s) => EV::UnExec(osbs(&s)),
        PlistEntry::Mode(o) => EV::Mode(opt_chars(o)),
        PlistEntry::PkgOpt(_) => EV::PkgOptPreserve,
        PlistEntry::Owner(o) => EV::Owner(opt_chars(o)),
        PlistEntry::Group(o) => EV::Group(opt_chars(o)),
        PlistEntry::Comment(o) => EV::Comment(opt_os(o)),
        PlistEntry::Ignore => EV::Ignore,
        PlistEntry::Name(s) => EV::Name(s@),
        PlistEntry::PkgDir(s) => EV::PkgDir(osbs(&s)),
        PlistEntry::DirRm(s) => EV::DirRm(osbs(&s)),
        PlistEntry::Display(s) => EV::Display(osbs(&s)),
        PlistEntry::PkgDep(s) => EV::PkgDep(s@),
        PlistEntry::BldDep(s) => EV::BldDep(s@),
        PlistEntry::PkgCfl(s) => EV::PkgCfl(s@),
    }
}
pub open spec fn evs(es: Seq<PlistEntry>) -> Seq<EV> { Seq::new(es.len(), |i: int| ev(es[i])) }

impl PlistEntry {
//@ extract src/plist.rs : impl PlistEntry fn from_bytes
//@ rewrite D7.expand_macros D6.osstr_from_bytes D6.position_byte D6.lossy_owned D1.for_subslice D6.string_starts_with_char D6.osstring_from_cmd D6.osstring_from_osstr D6.string_from_utf8_os D6.opt_os_to_str D14.question_mark
    pub fn from_bytes(bytes: &[u8]) -> (r: Result<PlistEntry>)
        ensures (match entry_spec(bytes@) { Ok(v) => r is Ok && ev(r->Ok_0) == v, Err(k) => r is Err && perr(r->Err_0) == k })
    {
        let ghost b0 = bytes@;
        let line = OsStr::from_bytes(bytes);
        let end = bytes.len();
        let bytes = &bytes[0..end];
        proof { assert(bytes@ =~= b0); lemma_first_byte(b0, 32u8); lemma_cmd_lits(); }
        let (mut idx, cmd) = match bytes.iter().position(|&c| c == b' ') {
            Some(i) => (i, String::from_utf8_lossy(&bytes[0..i]).into_owned()),
            None => (0, String::from_utf8_lossy(bytes).into_owned()),
        };
        let args = if idx == 0 || idx + 1 >= end {
            None
        } else {
            let ghost idx0 = idx as int;
            let __s = &bytes[idx..end];
            let mut __k: usize = 0;
            while __k < __s.len()
                invariant_except_break idx == idx0 + __k,
                invariant 0 <= idx0 <= idx <= end, __k <= __s@.len(), end == b0.len(), bytes@ == b0,
                    __s@ == b0.subrange(idx0, end as int),
                    forall|i: int| idx0 <= i < idx ==> ws(b0[i]),
                ensures 0 <= idx0 <= idx <= end, idx == end || !ws(b0[idx as int]), forall|i: int| idx0 <= i < idx ==> ws(b0[i]),
                decreases __s@.len() - __k
            {
                let c = &__s[__k];
                __k += 1;
                proof { assert(*c == b0[idx as int]); lemma_ws_char(*c); }
                if c.is_ascii() && (*c as char).is_whitespace() {
                    idx += 1;
                    continue;
                }
                break;
            }
            proof { lemma_skip_ws_unique(b0, idx0, idx as int); }
            if idx == end {
                None
            } else {
                Some(OsStr::from_bytes(&bytes[idx..end]))
            }
        };
        proof {
            assert(cmd_bytes_ok(b0, cmd@));
            assert(opt_osb(args) == arg_of(b0));
            assert(osb(line) == b0);
        }
        if cmd.starts_with('@') {
            proof {
                assert forall|t: &str| (t == "@cwd") == (#[trigger] t@ == "@cwd"@) by { axiom_str_ext(t, "@cwd"); }
                assert forall|t: &str| (t == "@src") == (#[trigger] t@ == "@src"@) by { axiom_str_ext(t, "@src"); }
                assert forall|t: &str| (t == "@cd") == (#[trigger] t@ == "@cd"@) by { axiom_str_ext(t, "@cd"); }
                assert forall|t: &str| (t == "@exec") == (#[trigger] t@ == "@exec"@) by { axiom_str_ext(t, "@exec"); }
                assert forall|t: &str| (t == "@unexec") == (#[trigger] t@ == "@unexec"@) by { axiom_str_ext(t, "@unexec"); }
                assert forall|t: &str| (t == "@option") == (#[trigger] t@ == "@option"@) by { axiom_str_ext(t, "@option"); }
                assert forall|t: &str| (t == "@mode") == (#[trigger] t@ == "@mode"@) by { axiom_str_ext(t, "@mode"); }
                assert forall|t: &str| (t == "@owner") == (#[trigger] t@ == "@owner"@) by { axiom_str_ext(t, "@owner"); }
                assert forall|t: &str| (t == "@group") == (#[trigger] t@ == "@group"@) by { axiom_str_ext(t, "@group"); }
                assert forall|t: &str| (t == "@comment") == (#[trigger] t@ == "@comment"@) by { axiom_str_ext(t, "@comment"); }
                assert forall|t: &str| (t == "@ignore") == (#[trigger] t@ == "@ignore"@) by { axiom_str_ext(t, "@ignore"); }
                assert forall|t: &str| (t == "@name") == (#[trigger] t@ == "@name"@) by { axiom_str_ext(t, "@name"); }
                assert forall|t: &str| (t == "@pkgdep") == (#[trigger] t@ == "@pkgdep"@) by { axiom_str_ext(t, "@pkgdep"); }
                assert forall|t: &str| (t == "@blddep") == (#[trigger] t@ == "@blddep"@) by { axiom_str_ext(t, "@blddep"); }
                assert forall|t: &str| (t == "@pkgcfl") == (#[trigger] t@ == "@pkgcfl"@) by { axiom_str_ext(t, "@pkgcfl"); }
                assert forall|t: &str| (t == "@pkgdir") == (#[trigger] t@ == "@pkgdir"@) by { axiom_str_ext(t, "@pkgdir"); }
                assert forall|t: &str| (t == "@dirrm") == (#[trigger] t@ == "@dirrm"@) by { axiom_str_ext(t, "@dirrm"); }
                assert forall|t: &str| (t == "@display") == (#[trigger] t@ == "@display"@) by { axiom_str_ext(t, "@display"); }
                assert forall|t: &str| (t == "preserve") == (#[trigger] t@ == "preserve"@) by { axiom_str_ext(t, "preserve"); }
                assert forall|t: &str| #[trigger] t.spec_bytes() == encode_utf8(t@) by {}
                assert forall|t: &str| encode_utf8(#[trigger] t@) == encode_utf8("preserve"@) implies t@ == "preserve"@ by {
                    encode_utf8_decode_utf8(t@); encode_utf8_decode_utf8("preserve"@);
                }
            }
            match cmd.as_str() {
                "@cwd" | "@src" | "@cd" => {
                    plist_args_osstr!(args, PlistEntry::Cwd, line)
                }
                "@exec" => plist_args_osstr!(args, PlistEntry::Exec, line),
                "@unexec" => plist_args_osstr!(args, PlistEntry::UnExec, line),
                "@option" => match args.and_then(OsStr::to_str) {
                    Some("preserve") => {
                        Ok(PlistEntry::PkgOpt(PlistOption::Preserve))
                    }
                    Some(_) => {
                        Err(PlistError::UnsupportedCommand(OsString::from(cmd)))
                    }
                    None => Err(PlistError::IncorrectArguments(
                        OsString::from(line),
                    )),
                },
                "@mode" => plist_args_str_opt!(args, PlistEntry::Mode),
                "@owner" => plist_args_str_opt!(args, PlistEntry::Owner),
                "@group" => plist_args_str_opt!(args, PlistEntry::Group),
                "@comment" => plist_args_osstr_opt!(args, PlistEntry::Comment),
                "@ignore" => match args {
                    Some(_) => Err(PlistError::IncorrectArguments(
                        OsString::from(line),
                    )),
                    None => Ok(PlistEntry::Ignore),
                },
                "@name" => plist_args_str!(args, PlistEntry::Name, line),
                "@pkgdep" => plist_args_str!(args, PlistEntry::PkgDep, line),
                "@blddep" => plist_args_str!(args, PlistEntry::BldDep, line),
                "@pkgcfl" => plist_args_str!(args, PlistEntry::PkgCfl, line),
                "@pkgdir" => plist_args_osstr!(args, PlistEntry::PkgDir, line),
                "@dirrm" => plist_args_osstr!(args, PlistEntry::DirRm, line),
                "@display" => {
                    plist_args_osstr!(args, PlistEntry::Display, line)
                }
                _ => Err(PlistError::UnsupportedCommand(OsString::from(cmd))),
            }
        } else {
            Ok(PlistEntry::File(OsString::from(OsStr::from_bytes(bytes))))
        }
    }
//@ end
}
/// what the (lossily decoded) command word must satisfy w.r.t. the line's bytes
pub open spec fn cmd_bytes_ok(b: Seq<u8>, cmd: Seq<char>) -> bool {
    ((cmd.len() > 0 && cmd[0] == '@') == (cmd_of(b).len() > 0 && cmd_of(b)[0] == 0x40u8))
    && forall|l: Seq<char>| is_ascii_chars(l) ==> ((cmd == l) == (cmd_of(b) == #[trigger] encode_utf8(l)))
}
pub open spec fn opt_osb(a: Option<&OsStr>) -> Option<Seq<u8>> { match a { Some(o) => Some(osb(o)), None => None } }
pub proof fn lemma_cmd_lits()
    ensures is_ascii_chars("@cwd"@), is_ascii_chars("@src"@), is_ascii_chars("@cd"@), is_ascii_chars("@exec"@), is_ascii_chars("@unexec"@), is_ascii_chars("@option"@), is_ascii_chars("@mode"@), is_ascii_chars("@owner"@), is_ascii_chars("@group"@), is_ascii_chars("@comment"@), is_ascii_chars("@ignore"@), is_ascii_chars("@name"@), is_ascii_chars("@pkgdep"@), is_ascii_chars("@blddep"@), is_ascii_chars("@pkgcfl"@), is_ascii_chars("@pkgdir"@), is_ascii_chars("@dirrm"@), is_ascii_chars("@display"@), is_ascii_chars("preserve"@)
{
    reveal_strlit("@cwd");
    reveal_strlit("@src");
    reveal_strlit("@cd");
    reveal_strlit("@exec");
    reveal_strlit("@unexec");
    reveal_strlit("@option");
    reveal_strlit("@mode");
    reveal_strlit("@owner");
    reveal_strlit("@group");
    reveal_strlit("@comment");
    reveal_strlit("@ignore");
    reveal_strlit("@name");
    reveal_strlit("@pkgdep");
    reveal_strlit("@blddep");
    reveal_strlit("@pkgcfl");
    reveal_strlit("@pkgdir");
    reveal_strlit("@dirrm");
    reveal_strlit("@display");
    reveal_strlit("preserve");
}
pub proof fn lemma_skip_ws_unique(b: Seq<u8>, from: int, k: int)
    requires 0 <= from <= k <= b.len(), forall|i: int| from <= i < k ==> ws(b[i]), k == b.len() || !ws(b[k])
    ensures skip_ws(b, from) == k
    decreases k - from
{
    if from < k { lemma_skip_ws_unique(b, from + 1, k); }
}
pub open spec fn perr(e: PlistError) -> PErr {
    match e { PlistError::UnsupportedCommand(_) => PErr::Unsupported, PlistError::IncorrectArguments(_) => PErr::Incorrect, PlistError::Utf8(_) => PErr::Utf8 }
}

//@ extract src/plist.rs : struct Plist
pub struct Plist {
    entries: Vec<PlistEntry>,
}
//@ end
// D12: derive(Default) written out
impl Default for Plist {
    fn default() -> (r: Plist) ensures r.view() == Seq::<PlistEntry>::empty() { Plist { entries: Vec::new() } }
}

impl Plist {
    pub closed spec fn view(&self) -> Seq<PlistEntry> { self.entries@ }
    pub open spec fn vs(&self) -> Seq<EV> { evs(self.view()) }

//@ extract src/plist.rs : impl Plist fn new
    pub fn new() -> (r: Plist)
        ensures r.view() == Seq::<PlistEntry>::empty()
    {
        let plist: Plist = Default::default();
        plist
    }
//@ end

//@ extract src/plist.rs : impl Plist fn from_bytes
//@ rewrite D1.enumerate
    pub fn from_bytes(bytes: &[u8]) -> (r: Result<Plist>)
        ensures
            r is Ok ==> r->Ok_0.view().len() == ranges(bytes@, 0).len()
                && forall|k: int| 0 <= k < ranges(bytes@, 0).len() ==>
                    entry_spec(line_of(bytes@, #[trigger] ranges(bytes@, 0)[k])) == core::result::Result::<EV, PErr>::Ok(ev(r->Ok_0.view()[k])),
            r is Err ==> exists|k: int| 0 <= k < ranges(bytes@, 0).len() && entry_spec(line_of(bytes@, #[trigger] ranges(bytes@, 0)[k])) is Err,
    {
        let mut plist = Plist::new();
        let mut lines: Vec<(usize, usize)> = Vec::new();
        let mut start = 0;
        let mut tstart = 0;
        let mut trim = true;
        let mut end = 0;
        proof { assert(lines@ + ranges(bytes@, 0) =~= ranges(bytes@, 0)); }
        for idx in 0 .. bytes.len()
            invariant
                0 <= start <= tstart <= idx,
                end == start || (end == 0 && start == 0),
                forall|i: int| start <= i < idx ==> bytes@[i] != 10u8,
                forall|i: int| start <= i < tstart ==> ws(bytes@[i]),
                trim ==> tstart == idx,
                !trim ==> tstart < idx && !ws(bytes@[tstart as int]),
                lines@ + ranges(bytes@, start as int) == ranges(bytes@, 0),
        {
            let ch = &bytes[idx];
            if *ch == b'\n' {
                proof {
                    lemma_line_end_unique(bytes@, start as int, idx as int);
                    if tstart < idx { assert(!ws(bytes@[tstart as int])); assert(has_nonws(bytes@, start as int, idx as int)); }
                    else { assert(!has_nonws(bytes@, start as int, idx as int)); }
                }
                if start < idx && tstart < idx {
                    lines.push((start, idx));
                }
                proof {
                    let ghost_head = if has_nonws(bytes@, start as int, idx as int) { seq![(start, idx)] } else { seq![] };
                    assert(ranges(bytes@, start as int) =~= ghost_head + ranges(bytes@, idx + 1));
                }
                start = idx + 1;
                end = start;
                tstart = start;
                trim = true;
            } else if trim && ch.is_ascii() && (*ch as char).is_whitespace() {
                tstart += 1;
            } else {
                proof { lemma_ws_char(*ch); }
                trim = false;
            }
        }
        proof {
            let n = bytes@.len() as int;
            if start < n {
                lemma_line_end_unique(bytes@, start as int, n);
                if tstart < n { assert(!ws(bytes@[tstart as int])); assert(has_nonws(bytes@, start as int, n)); }
                else { assert(!has_nonws(bytes@, start as int, n)); }
            }
        }
        if end < bytes.len() && tstart < bytes.len() {
            lines.push((start, bytes.len()));
        }
        proof { assert(lines@ == ranges(bytes@, 0)); lemma_ranges_valid(bytes@, 0); }
        for (start, end) in it: lines
            invariant
                it.snapshot@.remaining() == ranges(bytes@, 0),
                forall|k: int| 0 <= k < ranges(bytes@, 0).len() ==> (#[trigger] ranges(bytes@, 0)[k]).0 <= ranges(bytes@, 0)[k].1 <= bytes@.len(),
                plist.view().len() == it.index@,
                forall|k: int| 0 <= k < it.index@ ==>
                    entry_spec(line_of(bytes@, #[trigger] ranges(bytes@, 0)[k])) == core::result::Result::<EV, PErr>::Ok(ev(plist.view()[k])),
        {
            plist
                .entries
                .push(PlistEntry::from_bytes(&bytes[start..end])?);
        }
        Ok(plist)
    }
//@ end

//@ extract src/plist.rs : impl Plist fn pkgname
//@ rewrite D7.expand_macros D4.find_map
    pub fn pkgname(&self) -> (r: Option<&str>)
        ensures r is None <==> of_kind(self.vs(), 0, 6).len() == 0,
            r is Some ==> self.vs()[of_kind(self.vs(), 0, 6)[0]] == EV::Name(r->Some_0@),
    {
        for __i in 0 .. self.entries.len()
            invariant of_kind(self.vs(), __i as int, 6) == of_kind(self.vs(), 0, 6),
        {
            let entry = &self.entries[__i];
            let __r = match entry {
                PlistEntry::Name(s) => Some(s.as_str()),
                _ => None,
            };
            proof { assert(self.vs()[__i as int] == ev(self.entries@[__i as int])); }
            if __r.is_some() {
                return __r;
            }
        }
        None
    }
//@ end

//@ extract src/plist.rs : impl Plist fn display
//@ rewrite D7.expand_macros D4.find_map
    pub fn display(&self) -> (r: Option<&OsStr>)
        ensures r is None <==> of_kind(self.vs(), 0, 7).len() == 0,
            r is Some ==> self.vs()[of_kind(self.vs(), 0, 7)[0]] == EV::Display(osb(r->Some_0)),
    {
        for __i in 0 .. self.entries.len()
            invariant of_kind(self.vs(), __i as int, 7) == of_kind(self.vs(), 0, 7),
        {
            let entry = &self.entries[__i];
            let __r = match entry {
                PlistEntry::Display(s) => Some(s.as_os_str()),
                _ => None,
            };
            proof { assert(self.vs()[__i as int] == ev(self.entries@[__i as int])); }
            if __r.is_some() {
                return __r;
            }
        }
        None
    }
//@ end

//@ extract src/plist.rs : impl Plist fn depends
//@ rewrite D7.expand_macros D2.filter_map_collect
    pub fn depends(&self) -> (r: Vec<&str>)
        ensures r@.len() == of_kind(self.vs(), 0, 1).len(),
            forall|j: int| 0 <= j < r@.len() ==> self.vs()[of_kind(self.vs(), 0, 1)[j]] == EV::PkgDep((#[trigger] r@[j])@),
    {
        let mut __out : Vec<&str> = Vec::new();
        let ghost mut idx: Seq<int> = seq![];
        proof { assert(idx + of_kind(self.vs(), 0, 1) =~= of_kind(self.vs(), 0, 1)); }
        for __i in 0 .. self.entries.len()
            invariant
                __out@.len() == idx.len(),
                idx + of_kind(self.vs(), __i as int, 1) == of_kind(self.vs(), 0, 1),
                forall|j: int| 0 <= j < idx.len() ==> 0 <= #[trigger] idx[j] < self.vs().len(),
                forall|j: int| 0 <= j < idx.len() ==> self.vs()[idx[j]] == EV::PkgDep((#[trigger] __out@[j])@),
        {
            let entry = &self.entries[__i];
            let __r = match entry {
                PlistEntry::PkgDep(s) => Some(s.as_str()),
                _ => None,
            };
            proof {
                assert(self.vs()[__i as int] == ev(self.entries@[__i as int]));
                if is_kind(self.vs()[__i as int], 1) {
                    assert(idx.push(__i as int) + of_kind(self.vs(), __i + 1, 1) =~= idx + of_kind(self.vs(), __i as int, 1));
                }
            }
            let ghost old_out = __out@;
            if let Some(__x) = __r {
                __out.push(__x);
            }
            proof {
                if __r is Some {
                    idx = idx.push(__i as int);
                    assert(__out@ == old_out.push(__r->Some_0));
                }
            }
        }
        __out
    }
//@ end

//@ extract src/plist.rs : impl Plist fn build_depends
//@ rewrite D7.expand_macros D2.filter_map_collect
    pub fn build_depends(&self) -> (r: Vec<&str>)
        ensures r@.len() == of_kind(self.vs(), 0, 2).len(),
            forall|j: int| 0 <= j < r@.len() ==> self.vs()[of_kind(self.vs(), 0, 2)[j]] == EV::BldDep((#[trigger] r@[j])@),
    {
        let mut __out : Vec<&str> = Vec::new();
        let ghost mut idx: Seq<int> = seq![];
        proof { assert(idx + of_kind(self.vs(), 0, 2) =~= of_kind(self.vs(), 0, 2)); }
        for __i in 0 .. self.entries.len()
            invariant
                __out@.len() == idx.len(),
                idx + of_kind(self.vs(), __i as int, 2) == of_kind(self.vs(), 0, 2),
                forall|j: int| 0 <= j < idx.len() ==> 0 <= #[trigger] idx[j] < self.vs().len(),
                forall|j: int| 0 <= j < idx.len() ==> self.vs()[idx[j]] == EV::BldDep((#[trigger] __out@[j])@),
        {
            let entry = &self.entries[__i];
            let __r = match entry {
                PlistEntry::BldDep(s) => Some(s.as_str()),
                _ => None,
            };
            proof {
                assert(self.vs()[__i as int] == ev(self.entries@[__i as int]));
                if is_kind(self.vs()[__i as int], 2) {
                    assert(idx.push(__i as int) + of_kind(self.vs(), __i + 1, 2) =~= idx + of_kind(self.vs(), __i as int, 2));
                }
            }
            let ghost old_out = __out@;
            if let Some(__x) = __r {
                __out.push(__x);
            }
            proof {
                if __r is Some {
                    idx = idx.push(__i as int);
                    assert(__out@ == old_out.push(__r->Some_0));
                }
            }
        }
        __out
    }
//@ end

//@ extract src/plist.rs : impl Plist fn conflicts
//@ rewrite D7.expand_macros D2.filter_map_collect
    pub fn conflicts(&self) -> (r: Vec<&str>)
        ensures r@.len() == of_kind(self.vs(), 0, 3).len(),
            forall|j: int| 0 <= j < r@.len() ==> self.vs()[of_kind(self.vs(), 0, 3)[j]] == EV::PkgCfl((#[trigger] r@[j])@),
    {
        let mut __out : Vec<&str> = Vec::new();
        let ghost mut idx: Seq<int> = seq![];
        proof { assert(idx + of_kind(self.vs(), 0, 3) =~= of_kind(self.vs(), 0, 3)); }
        for __i in 0 .. self.entries.len()
            invariant
                __out@.len() == idx.len(),
                idx + of_kind(self.vs(), __i as int, 3) == of_kind(self.vs(), 0, 3),
                forall|j: int| 0 <= j < idx.len() ==> 0 <= #[trigger] idx[j] < self.vs().len(),
                forall|j: int| 0 <= j < idx.len() ==> self.vs()[idx[j]] == EV::PkgCfl((#[trigger] __out@[j])@),
        {
            let entry = &self.entries[__i];
            let __r = match entry {
                PlistEntry::PkgCfl(s) => Some(s.as_str()),
                _ => None,
            };
            proof {
                assert(self.vs()[__i as int] == ev(self.entries@[__i as int]));
                if is_kind(self.vs()[__i as int], 3) {
                    assert(idx.push(__i as int) + of_kind(self.vs(), __i + 1, 3) =~= idx + of_kind(self.vs(), __i as int, 3));
                }
            }
            let ghost old_out = __out@;
            if let Some(__x) = __r {
                __out.push(__x);
            }
            proof {
                if __r is Some {
                    idx = idx.push(__i as int);
                    assert(__out@ == old_out.push(__r->Some_0));
                }
            }
        }
        __out
    }
//@ end

//@ extract src/plist.rs : impl Plist fn pkgdirs
//@ rewrite D7.expand_macros D2.filter_map_collect
    pub fn pkgdirs(&self) -> (r: Vec<&OsStr>)
        ensures r@.len() == of_kind(self.vs(), 0, 4).len(),
            forall|j: int| 0 <= j < r@.len() ==> self.vs()[of_kind(self.vs(), 0, 4)[j]] == EV::PkgDir(osb((#[trigger] r@[j]))),
    {
        let mut __out : Vec<&OsStr> = Vec::new();
        let ghost mut idx: Seq<int> = seq![];
        proof { assert(idx + of_kind(self.vs(), 0, 4) =~= of_kind(self.vs(), 0, 4)); }
        for __i in 0 .. self.entries.len()
            invariant
                __out@.len() == idx.len(),
                idx + of_kind(self.vs(), __i as int, 4) == of_kind(self.vs(), 0, 4),
                forall|j: int| 0 <= j < idx.len() ==> 0 <= #[trigger] idx[j] < self.vs().len(),
                forall|j: int| 0 <= j < idx.len() ==> self.vs()[idx[j]] == EV::PkgDir(osb((#[trigger] __out@[j]))),
        {
            let entry = &self.entries[__i];
            let __r = match entry {
                PlistEntry::PkgDir(s) => Some(s.as_os_str()),
                _ => None,
            };
            proof {
                assert(self.vs()[__i as int] == ev(self.entries@[__i as int]));
                if is_kind(self.vs()[__i as int], 4) {
                    assert(idx.push(__i as int) + of_kind(self.vs(), __i + 1, 4) =~= idx + of_kind(self.vs(), __i as int, 4));
                }
            }
            let ghost old_out = __out@;
            if let Some(__x) = __r {
                __out.push(__x);
            }
            proof {
                if __r is Some {
                    idx = idx.push(__i as int);
                    assert(__out@ == old_out.push(__r->Some_0));
                }
            }
        }
        __out
    }
//@ end

//@ extract src/plist.rs : impl Plist fn pkgrmdirs
//@ rewrite D7.expand_macros D2.filter_map_collect
    pub fn pkgrmdirs(&self) -> (r: Vec<&OsStr>)
        ensures r@.len() == of_kind(self.vs(), 0, 5).len(),
            forall|j: int| 0 <= j < r@.len() ==> self.vs()[of_kind(self.vs(), 0, 5)[j]] == EV::DirRm(osb((#[trigger] r@[j]))),
    {
        let mut __out : Vec<&OsStr> = Vec::new();
        let ghost mut idx: Seq<int> = seq![];
        proof { assert(idx + of_kind(self.vs(), 0, 5) =~= of_kind(self.vs(), 0, 5)); }
        for __i in 0 .. self.entries.len()
            invariant
                __out@.len() == idx.len(),
                idx + of_kind(self.vs(), __i as int, 5) == of_kind(self.vs(), 0, 5),
                forall|j: int| 0 <= j < idx.len() ==> 0 <= #[trigger] idx[j] < self.vs().len(),
                forall|j: int| 0 <= j < idx.len() ==> self.vs()[idx[j]] == EV::DirRm(osb((#[trigger] __out@[j]))),
        {
            let entry = &self.entries[__i];
            let __r = match entry {
                PlistEntry::DirRm(s) => Some(s.as_os_str()),
                _ => None,
            };
            proof {
                assert(self.vs()[__i as int] == ev(self.entries@[__i as int]));
                if is_kind(self.vs()[__i as int], 5) {
                    assert(idx.push(__i as int) + of_kind(self.vs(), __i + 1, 5) =~= idx + of_kind(self.vs(), __i as int, 5));
                }
            }
            let ghost old_out = __out@;
            if let Some(__x) = __r {
                __out.push(__x);
            }
            proof {
                if __r is Some {
                    idx = idx.push(__i as int);
                    assert(__out@ == old_out.push(__r->Some_0));
                }
            }
        }
        __out
    }
//@ end

//@ extract src/plist.rs : impl Plist fn files
//@ rewrite D2.filter_map_collect
    pub fn files(&self) -> (r: Vec<&OsStr>)
        ensures r@.len() == kept_files(self.vs(), 0, false).len(),
            forall|j: int| 0 <= j < r@.len() ==> self.vs()[kept_files(self.vs(), 0, false)[j]] == EV::File(osb(#[trigger] r@[j])),
    {
        let mut ignore = false;
        let mut __out : Vec<&OsStr> = Vec::new();
        let ghost mut idx: Seq<int> = seq![];
        proof { assert(idx + kept_files(self.vs(), 0, false) =~= kept_files(self.vs(), 0, false)); }
        for __i in 0 .. self.entries.len()
            invariant
                __out@.len() == idx.len(),
                idx + kept_files(self.vs(), __i as int, ignore) == kept_files(self.vs(), 0, false),
                forall|j: int| 0 <= j < idx.len() ==> 0 <= #[trigger] idx[j] < self.vs().len(),
                forall|j: int| 0 <= j < idx.len() ==> self.vs()[idx[j]] == EV::File(osb(#[trigger] __out@[j])),
        {
            let entry = &self.entries[__i];
            let ghost old_out = __out@;
            let ghost old_ignore = ignore;
            let __r = match entry {
                PlistEntry::Ignore => {
                    ignore = true;
                    None
                }
                PlistEntry::File(file) => {
                    if ignore {
                        ignore = false;
                        None
                    } else {
                        Some(file.as_os_str())
                    }
                }
                _ => None,
            };
            proof {
                assert(self.vs()[__i as int] == ev(self.entries@[__i as int]));
                if __r is Some {
                    assert(idx.push(__i as int) + kept_files(self.vs(), __i + 1, ignore) =~= idx + kept_files(self.vs(), __i as int, old_ignore));
                }
            }
            if let Some(__x) = __r {
                __out.push(__x);
            }
            proof {
                if __r is Some {
                    idx = idx.push(__i as int);
                    assert(__out@ == old_out.push(__r->Some_0));
                }
            }
        }
        __out
    }
//@ end

//@ extract src/plist.rs : impl Plist fn files_prefixed
//@ rewrite D2.filter_map_collect D6.os_lossy_ends_with_slash D6.os_push_lit D6.os_push_var D6.os_to_os_string
    pub fn files_prefixed(&self) -> (r: Vec<OsString>)
        ensures r@.len() == kept_files(self.vs(), 0, false).len(),
            forall|j: int| 0 <= j < r@.len() ==> self.vs()[#[trigger] kept_files(self.vs(), 0, false)[j]] is File,
            forall|j: int| 0 <= j < r@.len() ==>
                osbs(&#[trigger] r@[j]) == prefixed(cwd_at(self.vs(), kept_files(self.vs(), 0, false)[j]), self.vs()[kept_files(self.vs(), 0, false)[j]]->File_0),
    {
        let mut ignore = false;
        let mut prefix: Option<OsString> = None;
        let mut __out : Vec<OsString> = Vec::new();
        let ghost mut idx: Seq<int> = seq![];
        proof { assert(idx + kept_files(self.vs(), 0, false) =~= kept_files(self.vs(), 0, false)); }
        for __i in 0 .. self.entries.len()
            invariant
                __out@.len() == idx.len(),
                idx + kept_files(self.vs(), __i as int, ignore) == kept_files(self.vs(), 0, false),
                pfx_bytes(prefix) == cwd_at(self.vs(), __i as int),
                forall|j: int| 0 <= j < idx.len() ==> 0 <= #[trigger] idx[j] < self.vs().len(),
                forall|j: int| 0 <= j < idx.len() ==> self.vs()[#[trigger] idx[j]] is File,
                forall|j: int| 0 <= j < idx.len() ==> osbs(&#[trigger] __out@[j]) == prefixed(cwd_at(self.vs(), idx[j]), self.vs()[idx[j]]->File_0),
        {
            let entry = &self.entries[__i];
            let ghost old_out = __out@;
            let ghost old_ignore = ignore;
            proof { assert(self.vs()[__i as int] == ev(self.entries@[__i as int])); }
            let __r = match entry {
                PlistEntry::Cwd(dir) => {
                    prefix = Some(dir.to_os_string());
                    None
                }
                PlistEntry::Ignore => {
                    ignore = true;
                    None
                }
                PlistEntry::File(file) => {
                    if ignore {
                        ignore = false;
                        None
                    } else {
                        let mut path = OsString::new();
                        if let Some(pfx) = &prefix {
                            path.push(pfx);
                        }
                        proof { assert(osbs(&path) =~= cwd_at(self.vs(), __i as int)); }
                        if !path.to_string_lossy().ends_with('/') {
                            path.push("/");
                            proof { lemma_slash(); }
                        }
                        path.push(file);
                        proof { assert(osbs(&path) == prefixed(cwd_at(self.vs(), __i as int), osbs(file))); }
                        Some(path)
                    }
                }
                _ => None,
            };
            proof {
                if __r is Some {
                    assert(idx.push(__i as int) + kept_files(self.vs(), __i + 1, ignore) =~= idx + kept_files(self.vs(), __i as int, old_ignore));
                }
            }
            if let Some(__x) = __r {
                __out.push(__x);
            }
            proof {
                if __r is Some {
                    idx = idx.push(__i as int);
                    assert(__out@ == old_out.push(__r->Some_0));
                }
            }
        }
        __out
    }
//@ end

//@ extract src/plist.rs : impl Plist fn install_cmds
//@ rewrite D3.filter_collect
    pub fn install_cmds(&self) -> (r: Vec<&PlistEntry>)
        ensures r@.len() == cmds(self.vs(), 0, false, 1).len(),
            forall|j: int| 0 <= j < r@.len() ==> 0 <= cmds(self.vs(), 0, false, 1)[j] < self.view().len() && *(#[trigger] r@[j]) == self.view()[cmds(self.vs(), 0, false, 1)[j]],
    {
        let mut ignore = false;
        let mut __out : Vec<&PlistEntry> = Vec::new();
        let ghost mut idx: Seq<int> = seq![];
        proof { assert(idx + cmds(self.vs(), 0, false, 1) =~= cmds(self.vs(), 0, false, 1)); }
        for __i in 0 .. self.entries.len()
            invariant
                __out@.len() == idx.len(),
                idx + cmds(self.vs(), __i as int, ignore, 1) == cmds(self.vs(), 0, false, 1),
                forall|j: int| 0 <= j < idx.len() ==> 0 <= #[trigger] idx[j] < self.view().len(),
                forall|j: int| 0 <= j < idx.len() ==> *(#[trigger] __out@[j]) == self.view()[idx[j]],
        {
            let entry = &self.entries[__i];
            let ghost old_out = __out@;
            let ghost old_ignore = ignore;
            let __keep = match entry {
                PlistEntry::Ignore => {
                    ignore = true;
                    false
                }
                PlistEntry::File(_) => {
                    if ignore {
                        ignore = false;
                        false
                    } else {
                        true
                    }
                }
                PlistEntry::Cwd(_)
                | PlistEntry::Exec(_)
                | PlistEntry::Mode(_)
                | PlistEntry::Owner(_)
                | PlistEntry::Group(_)
                | PlistEntry::PkgDir(_) => true,
                _ => false,
            };
            proof {
                assert(self.vs()[__i as int] == ev(self.entries@[__i as int]));
                if __keep {
                    assert(idx.push(__i as int) + cmds(self.vs(), __i + 1, ignore, 1) =~= idx + cmds(self.vs(), __i as int, old_ignore, 1));
                }
            }
            if __keep {
                __out.push(entry);
            }
            proof {
                if __keep {
                    idx = idx.push(__i as int);
                    assert(__out@ == old_out.push(entry));
                }
            }
        }
        __out
    }
//@ end

//@ extract src/plist.rs : impl Plist fn uninstall_cmds
//@ rewrite D3.filter_collect
    pub fn uninstall_cmds(&self) -> (r: Vec<&PlistEntry>)
        ensures r@.len() == cmds(self.vs(), 0, false, 2).len(),
            forall|j: int| 0 <= j < r@.len() ==> 0 <= cmds(self.vs(), 0, false, 2)[j] < self.view().len() && *(#[trigger] r@[j]) == self.view()[cmds(self.vs(), 0, false, 2)[j]],
    {
        let mut ignore = false;
        let mut __out : Vec<&PlistEntry> = Vec::new();
        let ghost mut idx: Seq<int> = seq![];
        proof { assert(idx + cmds(self.vs(), 0, false, 2) =~= cmds(self.vs(), 0, false, 2)); }
        for __i in 0 .. self.entries.len()
            invariant
                __out@.len() == idx.len(),
                idx + cmds(self.vs(), __i as int, ignore, 2) == cmds(self.vs(), 0, false, 2),
                forall|j: int| 0 <= j < idx.len() ==> 0 <= #[trigger] idx[j] < self.view().len(),
                forall|j: int| 0 <= j < idx.len() ==> *(#[trigger] __out@[j]) == self.view()[idx[j]],
        {
            let entry = &self.entries[__i];
            let ghost old_out = __out@;
            let ghost old_ignore = ignore;
            let __keep = match entry {
                PlistEntry::Ignore => {
                    ignore = true;
                    false
                }
                PlistEntry::File(_) => {
                    if ignore {
                        ignore = false;
                        false
                    } else {
                        true
                    }
                }
                PlistEntry::Cwd(_)
                | PlistEntry::UnExec(_)
                | PlistEntry::Mode(_)
                | PlistEntry::Owner(_)
                | PlistEntry::Group(_)
                | PlistEntry::PkgDir(_)
                | PlistEntry::DirRm(_) => true,
                _ => false,
            };
            proof {
                assert(self.vs()[__i as int] == ev(self.entries@[__i as int]));
                if __keep {
                    assert(idx.push(__i as int) + cmds(self.vs(), __i + 1, ignore, 2) =~= idx + cmds(self.vs(), __i as int, old_ignore, 2));
                }
            }
            if __keep {
                __out.push(entry);
            }
            proof {
                if __keep {
                    idx = idx.push(__i as int);
                    assert(__out@ == old_out.push(entry));
                }
            }
        }
        __out
    }
//@ end

//@ extract src/plist.rs : impl Plist fn is_preserve
//@ rewrite D7.matches_macro D3.filter_count_gt0
    pub fn is_preserve(&self) -> (r: bool)
        ensures r == (of_kind(self.vs(), 0, 8).len() > 0)
    {
        let mut __any = false;
        for __i in 0 .. self.entries.len()
            invariant
                __any ==> of_kind(self.vs(), 0, 8).len() > 0,
                !__any ==> of_kind(self.vs(), __i as int, 8) == of_kind(self.vs(), 0, 8),
        {
            let entry = &self.entries[__i];
            let __keep = {
                matches!(entry, PlistEntry::PkgOpt(PlistOption::Preserve))
            };
            proof {
                assert(self.vs()[__i as int] == ev(self.entries@[__i as int]));
                if !__any && __keep { assert(of_kind(self.vs(), __i as int, 8).len() > 0); }
            }
            if __keep {
                __any = true;
            }
        }
        __any
    }
//@ end
}

pub open spec fn pfx_bytes(p: Option<OsString>) -> Seq<u8> { match p { Some(x) => osbs(&x), None => Seq::<u8>::empty() } }
pub proof fn lemma_slash() ensures "/".spec_bytes() == seq![0x2Fu8] {
    reveal_strlit("/");
    assert("/"@ =~= seq!['/']);
    assert("/".spec_bytes() == encode_utf8("/"@));
    assert(is_ascii_chars("/"@));
    is_ascii_chars_encode_utf8("/"@);
    assert("/".spec_bytes() =~= seq![0x2Fu8]);
}

/// the line designated by a range
pub open spec fn line_of(b: Seq<u8>, r: (usize, usize)) -> Seq<u8> { b.subrange(r.0 as int, r.1 as int) }
pub proof fn lemma_ranges_valid(b: Seq<u8>, from: int)
    requires 0 <= from, b.len() <= usize::MAX
    ensures forall|k: int| 0 <= k < ranges(b, from).len() ==> from <= (#[trigger] ranges(b, from)[k]).0 <= ranges(b, from)[k].1 <= b.len()
    decreases b.len() - from
{
    if from < b.len() {
        lemma_line_end(b, from);
        let e = line_end(b, from);
        let head = if has_nonws(b, from, e) { seq![(from as usize, e as usize)] } else { seq![] };
        if e < b.len() {
            lemma_ranges_valid(b, e + 1);
            let rest = ranges(b, e + 1);
            assert(ranges(b, from) =~= head + rest);
            assert forall|k: int| 0 <= k < ranges(b, from).len() implies from <= (#[trigger] ranges(b, from)[k]).0 <= ranges(b, from)[k].1 <= b.len() by {
                if k >= head.len() { assert(ranges(b, from)[k] == rest[k - head.len()]); }
            }
        }
    }
}
/// char::is_whitespace on an ASCII byte widened to char is the C-locale isspace set
pub proof fn lemma_ws_char(c: u8)
    ensures (c < 128 && vstd::std_specs::char::is_white_space(c as char)) == ws(c)
{
}

} // verus!
fn main() {}
