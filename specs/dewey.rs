// Unit dewey: every item of /repo/src/dewey.rs that a property depends on.
//   DeweyVersion::new  == the statement's tokeniser (vtok)            C01 C17 C18
//   dewey_test/dewey_cmp == op_holds(op, cmp3(..))                     C01 C03 C06
//   order laws over cmp3                                               C03
//   DeweyMatch::new, Dewey::new, Dewey::matches                        C02 C03 C17
//@ unit dewey
//@ prop C01 C03 C06 C02 C18 : dewey_test dewey_cmp lemma_first_diff_props lemma_first_diff_unique first_diff
//@ prop C03 : law_refl law_antisym law_trichotomy law_duality law_trans law_swap_verdict
//@ prop C01 C02 C03 C06 C17 C18 : DeweyVersion::new tok dpl dec_value pow10
//@ prop C01 C02 C03 C17 : Dewey::new DeweyMatch::new lemma_get_eq lemma_ops_from
//@ prop C01 C02 C03 C17 C18 : Dewey::matches
//@ prop C03 C02 : law_two_bounds
//@ prop C17 : DeweyError::description DeweyError::fmt
#![allow(unused_imports)]
use vstd::prelude::*;
use vstd::utf8::*;
use vstd::string::*;
use std::cmp::Ordering;
use std::fmt;
use vstd::std_specs::cmp::OrdSpec;
use vstd::std_specs::iter::IteratorSpec;
verus! {

pub assume_specification<T: core::cmp::Ord> [core::cmp::min] (a: T, b: T) -> (r: T)
    ensures r == (if a.cmp_spec(&b) == Ordering::Greater { b } else { a });

//@ include lib/std_str.rs

//@ include lib/dewey_types.rs

//@ include lib/dewey_order_spec.rs
//@ include lib/dewey_tok_spec.rs
//@ include lib/dewey_match_spec.rs
//@ include lib/dewey_views.rs
//@ include lib/std_fmt.rs

/// decimal text of a usize as printed by `{}` (uninterpreted)
pub uninterp spec fn usize_text(n: usize) -> Seq<char>;
// shim D8.write_dewey_error
#[verifier::external_body]
fn shim_fmt_dewey_error(f: &mut fmt::Formatter, pos: usize, msg: &'static str) -> (r: fmt::Result)
    ensures r is Ok ==> fout(final(f)) == fout(old(f)) + "Pattern syntax error near position "@ + usize_text(pos) + ": "@ + msg@
{ write!(f, "Pattern syntax error near position {}: {}", pos, msg) }
impl DeweyError {
//@ extract src/dewey.rs : impl Error for DeweyError fn description
    fn description(&self) -> (r: &str)
        ensures r@ == self.msg@
    {
        self.msg
    }
//@ end
//@ extract src/dewey.rs : impl fmt::Display for DeweyError fn fmt
//@ rewrite D8.write_dewey_error
    fn fmt(&self, f: &mut fmt::Formatter) -> (r: fmt::Result)
        ensures r is Ok ==> fout(final(f)) == fout(old(f)) + "Pattern syntax error near position "@ + usize_text(self.pos) + ": "@ + self.msg@
    {
        write!(
            f,
            "Pattern syntax error near position {}: {}",
            self.pos, self.msg
        )
    }
//@ end
}

impl DeweyVersion {

//@ extract src/dewey.rs : impl DeweyVersion fn new
//@ rewrite D6.take_digits D6.parse_i64_string D6.starts_with_lit
    pub fn new(s: &str) -> (r: Self)
        ensures r.toks() == vtok(s@),
    {
        let ghost s_orig = s@;
        let s = s.to_ascii_lowercase();
        let s = s.as_str();
        let mut version: Vec<i64> = vec![];
        let mut pkgrevision = 0;
        let mut idx = 0;
        let ghost mut k: int = 0;
        proof {
            lemma_boff_zero(s@);
            assert(ints(version@) =~= seq![]); assert(s@.skip(0) =~= s@);
        }
        loop
            invariant
                0 <= k <= s@.len(),
                idx == boff(s@, k),
                s@ == lower_seq(s_orig),
                tok(s@.skip(k), ints(version@), pkgrevision as int) == tok(s@, seq![], 0),
            ensures
                (Tok { v: ints(version@), rev: pkgrevision as int }) == tok(s@, seq![], 0),
            decreases s@.len() - k
        {
            proof { axiom_str_len_fits(s); assert(s.spec_bytes() == encode_utf8(s@)); lemma_boundary(s@, k); lemma_boff_full(s@); lemma_boundary(s@, s@.len() as int); }
            if idx == s.len() {
                proof { lemma_boff_end(s@, k); lemma_tok_end(s@.skip(k), ints(version@), pkgrevision as int); }
                break;
            }
            let slice = &s[idx..s.len()];
            proof {
                axiom_slice_range(s, slice, idx as int, s.spec_bytes().len() as int);
                lemma_slice_view(s, slice, k);
                lemma_boff_not_end(s@, k);
                lemma_dpl(slice@);
            }
            let ghost v0 = ints(version@);
            let ghost r0 = pkgrevision as int;
            let c = slice.chars().next().unwrap();
            assert(c == s@[k]);
            let numstr: String = slice.chars().take_while(char::is_ascii_digit).collect();
            if !numstr.is_empty() {
                proof {
                    lemma_tok_digits(s@, k, v0, r0);
                    assert(is_ascii_chars(numstr@));
                    is_ascii_chars_encode_utf8(numstr@);
                    lemma_dec_value_nonneg(numstr@);
                }
                version.push(numstr.parse::<i64>().unwrap_or(i64::MAX));
                proof { assert(ints(version@) =~= v0.push(run_value(numstr@))); }
                idx += numstr.len();
                proof { k = k + numstr@.len(); }
                continue;
            }
            assert(dpl(s@.skip(k)) == 0);
            if c == '.' || c == '_' {
                version.push(0);
                proof { lemma_tok_sep(s@, k, v0, r0); assert(ints(version@) =~= v0.push(0)); }
                idx += 1;
                proof { k = k + 1; }
                continue;
            }
            proof { lemma_lits(); }
            if slice.starts_with("nb") {
                proof { lemma_tok_nb(s@, k, v0, r0); lemma_boundary(s@, k + 2); }
                idx += 2;
                let slice = &s[idx..s.len()];
                proof {
                    axiom_slice_range(s, slice, idx as int, s.spec_bytes().len() as int);
                    lemma_slice_view(s, slice, k + 2);
                    lemma_dpl(slice@);
                }
                let nbstr: String = slice.chars().take_while(char::is_ascii_digit).collect();
                proof {
                    assert(is_ascii_chars(nbstr@));
                    is_ascii_chars_encode_utf8(nbstr@);
                    lemma_dec_value_nonneg(nbstr@);
                }
                pkgrevision = nbstr.parse::<i64>().unwrap_or(0);
                idx += nbstr.len();
                proof { k = k + 2 + nbstr@.len(); }
                continue;
            }
            if slice.starts_with("alpha") {
                version.push(-3);
                proof { lemma_tok_alpha(s@, k, v0, r0); assert(ints(version@) =~= v0.push(-3)); }
                idx += 5;
                proof { k = k + 5; }
                continue;
            } else if slice.starts_with("beta") {
                version.push(-2);
                proof { lemma_tok_beta(s@, k, v0, r0); assert(ints(version@) =~= v0.push(-2)); }
                idx += 4;
                proof { k = k + 4; }
                continue;
            } else if slice.starts_with("rc") {
                version.push(-1);
                proof { lemma_tok_rc(s@, k, v0, r0); assert(ints(version@) =~= v0.push(-1)); }
                idx += 2;
                proof { k = k + 2; }
                continue;
            } else if slice.starts_with("pre") {
                version.push(-1);
                proof { lemma_tok_pre(s@, k, v0, r0); assert(ints(version@) =~= v0.push(-1)); }
                idx += 3;
                proof { k = k + 3; }
                continue;
            } else if slice.starts_with("pl") {
                version.push(0);
                proof { lemma_tok_pl(s@, k, v0, r0); assert(ints(version@) =~= v0.push(0)); }
                idx += 2;
                proof { k = k + 2; }
                continue;
            }
            if c.is_ascii_alphabetic() {
                version.push(0);
                version.push(c as i64);
                proof {
                    lemma_lower_no_upper(s_orig, k);
                    lemma_tok_letter(s@, k, v0, r0);
                    assert(ints(version@) =~= v0.push(0).push(letter_value(c)));
                }
                idx += 1;
                proof { k = k + 1; }
            } else {
                proof { lemma_lower_no_upper(s_orig, k); lemma_tok_other(s@, k, v0, r0); }
                idx += c.len_utf8();
                proof { k = k + 1; }
            }
        }
        DeweyVersion {
            version,
            pkgrevision,
        }
    }
//@ end
}

pub proof fn lemma_lower_no_upper(cs: Seq<char>, k: int)
    requires 0 <= k < cs.len()
    ensures !is_upper(lower_seq(cs)[k])
{
    let c = cs[k];
    if is_upper(c) { assert(65 <= c as u8 <= 90); }
}

//@ extract src/dewey.rs : fn dewey_test
fn dewey_test(lhs: i64, op: &DeweyOp, rhs: i64) -> (r: bool)
    ensures r == op_holds(*op, sgn(lhs as int, rhs as int))
{
    match op {
        DeweyOp::GE => lhs >= rhs,
        DeweyOp::GT => lhs > rhs,
        DeweyOp::LE => lhs <= rhs,
        DeweyOp::LT => lhs < rhs,
    }
}
//@ end


//@ extract src/dewey.rs : fn dewey_cmp
pub fn dewey_cmp(lhs: &DeweyVersion, op: &DeweyOp, rhs: &DeweyVersion) -> (r: bool)
    ensures r == op_holds(*op, vcmp(lhs, rhs))
{
    let llen = lhs.version.len();
    let rlen = rhs.version.len();
    for i in 0..std::cmp::min(llen, rlen)
        invariant llen == lhs.version@.len(), rlen == rhs.version@.len(),
            forall|j: int| 0 <= j < i ==> comp(ints(lhs.version@), j) == comp(ints(rhs.version@), j),
    {
        if lhs.version[i] != rhs.version[i] {
            proof { lemma_first_diff_unique(ints(lhs.version@), ints(rhs.version@), maxlen(ints(lhs.version@), ints(rhs.version@)), i as int); }
            return dewey_test(lhs.version[i], op, rhs.version[i]);
        }
    }
    match llen.cmp(&rlen) {
        Ordering::Less => {
            for i in llen..rlen
                invariant llen == lhs.version@.len(), rlen == rhs.version@.len(), llen < rlen,
                    forall|j: int| 0 <= j < i ==> comp(ints(lhs.version@), j) == comp(ints(rhs.version@), j),
            {
                if 0 != rhs.version[i] {
                    proof { lemma_first_diff_unique(ints(lhs.version@), ints(rhs.version@), maxlen(ints(lhs.version@), ints(rhs.version@)), i as int); }
                    return dewey_test(0, op, rhs.version[i]);
                }
            }
        }
        Ordering::Greater => {
            for i in rlen..llen
                invariant llen == lhs.version@.len(), rlen == rhs.version@.len(), llen > rlen,
                    forall|j: int| 0 <= j < i ==> comp(ints(lhs.version@), j) == comp(ints(rhs.version@), j),
            {
                if 0 != lhs.version[i] {
                    proof { lemma_first_diff_unique(ints(lhs.version@), ints(rhs.version@), maxlen(ints(lhs.version@), ints(rhs.version@)), i as int); }
                    return dewey_test(lhs.version[i], op, 0);
                }
            }
            proof { lemma_first_diff_unique(ints(lhs.version@), ints(rhs.version@), maxlen(ints(lhs.version@), ints(rhs.version@)), maxlen(ints(lhs.version@), ints(rhs.version@))); }
            return dewey_test(lhs.pkgrevision, op, rhs.pkgrevision);
        }
        Ordering::Equal => {}
    }
    proof { lemma_first_diff_unique(ints(lhs.version@), ints(rhs.version@), maxlen(ints(lhs.version@), ints(rhs.version@)), maxlen(ints(lhs.version@), ints(rhs.version@))); }
    dewey_test(lhs.pkgrevision, op, rhs.pkgrevision)
}
//@ end



impl DeweyMatch {
//@ extract src/dewey.rs : impl DeweyMatch fn new
    fn new(op: &DeweyOp, pattern: &str) -> (r: Result<DeweyMatch, DeweyError>)
        ensures r is Ok, r->Ok_0.bound() == (Bound { op: *op, t: vtok(pattern@) })
    {
        let version = DeweyVersion::new(pattern);
        Ok(DeweyMatch {
            op: op.clone(),
            version,
        })
    }
//@ end
}


/// a collected operator entry (byte offsets) represents op_at(cs, k)
pub open spec fn op_entry(cs: Seq<char>, k: int, e: (usize, usize, DeweyOp)) -> bool {
    e.0 == boff(cs, k) && e.1 == boff(cs, op_at(cs, k).end) && e.2 == op_at(cs, k).op && op_at(cs, k).end <= cs.len()
}
/// the one-byte slice after an (ASCII) operator char at k is "=" exactly when the next char is '='
pub proof fn lemma_get_eq(pattern: &str, k: int, t: &str)
    requires 0 <= k < pattern@.len(), (pattern@[k] as u32) < 128,
        boff(pattern@, k) + 2 <= pattern.spec_bytes().len(),
        t.spec_bytes() == pattern.spec_bytes().subrange(boff(pattern@, k) + 1, boff(pattern@, k) + 2),
    ensures (t@ == seq!['=']) == (k + 1 < pattern@.len() && pattern@[k + 1] == '=')
{
    let cs = pattern@;
    let bytes = pattern.spec_bytes();
    assert(bytes == encode_utf8(cs));
    assert(t.spec_bytes() == encode_utf8(t@));
    lemma_byte_at(cs, k);
    lemma_boff_full(cs);
    lemma_boundary(cs, k + 1);
    lemma_boff_not_end(cs, k + 1);
    lemma_byte_at(cs, k + 1);
    if cs[k + 1] == '=' {
        lemma_boundary(cs, k + 2);
        lemma_slice_view_range(pattern, t, k + 1, k + 2);
        assert(cs.subrange(k + 1, k + 2) =~= seq!['=']);
    }
    if t@ == seq!['='] {
        assert(is_ascii_chars(t@));
        is_ascii_chars_encode_utf8(t@);
        assert(t.spec_bytes()[0] == 0x3D);
        assert(bytes[boff(cs, k + 1)] == t.spec_bytes()[0]);
    }
}
pub proof fn lemma_lits_ops()
    ensures ">"@ == seq!['>'], "<"@ == seq!['<'], "="@ == seq!['=']
{
    reveal_strlit(">"); reveal_strlit("<"); reveal_strlit("=");
    assert(">"@ =~= seq!['>']); assert("<"@ =~= seq!['<']); assert("="@ =~= seq!['=']);
}

impl Dewey {

//@ extract src/dewey.rs : impl Dewey fn new
//@ rewrite D6.match_indices_gt_lt D6.str_get_range D13.ref_wild_pat D6.substr_to_string
    pub fn new(pattern: &str) -> (r: Result<Dewey, DeweyError>)
        ensures
            r is Ok <==> dewey_valid(pattern@),
            r is Ok ==> r->Ok_0.base() == dewey_base(pattern@) && r->Ok_0.bounds() == dewey_bounds(pattern@),
    {
        let ghost cs = pattern@;
        let ghost opk = ops_from(cs, 0);
        let ghost blen = pattern.spec_bytes().len() as int;
        proof {
            axiom_str_len_fits(pattern); lemma_ops_from(cs, 0); lemma_boff_full(cs);
            assert(pattern.spec_bytes() == encode_utf8(cs));
            lemma_lits_ops();
        }
        let mut deweyops: Vec<(usize, usize, DeweyOp)> = vec![];
        for (index, matched) in it: pattern.match_indices(&['>', '<'])
            invariant
                cs == pattern@, opk == ops_from(cs, 0), blen == pattern.spec_bytes().len(), blen <= isize::MAX,
                pattern.spec_bytes() == encode_utf8(cs),
                it.snapshot@.remaining().len() == opk.len(),
                forall|j: int| 0 <= j < opk.len() ==> (#[trigger] it.snapshot@.remaining()[j]).0 == boff(cs, opk[j])
                    && it.snapshot@.remaining()[j].1@ == seq![cs[opk[j]]],
                forall|j: int| 0 <= j < opk.len() ==> 0 <= #[trigger] opk[j] < cs.len() && is_op_char(cs[opk[j]]),
                deweyops@.len() == it.index@,
                forall|i: int| 0 <= i < deweyops@.len() ==> op_entry(cs, opk[i], #[trigger] deweyops@[i]),
        {
            let ghost j = it.index@ as int;
            let ghost k = opk[j];
            proof {
                assert(it.snapshot@.remaining()[j].0 == index);
                lemma_byte_at(cs, k);
                lemma_boundary(cs, k + 1);
                if k + 1 < cs.len() { lemma_byte_at(cs, k + 1); lemma_boundary(cs, k + 2); } else { lemma_boff_full(cs); }
                lemma_lits_ops();
            }
            proof {
                let eq = k + 1 < cs.len() && cs[k + 1] == '=';
                assert forall|t: &str| index + 2 <= blen && #[trigger] t.spec_bytes() == pattern.spec_bytes().subrange(index + 1, index + 2)
                    implies ((t@ == seq!['=']) == eq) by { lemma_get_eq(pattern, k, t); }
                assert forall|t: &str| (#[trigger] t@ == seq!['=']) == (t == "=") by { axiom_str_ext(t, "="); }
                axiom_str_ext(matched, ">"); axiom_str_ext(matched, "<");
            }
            match (matched, pattern.get(index + 1..index + 2)) {
                (">", Some("=")) => {
                    deweyops.push((index, index + 2, DeweyOp::GE))
                }
                ("<", Some("=")) => {
                    deweyops.push((index, index + 2, DeweyOp::LE))
                }
                (">", _) => deweyops.push((index, index + 1, DeweyOp::GT)),
                ("<", _) => deweyops.push((index, index + 1, DeweyOp::LT)),
                (&_, _) => todo!(),
            }
            assert(op_entry(cs, k, deweyops@[j]));
        }
        let mut matches: Vec<DeweyMatch> = vec![];
        let ghost n = opk.len() as int;
        proof {
            assert(deweyops@.len() == n);
            assert(dewey_ops(cs).len() == n);
            lemma_boundary(cs, cs.len() as int);
            lemma_boundary(cs, 0); lemma_boff_zero(cs);
            if n >= 1 {
                let o0 = op_at(cs, opk[0]);
                assert(op_entry(cs, opk[0], deweyops@[0]));
                lemma_boundary(cs, o0.pos); lemma_boundary(cs, o0.end);
                lemma_boff_mono(cs, 0, o0.pos); lemma_boff_mono(cs, o0.end, cs.len() as int);
                assert(dewey_ops(cs)[0] == o0);
            }
            if n >= 2 {
                let o0 = op_at(cs, opk[0]);
                let o1 = op_at(cs, opk[1]);
                assert(op_entry(cs, opk[1], deweyops@[1]));
                assert(opk[0] < opk[1]);
                assert(is_op_char(cs[opk[1]]));
                assert(o0.end <= o1.pos);
                lemma_boundary(cs, o1.pos); lemma_boundary(cs, o1.end);
                lemma_boff_mono(cs, o0.end, o1.pos); lemma_boff_mono(cs, o1.end, cs.len() as int);
                assert(dewey_ops(cs)[1] == o1);
            }
        }
        match deweyops.len() {
            0 => {
                return Err(DeweyError {
                    pos: 0,
                    msg: "No dewey operators found",
                })
            }
            1 => {
                let p = &pattern[deweyops[0].1..pattern.len()];
                proof {
                    axiom_slice_range(pattern, p, deweyops[0].1 as int, blen);
                    lemma_slice_view_range(pattern, p, op_at(cs, opk[0]).end, cs.len() as int);
                    assert(p@ == dewey_bound_text(cs, 0));
                }
                matches.push(DeweyMatch::new(&deweyops[0].2, p)?);
            }
            2 => {
                match (&deweyops[0].2, &deweyops[1].2) {
                    (DeweyOp::GT | DeweyOp::GE, DeweyOp::LT | DeweyOp::LE) => {}
                    _ => {
                        return Err(DeweyError {
                            pos: deweyops[0].0,
                            msg: "Unsupported operator order",
                        });
                    }
                }
                let p = &pattern[deweyops[0].1..deweyops[1].0];
                proof {
                    axiom_slice_range(pattern, p, deweyops[0].1 as int, deweyops[1].0 as int);
                    lemma_slice_view_range(pattern, p, op_at(cs, opk[0]).end, op_at(cs, opk[1]).pos);
                    assert(p@ == dewey_bound_text(cs, 0));
                }
                matches.push(DeweyMatch::new(&deweyops[0].2, p)?);
                let p = &pattern[deweyops[1].1..pattern.len()];
                proof {
                    axiom_slice_range(pattern, p, deweyops[1].1 as int, blen);
                    lemma_slice_view_range(pattern, p, op_at(cs, opk[1]).end, cs.len() as int);
                    assert(p@ == dewey_bound_text(cs, 1));
                }
                matches.push(DeweyMatch::new(&deweyops[1].2, p)?);
            }
            3.. => {
                return Err(DeweyError {
                    pos: deweyops[2].0,
                    msg: "Too many dewey operators found",
                })
            }
        }
        let pkgname = pattern[0..deweyops[0].0].to_string();
        proof {
            lemma_substr_view(pattern, pkgname@, 0, opk[0]);
            assert(pkgname@ =~= dewey_base(cs));
            assert(Seq::new(matches@.len(), |i: int| matches@[i].bound()) =~= dewey_bounds(cs));
        }
        Ok(Dewey { pkgname, matches })
    }
//@ end

//@ extract src/dewey.rs : impl Dewey fn matches
//@ rewrite D6.rsplitn2_dash D6.ne_self_field_string
    pub fn matches(&self, pkg: &str) -> (r: bool)
        ensures r == dmatch(self.base(), self.bounds(), pkg@)
    {
        proof { lemma_last_index_of(pkg@, '-'); }
        let v: Vec<&str> = pkg.rsplitn(2, '-').collect();
        if v.len() != 2 {
            return false;
        }
        if v[1] != self.pkgname {
            return false;
        }
        let pkgver = DeweyVersion::new(v[0]);
        for m in it: &self.matches
            invariant
                it.snapshot@.remaining().len() == self.matches@.len(),
                forall|i: int| 0 <= i < self.matches@.len() ==> *(#[trigger] it.snapshot@.remaining()[i]) == self.matches@[i],
                pkgver.toks() == vtok(pkg@.skip(last_index_of(pkg@, '-') + 1)),
                forall|i: int| 0 <= i < it.index@ ==> op_holds(#[trigger] self.bounds()[i].op, tcmp(pkgver.toks(), self.bounds()[i].t)),
        {
            if !dewey_cmp(&pkgver, &m.op, &m.version) {
                proof {
                    let i = it.index@ as int;
                    assert(self.bounds()[i] == m.bound());
                    assert(!op_holds(self.bounds()[i].op, tcmp(vtok(pkg@.skip(last_index_of(pkg@, '-') + 1)), self.bounds()[i].t)));
                }
                return false;
            }
            proof { assert(self.bounds()[it.index@ as int] == m.bound()); }
        }
        true
    }
//@ end
}

/// C03: a two-bound pattern matches exactly when both of its single-bound halves match
pub proof fn law_two_bounds(base: Seq<char>, b0: Bound, b1: Bound, name: Seq<char>)
    ensures dmatch(base, seq![b0, b1], name) == (dmatch(base, seq![b0], name) && dmatch(base, seq![b1], name))
{
    let j = last_index_of(name, '-');
    let v = vtok(name.skip(j + 1));
    let two = seq![b0, b1];
    if dmatch(base, two, name) {
        assert(op_holds(two[0].op, tcmp(v, two[0].t)));
        assert(op_holds(two[1].op, tcmp(v, two[1].t)));
    }
    if dmatch(base, seq![b0], name) && dmatch(base, seq![b1], name) {
        assert(op_holds(seq![b0][0].op, tcmp(v, seq![b0][0].t)));
        assert(op_holds(seq![b1][0].op, tcmp(v, seq![b1][0].t)));
    }
}

} // verus!
fn main() {}
