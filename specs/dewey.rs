// Unit dewey: every item of /repo/src/dewey.rs that a property depends on.
//   DeweyVersion::new  == the statement's tokeniser (vtok)            C01 C17 C18
//   dewey_test/dewey_cmp == op_holds(op, cmp3(..))                     C01 C03 C06
//   order laws over cmp3                                               C03
//   DeweyMatch::new, Dewey::new, Dewey::matches                        C02 C03 C17
//@ unit dewey
//@ prop C01 C03 C06 C02 : dewey_test dewey_cmp lemma_first_diff_props lemma_first_diff_unique first_diff
//@ prop C03 : law_refl law_antisym law_trichotomy law_duality law_trans law_swap_verdict
//@ prop C01 C02 C06 C17 C18 : DeweyVersion::new tok dpl dec_value pow10
#![allow(unused_imports)]
use vstd::prelude::*;
use vstd::utf8::*;
use vstd::string::*;
use std::cmp::Ordering;
use vstd::std_specs::cmp::OrdSpec;
verus! {

pub assume_specification<T: core::cmp::Ord> [core::cmp::min] (a: T, b: T) -> (r: T)
    ensures r == (if a.cmp_spec(&b) == Ordering::Greater { b } else { a });

//@ include lib/std_str.rs

//@ extract src/dewey.rs : enum DeweyOp
#[derive(Clone, Debug, Eq, Hash, PartialEq)]
pub enum DeweyOp {
    LE,
    LT,
    GE,
    GT,
}
//@ end

//@ extract src/dewey.rs : struct DeweyVersion
#[derive(Clone, Debug, Eq, Hash, PartialEq)]
pub struct DeweyVersion {
    version: Vec<i64>,
    pkgrevision: i64,
}
//@ end

//@ include lib/dewey_order_spec.rs
//@ include lib/dewey_tok_spec.rs

pub open spec fn ints(v: Seq<i64>) -> Seq<int> { v.map_values(|x: i64| x as int) }

impl DeweyVersion {
    pub closed spec fn toks(&self) -> Tok { Tok { v: ints(self.version@), rev: self.pkgrevision as int } }

//@ extract src/dewey.rs : impl DeweyVersion fn new
//@ rewrite D6.take_digits D6.parse_i64_string D6.starts_with_lit
    pub fn new(s: &str) -> (r: Self)
        ensures runs_ok(s@) ==> r.toks() == vtok(s@),
    {
        let ghost s_orig = s@;
        let s = s.to_ascii_lowercase();
        let s = s.as_str();
        let mut version: Vec<i64> = vec![];
        let mut pkgrevision = 0;
        let mut idx = 0;
        let ghost mut k: int = 0;
        proof {
            lemma_boff_zero(s@);
            assert(ints(version@) =~= seq![]); assert(s@.skip(0) =~= s@);
            lemma_runs_ok_lower(s_orig);
        }
        loop
            invariant
                0 <= k <= s@.len(),
                idx == boff(s@, k),
                s@ == lower_seq(s_orig),
                runs_ok(s@) ==> tok(s@.skip(k), ints(version@), pkgrevision as int) == tok(s@, seq![], 0),
            ensures
                runs_ok(s@) ==> (Tok { v: ints(version@), rev: pkgrevision as int }) == tok(s@, seq![], 0),
            decreases s@.len() - k
        {
            proof { axiom_str_len_fits(s); assert(s.spec_bytes() == encode_utf8(s@)); lemma_boundary(s@, k); lemma_boff_full(s@); lemma_boundary(s@, s@.len() as int); }
            if idx == s.len() {
                proof { lemma_boff_end(s@, k); lemma_tok_end(s@.skip(k), ints(version@), pkgrevision as int); }
                break;
            }
            let slice = &s[idx..s.len()];
            proof {
                axiom_slice_range(s, slice, idx as int, s.spec_bytes().len() as int);
                lemma_slice_view(s, slice, k);
                lemma_boff_not_end(s@, k);
                lemma_dpl(slice@);
            }
            let ghost v0 = ints(version@);
            let ghost r0 = pkgrevision as int;
            let c = slice.chars().next().unwrap();
            assert(c == s@[k]);
            let numstr: String = slice.chars().take_while(char::is_ascii_digit).collect();
            if !numstr.is_empty() {
                proof {
                    lemma_tok_digits(s@, k, v0, r0);
                    assert(is_ascii_chars(numstr@));
                    is_ascii_chars_encode_utf8(numstr@);
                    if runs_ok(s@) { assert(dpl(s@.skip(k)) <= 18); lemma_dec_value_bound(numstr@); }
                }
                version.push(numstr.parse::<i64>().unwrap_or(i64::MAX));
                proof { assert(runs_ok(s@) ==> ints(version@) =~= v0.push(dec_value(numstr@))); }
                idx += numstr.len();
                proof { k = k + numstr@.len(); }
                continue;
            }
            assert(dpl(s@.skip(k)) == 0);
            if c == '.' || c == '_' {
                version.push(0);
                proof { lemma_tok_sep(s@, k, v0, r0); assert(ints(version@) =~= v0.push(0)); }
                idx += 1;
                proof { k = k + 1; }
                continue;
            }
            proof { lemma_lits(); }
            if slice.starts_with("nb") {
                proof { lemma_tok_nb(s@, k, v0, r0); lemma_boundary(s@, k + 2); }
                idx += 2;
                let slice = &s[idx..s.len()];
                proof {
                    axiom_slice_range(s, slice, idx as int, s.spec_bytes().len() as int);
                    lemma_slice_view(s, slice, k + 2);
                    lemma_dpl(slice@);
                }
                let nbstr: String = slice.chars().take_while(char::is_ascii_digit).collect();
                proof {
                    assert(is_ascii_chars(nbstr@));
                    is_ascii_chars_encode_utf8(nbstr@);
                    if runs_ok(s@) && nbstr@.len() >= 1 { assert(dpl(s@.skip(k + 2)) <= 18); lemma_dec_value_bound(nbstr@); }
                }
                pkgrevision = nbstr.parse::<i64>().unwrap_or(0);
                idx += nbstr.len();
                proof { k = k + 2 + nbstr@.len(); }
                continue;
            }
            if slice.starts_with("alpha") {
                version.push(-3);
                proof { lemma_tok_alpha(s@, k, v0, r0); assert(ints(version@) =~= v0.push(-3)); }
                idx += 5;
                proof { k = k + 5; }
                continue;
            } else if slice.starts_with("beta") {
                version.push(-2);
                proof { lemma_tok_beta(s@, k, v0, r0); assert(ints(version@) =~= v0.push(-2)); }
                idx += 4;
                proof { k = k + 4; }
                continue;
            } else if slice.starts_with("rc") {
                version.push(-1);
                proof { lemma_tok_rc(s@, k, v0, r0); assert(ints(version@) =~= v0.push(-1)); }
                idx += 2;
                proof { k = k + 2; }
                continue;
            } else if slice.starts_with("pre") {
                version.push(-1);
                proof { lemma_tok_pre(s@, k, v0, r0); assert(ints(version@) =~= v0.push(-1)); }
                idx += 3;
                proof { k = k + 3; }
                continue;
            } else if slice.starts_with("pl") {
                version.push(0);
                proof { lemma_tok_pl(s@, k, v0, r0); assert(ints(version@) =~= v0.push(0)); }
                idx += 2;
                proof { k = k + 2; }
                continue;
            }
            if c.is_ascii_alphabetic() {
                version.push(0);
                version.push(c as i64);
                proof {
                    lemma_lower_no_upper(s_orig, k);
                    lemma_tok_letter(s@, k, v0, r0);
                    assert(ints(version@) =~= v0.push(0).push(letter_value(c)));
                }
                idx += 1;
                proof { k = k + 1; }
            } else {
                proof { lemma_lower_no_upper(s_orig, k); lemma_tok_other(s@, k, v0, r0); }
                idx += c.len_utf8();
                proof { k = k + 1; }
            }
        }
        DeweyVersion {
            version,
            pkgrevision,
        }
    }
//@ end
}

/// lower-casing changes neither digits nor digit runs
pub proof fn lemma_dpl_lower(cs: Seq<char>)
    ensures dpl(lower_seq(cs)) == dpl(cs)
    decreases cs.len()
{
    if cs.len() > 0 {
        assert(lower_seq(cs).skip(1) =~= lower_seq(cs.skip(1)));
        lemma_dpl_lower(cs.skip(1));
    }
}
pub proof fn lemma_runs_ok_lower(cs: Seq<char>)
    ensures runs_ok(lower_seq(cs)) == runs_ok(cs)
{
    assert forall|i: int| 0 <= i <= cs.len() implies dpl(lower_seq(cs).skip(i)) == dpl(cs.skip(i)) by {
        assert(lower_seq(cs).skip(i) =~= lower_seq(cs.skip(i)));
        lemma_dpl_lower(cs.skip(i));
    }
    if runs_ok(cs) { assert forall|i: int| 0 <= i <= lower_seq(cs).len() implies #[trigger] dpl(lower_seq(cs).skip(i)) <= 18 by { assert(dpl(cs.skip(i)) <= 18); } }
    if runs_ok(lower_seq(cs)) { assert forall|i: int| 0 <= i <= cs.len() implies #[trigger] dpl(cs.skip(i)) <= 18 by { assert(dpl(lower_seq(cs).skip(i)) <= 18); } }
}
pub proof fn lemma_lower_no_upper(cs: Seq<char>, k: int)
    requires 0 <= k < cs.len()
    ensures !is_upper(lower_seq(cs)[k])
{
    let c = cs[k];
    if is_upper(c) { assert(65 <= c as u8 <= 90); }
}

//@ extract src/dewey.rs : fn dewey_test
fn dewey_test(lhs: i64, op: &DeweyOp, rhs: i64) -> (r: bool)
    ensures r == op_holds(*op, sgn(lhs as int, rhs as int))
{
    match op {
        DeweyOp::GE => lhs >= rhs,
        DeweyOp::GT => lhs > rhs,
        DeweyOp::LE => lhs <= rhs,
        DeweyOp::LT => lhs < rhs,
    }
}
//@ end

pub closed spec fn vcmp(l: &DeweyVersion, r: &DeweyVersion) -> int {
    cmp3(l.toks().v, l.toks().rev, r.toks().v, r.toks().rev)
}

//@ extract src/dewey.rs : fn dewey_cmp
pub fn dewey_cmp(lhs: &DeweyVersion, op: &DeweyOp, rhs: &DeweyVersion) -> (r: bool)
    ensures r == op_holds(*op, vcmp(lhs, rhs))
{
    let llen = lhs.version.len();
    let rlen = rhs.version.len();
    for i in 0..std::cmp::min(llen, rlen)
        invariant llen == lhs.version@.len(), rlen == rhs.version@.len(),
            forall|j: int| 0 <= j < i ==> comp(ints(lhs.version@), j) == comp(ints(rhs.version@), j),
    {
        if lhs.version[i] != rhs.version[i] {
            proof { lemma_first_diff_unique(ints(lhs.version@), ints(rhs.version@), maxlen(ints(lhs.version@), ints(rhs.version@)), i as int); }
            return dewey_test(lhs.version[i], op, rhs.version[i]);
        }
    }
    match llen.cmp(&rlen) {
        Ordering::Less => {
            for i in llen..rlen
                invariant llen == lhs.version@.len(), rlen == rhs.version@.len(), llen < rlen,
                    forall|j: int| 0 <= j < i ==> comp(ints(lhs.version@), j) == comp(ints(rhs.version@), j),
            {
                if 0 != rhs.version[i] {
                    proof { lemma_first_diff_unique(ints(lhs.version@), ints(rhs.version@), maxlen(ints(lhs.version@), ints(rhs.version@)), i as int); }
                    return dewey_test(0, op, rhs.version[i]);
                }
            }
        }
        Ordering::Greater => {
            for i in rlen..llen
                invariant llen == lhs.version@.len(), rlen == rhs.version@.len(), llen > rlen,
                    forall|j: int| 0 <= j < i ==> comp(ints(lhs.version@), j) == comp(ints(rhs.version@), j),
            {
                if 0 != lhs.version[i] {
                    proof { lemma_first_diff_unique(ints(lhs.version@), ints(rhs.version@), maxlen(ints(lhs.version@), ints(rhs.version@)), i as int); }
                    return dewey_test(lhs.version[i], op, 0);
                }
            }
            proof { lemma_first_diff_unique(ints(lhs.version@), ints(rhs.version@), maxlen(ints(lhs.version@), ints(rhs.version@)), maxlen(ints(lhs.version@), ints(rhs.version@))); }
            return dewey_test(lhs.pkgrevision, op, rhs.pkgrevision);
        }
        Ordering::Equal => {}
    }
    proof { lemma_first_diff_unique(ints(lhs.version@), ints(rhs.version@), maxlen(ints(lhs.version@), ints(rhs.version@)), maxlen(ints(lhs.version@), ints(rhs.version@))); }
    dewey_test(lhs.pkgrevision, op, rhs.pkgrevision)
}
//@ end

} // verus!
fn main() {}
