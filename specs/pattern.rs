// Unit pattern: src/pattern.rs -- Pattern::new / matches / best_match / alternate_match /
// quick_pkg_match / is_simple_char (C04, C05, C06, C02 agreement, C17).
// Callee contracts of src/dewey.rs and src/pkgname.rs are imported from the units that prove them.
//@ unit pattern
#![allow(unused_imports)]
use vstd::prelude::*;
use vstd::utf8::*;
use vstd::string::*;
use std::cmp::Ordering;
use vstd::std_specs::cmp::OrdSpec;
use vstd::std_specs::iter::IteratorSpec;
verus! {

// D10: the glob crate as an opaque dependency with an assumed contract
pub mod glob {
    use vstd::prelude::*;
    verus!{
    #[verifier::external_body]
    pub struct Pattern { _p: () }
    #[verifier::external_body]
    pub struct PatternError { _p: () }
    impl Pattern {
        pub uninterp spec fn src(&self) -> Seq<char>;
        #[verifier::external_body]
        pub fn new(p: &str) -> (r: Result<Pattern, PatternError>)
            ensures r is Ok <==> super::glob_ok(p@), r is Ok ==> r->Ok_0.src() == p@
        { unimplemented!() }
        #[verifier::external_body]
        pub fn matches(&self, s: &str) -> (r: bool)
            ensures r == super::glob_match(self.src(), s@)
        { unimplemented!() }
    }
    }
}

//@ include lib/std_str.rs
//@ include lib/dewey_types.rs
//@ include lib/dewey_order_spec.rs
//@ include lib/dewey_tok_spec.rs
//@ include lib/dewey_match_spec.rs
//@ include lib/dewey_views.rs
//@ include lib/pkgname_views.rs
//@ include lib/pattern_spec.rs
//@ include lib/brace_expansion.rs

impl DeweyVersion {
//@ import dewey : impl DeweyVersion fn new
}
//@ import dewey : fn dewey_cmp
impl Dewey {
//@ import dewey : impl Dewey fn new
//@ import dewey : impl Dewey fn matches
}
impl PkgName {
//@ import pkgname : impl PkgName fn new
//@ import pkgname : impl PkgName fn pkgversion
//@ import pkgname : impl PkgName fn pkgbase
//@ import pkgname : impl PkgName fn pkgname
//@ import pkgname : impl PkgName fn pkgrevision
}

//@ extract src/pattern.rs : enum PatternType
#[derive(Clone, Debug, Default, Eq, Hash, PartialEq)]
enum PatternType {
    Alternate,
    Dewey,
    Glob,
    #[default]
    Simple,
}
//@ end

//@ extract src/pattern.rs : enum PatternError
//@ rewrite D12.drop_thiserror_attrs
pub enum PatternError {
    Alternate,
    Dewey(DeweyError),
    Glob(glob::PatternError),
}
//@ end
// D12: thiserror's #[from] expansions
impl vstd::std_specs::convert::FromSpecImpl<DeweyError> for PatternError {
    open spec fn obeys_from_spec() -> bool { true }
    open spec fn from_spec(e: DeweyError) -> PatternError { PatternError::Dewey(e) }
}
impl From<DeweyError> for PatternError { fn from(e: DeweyError) -> PatternError { PatternError::Dewey(e) } }
impl vstd::std_specs::convert::FromSpecImpl<glob::PatternError> for PatternError {
    open spec fn obeys_from_spec() -> bool { true }
    open spec fn from_spec(e: glob::PatternError) -> PatternError { PatternError::Glob(e) }
}
impl From<glob::PatternError> for PatternError { fn from(e: glob::PatternError) -> PatternError { PatternError::Glob(e) } }

//@ extract src/pattern.rs : struct Pattern
pub struct Pattern {
    matchtype: PatternType,
    pattern: String,
    likely: bool,
    dewey: Option<Dewey>,
    glob: Option<glob::Pattern>,
}
//@ end
// D12: derive(Default) written out
impl Default for Pattern {
    fn default() -> (r: Pattern)
        ensures r.is_default()
    { Pattern { matchtype: PatternType::Simple, pattern: String::new(), likely: false, dewey: None, glob: None } }
}

impl Pattern {
    pub closed spec fn is_default(&self) -> bool {
        self.matchtype == PatternType::Simple && self.pattern@ == Seq::<char>::empty() && !self.likely && self.dewey is None && self.glob is None
    }
    pub closed spec fn pat(&self) -> Seq<char> { self.pattern@ }
    /// representation invariant established by every constructor
    pub closed spec fn wf(&self) -> bool {
        let p = self.pattern@;
        match self.matchtype {
            PatternType::Alternate => is_brace_pat(p) && balanced(p),
            PatternType::Dewey => is_dewey_pat(p) && dewey_valid(p) && self.dewey is Some
                && self.dewey->Some_0.base() == dewey_base(p) && self.dewey->Some_0.bounds() == dewey_bounds(p),
            PatternType::Glob => is_glob_pat(p) && glob_ok(p) && self.glob is Some && self.glob->Some_0.src() == p,
            PatternType::Simple => !is_brace_pat(p) && !is_dewey_pat(p) && !is_glob_pat(p),
        }
    }

//@ extract src/pattern.rs : impl Pattern fn new
//@ rewrite D6.contains_char
    pub fn new(pattern: &str) -> (r: Result<Self, PatternError>)
        ensures
            r is Ok <==> pvalid(pattern@),
            r is Ok ==> r->Ok_0.wf() && r->Ok_0.pat() == pattern@,
    {
        if pattern.contains('{') || pattern.contains('}') {
            let matchtype = PatternType::Alternate;
            let mut stack = vec![];
            for ch in it: pattern.chars()
                invariant
                    it.snapshot@.remaining() == pattern@,
                    scan(pattern@, it.index@ as int, stack@.len() as int) == scan(pattern@, 0, 0),
            {
                if ch == '{' {
                    stack.push(ch);
                } else if ch == '}' && stack.pop().is_none() {
                    return Err(PatternError::Alternate);
                }
            }
            if !stack.is_empty() {
                return Err(PatternError::Alternate);
            }
            return Ok(Pattern {
                matchtype,
                pattern: pattern.to_string(),
                ..Default::default()
            });
        }
        if pattern.contains('>') || pattern.contains('<') {
            let matchtype = PatternType::Dewey;
            let dewey = Some(Dewey::new(pattern)?);
            return Ok(Pattern {
                matchtype,
                pattern: pattern.to_string(),
                dewey,
                ..Default::default()
            });
        }
        if pattern.contains('*')
            || pattern.contains('?')
            || pattern.contains('[')
            || pattern.contains(']')
        {
            let matchtype = PatternType::Glob;
            let glob = Some(glob::Pattern::new(pattern)?);
            return Ok(Pattern {
                matchtype,
                pattern: pattern.to_string(),
                glob,
                ..Default::default()
            });
        }
        Ok(Pattern {
            matchtype: PatternType::Simple,
            pattern: pattern.to_string(),
            ..Default::default()
        })
    }
//@ end


//@ extract src/pattern.rs : impl Pattern fn matches
//@ rewrite D6.eq_self_field_str
    pub fn matches(&self, pkg: &str) -> (r: bool)
        requires self.wf()
        ensures r == pmatch(self.pat(), pkg@)
        decreases count_c(self.pat(), '{'), 1nat
    {
        if !self.likely && !Self::quick_pkg_match(&self.pattern, pkg) {
            proof { lemma_quick_inert(self.pattern@, pkg@); }
            return false;
        }
        match self.matchtype {
            PatternType::Alternate => Self::alternate_match(&self.pattern, pkg),
            PatternType::Dewey => {
                let Some(dewey) = &self.dewey else {
                    return false;
                };
                dewey.matches(pkg)
            }
            PatternType::Glob => {
                let Some(glob) = &self.glob else {
                    return false;
                };
                glob.matches(pkg)
            }
            PatternType::Simple => self.pattern == pkg,
        }
    }
//@ end

//@ extract src/pattern.rs : impl Pattern fn best_match
//@ rewrite D6.str_lt
    pub fn best_match<'a>(
        &self,
        pkg1: &'a str,
        pkg2: &'a str,
    ) -> (r: Option<&'a str>)
        requires self.wf()
        ensures
            !pmatch(self.pat(), pkg1@) && !pmatch(self.pat(), pkg2@) ==> r is None,
            pmatch(self.pat(), pkg1@) && !pmatch(self.pat(), pkg2@) ==> r == Some(pkg1),
            !pmatch(self.pat(), pkg1@) && pmatch(self.pat(), pkg2@) ==> r == Some(pkg2),
            pmatch(self.pat(), pkg1@) && pmatch(self.pat(), pkg2@) ==> r is Some && r->Some_0@ == best(pkg1@, pkg2@)
                && (r == Some(pkg1) || r == Some(pkg2)),
    {
        match (self.matches(pkg1), self.matches(pkg2)) {
            (true, false) => Some(pkg1),
            (false, true) => Some(pkg2),
            (true, true) => {
                let d1 = DeweyVersion::new(PkgName::new(pkg1).pkgversion());
                let d2 = DeweyVersion::new(PkgName::new(pkg2).pkgversion());
                proof {
                    lemma_vcmp(&d1, &d2);
                    assert(pkg1.spec_bytes() == encode_utf8(pkg1@)); assert(pkg2.spec_bytes() == encode_utf8(pkg2@));
                }
                if dewey_cmp(&d1, &DeweyOp::GT, &d2) {
                    Some(pkg1)
                } else if dewey_cmp(&d1, &DeweyOp::LT, &d2) {
                    Some(pkg2)
                } else if pkg1 < pkg2 {
                    Some(pkg1)
                } else {
                    Some(pkg2)
                }
            }
            (false, false) => None,
        }
    }
//@ end

//@ extract src/pattern.rs : impl Pattern fn pattern
    pub fn pattern(&self) -> (r: &str)
        ensures r@ == self.pat()
    {
        &self.pattern
    }
//@ end

//@ extract src/pattern.rs : impl Pattern fn alternate_match
//@ rewrite D6.rfind_char D6.find_char D6.split_comma D6.split_terminator_comma D8.format3 D17.let_else_continue
    fn alternate_match(pattern: &str, pkg: &str) -> (r: bool)
        ensures r == amatch(pattern@, pkg@)
        decreases count_c(pattern@, '{'), 0nat
    {
        let ghost p = pattern@;
        proof { axiom_str_len_fits(pattern); lemma_last_index_of(p, '{'); assert(pattern.spec_bytes() == encode_utf8(p)); }
        let Some(i) = pattern.rfind('{') else {
            return false;
        };
        let ghost ci = last_index_of(p, '{');
        proof { lemma_boundary(p, ci); }
        let (first, rest) = pattern.split_at(i);
        proof {
            lemma_split_views(pattern, first, rest, ci);
            lemma_first_index_of(rest@, '}');
            axiom_str_len_fits(rest);
            assert(rest.spec_bytes() == encode_utf8(rest@));
        }
        let Some(n) = rest.find('}') else {
            return false;
        };
        let ghost cn = first_index_of(rest@, '}');
        proof { lemma_byte_at(rest@, cn); lemma_boundary(rest@, cn + 1); lemma_boundary(rest@, cn); }
        let (matches, last) = rest.split_at(n + 1);
        proof {
            lemma_split_views(rest, matches, last, cn + 1);
            axiom_str_len_fits(matches);
            assert(matches.spec_bytes() == encode_utf8(matches@));
            assert(matches@ =~= rest@.take(cn + 1));
            assert(matches@[0] == '{' && matches@[cn] == '}');
            lemma_byte_at(matches@, 0); lemma_boff_zero(matches@);
            lemma_byte_at(matches@, cn); lemma_boff_full(matches@);
            lemma_boundary(matches@, 1); lemma_boundary(matches@, cn);
        }
        let ghost whole = matches;
        let matches = &matches[1..matches.len() - 1];
        proof {
            axiom_slice_range(whole, matches, 1, whole.spec_bytes().len() - 1);
            lemma_slice_view_range(whole, matches, 1, cn);
            assert(matches@ =~= rm_rest(p).subrange(1, rm_close(p)));
            assert(first@ == rm_first(p) && last@ == rm_last(p));
        }

        for m in it: matches.split(',')
            invariant
                p == pattern@, first@ == rm_first(p), last@ == rm_last(p),
                last_index_of(p, '{') >= 0, rm_close(p) >= 0,
                it.snapshot@.remaining().len() == rm_alts(p).len(),
                forall|a: int| 0 <= a < rm_alts(p).len() ==> (#[trigger] it.snapshot@.remaining()[a])@ == rm_alts(p)[a],
                forall|a: int| 0 <= a < it.index@ ==> !(count_c(#[trigger] rm_expand(p, a), '{') < count_c(p, '{') && pmatch(rm_expand(p, a), pkg@)),
        {
            let ghost a = it.index@ as int;
            let fmt = format!("{}{}{}", first, m, last);
            proof { assert(fmt@ == rm_expand(p, a)); lemma_expand_fewer(p, a); }
            if let Ok(pat) = Pattern::new(&fmt) {
                if pat.matches(pkg) {
                    proof { assert(count_c(rm_expand(p, a), '{') < count_c(p, '{') && pmatch(rm_expand(p, a), pkg@)); }
                    return true;
                }
            }
            proof { lemma_pmatch_needs_valid(fmt@, pkg@); }
        }
        proof {
            assert forall|a: int| 0 <= a < rm_alts(p).len() implies !(count_c(#[trigger] rm_expand(p, a), '{') < count_c(p, '{') && pmatch(rm_expand(p, a), pkg@)) by {}
        }
        false
    }
//@ end

//@ extract src/pattern.rs : impl Pattern fn is_simple_char
    fn is_simple_char(c: char) -> (r: bool)
        ensures r == is_simple(c)
    {
        c.is_ascii_alphanumeric() || c == '-'
    }
//@ end

//@ extract src/pattern.rs : impl Pattern fn quick_pkg_match
    fn quick_pkg_match(pattern: &str, pkg: &str) -> (r: bool)
        ensures r == quick(pattern@, pkg@)
    {
        let mut p1 = pattern.chars();
        let mut p2 = pkg.chars();
        let mut p;

        p = p1.next();
        if p.is_none() || !Self::is_simple_char(p.unwrap()) {
            return true;
        }
        if p != p2.next() {
            return false;
        }

        p = p1.next();
        if p.is_none() || !Self::is_simple_char(p.unwrap()) {
            return true;
        }
        if p != p2.next() {
            return false;
        }
        true
    }
//@ end
}

/// split_at(i) at the byte offset of char k gives the char prefix / suffix
pub proof fn lemma_split_views(s: &str, a: &str, b: &str, k: int)
    requires 0 <= k <= s@.len(),
        a.spec_bytes() == s.spec_bytes().subrange(0, boff(s@, k)),
        b.spec_bytes() == s.spec_bytes().subrange(boff(s@, k), s.spec_bytes().len() as int),
    ensures a@ == s@.take(k), b@ == s@.skip(k)
{
    lemma_boff_zero(s@);
    lemma_slice_view_range(s, a, 0, k);
    assert(s@.subrange(0, k) =~= s@.take(k));
    lemma_slice_view(s, b, k);
}
/// C02: for brace-free comparison patterns the general matcher's verdict is the standalone Dewey matcher's
/// (Pattern::matches ensures pmatch; Dewey::new / Dewey::matches ensure dewey_valid / dmatch)
pub proof fn lemma_dewey_agrees(p: Seq<char>, name: Seq<char>)
    requires !is_brace_pat(p), p.contains('>') || p.contains('<')
    ensures pmatch(p, name) == dewey_pattern_matches(p, name), pvalid(p) == dewey_valid(p)
{
}
/// a pattern that does not compile matches nothing
pub proof fn lemma_pmatch_needs_valid(p: Seq<char>, name: Seq<char>)
    ensures pmatch(p, name) ==> pvalid(p)
{
}
pub proof fn lemma_count_concat(x: Seq<char>, y: Seq<char>, c: char)
    ensures count_c(x + y, c) == count_c(x, c) + count_c(y, c)
    decreases y.len()
{
    if y.len() == 0 { assert(x + y =~= x); }
    else {
        assert((x + y).drop_last() =~= x + y.drop_last());
        assert((x + y).last() == y.last());
        lemma_count_concat(x, y.drop_last(), c);
    }
}
pub proof fn lemma_count_zero(s: Seq<char>, c: char)
    requires forall|i: int| 0 <= i < s.len() ==> s[i] != c
    ensures count_c(s, c) == 0
    decreases s.len()
{
    if s.len() > 0 { lemma_count_zero(s.drop_last(), c); }
}
pub proof fn lemma_split_pieces(cs: Seq<char>, c: char, a: int)
    requires forall|i: int| 0 <= i < cs.len() ==> cs[i] != c, 0 <= a < split_commas(cs).len()
    ensures forall|j: int| 0 <= j < split_commas(cs)[a].len() ==> split_commas(cs)[a][j] != c
    decreases cs.len()
{
    let i = first_index_of(cs, ',');
    lemma_first_index_of(cs, ',');
    if i < 0 || i >= cs.len() {
    } else if a == 0 {
        assert(split_commas(cs)[0] == cs.take(i));
    } else {
        let t = cs.skip(i + 1);
        assert(split_commas(cs)[a] == split_commas(t)[a - 1]);
        assert forall|k: int| 0 <= k < t.len() implies t[k] != c by { assert(t[k] == cs[k + i + 1]); }
        lemma_split_pieces(t, c, a - 1);
    }
}
/// substituting an alternative of the right-most group removes one '{'
pub proof fn lemma_expand_fewer(p: Seq<char>, a: int)
    requires last_index_of(p, '{') >= 0, rm_close(p) >= 0, 0 <= a < rm_alts(p).len()
    ensures count_c(rm_expand(p, a), '{') < count_c(p, '{')
{
    let i = last_index_of(p, '{');
    lemma_last_index_of(p, '{');
    let first = rm_first(p); let rest = rm_rest(p);
    let n = rm_close(p);
    lemma_first_index_of(rest, '}');
    let content = rest.subrange(1, n);
    let last = rm_last(p);
    let alt = rm_alts(p)[a];
    assert(p =~= first + rest);
    assert(rest[0] == '{');
    let tail = rest.skip(1);
    assert(rest =~= seq!['{'] + tail);
    assert forall|k: int| 0 <= k < tail.len() implies tail[k] != '{' by { assert(tail[k] == p[i + 1 + k]); }
    lemma_count_zero(tail, '{');
    lemma_count_concat(seq!['{'], tail, '{');
    assert(count_c(seq!['{'], '{') == 1) by { reveal_with_fuel(count_c, 2); assert(seq!['{'].drop_last() =~= Seq::<char>::empty()); }
    lemma_count_concat(first, rest, '{');
    assert forall|k: int| 0 <= k < content.len() implies content[k] != '{' by { assert(content[k] == tail[k]); }
    lemma_split_pieces(content, '{', a);
    lemma_count_zero(alt, '{');
    assert forall|k: int| 0 <= k < last.len() implies last[k] != '{' by { assert(last[k] == tail[n + k]); }
    lemma_count_zero(last, '{');
    lemma_count_concat(first, alt, '{');
    lemma_count_concat(first + alt, last, '{');
}
/// C05: the first-two-characters fast reject never changes an answer
pub proof fn lemma_quick_inert(p: Seq<char>, n: Seq<char>)
    ensures !quick(p, n) ==> !pmatch(p, n)
    decreases count_c(p, '{')
{
    if !quick(p, n) && pmatch(p, n) {
        assert(p.len() >= 1 && is_simple(p[0]));
        let at0 = n.len() == 0 || n[0] != p[0];
        if is_brace_pat(p) {
            let a = choose|a: int| 0 <= a < rm_alts(p).len() && count_c(#[trigger] rm_expand(p, a), '{') < count_c(p, '{') && pmatch(rm_expand(p, a), n);
            let e = rm_expand(p, a);
            let i = last_index_of(p, '{');
            lemma_last_index_of(p, '{');
            assert(i >= 1);
            assert(e[0] == p[0]) by { assert(rm_first(p)[0] == p[0]); }
            if !at0 {
                assert(i >= 2);
                assert(e[1] == p[1]) by { assert(rm_first(p)[1] == p[1]); }
            }
            assert(!quick(e, n));
            lemma_quick_inert(e, n);
        } else if is_dewey_pat(p) {
            lemma_ops_from(p, 0);
            let pos0 = ops_from(p, 0)[0];
            assert(dewey_ops(p)[0].pos == pos0);
            assert(is_op_char(p[pos0]));
            let j = last_index_of(n, '-');
            lemma_last_index_of(n, '-');
            assert(0 <= pos0 < p.len());
            assert(n.take(j) == p.take(pos0));
            assert(n.take(j).len() == j && p.take(pos0).len() == pos0);
            assert(pos0 >= 1);
            assert(n.take(j)[0] == n[0] && p.take(pos0)[0] == p[0]);
            if !at0 {
                assert(pos0 >= 2);
                assert(n.take(j)[1] == n[1] && p.take(pos0)[1] == p[1]);
            }
        } else if is_glob_pat(p) {
            axiom_glob_literal_prefix(p, n);
        }
    }
}

} // verus!
fn main() {}
